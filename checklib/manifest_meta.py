"""Texts for MANIFEST.json."""
HOOK_COMMITS = ["3a899bd", "d84b5a0", "f4cc99e", "d898578", "f3c8c25", "2b46f93", "06165f2"]

NOTES = ("All checks: ./check <id> --tier quick|thorough. Technique family: machine-checked proof in Lean 4 over executable models, "
         "tied to the source by a per-run correspondence (see DESIGN.md). Properties listed under not_applicable are not yet "
         "claimed by a registered check at this commit; DESIGN.md section 4 describes how each is to be decided.")

_PENDING = "no registered check yet at this commit (model and correspondence under construction; see DESIGN.md section 4)"
NOT_APPLICABLE = {f"C{i:02d}": _PENDING for i in range(1, 21)}

META = {
    "C05": {
        "text": ("Lean refinement proof over the snapshot algebra (segments with obsoleted numbers; introduction = obsolete + drop empty "
                 "+ append; merge = replace segments by one holding their live documents): for every history, lookups after any "
                 "sequence of introductions and merges equal the last-write-wins replay of the batches, the invariant holds, and two "
                 "runs with the same batches and any different merges answer identically (layout independence); inserting a merge "
                 "anywhere changes nothing. Every real root swap is replayed on the model (hook), and seven physical layouts of the "
                 "same history are compared bit for bit on random requests."),
        "design_ref": "DESIGN.md section 4, C05",
        "note": ("trusted: Lean kernel, Go harness, the verif hook dump, zapx merge/persist. Scoring is compared, not modelled. Two "
                 "score deviations of the unchanged tree are known findings."),
        "technique": "Lean 4 refinement proof (snapshot algebra) + per-step replay of real introducer transitions + metamorphic layout comparison",
    },
    "C20": {
        "text": ("The statement is a Lean function (eval nested q doc: same-element evaluation for conjunctions whose leaves all "
                 "address one nested array, per-parent combination otherwise, per-clause existential without nesting). Theorems for "
                 "every document and query: hits are parents each at most once; a nested same-array conjunction matches iff one "
                 "element satisfies all conjuncts; a nested match of a leaf conjunction implies the un-nested match. Real searches on "
                 "scorch under both mappings after separate update/delete batches, DocCount and match-all are compared with the "
                 "specification on every run. Two clauses deviate on the unchanged tree and are listed as known findings."),
        "design_ref": "DESIGN.md section 4, C20",
        "note": ("trusted: Lean kernel, Go harness, zapx nested-document support. The nested conjunction searcher and the collector's "
                 "nested fold are not modelled operationally; their behaviour is compared with the specification."),
        "technique": "Lean 4 executable specification + theorems; I/O-equality correspondence of nested searches on scorch",
    },
    "C18": {
        "text": ("PARTIAL. Proved in Lean for all coordinates: interleaving two 32-bit coordinates and de-interleaving (even bits, and "
                 "odd bits after a shift) is the identity, the encoding is injective, Morton cells nest and a cell is the pair of "
                 "coordinate prefixes (so a point's indexed prefix terms are exactly the cells containing it). The bit recursion is "
                 "compared with numeric.Interleave/Deinterleave on every run. The floating-point geometry (scaling, haversine with "
                 "latitude-dependent diameter, rectangle construction across date line and poles, polygon containment, s2) is "
                 "compared end to end with an independent float oracle using margins, with and without the s2 plugin."),
        "design_ref": "DESIGN.md section 4, C18",
        "note": ("trusted: Lean kernel, Go harness incl. its float oracle. Floating-point behaviour is outside what the Lean model can "
                 "exhibit; that part of the check is differential exploration and is labelled so."),
        "technique": "Lean 4 proof for the integer Morton layer + differential exploration of float geometry against an oracle with margins",
    },
    "C19": {
        "text": ("PARTIAL. Proved in Lean for every input: the character-class tokenizer (base of the letter and whitespace tokenizers) "
                 "emits tokens with 0 <= Start < End <= len(input), non-overlapping in increasing order, positions exactly 1..n (loop "
                 "invariant by induction over the rune sequence; the model is compared with the real tokenizers on every run). The "
                 "rest of the property - no panic / termination of all ~110 registered components on arbitrary bytes, tokenizer "
                 "invariants of the third-party tokenizers, highlighter clauses - is explored registry-wide under recover and a time "
                 "limit, including the fragmenter with arbitrary term locations and end-to-end highlighting with length-changing "
                 "analyzers."),
        "design_ref": "DESIGN.md section 4, C19",
        "note": ("trusted: Lean kernel, Go harness. No executable Lean model of this size can carry the registry of third-party analysis "
                 "components; for them the check is exploration (fuzzing), and is labelled so."),
        "technique": "Lean 4 proof for bleve's own tokenizer (loop invariant) + registry-wide exploration under recover for the rest",
    },
    "C17": {
        "text": ("Lean theorem, decided by the kernel on tables regenerated from /repo on every run: for every query type of the family "
                 "and every subset of its optional JSON keys that a valid query can emit (struct tags), the ordered decision list of "
                 "ParseQuery (translated to a Lean function by the extractor) selects that type or its documented equivalent. The "
                 "semantic half - equal results after the JSON round trip of queries and search requests, query-string parsing vs "
                 "directly constructed queries, no panic on arbitrary bytes, independence from lexer-pool history - is a differential "
                 "correspondence against the real code on both engines."),
        "design_ref": "DESIGN.md section 4, C17",
        "note": ("trusted: Lean kernel, the extractor, encoding/json, Go harness. The query-string lexer/grammar is not modelled in Lean "
                 "(DESIGN.md planned a Lean lexer+parser; not built): that half of the property is decided by correspondence only."),
        "technique": "Lean 4 decide over generated dispatch/tag tables (translator) + differential correspondence",
    },
    "C16": {
        "text": ("Lean theorem for every codec table passing the decidable check TableOK and every record: decoding the encoding "
                 "returns every field, and re-encoding is a fixpoint. The tables of FieldMapping, DocumentMapping and "
                 "IndexMappingImpl (struct tags with omitempty, the case arms of the hand-written UnmarshalJSON, decoder presets) "
                 "are regenerated from /repo by a go/ast extractor on every run and TableOK is decided on them by the kernel. "
                 "Random mapping trees are additionally round-tripped through the real code: validation, JSON fixpoint, MapDocument "
                 "equality incl. analysed terms, also through create/close/Open."),
        "design_ref": "DESIGN.md section 4, C16",
        "note": ("trusted: Lean kernel, the extractor (a wrong extraction would disagree with the differential runs), encoding/json, "
                 "Go harness. Values are abstract in the model (0 = empty); nested levels are each an instance of the same table theorem."),
        "technique": "Lean 4 proof over generated codec tables (translator) + differential round-trip correspondence",
    },
    "C13": {
        "text": ("Lean theorems over the persisted epoch list (newest first, each epoch with the content it recorded): Rollback to a "
                 "listed epoch followed by Open loads exactly the content recorded with that epoch, nothing newer survives, nothing "
                 "is invented, an unknown epoch is refused; the rollback points are the persisted epochs and start with what Open "
                 "would load; the purger never removes a protected or non-eligible epoch; the retention functions protect at most "
                 "numSnapshotsToKeep snapshots and always the latest. The retention functions are compared with the Go code through "
                 "a verif export and the whole procedure end to end on real on-disk indexes (every offered point)."),
        "design_ref": "DESIGN.md section 4, C13",
        "note": ("trusted: Lean kernel, Go harness, bbolt, zapx. That each persisted epoch records the index content of its moment is the "
                 "durable-state invariant (C03); in this model it is the content attached to the epoch, and it is what the end-to-end "
                 "runs check against the replay."),
        "technique": "Lean 4 proof over persisted-epoch model + I/O-equality on retention functions + end-to-end rollback differential",
    },
    "C03": {
        "text": ("Lean model of the durable state (snapshots recorded in root.bolt with the files they name, files complete on disk, "
                 "highest acknowledged epoch) and of the steps that change it (file written, bolt commit, acknowledgement, snapshot "
                 "purge, file removal) with the protocol's side condition for each. Theorems for every trace and every crash "
                 "instant: the invariant (named files exist complete, epochs strictly descend, every acknowledged batch is covered "
                 "by the newest committed snapshot) is preserved by every step whose side condition holds and by a crash that "
                 "destroys any unreferenced file; under it Open loads the newest committed snapshot, which covers everything "
                 "acknowledged (crash_safe). Counter-examples show each side condition is needed. The real persister, purger and "
                 "merger report their durable steps through verif hooks and each is checked against the side condition in Lean; a "
                 "kill harness (named crash points, random instants, clean close; unreferenced files garbled) reopens the index and "
                 "the Lean monitor of C04 judges the recovered contents: whole batches, everything acknowledged, never older."),
        "design_ref": "DESIGN.md section 4, C03",
        "note": ("partial: fsync/rename/bbolt atomicity are assumptions; the kill runs validate the model against the runtime. trusted: "
                 "Lean kernel, Go harness, SIGKILL as crash model."),
        "technique": "Lean 4 proof (durable-state invariant, crash_safe) + step monitoring of hooked durable events in Lean + kill/reopen differential judged by the Lean history monitor",
    },
    "C14": {
        "text": ("Lean theorems over the file-retention model: the directory CopyTo writes for a captured snapshot (one root.bolt "
                 "record naming the copied files) satisfies the durable invariant and Open loads exactly that snapshot "
                 "(copy_opens); from the moment a copy is scheduled until it ends, no legal step of persister, merger or purger "
                 "removes a file it needs, for every trace (copy_protected); the captured snapshot is a root of the snapshot "
                 "algebra, i.e. the replay of a prefix of the batches and never part of one (Props/Snapshot). Copies taken while "
                 "the real index is written, merged and purged are opened and judged in Lean by the history monitor; their "
                 "directory is compared with copyOf; the source keeps being observed."),
        "design_ref": "DESIGN.md section 4, C14",
        "note": ("partial: that CopyReader captures the root and schedules its files under one lock is exercised by the concurrent "
                 "runs. trusted: Lean kernel, Go harness, bbolt."),
        "technique": "Lean 4 proof (copy_opens, copy_protected over the retention model) + online-copy differential judged by the Lean history monitor",
    },
    "C11": {
        "text": ("Lean model of the index lifecycle (read lock + open flag for calls, write lock for Close). Theorems for every "
                 "interleaving: Close is granted only when no call is inside; afterwards every call is answered with the "
                 "closed-index error and nothing gets inside; before it every call proceeds; a second Close is answered with the "
                 "closed-index error. The monitor `verdict` carries the observable consequences to real histories. The check runs "
                 "a race-detector build: many goroutines over all four engines with Close from two goroutines at a random moment, "
                 "cancelled searches, goroutine count after Close; every call's sequence numbers and result are judged in Lean."),
        "design_ref": "DESIGN.md section 4, C11",
        "note": ("partial: data races, panics, deadlocks, leaks and promptness are properties of the Go runtime's executions; they are "
                 "exercised (race detector, timeouts, goroutine counts), not proved. trusted: Lean kernel, Go race detector, harness."),
        "technique": "Lean 4 proof of the lifecycle protocol + race-detector stress whose call histories are judged by the Lean monitor",
    },
    "C12": {
        "text": ("Lean model of file retention over the durable-state model of C03: root.bolt snapshots with the files they name, "
                 "files on disk, files used by open readers. Theorems for every trace of steps whose side conditions hold: every "
                 "needed file (named by a committed snapshot or used by an open reader) exists, so Open at that moment loads the "
                 "newest snapshot (always_openable); the purger's fixpoint keeps exactly the needed files (purgeAll_exact) and "
                 "removes nothing needed (purgeAll_inv). The real persister, merger and purger report their steps through verif "
                 "hooks, the harness reports the readers it opens and closes with the files they use, and each step is checked "
                 "against the side conditions in Lean; the quiescent directory listing and root.bolt epochs are compared with "
                 "the model's; descriptors are counted after Close."),
        "design_ref": "DESIGN.md section 4, C12",
        "note": ("known finding: scorch removes segment files that an open reader still uses once no committed snapshot names them "
                 "(the mapping stays valid on POSIX, the path is gone). trusted: Lean kernel, Go harness, file-system observations."),
        "technique": "Lean 4 proof (retention invariant, purge fixpoint) + step monitoring of hooked durable events and reader lifetimes in Lean + directory/descriptor differential",
    },
    "C04": {
        "text": ("Two proved parts. (1) Snapshot algebra (Props/Snapshot.lean): every root the introducer can produce is the replay of "
                 "a prefix of the introduced batches; one introduction changes all documents of a batch in one step; merges and "
                 "persists change no lookup - so a reader, which captures one root, sees whole batches. (2) The observation monitor "
                 "History.check is proved to be exactly the specification Consistent (there is a prefix vector of the writers' "
                 "batches that explains every document, internal value and the count, covering what was acknowledged and what the "
                 "client saw before); corollaries: whole batches, monotone reads, acknowledged batches visible. The check records "
                 "observations through real readers and searches under concurrent writers, persister and merger on scorch and "
                 "upsidedown, evaluates the monitor in Lean on each, and requires a long-lived reader's digest never to change."),
        "design_ref": "DESIGN.md section 4, C04",
        "note": ("partial: the theorems are about the snapshot algebra and the monitor; that the Go runtime delivers the modelled "
                 "atomicity (root swap under the lock, reader capturing one root) is exercised by the concurrent runs. trusted: Lean "
                 "kernel, Go harness, Go scheduler for interleavings."),
        "technique": "Lean 4 proof (snapshot refinement + monitor = specification) + Lean-evaluated monitor over concurrent reader/search observations",
    },
    "C01": {
        "text": ("The last-write-wins replay is a Lean function; theorems for every history: Document(id) is what the last operation on "
                 "id says, splitting the history into batches in any way gives the same state, empty batches change nothing, the live "
                 "ids are distinct and DocCount is their number, Document answers exactly for the live ids. Every engine configuration "
                 "(scorch disk/memory/zap v11-v17 with merges and reopen; upsidedown over four KV stores) is compared with the replay "
                 "on DocCount, Document, match-all, doc-id search and GetInternal after the batches of seeded histories."),
        "design_ref": "DESIGN.md section 4, C01",
        "note": ("trusted: Lean kernel, Go harness, segment formats and KV engines. The scorch introducer / upsidedown row algebra are "
                 "not yet modelled operationally in Lean (DESIGN.md lists the planned refinement); the tie is I/O equality on observables."),
        "technique": "Lean 4 executable replay + theorems; I/O-equality correspondence over 13 engine configurations",
    },
    "C02": {
        "text": ("The documented meaning of the whole query family is a Lean function (`Query.eval`, structural recursion); theorems: "
                 "the answer set is exact and duplicate free, Total is its size, and the algebraic identities behind every "
                 "searcher-construction shortcut (single-clause conjunction/disjunction, match-none clauses, min 0 = 1, boolean with "
                 "only must / only should / only must-not / only filter / nothing, optional should beside must, must-not always "
                 "excludes, filter always restricts) hold for every corpus and sub-query. The real search (both engines; score "
                 "default, score none, locations+explain) is compared with `eval` on random corpora and query trees on every run."),
        "design_ref": "DESIGN.md section 4, C02",
        "note": ("trusted: Lean kernel, Go harness incl. its small oracles for wildcard/regexp/fuzzy acceptance over the vocabulary, the "
                 "'simple' analyzer, zapx/vellum/roaring. The boolean, conjunction and slice-disjunction searcher state machines are "
                 "modelled in Lean and proved to enumerate exactly this meaning (Props/BoolSearcher, ConjSearcher, DisjSearcher, "
                 "BoolLink; see C08); for the leaf, phrase and heap-disjunction searchers and the bitmap optimizations "
                 "soundness/completeness is established by the correspondence, not by a refinement proof. Known finding: scorch "
                 "counts a transposition as one edit in fuzzy queries (documentation and upsidedown: two)."),
        "technique": "Lean 4 executable specification + theorems on it (incl. refinement of the composite searcher machines) + I/O-equality correspondence of hit sets with the real search on both engines, in memory and on disk with merged segments",
    },
    "C08": {
        "text": ("The searcher contract is a Lean function over the ascending list of matching ids; theorems for every ascending list "
                 "and every finite program of Next / Advance calls: each answer is a match, Advance returns the first match >= target "
                 "and skips only smaller ones, a 'no more' answer means no match >= target existed, the answers are strictly ascending "
                 "and a sublist of the Next-only enumeration. The searchers built by random query trees on multi-segment indexes with "
                 "deletions (both engines, three option settings) are driven by random forward programs and compared with the contract "
                 "evaluated on the Lean denotation of the query on every run. Operational Lean models of the boolean, conjunction "
                 "and slice-disjunction searchers (the Go state machines over clause searchers known only through the contract) "
                 "are proved to refine the contract machine over their denotation for every program and every out-of-contract "
                 "behaviour of the clauses (run_refines, *_searcher_correct), and that denotation is proved to be the documented "
                 "meaning of the query (den_bool, den_conj, den_disj); the driver runs them beside the contract on every program."),
        "design_ref": "DESIGN.md section 0.2 and section 4, C08",
        "note": ("trusted: Lean kernel, Go harness, zapx posting iterators. The heap disjunction (more than ten clauses), phrase and leaf "
                 "searchers and the bitmap optimizations have no operational model; they are checked by correspondence."),
        "technique": "Lean 4 proof (contract theorems + refinement proofs of the boolean / conjunction / disjunction searcher machines) + I/O-equality correspondence on Next/Advance programs over real searcher trees",
    },
    "C09": {
        "text": ("Lean theorems for every sort specification, every partition into any number of shards (empty ones included), every "
                 "size and offset: the first k of the concatenated per-shard first-k lists are the first k of all documents "
                 "(topk_of_union, by a structural lemma on ordered insertion), hence the alias page equals the single-index page; "
                 "Total is additive; nested (binary) alias trees answer like a single index. The model of MultiSearch and of the facet "
                 "merge is compared with the real merge of the members' real answers, and alias results with single-index results, on "
                 "every run."),
        "design_ref": "DESIGN.md section 4, C09",
        "note": ("trusted: Lean kernel, Go harness. The hit number stands for document identity (never decides under a total sort). "
                 "Facet merge equality with the single-index facet is checked by correspondence, not yet proved. Search-after/before "
                 "through an alias are covered by the differential runs."),
        "technique": "Lean 4 proof (top-k of union) + differential correspondence alias vs single index vs model of MultiSearch",
    },
    "C10": {
        "text": ("Lean theorems for every facet request and every list of matching documents: a term's counter is the number of "
                 "matching documents containing it (documents list each term once), Total counts every visited term, Missing the "
                 "documents without an accepted term; reported buckets are in count-descending then name-ascending order (a strict "
                 "total order on distinct names); listed + Other = Total; when the size covers all buckets every counter is "
                 "reported. Size, From and Sort are not inputs of the model; that the real collector feeds every match to the "
                 "builders is checked by the correspondence (Index.Search on both engines with random page/sort settings)."),
        "design_ref": "DESIGN.md section 4, C10",
        "note": ("trusted: Lean kernel, Go harness, Go regexp, engines' doc-value visiting. Numeric/date range builders are "
                 "executable models compared with the code; their per-range count theorem is not yet stated."),
        "technique": "Lean 4 proof over executable facet-builder model + I/O-equality correspondence on SearchResult.Facets",
    },
    "C15": {
        "text": ("Lean theorems about the ordered-map model the adapters are compared with: get/put/delete laws (last write wins, "
                 "other keys untouched), every batch (merges against pre-batch values, then sets/deletes in call order) keeps the "
                 "key order strict, the engine seek returns exactly the entries >= key in order; bytewise order is a strict total "
                 "order. The adapters' iterator logic (start/prefix clamping, validity) is an executable model compared, together "
                 "with batches, snapshot readers, get and multi-get, against all five real stores on every run."),
        "design_ref": "DESIGN.md section 4, C15",
        "note": ("trusted: Lean kernel, Go harness, the engines (bbolt, goleveldb, gtreap, moss). The refinement of the operational "
                 "iterator to the extensional enumeration is not yet proved (correspondence only). Two engine-level moss behaviours are "
                 "known findings (KNOWN_FINDINGS.txt)."),
        "technique": "Lean 4 proof over an ordered-map model + I/O-equality correspondence against five KV stores",
    },
    "C06": {
        "text": ("Lean theorems for every sort specification, stream, size and skip: SortOrder.Compare is a strict total order on "
                 "matches with distinct hit numbers; the collector (bounded store with back-scan insertion, eviction of the last, "
                 "lowestMatchOutsideResults shortcut, Final(skip)) returns exactly positions skip..skip+size of the unique sorted "
                 "permutation of the matches; Total = number of matches; MaxScore is the maximum for non-negative scores; pages "
                 "tile; under a total sort search-after returns exactly the following page. Model tied to the real TopNCollector "
                 "by I/O equality on seeded streams on every run."),
        "design_ref": "DESIGN.md section 4, C06",
        "note": ("trusted: Lean kernel, Go harness; container/heap (heap store modelled as the same sorted store); float scores "
                 "modelled by integers (order-isomorphic for non-NaN). SearchBefore is covered by the correspondence only."),
        "technique": "Lean 4 proof (invariant by induction over the match stream) + I/O-equality correspondence with TopNCollector",
    },
    "C07": {
        "text": ("Lean theorems for all 64-bit patterns / all int64 bounds: float<->sortable-int round trip, order preservation "
                 "(IEEE total order <-> signed order; Go's < implies term order), bytewise order of prefix-coded terms = numeric "
                 "order at every shift, the range split covers exactly [min,max] (every level, no bound), range/date query matches "
                 "iff the value is inside the interval for all inclusive-flag combinations. Model tied to the Go code by I/O "
                 "equality on ~54k seeded cases per quick run incl. the exported splitter, the enumeration walk length and "
                 "end-to-end queries on both engines."),
        "design_ref": "DESIGN.md section 4, C07",
        "note": ("trusted: Lean kernel (propext, Classical.choice, Quot.sound), the Go harness and comparison script, zapx/vellum "
                 "term dictionaries. Modelled rather than verified: the Go functions themselves (hand-written model, checked by "
                 "correspondence); splitInt64Range is modelled by its arithmetic reading on block indices."),
        "technique": "Lean 4 proof over executable model + I/O-equality correspondence with the Go code",
    },
}
