"""Per-property configuration and the generic I/O-equality correspondence."""
import json, os, subprocess, concurrent.futures as cf
from common import Broken

LEVEL_NOTE = ("theorems are about the Lean model; the model is tied to /repo by running model and "
              "implementation on the same seeded inputs on every check")


def _tree_cpu(pid):
    """user+system seconds used so far by a process and its live descendants (reaped children included)"""
    tick = os.sysconf("SC_CLK_TCK")
    procs = {}
    for d in os.listdir("/proc"):
        if d.isdigit():
            try:
                st = open(f"/proc/{d}/stat").read()
                f = st[st.rindex(")") + 2:].split()
                procs[int(d)] = (int(f[1]), sum(int(x) for x in f[11:15]))
            except (OSError, ValueError, IndexError):
                pass
    if pid not in procs:
        return None
    total, todo = 0, [pid]
    while todo:
        q = todo.pop()
        total += procs[q][1]
        todo += [c for c, (pp, _) in procs.items() if pp == q]
    return total / tick


def _wait_not_stuck(p, timeout):
    """Waits for the harness. A wall-clock limit alone mistakes a busy machine for a hang, so after `timeout`
    seconds the harness is given up on only if its process tree did nothing for a minute (blocked), or has
    used 4 x timeout of processor time (spinning), or 6 x timeout has passed. Returns the reason, or None."""
    import time
    start = time.time()
    samples = []
    while True:
        try:
            p.wait(timeout=1.0)
            return None
        except subprocess.TimeoutExpired:
            pass
        el = time.time() - start
        if el < timeout:
            continue
        cpu = _tree_cpu(p.pid)
        why = None
        if cpu is None:
            why = f"not finished within {timeout} s"
        else:
            samples.append((time.time(), cpu))
            samples = [x for x in samples if x[0] >= time.time() - 90]
            if cpu >= 4 * timeout:
                why = f"used {cpu:.0f} s of processor time in {el:.0f} s"
            elif samples[-1][0] - samples[0][0] >= 60 and samples[-1][1] - samples[0][1] < 1.0:
                why = f"idle for a minute after {el:.0f} s"
            elif el >= 6 * timeout:
                why = f"not finished within {6 * timeout} s"
        if why:
            p.kill()
            p.wait()
            return why


def _run_shard(binp, harness_prop, driver, tier, seed, outdir, run_driver, extra_args, timeout):
    os.makedirs(outdir, exist_ok=True)
    env = dict(os.environ)
    logp = os.path.join(outdir, "harness.out")
    with open(logp, "w") as lf:
        p = subprocess.Popen([binp, harness_prop, "-tier", tier, "-seed", str(seed), "-out", outdir] + extra_args,
                             stdout=lf, stderr=subprocess.STDOUT, env=env)
        why = _wait_not_stuck(p, timeout)
    p.stdout = open(logp, errors="replace").read()
    if why:
        return {"crash": f"the harness did not finish: {why} (a call into the code under test never returned?)\n" + p.stdout[-2000:],
                "seed": seed}
    if p.returncode != 0:
        return {"crash": p.stdout[-3000:], "seed": seed}
    run_driver(driver, os.path.join(outdir, "ops.txt"), os.path.join(outdir, "model.txt"))
    mism = []
    percat = {}
    n = 0
    with open(os.path.join(outdir, "ops.txt")) as fo, open(os.path.join(outdir, "impl.txt")) as fi, \
            open(os.path.join(outdir, "model.txt")) as fm, open(os.path.join(outdir, "cats.txt")) as fc:
        for op, a, b, cat in zip(fo, fi, fm, fc):
            n += 1
            a, b, op, cat = a.rstrip("\n"), b.rstrip("\n"), op.rstrip("\n"), cat.rstrip("\n")
            if a != b:
                # keep the first mismatches of EVERY category: a noisy category (e.g. a known finding) must
                # never crowd out another one
                percat[cat] = percat.get(cat, 0) + 1
                if percat[cat] <= 25:
                    mism.append({"line": n, "cat": cat, "op": op[:4000], "impl": a[:2000], "model": b[:2000], "seed": seed})
                else:
                    mism.append(None)
    # line-count sanity: all three files must have the same number of lines
    counts = [sum(1 for _ in open(os.path.join(outdir, f))) for f in ("ops.txt", "impl.txt", "model.txt")]
    stats = json.load(open(os.path.join(outdir, "stats.json")))
    if len(set(counts)) != 1:
        mism.append({"line": 0, "op": "(line counts differ)", "impl": str(counts), "model": "", "seed": seed})
    return {"mism": mism, "stats": stats, "seed": seed}


def correspond(cfg, pid, binp, tier, seed, scratch, run_driver, obligation_broken):
    """returns (mismatches, stats). Each mismatch gets a 'key' from the property's classifier."""
    shards = cfg.get("thorough_shards", 16) if tier == "thorough" else cfg.get("quick_shards", 1)
    if obligation_broken and tier == "quick":
        shards = max(shards, cfg.get("search_shards", 8))     # widened search for a failing input
    seeds = [seed] if shards == 1 else [seed * 1000 + i for i in range(shards)]
    results = []
    timeout = cfg.get("timeout_thorough", 3000) if tier == "thorough" else cfg.get("timeout_quick", 900)
    with cf.ThreadPoolExecutor(max_workers=min(cfg.get("parallel", 8), len(seeds))) as ex:
        futs = [ex.submit(_run_shard, binp, cfg["harness"], cfg["driver"], tier, s,
                          os.path.join(scratch, f"s{s}"), run_driver, cfg.get("harness_args", []), timeout)
                for s in seeds]
        for f in futs:
            results.append(f.result())
    mism, agg = [], {"evaluations": 0, "distinct_nontrivial": 0, "categories": {}, "samples": [], "notes": [], "extra": {}}
    for r in results:
        if "crash" in r:
            raise Broken("harness-run", f"harness exited abnormally (seed {r['seed']}):\n{r['crash']}")
        for m in r["mism"]:
            if m is None:
                continue
            m["key"] = cfg.get("classify", lambda m: m.get("cat", ""))(m)
            mism.append(m)
        st = r["stats"]
        agg["evaluations"] += st["evaluations"]
        agg["distinct_nontrivial"] += st["distinct_nontrivial"]
        for k, v in st["categories"].items():
            agg["categories"][k] = agg["categories"].get(k, 0) + v
        if len(agg["samples"]) < 30:
            agg["samples"] += (st.get("samples") or [])[: 30 - len(agg["samples"])]
        agg["notes"] += [n for n in (st.get("notes") or []) if n not in agg["notes"]][:50]
        for k, v in st.get("extra", {}).items():
            if isinstance(v, (int, float)) and k not in ("seed",):
                agg["extra"][k] = agg["extra"].get(k, 0) + v
            else:
                agg["extra"].setdefault(k, v)
    floors = cfg.get("floors", {})
    for cat, mn in floors.items():
        if agg["categories"].get(cat, 0) < mn and tier in ("quick", "thorough"):
            if mism:
                # a failing input was found: it is the report; the thin category is a consequence (a run cut short)
                agg["notes"].append(f"category {cat} has {agg['categories'].get(cat,0)} cases, floor {mn}")
                break
            raise Broken("generator-floor", f"category {cat} has {agg['categories'].get(cat,0)} cases, floor {mn}: run is inconclusive")
    return mism, agg


COMMON_TB = [
    "Go toolchain, encoding/json, sort, container/heap, math (IEEE-754 arithmetic)",
]

PROPS = {
    "C05": {
        "harness": "c05", "driver": "snap",
        "lean_modules": ["BleveModel.Props.Snapshot", "BleveModel.Props.C05"],
        "rule": ("(a) introducer steps: on-disk and in-memory scorch histories (small merge plan, forced merges, 1 and 3 persister "
                 "workers, safe/unsafe batches); every root swap reported by the verif hook is replayed on the Lean snapshot "
                 "model: segment introductions must equal the model's result structurally (segments, document order, obsoleted "
                 "numbers), merges and persists must keep the live ids and the one-live-document-per-id invariant. (b) layouts: "
                 "the same history applied as one batch per op / one batch / random partitions, in memory, on disk with "
                 "background merges, after ForceMerge, after close+reopen, with 3 persister workers in unsafe mode, as zap v15-17; "
                 "random requests (C02 query trees x 4 sorts x facets x fields x highlight x locations, score on/none) compared "
                 "bit for bit (ids, order, sort keys, fields, locations, fragments, facets, score bits) with the first layout. "
                 "non-trivial = steps with a non-empty previous root / requests with hits"),
        "trusted_base": COMMON_TB + ["zapx MergeUsing / segment persistence", "float evaluation is deterministic for equal inputs in equal order"],
        "assumptions": ["sorts are made total by a trailing _id key (tie order is layout dependent by design)", LEVEL_NOTE],
        "floors": {"introducer/segment": 8, "introducer/persist": 5, "layout/disk-forcemerge": 20, "layout/disk-reopened": 20, "scores/disk-forcemerge": 10},
        "thorough_shards": 8,
        "classify": lambda m: m.get("cat", "").split("/")[0] if m.get("cat", "").startswith("scored-") else m.get("cat", ""),
    },
    "C20": {
        "harness": "c20", "driver": "c20",
        "lean_modules": ["BleveModel.Props.C20"],
        "rule": ("in-memory scorch indexes of 4-12 parent documents (top-level title, nested arrays emps[] with name/role and offs[] "
                 "with city; empty, one and several elements) built in several batches and then changed by separate update and "
                 "delete batches, under the nested mapping and under the same mapping without nesting; random conjunction / "
                 "disjunction / boolean trees to depth 3 (half of the compound queries keep all leaves inside one array); hit ids, "
                 "Total, duplicates, DocCount and match-all compared with the Lean specification. Queries with must_not and with "
                 "counts >= 2 across levels are reported under their own categories (known findings); counts >= 2 within one array "
                 "are not judged (the statement does not fix their meaning). non-trivial = non-empty non-total answers"),
        "trusted_base": COMMON_TB + ["zapx nested-document bookkeeping (ancestors, root counts)"],
        "assumptions": [LEVEL_NOTE],
        "floors": {"nested/search": 100, "unnested/search": 100},
        "thorough_shards": 8,
    },
    "C18": {
        "harness": "c18", "driver": "c18",
        "lean_modules": ["BleveModel.Props.C18"],
        "rule": ("(a) numeric.Interleave / Deinterleave on random, single-bit, all-ones-prefix and extreme 32-bit inputs (and Deinterleave "
                 "on arbitrary 64-bit words) compared with the Lean bit recursion; point hash round trip within 1e-6 degrees. (b) "
                 "in-memory scorch indexes with and without the s2 plugin, 20-80 documents with one or two points (random, on "
                 "+-180 / +-90, near the date line), distance queries (10 m - 4500 km, centres on the date line and near the poles), "
                 "bounding boxes (35% crossing the date line), convex polygons, judged against an independent haversine / planar "
                 "oracle with a margin (0.5% + 10 m for distances, 1e-5 deg for boxes, 1e-4 deg for polygon edges): clearly-inside "
                 "points must be returned, documents with all points clearly outside must not; distance sort order against the "
                 "oracle with the same tolerance. non-trivial = queries with a non-empty, non-total answer"),
        "trusted_base": COMMON_TB + ["the harness's float oracle (spherical haversine, planar convex-polygon test)", "s2 geometry library"],
        "assumptions": ["points within the margin of a boundary are not judged", LEVEL_NOTE],
        "floors": {"interleave": 1000, "plain/distance": 20, "s2/box": 20, "plain/polygon": 15, "s2/polygon-planted-open": 15, "plain/polygon-planted-open": 15},
        "thorough_shards": 8,
    },
    "C19": {
        "harness": "c19", "driver": "c19",
        "lean_modules": ["BleveModel.Props.C19", "BleveModel.Props.Highlight"],
        "rule": ("36 fixed strings (scripts, punctuation, HTML, zero-width joiners, NUL, several kinds of invalid UTF-8, very long tokens) "
                 "plus seeded random strings over a mixed valid/invalid alphabet; (1) the letter and whitespace tokenizers compared "
                 "token by token with the Lean character-tokenizer model; (2) every registered tokenizer (offset/position invariants), "
                 "analyzer, token filter (on unicode- and whitespace-tokenised input) and char filter run on every string under "
                 "recover and a 5 s limit; (3) the simple fragmenter with random term locations (inside and outside the text, inside "
                 "multi-byte runes, start>end) and fragment sizes 0/1/5/200: no panic, fragments inside the text; (3b) the Lean model of "
                 "the highlighting mechanism (Model/Highlight: utf8.DecodeRune/DecodeLastRune/RuneCount, Fragment, MergeOverlapping, the "
                 "html/plain/ansi Format) compared output for output with the Go functions on generated values (valid and invalid UTF-8, "
                 "U+FFFD, HTML specials) and term locations (on and off rune boundaries, nested, overlapping, negative, backwards, beyond "
                 "the value, unsorted, two array positions, nil entries), fragment sizes -1..200; (4) html and ansi "
                 "highlighting end to end for standard, simple, en, cjk, web, keyword, edge-ngram and length-changing (regexp char "
                 "filter) analyzers: no panic, and for length-preserving analyzers every fragment without markup is a substring of "
                 "the stored value and every marked span occurs in it; every fragment of every hit (fixed and generated documents, a compound-word "
                 "analyzer with nested term locations among them) is judged by the Lean predicate fragmentOK from the stored value and the "
                 "hit's term locations: a piece of the value, every marked span a union of term locations. non-trivial = non-empty input; distinct by (component, input)"),
        "trusted_base": COMMON_TB + ["third-party analysis libraries (segment, snowball, x/text) are explored, not modelled"],
        "assumptions": [LEVEL_NOTE],
        "floors": {"ctok/letter": 100, "token_filter/reverse": 100, "fragmenter/locations-outside": 20, "highlight/cjk/html": 5,
                   "highlight-model/utf8": 300, "highlight-model/fragmenter-wellformed": 150, "highlight-model/fragmenter-malformed": 100,
                   "highlight-model/merge-wellformed": 150, "highlight-model/format-html": 300, "highlight-model/format-html-malformed": 150,
                   "highlight-model/end-to-end/standard": 50, "highlight-model/end-to-end/compound": 50, "highlight-model/end-to-end/cjk": 50},
        "thorough_shards": 4,
    },
    "C17": {
        "harness": "c17", "driver": "c17",
        "lean_modules": ["BleveModel.Props.C17", "BleveModel.Props.QueryString"],
        "rule": ("(0) the Lean model of the query-string lexer and grammar (Model/QueryString) against the Go lexer (token streams through the verif export "
                 "VerifLexQueryString) and QueryStringQuery.Parse (clause lists) on fixed edge inputs, inputs written from the documented grammar and "
                 "arbitrary rune strings; " "(1) random query trees of the C02 family marshalled, re-parsed by ParseQuery (twice) and executed next to the original "
                 "on scorch and upsidedown indexes; (2) random search requests (custom sort objects with type/mode/missing, facets "
                 "with prefix filter / numeric / date ranges, fields, highlight, locations, score none, paging) through JSON and "
                 "executed; (3) query strings generated from the documented grammar (+/- prefixes, field scoping, words, phrases, "
                 "fuzziness, wildcards, regexps, boosts, numeric and date comparisons) parsed and compared with the directly "
                 "constructed boolean query; (4) random byte strings over an operator-heavy alphabet (invalid UTF-8, non-ASCII digits, "
                 "dangling backslash / quote / tilde endings): no panic, same answer when repeated, and fixed probe strings parse "
                 "identically whatever was parsed before (pooled lexer). non-trivial = non-empty results / every fuzz comparison"),
        "trusted_base": COMMON_TB + ["encoding/json", "the go/ast extractor of the ParseQuery decision list and struct tags (harness/cmd/extract/dispatch.go)",
                                     "goyacc-generated parser tables (exercised, not modelled)"],
        "assumptions": ["word~N^B (suffixes glued) is outside the documented syntax; the generator separates them by a space", LEVEL_NOTE],
        "floors": {"query-json/results": 100, "qs-grammar/results": 100, "request-json/results": 40, "qs-fuzz/probe-after": 300,
                   "qs-model-grammar/lex": 1000, "qs-model-grammar/parse": 300, "qs-model-fuzz/lex": 1000, "qs-model-fixed/lex": 50},
        "thorough_shards": 8,
    },
    "C16": {
        "harness": "c16", "driver": "echo",
        "lean_modules": ["BleveModel.Props.C16"],
        "rule": ("random valid mapping trees (default and type mappings, sub-document mappings two levels deep, enabled/dynamic flags, "
                 "1-2 field mappings per property of every kind with random store/index/term-vector/include_in_all/docvalues/"
                 "skip_freq_norm/name/analyzer/date_format options, custom char filter, tokenizer, token map, token filters, "
                 "analyzer and date parser, index-level type_field/default_type/default_analyzer/default_datetime_parser/"
                 "default_field incl. empty strings, dynamic flags, scoring model) marshalled, parsed back, validated; JSON "
                 "fixpoint over two generations; MapDocument of random documents (nested objects, arrays, numbers, booleans, dates, "
                 "nil, unmapped and ignored values, type-field values) compared field by field incl. analysed terms and locations; "
                 "the same through bleve.New / Close / Open. non-trivial = every comparison; distinct by rendered content"),
        "trusted_base": COMMON_TB + ["encoding/json", "the go/ast extractor of struct tags, case arms and presets (harness/cmd/extract/codec.go)"],
        "assumptions": ["mappings rejected by Validate are outside the property", LEVEL_NOTE],
        "floors": {"json-fixpoint": 8, "mapdoc": 200},
        "thorough_shards": 8,
    },
    "C13": {
        "harness": "c13", "driver": "c13",
        "lean_modules": ["BleveModel.Props.C13"],
        "rule": ("(a) retention arithmetic: random newest-first snapshot lists (0-8 entries, gaps that are multiples of a unit incl. "
                 "zero gaps), maxDataPoints 0-5, numSnapshotsToKeep 1-5, intervals incl. 0 and exact gap multiples; "
                 "getTimeSeriesSnapshots / getProtectedSnapshots (through the verif export) compared with the Lean model. "
                 "(b) end to end: on-disk scorch histories of 3-12 batches, each tagged with a sequence number in an internal key, "
                 "numSnapshotsToKeep in {1,2,3,5}, safe and unsafe batch mode; after Close every offered rollback point is rolled "
                 "back to on a copy of the directory, reopened, compared (DocCount, Document for every id, match-all, doc-id search, "
                 "internal keys) with the Lean replay of the batches up to that sequence number, then written to and compared again. "
                 "non-trivial = snapshot lists with at least two entries, every observation"),
        "trusted_base": COMMON_TB + ["bbolt transactions, zapx segment files, cp -r for directory copies"],
        "assumptions": [LEVEL_NOTE],
        "floors": {"timeseries": 500, "protected": 400},
        "thorough_shards": 8,
    },
    "C03": {
        "harness": "c03", "driver": "c03",
        "lean_modules": ["BleveModel.Props.Snapshot", "BleveModel.Props.C04", "BleveModel.Props.C03"],
        "rule": ("on-disk scorch workloads (safe and unsafe_batch; 1-3 snapshots kept; persister with 1, 2 or 3 workers and in-memory "
                 "merge thresholds, nap settings; small merge plan so that file merges and purges happen): a child process writes "
                 "batches (batch n sets 2-3 fixed documents and the internal key to n, makes n%3 of two extra documents present, "
                 "writes ring slot n%6) and is SIGKILLed at a named crash point (files written / before commit / after commit / "
                 "after sync / in-memory merge done / merge file written / merge introduced / snapshot purged / file removed, at a "
                 "random occurrence 1-6), at a random wall-clock instant, or closes cleanly; several kill/reopen cycles per index. "
                 "(a) every durable event the real code reports (commit with the on-disk state of each named file, acknowledgement "
                 "= Batch returned (safe) or persisted callback fired (unsafe), snapshot removal, file removal) is replayed through "
                 "the Lean side condition stepOK; (b) after each kill the segment files no committed snapshot names are left / "
                 "truncated / overwritten with garbage / emptied, the index is reopened, read through one reader and judged by the "
                 "Lean monitor History.check: a whole-batch prefix covering every acknowledged batch, never older than the "
                 "previous recovery; a search must agree; the next cycle writes on. non-trivial = every event and observation"),
        "trusted_base": COMMON_TB + ["SIGKILL of the writer process stands for the crash; the page cache survives it (fsync, rename and bbolt commit "
                                     "atomicity are assumptions); bbolt for reading root.bolt in the harness"],
        "assumptions": ["partial: OS durability guarantees (fsync, atomic bbolt commit) are assumed, garbling of unreferenced files stands in "
                        "for power loss; the index is created before the first kill", LEVEL_NOTE],
        "floors": {"safe/event-commit": 30, "safe/event-zaprm": 10, "safe/event-boltrm": 20, "safe/recovered": 4, "unsafe/recovered": 3},
        "thorough_shards": 8,
    },
    "C14": {
        "harness": "c14", "driver": "c14",
        "lean_modules": ["BleveModel.Props.Snapshot", "BleveModel.Props.C04", "BleveModel.Props.C12", "BleveModel.Props.C14"],
        "rule": ("on-disk scorch sources (safe and unsafe batches, 1-3 snapshots kept, 1-3 persister workers, small merge plan) "
                 "written by two writers with forced merges every 120 ms and the purger running; a copier calls CopyTo at random "
                 "moments (the numbers of batches acknowledged per writer sampled just before, submitted just after). Every copy: "
                 "CopyTo must succeed; its root.bolt and *.zap listing are checked against the model's copyOf (one snapshot, "
                 "exactly its files, loadable); it is opened and read through one reader and judged by the Lean monitor "
                 "History.check (whole batches, covers what was acknowledged before the copy began, successive copies never go "
                 "back); it holds no batch submitted after CopyTo returned; it accepts a write. The source is observed by a "
                 "C04-style client throughout and compared with the full history at the end. non-trivial = every observation"),
        "trusted_base": COMMON_TB + ["bbolt for reading the copy's root.bolt; os.ReadDir"],
        "assumptions": ["partial: atomicity of capturing the root under the lock is exercised by the concurrent runs, not proved", LEVEL_NOTE],
        "floors": {"safe/copy-content": 10, "unsafe/copy-content": 5, "safe/source-obs": 30},
        "thorough_shards": 6,
    },
    "C11": {
        "harness": "c11", "driver": "c11", "race": True,
        "lean_modules": ["BleveModel.Props.C11"],
        "rule": ("race-detector build of the harness. Per round a child process opens one index (scorch on disk, scorch in memory, "
                 "upsidedown over gtreap, upsidedown over boltdb; 300 documents), 6-11 goroutines call Index, Delete, Batch, Search, "
                 "SearchInContext with 0-3 ms deadlines, Document, DocCount, FieldDict (iterated), Stats/StatsMap, ForceMerge and "
                 "CopyTo (scorch) in random order; after 60-560 ms two goroutines call Close at the same time; calls keep coming "
                 "for 15 ms more. Every call is logged with global sequence numbers taken before it starts and after it returns "
                 "and its result class (ok / closed-index error / context error / refused / other error / panic); the Lean monitor "
                 "`verdict` judges each: no panic or unexpected error, closed-index error for calls started after Close returned, "
                 "none for calls that returned before Close was called, exactly one Close succeeds. A data race report, a crash, "
                 "Close not returning within 30 s or goroutines still alive 2 s after Close are reported with the runtime's output. "
                 "Cancellation: 40 (400) searches over 3000 documents with contexts cancelled after 0-2 ms or before the call must "
                 "return ok or the context error within 5 s and the index must answer afterwards. non-trivial = every call"),
        "trusted_base": COMMON_TB + ["Go race detector and scheduler; runtime.NumGoroutine / Stack"],
        "assumptions": ["partial: data races, panics, deadlocks and leaks are runtime facts that the stress exercises and the race detector "
                        "observes on the schedules that occur; the theorems cover the lifecycle protocol", LEVEL_NOTE],
        "floors": {"scorch-disk/close": 2, "scorch-disk-paced/close": 2, "scorch-mem/call-search": 3, "upsidedown-boltdb/call-index": 3, "scorch-mem/cancel-ctx": 10},
        "thorough_shards": 4, "parallel": 2, "timeout_quick": 1500,
    },
    "C12": {
        "harness": "c12", "driver": "c12",
        "lean_modules": ["BleveModel.Props.C03", "BleveModel.Props.C12"],
        "rule": ("on-disk scorch workloads (numSnapshotsToKeep 1-3, persister with 1-3 workers, small merge plan, safe and unsafe "
                 "batches): two writers, forced merges every 150 ms, three goroutines that open a reader, hold it 1-60 ms and close "
                 "it. Every durable event reported by the hooks (commit with the on-disk state of each named file, snapshot removal, "
                 "file removal) and every reader opened / re-stat-ed every 5 ms / closed (with the segment files it uses and whether "
                 "each exists) is replayed through the Lean side conditions: a removed file must be neither named by a committed "
                 "snapshot nor used by an open reader, the files of a just-opened reader (the current state) must exist. At "
                 "quiescence (writers stopped, directory listing stable for 300 ms) the *.zap listing is compared with the files "
                 "the model's root.bolt names; the epochs in root.bolt are compared with the model's and with numSnapshotsToKeep; "
                 "after Close the process holds no descriptor inside the index directory and the directory opens. "
                 "non-trivial = every event and observation"),
        "trusted_base": COMMON_TB + ["os.Stat / ReadDir / /proc/self/fd as observations of the file system; bbolt for reading root.bolt"],
        "assumptions": ["files scheduled for an online copy are covered by C14", LEVEL_NOTE],
        "floors": {"retention/event-zaprm": 20, "retention/event-hold": 10, "retention/quiescent-dir": 2},
        "thorough_shards": 6,
        "classify": lambda m: ("purge/" + m.get("model", "")[4:]) if m.get("model", "").startswith("BAD:") else m.get("cat", ""),
    },
    "C04": {
        "harness": "c04", "driver": "c04",
        "lean_modules": ["BleveModel.Props.Snapshot", "BleveModel.Props.C04"],
        "rule": ("2-3 concurrent writers (writer w's n-th batch sets its 2-3 fixed documents and its internal key to n and makes n%3 "
                 "of two extra documents present, deleting the others), three reader clients and one searching client, one "
                 "long-lived reader re-read every 5 ms, forced merges on disk; engines scorch on disk (safe; unsafe with 3 persister "
                 "workers), scorch in memory, upsidedown over gtreap and boltdb. Every observation is made through ONE reader "
                 "(Document per id, GetInternal per writer, DocCount) or one Search (match-all with stored seq, Total); the number "
                 "of batches acknowledged per writer is sampled before the read begins. The Lean monitor `History.check` (proved "
                 "equal to the specification `Consistent`) judges each observation with the client's previous prefix vector; the "
                 "long-lived reader's digest (documents, internals, count, id listing, dictionary, postings) must never change. "
                 "non-trivial = every observation"),
        "trusted_base": COMMON_TB + ["the Go scheduler produces the interleavings; atomic counters order 'acknowledged' before 'read began'"],
        "assumptions": ["partial: atomicity of the root swap in the Go runtime is exercised by concurrent runs, not proved", LEVEL_NOTE],
        "floors": {"scorch-disk/obs": 15, "scorch-mem/obs": 15, "upsidedown-gtreap/obs": 15, "upsidedown-boltdb/obs": 3,
                   "scorch-disk/handle": 5, "scorch-disk/search-obs": 5, "scripted/read": 15, "scripted/held": 8},
        "thorough_shards": 4,
    },
    "C01": {
        "harness": "c01", "driver": "c01",
        "lean_modules": ["BleveModel.Props.C01", "BleveModel.Props.Snapshot"],
        "rule": ("seeded operation histories (Index/Delete/SetInternal/DeleteInternal over 4-12 document ids and 3 internal keys: "
                 "re-indexing live ids, deleting absent ids, several operations on one id in one batch, empty batches, single "
                 "operations through the non-batch API), every configuration with its own random partition into batches: scorch on "
                 "disk / in memory / zap v11-v17 (small merge plan, forced merges, close+reopen), upsidedown over boltdb, goleveldb, "
                 "gtreap, moss. After batches: DocCount, Document(id) for every id of the space, match-all ids and Total, doc-id "
                 "search, GetInternal for every key compared with the Lean replay. non-trivial = every observation and non-empty batch"),
        "trusted_base": COMMON_TB + ["zapx segment formats v11-v17, bbolt, goleveldb, gtreap, moss"],
        "assumptions": ["ids without 0xff bytes (upsidedown key separator)", LEVEL_NOTE],
        "floors": {"scorch-disk/doc": 50, "upsidedown-moss/doc": 50, "scorch-mem/ids": 5},
        "thorough_shards": 8,
    },
    "C02": {
        "harness": "c02", "driver": "c02",
        "lean_modules": ["BleveModel.Props.C02", "BleveModel.Props.BoolSearcher", "BleveModel.Props.ConjSearcher", "BleveModel.Props.DisjSearcher", "BleveModel.Props.BoolLink", "BleveModel.Props.Compose", "BleveModel.Props.Phrase"],
        "rule": ("in-memory scorch and upsidedown indexes of 4-14 documents over an 8-word vocabulary (two multi-valued text fields with "
                 "term vectors, numeric, boolean and date fields; several batches, updates and deletes), random query trees to depth 3 "
                 "over the whole family (term, match and/or, phrase, match-phrase, prefix, wildcard, regexp, fuzzy, term/numeric/date "
                 "range, bool field, doc id, match all/none; conjunction, disjunction with min incl. >10 clauses, boolean "
                 "must/should/must-not/filter), each run with score default / score none / locations+explain; hit-id set and Total "
                 "compared with the Lean evaluation of the query's documented meaning over the analysed field values. "
                 "non-trivial = non-empty and non-total answer; distinct by (corpus, query)"),
        "trusted_base": COMMON_TB + ["the 'simple' analyzer splits the generated lower-case ASCII text at spaces",
                                     "harness-side oracles for wildcard (glob->regexp), regexp (Go regexp, anchored) and fuzzy (OSA distance with prefix) acceptance over the vocabulary",
                                     "zapx/vellum/roaring postings and dictionaries"],
        "assumptions": ["boost 0 and BooleanQuery.Must set to a non-conjunction through the Go API are excluded points", LEVEL_NOTE],
        "floors": {"search/scorch/plain": 100, "search/upsidedown/plain": 100, "search/scorch/noscore": 40,
                   "phrase-paths/exact": 300, "phrase-paths/general": 300},
        "thorough_shards": 16,
    },
    "C08": {
        "harness": "c08", "driver": "c02",
        "lean_modules": ["BleveModel.Props.C08", "BleveModel.Props.BoolSearcher", "BleveModel.Props.ConjSearcher", "BleveModel.Props.DisjSearcher", "BleveModel.Props.BoolLink", "BleveModel.Props.Compose"],
        "rule": ("the same index and query generator as C02; for each query the searcher built by Query.Searcher over an index reader "
                 "(options: default, score none, term vectors+explain) is driven by a random program of 1-12 Next / forward Advance "
                 "calls (targets at the next id, in gaps left by deleted documents, far ahead, past the last id; Advance as first "
                 "call) and every returned internal id is compared with the contract evaluated in Lean on the ascending list of "
                 "matching internal ids. non-trivial = programs with at least two answered calls"),
        "trusted_base": COMMON_TB + ["zapx postings iterators"],
        "assumptions": ["backward or repeated Advance targets and calls after exhaustion are outside the contract", LEVEL_NOTE],
        "floors": {"prog/scorch": 80, "prog/upsidedown": 80},
        "thorough_shards": 16,
    },
    "C09": {
        "harness": "c09", "driver": "c09",
        "lean_modules": ["BleveModel.Props.C09"],
        "rule": ("corpora of 3-36 documents partitioned into 1-5 in-memory shards of mixed engines (skewed and empty shards), alias "
                 "trees (flat and nested), a single index with all documents; requests with total score-independent sorts (0-2 field "
                 "keys with min/max mode and missing first/last plus _id), From/Size pages incl. Size 0, SearchAfter/SearchBefore "
                 "from hits of the full ordering, stored fields, terms/numeric/date facets whose size covers all buckets. Compared: "
                 "canonical alias result vs single-index result (Total, ids in order, sort keys, stored fields, facets), and the Lean "
                 "model of MultiSearch / FacetResult.Merge+Fixup applied to the members' real answers vs the flat alias. "
                 "non-trivial = at least two shards and a non-empty page"),
        "trusted_base": COMMON_TB + ["members answer the child request correctly (C06/C10)"],
        "assumptions": ["scores are not compared (they legitimately differ between shards)", LEVEL_NOTE],
        "thorough_shards": 16,
    },
    "C10": {
        "harness": "c10", "driver": "c10",
        "lean_modules": ["BleveModel.Props.C10", "BleveModel.Props.C10Ranges"],
        "rule": ("in-memory scorch and upsidedown indexes of 5-40 documents (keyword tags single/multi-valued/missing/duplicated, "
                 "numeric and date fields, updates and deletes), queries (match-all, term, disjunction, match-none), requests with "
                 "random Size/From/Sort (incl. sorting on a facet field) and 1-3 facets (terms with size below/at/above the bucket "
                 "count, prefix and regexp filters; numeric and date ranges incl. open ends; two facets over one field); every "
                 "SearchResult.Facets entry compared with the Lean model evaluated on the matching documents obtained from a plain "
                 "request. non-trivial = at least one matching document; distinct by op line"),
        "trusted_base": COMMON_TB + ["Go regexp (the accepted-term set of a regexp filter is computed with it)",
                                     "zapx / upsidedown doc-value visiting (each distinct term of a document once)"],
        "assumptions": ["no duplicate numeric/date values inside one document (doc values hold distinct terms)", LEVEL_NOTE],
        "floors": {"tfacet/scorch": 30, "nfacet/scorch": 30, "dfacet/upsidedown": 20},
        "thorough_shards": 16,
    },
    "C15": {
        "harness": "c15", "driver": "c15",
        "lean_modules": ["BleveModel.Props.C15"],
        "rule": ("seeded operation sequences (batches of set/delete/merge with the append merge operator, readers opened at "
                 "random points and read after later writes, get, multi-get, prefix and range iterators with seek/next) over "
                 "keys from {00,'a','b',ff}^1..4 incl. empty values, run against boltdb, goleveldb, gtreap, moss and the metrics "
                 "wrapper obtained through the registry; every answer compared with the Lean ordered-map model. non-trivial = "
                 "all reads and non-empty batches; distinct by op line"),
        "trusted_base": COMMON_TB + ["the engines under the adapters: bbolt, goleveldb, gtreap, moss"],
        "assumptions": ["a batch never mixes a merge with a set/delete of the same key (stores order them differently; upsidedown never does it)",
                        "Next is called only on a valid iterator", LEVEL_NOTE],
        "floors": {"moss/piter": 10, "boltdb/get": 10, "goleveldb/seek": 5, "gtreap/mget": 5},
        "thorough_shards": 8,
    },
    "C06": {
        "harness": "c06", "driver": "c06",
        "lean_modules": ["BleveModel.Props.C06"],
        "rule": ("seeded synthetic match streams (small score spaces, colliding ids, multi-valued / missing / numeric / "
                 "date / string field terms incl. the HighTerm/LowTerm sentinels) fed through a stub searcher and reader into "
                 "the real TopNCollector for sort orders of 1-4 keys (score, id, field x type x mode x missing x direction), "
                 "sizes/skips straddling the slice/heap store switch (and the preallocation cap in the thorough tier), and "
                 "search-after from hits of the full run; hits (by hit number), Total and MaxScore compared with the Lean "
                 "model; plus end-to-end Index.Search on in-memory scorch and upsidedown indexes (keyword / numeric / date fields, single- and "
                 "multi-valued, missing) with From/Size pages, SearchAfter and SearchBefore from hits of the full ordering under total "
                 "score-independent sorts. non-trivial = streams longer than the page and all end-to-end requests"),
        "trusted_base": COMMON_TB + ["container/heap is a priority queue for a strict total Less (heap store modelled extensionally)",
                                     "strconv.ParseFloat/FormatFloat and time RFC3339Nano round trip (search-after key encoding)"],
        "assumptions": ["scores are not NaN (boost 0 gives NaN scores: excluded point, DESIGN.md C06)", LEVEL_NOTE],
        "floors": {"coll": 300, "after": 100, "e2e-page/scorch": 5, "e2e-before/scorch": 3, "e2e-before/upsidedown": 3, "e2e-after/scorch": 3},
        "thorough_shards": 16,
    },
    "C07": {
        "harness": "c07", "driver": "c07",
        "lean_modules": ["BleveModel.Props.C07"],
        "rule": ("seeded float64 bit patterns (boundary set: ±0, ±inf, subnormals, 1-ulp neighbours, every 4-bit "
                 "precision boundary k·16^j±1, NaNs) and int64 ranges (random, narrow, near ±2^63, around 16^j, a few "
                 "ulps around round floats) compared op by op with the Lean model; end-to-end numeric/date range queries "
                 "on in-memory scorch and upsidedown indexes. distinct = distinct op lines; non-trivial = ranges with "
                 "min<=max, queries with a non-empty non-total answer, all codec ops"),
        "trusted_base": COMMON_TB + ["zapx/vellum dictionaries and postings (term lookup)", "time.Time.UnixNano"],
        "assumptions": ["NaN and -0 document values are outside the property", LEVEL_NOTE],
        "floors": {"split": 1000, "steps": 500, "nrq-scorch": 50, "nrq-upsidedown": 50, "drq-scorch": 30},
        "thorough_shards": 16,
    },
}
