class Broken(Exception):
    """a proof obligation / build step / correspondence no longer checks"""
    def __init__(self, what, detail):
        super().__init__(what)
        self.what, self.detail = what, detail
