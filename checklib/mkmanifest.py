#!/usr/bin/env python3
"""Regenerates MANIFEST.json from checklib/props.py and checklib/manifest_meta.py."""
import json, os, sys
sys.path.insert(0, os.path.dirname(os.path.abspath(__file__)))
import props, manifest_meta as M

checks = []
for pid in sorted(props.PROPS):
    meta = M.META[pid]
    checks.append({
        "property_id": pid,
        "quick_cmd": f"./check {pid} --tier quick",
        "thorough_cmd": f"./check {pid} --tier thorough",
        "evidence_file": f"/verif/evidence/{pid}.json",
        "replay_cmd_template": f"./check {pid} --replay {{path}}",
        "engine": "lean4-model+correspondence",
        "level_claimed": {"category": meta.get("category", "proof"), "text": meta["text"], "design_ref": meta["design_ref"]},
        "level_note": meta["note"],
        "technique": meta["technique"],
    })
man = {
    "version": 1,
    "setup_cmd": "./setup.sh",
    "hooks": {
        "guard": "verif",
        "enable": "go build -tags verif (the harness module replaces github.com/blevesearch/bleve/v2 with /repo)",
        "baseline_off_cmd": "cd /repo && go test -mod=mod -json -vet=off -count=1 -timeout 25m ./...",
        "source_commits": M.HOOK_COMMITS,
        "add_only": True,
    },
    "engines": [{
        "name": "lean4-model+correspondence", "path": "/verif/lean, /verif/harness, /verif/check",
        "serves_properties": sorted(props.PROPS),
        "kind_free_text": "Lean 4 theorems about hand-written executable models (lean/BleveModel); models tied to /repo on every run by "
                          "a Go harness that runs the real code and a Lean driver that runs the model on the same line-protocol trace, "
                          "plus a go/ast fact extractor regenerating lean/BleveModel/Gen/*.lean",
    }],
    "checks": checks,
    "not_applicable": [{"property_id": p, "reason": r} for p, r in sorted(M.NOT_APPLICABLE.items()) if p not in props.PROPS],
    "notes": M.NOTES,
}
json.dump(man, open(os.path.join(os.path.dirname(__file__), "..", "MANIFEST.json"), "w"), indent=1)
print("wrote MANIFEST.json with", len(checks), "checks;", len(man["not_applicable"]), "not claimed")
