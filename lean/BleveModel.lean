import BleveModel.Proto
import BleveModel.Model.Numeric
import BleveModel.Lemmas.Numeric
import BleveModel.Props.C07
import BleveModel.Drv.C07
