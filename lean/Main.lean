import BleveModel.Proto
import BleveModel.Drv.C07
import BleveModel.Drv.C06
import BleveModel.Drv.C15
import BleveModel.Drv.C10
import BleveModel.Drv.C09
import BleveModel.Drv.C02
import BleveModel.Drv.C01
import BleveModel.Drv.C13
import BleveModel.Drv.C17
import BleveModel.Drv.C19
import BleveModel.Drv.C18
import BleveModel.Drv.C20
import BleveModel.Drv.Snap
import BleveModel.Drv.C04
import BleveModel.Drv.C03
import BleveModel.Drv.C12
import BleveModel.Drv.C14
import BleveModel.Drv.C11

open Bleve.Proto

partial def loop (h : IO.FS.Stream) (out : IO.FS.Stream) (f : List String → String) : IO Unit := do
  let line ← h.getLine
  if line.isEmpty then return ()
  out.putStrLn (f (tokens line))
  loop h out f

partial def loopS {σ : Type} (h : IO.FS.Stream) (out : IO.FS.Stream) (st : σ)
    (f : σ → List String → σ × String) : IO Unit := do
  let line ← h.getLine
  if line.isEmpty then return ()
  let (st', o) := f st (tokens line)
  out.putStrLn o
  loopS h out st' f

def main (args : List String) : IO UInt32 := do
  let stdin ← IO.getStdin
  let stdout ← IO.getStdout
  match args with
  | ["c07"] => loop stdin stdout Bleve.Drv.C07.step; stdout.flush; return 0
  | ["c10"] => loop stdin stdout Bleve.Drv.C10.step; stdout.flush; return 0
  | ["echo"] => loop stdin stdout (fun toks => match toks with | "echo" :: rest => joinWith " " rest | _ => "bad-op"); stdout.flush; return 0
  | ["c17"] => loop stdin stdout Bleve.Drv.C17.step; stdout.flush; return 0
  | ["c19"] => loop stdin stdout Bleve.Drv.C19.step; stdout.flush; return 0
  | ["c18"] => loop stdin stdout Bleve.Drv.C18.step; stdout.flush; return 0
  | ["c20"] => loop stdin stdout Bleve.Drv.C20.step; stdout.flush; return 0
  | ["snap"] => loop stdin stdout Bleve.Drv.Snap.step; stdout.flush; return 0
  | ["c09"] => loop stdin stdout Bleve.Drv.C09.step; stdout.flush; return 0
  | ["c02"] => loop stdin stdout Bleve.Drv.C02.step; stdout.flush; return 0
  | ["c06"] => loop stdin stdout Bleve.Drv.C06.step; stdout.flush; return 0
  | ["c01"] => loopS stdin stdout ({} : Bleve.IndexSpec.Spec) Bleve.Drv.C01.step; stdout.flush; return 0
  | ["c13"] => loopS stdin stdout ({} : Bleve.IndexSpec.Spec) Bleve.Drv.C13.step; stdout.flush; return 0
  | ["c03"] => loopS stdin stdout ({} : Bleve.Drv.C03.S) Bleve.Drv.C03.step; stdout.flush; return 0
  | ["c12"] => loopS stdin stdout ({} : Bleve.Drv.C12.S) Bleve.Drv.C12.step; stdout.flush; return 0
  | ["c14"] => loopS stdin stdout ({} : Bleve.Drv.C04.S) Bleve.Drv.C14.step; stdout.flush; return 0
  | ["c11"] => loopS stdin stdout ({} : Bleve.Drv.C11.S) Bleve.Drv.C11.step; stdout.flush; return 0
  | ["c04"] => loopS stdin stdout ({} : Bleve.Drv.C04.S) Bleve.Drv.C04.step; stdout.flush; return 0
  | ["c15"] => loopS stdin stdout ({} : Bleve.Drv.C15.S) Bleve.Drv.C15.step; stdout.flush; return 0
  | _ => IO.eprintln "usage: drv <driver>"; return 2
