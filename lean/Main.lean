import BleveModel.Proto
import BleveModel.Drv.C07
import BleveModel.Drv.C06

open Bleve.Proto

/-- stateless drivers: one answer per line -/
def statelessStep (which : String) : Option (List String → String) :=
  match which with
  | "c07" => some Bleve.Drv.C07.step
  | "c06" => some Bleve.Drv.C06.step
  | _ => none

partial def loop (h : IO.FS.Stream) (out : IO.FS.Stream) (f : List String → String) : IO Unit := do
  let line ← h.getLine
  if line.isEmpty then return ()
  out.putStrLn (f (tokens line))
  loop h out f

def main (args : List String) : IO UInt32 := do
  let stdin ← IO.getStdin
  let stdout ← IO.getStdout
  match args with
  | [which] =>
    match statelessStep which with
    | some f => loop stdin stdout f; stdout.flush; return 0
    | none => IO.eprintln s!"unknown driver {which}"; return 2
  | _ => IO.eprintln "usage: drv <driver>"; return 2
