import BleveModel.Proto
import BleveModel.Model.Numeric
/-! Driver for the numeric encoding / range splitting correspondence (C07). -/
namespace Bleve.Drv.C07
open Bleve.Proto Bleve.Numeric

def optW (s : String) : Option (Option W) :=
  if s == "nil" then some none else (parseW s).map some
def optB (s : String) : Option (Option Bool) :=
  if s == "nil" then some none else (parseBool s).map some

def fmtRange (r : Rng) : String := hexOfBytes r.startTerm ++ ":" ++ hexOfBytes r.endTerm

def step (toks : List String) : String :=
  match toks with
  | ["f2i", x] => match parseW x with
    | some w => hex16 (f2i w).toNat
    | none => "bad-op"
  | ["i2f", x] => match parseW x with
    | some w => hex16 (i2f w).toNat
    | none => "bad-op"
  | ["flt", a, b] => match parseW a, parseW b with
    | some x, some y => boolStr (floatLt x y)
    | _, _ => "bad-op"
  | ["pc", v, sh] => match parseInt v, parseNat sh with
    | some v, some sh => if !inI64 v then "bad-op" else match prefixCode v sh with
      | some t => hexOfBytes t
      | none => "err"
    | _, _ => "bad-op"
  | ["dec", t] => match parseHexBytes t with
    | some t => match decodeInt64 t with
      | some v => toString v
      | none => "err"
    | none => "bad-op"
  | ["shift", t] => match parseHexBytes t with
    | some t => match shiftOf t with
      | some v => toString v
      | none => "err"
    | none => "bad-op"
  | ["valid", t] => match parseHexBytes t with
    | some t => match validTerm t with
      | some sh => "true " ++ toString sh
      | none => "false 0"
    | none => "bad-op"
  | ["split", a, b] => match parseInt a, parseInt b with
    | some a, some b => if !inI64 a || !inI64 b then "bad-op" else
      let rs := splitRange a b
      toString rs.length ++ " " ++ joinWith "," (rs.map fmtRange)
    | _, _ => "bad-op"
  | ["steps", a, b, cap] => match parseInt a, parseInt b, parseNat cap with
    | some a, some b, some cap => if !inI64 a || !inI64 b then "bad-op" else
      let n := ((splitRange a b).map Rng.walkSteps).foldl (· + ·) 0
      if n > cap then "over" else toString n
    | _, _, _ => "bad-op"
  | ["walk", s, e, fuel] => match parseHexBytes s, parseHexBytes e, parseNat fuel with
    | some s, some e, some fuel => joinWith "," ((walk fuel s e).map hexOfBytes)
    | _, _, _ => "bad-op"
  | ["inc", t] => match parseHexBytes t with
    | some t => hexOfBytes (incrementBytes t)
    | none => "bad-op"
  | ["adj", mn, mx, im, iM] => match optW mn, optW mx, optB im, optB iM with
    | some mn, some mx, some im, some iM =>
      let (a, b) := adjustBounds mn mx im iM
      toString a ++ " " ++ toString b
    | _, _, _, _ => "bad-op"
  | "nrq" :: mn :: mx :: im :: iM :: vals => match optW mn, optW mx, optB im, optB iM with
    | some mn, some mx, some im, some iM =>
      match vals.mapM parseW with
      | some vs => String.ofList (vs.map (fun v => if rangeMatches mn mx im iM v then '1' else '0'))
      | none => "bad-op"
    | _, _, _, _ => "bad-op"
  | "drq" :: mn :: mx :: im :: iM :: vals =>
    -- an open end of a date range is the end of the int64 nanosecond range (not ±Inf, whose bit
    -- patterns are dates inside it): what `parseEndpoints` passes on since the fix recorded in KNOWN_FINDINGS
    let optI (dflt : Int) (s : String) : Option (Option W) :=
      if s == "nil" then some (some (i2f (BitVec.ofInt 64 dflt)))
      else (parseInt s).map (fun v => some (i2f (BitVec.ofInt 64 v)))
    match optI (-9223372036854775808) mn, optI 9223372036854775807 mx, optB im, optB iM with
    | some mn, some mx, some im, some iM =>
      match vals.mapM parseInt with
      | some vs => String.ofList (vs.map (fun v => if rangeMatches mn mx im iM (i2f (BitVec.ofInt 64 v)) then '1' else '0'))
      | none => "bad-op"
    | _, _, _, _ => "bad-op"
  | _ => "bad-op"

end Bleve.Drv.C07
