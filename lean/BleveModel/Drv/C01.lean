import BleveModel.Proto
import BleveModel.Model.IndexSpec
/-! Stateful driver for index-content correspondences (C01 and the properties that reuse the spec). -/
namespace Bleve.Drv.C01
open Bleve.Proto Bleve.IndexSpec
open Bleve.KV (Bytes)

def parseOps : List String → Option (List IndexSpec.Op)
  | [] => some []
  | "i" :: id :: doc :: rest => match parseHexBytes id, parseHexBytes doc, parseOps rest with
    | some id, some doc, some r => some (.index id doc :: r)
    | _, _, _ => none
  | "d" :: id :: rest => match parseHexBytes id, parseOps rest with
    | some id, some r => some (.delete id :: r)
    | _, _ => none
  | "s" :: k :: v :: rest => match parseHexBytes k, parseHexBytes v, parseOps rest with
    | some k, some v, some r => some (.setInternal k v :: r)
    | _, _, _ => none
  | "x" :: k :: rest => match parseHexBytes k, parseOps rest with
    | some k, some r => some (.deleteInternal k :: r)
    | _, _ => none
  | _ => none

def fmtOpt (o : Option Bytes) : String := match o with | some v => hexOfBytes v | none => "nil"

def step (s : Spec) (toks : List String) : Spec × String :=
  match toks with
  | ["reset"] => ({}, "ok")
  | "batch" :: rest => match parseOps rest with
    | some ops => (applyBatch s ops, "ok")
    | none => (s, "bad-op")
  | ["count"] => (s, toString s.docCount)
  | ["doc", id] => match parseHexBytes id with
    | some id => (s, fmtOpt (s.document id))
    | none => (s, "bad-op")
  | ["ids"] => (s, if s.liveIds.isEmpty then "-" else joinWith "," (s.liveIds.map hexOfBytes))
  | "docids" :: ids => match ids.mapM parseHexBytes with
    | some ids =>
      let found := s.liveIds.filter (fun i => ids.contains i)
      (s, if found.isEmpty then "-" else joinWith "," (found.map hexOfBytes))
    | none => (s, "bad-op")
  | ["int", k] => match parseHexBytes k with
    | some k => (s, fmtOpt (s.getInternal k))
    | none => (s, "bad-op")
  | _ => (s, "bad-op")

end Bleve.Drv.C01
