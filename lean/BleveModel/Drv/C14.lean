import BleveModel.Proto
import BleveModel.Model.Files
import BleveModel.Drv.C12
namespace Bleve.Drv.C14
open Bleve.Proto Bleve.Durable

/-- the directory a copy wrote: it must be the model's `copyOf` of its single record -/
def copyDir (recs : List String) (listing : List String) : String :=
  match recs.mapM Bleve.Drv.C03.parseRec with
  | some [r] =>
    let d : D := { bolt := [r], present := listing, acked := 0 }
    if recover d != some r then "BAD:copy-does-not-load-its-snapshot"
    else if Bleve.Drv.C12.sortStrs listing != Bleve.Drv.C12.sortStrs (Bleve.Drv.C12.dedup r.files) then "BAD:copy-holds-other-files"
    else "ok"
  | some rs => s!"BAD:copy-has-{rs.length}-snapshots"
  | none => "bad-op"

def step (st : Bleve.Drv.C04.S) (toks : List String) : Bleve.Drv.C04.S × String :=
  match toks with
  | "copydir" :: rest =>
    let recs := rest.takeWhile (· != "|")
    let listing := (rest.dropWhile (· != "|")).drop 1
    (st, copyDir recs listing)
  | "echo" :: rest => (st, " ".intercalate rest)
  | _ => Bleve.Drv.C04.step st toks
end Bleve.Drv.C14
