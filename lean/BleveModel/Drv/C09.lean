import BleveModel.Proto
import BleveModel.Model.Alias
import BleveModel.Drv.C06
import BleveModel.Drv.C10
/-! Driver for the alias correspondence (C09). -/
namespace Bleve.Drv.C09
open Bleve.Proto Bleve.Collector Bleve.Alias Bleve.Facet

/-- parse `n` hits: score idhex key*nsort ; hit numbers are assigned globally -/
def parseHits (nsort : Nat) : Nat → Nat → List String → Option (List (Match × List Nat) × List String)
  | 0, _, rest => some ([], rest)
  | n+1, base, sc :: id :: rest =>
    match parseInt sc, parseHexBytes id, C06.takeN nsort rest with
    | some sc, some id, some (ks, rest') =>
      match ks.mapM parseHexBytes, parseHits nsort n (base + 1) rest' with
      | some ks, some (ms, rest'') => some ((⟨base, sc, ks⟩, id) :: ms, rest'')
      | _, _ => none
    | _, _, _ => none
  | _, _, _ => none

def parseChildren (nsort : Nat) : Nat → Nat → List String →
    Option (List (ChildResult × List (Nat × List Nat)) × List String)
  | 0, _, rest => some ([], rest)
  | n+1, base, tot :: mx :: nh :: rest =>
    match parseNat tot, parseInt mx, parseNat nh with
    | some tot, some mx, some nh =>
      match parseHits nsort nh base rest with
      | some (hs, rest') =>
        match parseChildren nsort n (base + nh) rest' with
        | some (cs, rest'') =>
          some ((⟨hs.map (·.1), tot, mx⟩, hs.map (fun p => (p.1.hit, p.2))) :: cs, rest'')
        | none => none
      | none => none
    | _, _, _ => none
  | _, _, _ => none

def parseBuckets (s : String) : Option (List Bucket) :=
  if s == "-" then some []
  else (s.splitOn ",").mapM (fun p => match p.splitOn ":" with
    | [n, c] => match parseHexBytes n, parseNat c with
      | some n, some c => some ⟨n, c⟩
      | _, _ => none
    | _ => none)

def parseFacets : Nat → List String → Option (List FacetResult)
  | 0, _ => some []
  | n+1, t :: m :: o :: b :: rest =>
    match parseNat t, parseNat m, parseNat o, parseBuckets b, parseFacets n rest with
    | some t, some m, some o, some b, some fs => some (⟨t, m, o, b⟩ :: fs)
    | _, _, _, _, _ => none
  | _, _ => none

def step (toks : List String) : String :=
  match toks with
  | "echo" :: rest => joinWith " " rest
  | "amerge" :: size :: from_ :: nsort :: rest =>
    match parseNat size, parseNat from_, parseNat nsort with
    | some size, some from_, some nsort =>
      match C06.takeN nsort rest with
      | some (specToks, nc :: rest') =>
        match specToks.mapM C06.parseSpec, parseNat nc with
        | some so, some nc =>
          match parseChildren nsort nc 1 rest' with
          | some (cs, _) =>
            let ids := (cs.map (·.2)).flatten
            let r := multiSearch so size from_ (cs.map (·.1))
            let hs := r.hits.map (fun m => hexOfBytes (((ids.find? (fun p => p.1 == m.hit)).map (·.2)).getD []))
            toString r.total ++ " " ++ (if hs.isEmpty then "-" else joinWith "," hs)
          | none => "bad-op"
        | _, _ => "bad-op"
      | _ => "bad-op"
    | _, _, _ => "bad-op"
  | "fmerge" :: size :: nc :: rest =>
    match parseNat size, parseNat nc with
    | some size, some nc =>
      match parseFacets nc rest with
      | some fs => match mergeFacets size fs with
        | some f => C10.fmtResult f
        | none => "none"
      | none => "bad-op"
    | _, _ => "bad-op"
  | _ => "bad-op"

end Bleve.Drv.C09
