import BleveModel.Proto
import BleveModel.Model.KV
/-! Stateful driver for the KV adapter correspondence (C15). -/
namespace Bleve.Drv.C15
open Bleve.Proto Bleve.KV

structure S where
  store : Store := []
  readers : List (Nat × Store) := []
  iters : List (Nat × (Store × Iter)) := []

def lookup {β : Type} (l : List (Nat × β)) (k : Nat) : Option β := (l.find? (fun p => p.1 == k)).map (·.2)
def upsert {β : Type} (l : List (Nat × β)) (k : Nat) (v : β) : List (Nat × β) :=
  (k, v) :: l.filter (fun p => p.1 != k)

def parseOps : List String → Option (List Op)
  | [] => some []
  | "s" :: k :: v :: rest => match parseHexBytes k, parseHexBytes v, parseOps rest with
    | some k, some v, some r => some (.set k v :: r)
    | _, _, _ => none
  | "d" :: k :: rest => match parseHexBytes k, parseOps rest with
    | some k, some r => some (.del k :: r)
    | _, _ => none
  | "m" :: k :: v :: rest => match parseHexBytes k, parseHexBytes v, parseOps rest with
    | some k, some v, some r => some (.merge k v :: r)
    | _, _, _ => none
  | _ => none

def optBytes (s : String) : Option (Option Bytes) :=
  if s == "nil" then some none else (parseHexBytes s).map some

def cur (it : Iter) : String :=
  match it.current with
  | some (k, v) => hexOfBytes k ++ "=" ++ hexOfBytes v
  | none => "invalid"

def fmtGet (o : Option Bytes) : String := match o with | some v => hexOfBytes v | none => "nil"

def step (st : S) (toks : List String) : S × String :=
  match toks with
  | ["open"] => ({}, "ok")
  | "batch" :: rest => match parseOps rest with
    | some ops => ({ st with store := execBatch st.store ops }, "ok")
    | none => (st, "bad-op")
  | ["reader", rid] => match parseNat rid with
    | some rid => ({ st with readers := upsert st.readers rid st.store }, "ok")
    | none => (st, "bad-op")
  | ["get", rid, k] => match parseNat rid, parseHexBytes k with
    | some rid, some k => match lookup st.readers rid with
      | some snap => (st, fmtGet (get snap k))
      | none => (st, "bad-op")
    | _, _ => (st, "bad-op")
  | "mget" :: rid :: ks => match parseNat rid, ks.mapM parseHexBytes with
    | some rid, some ks => match lookup st.readers rid with
      | some snap => (st, joinWith "," (ks.map (fun k => fmtGet (get snap k))))
      | none => (st, "bad-op")
    | _, _ => (st, "bad-op")
  | ["piter", rid, iid, p] => match parseNat rid, parseNat iid, parseHexBytes p with
    | some rid, some iid, some p => match lookup st.readers rid with
      | some snap =>
        let it := prefixIter snap p
        ({ st with iters := upsert st.iters iid (snap, it) }, cur it)
      | none => (st, "bad-op")
    | _, _, _ => (st, "bad-op")
  | ["riter", rid, iid, a, b] => match parseNat rid, parseNat iid, optBytes a, optBytes b with
    | some rid, some iid, some a, some b => match lookup st.readers rid with
      | some snap =>
        let it := rangeIter snap a b
        ({ st with iters := upsert st.iters iid (snap, it) }, cur it)
      | none => (st, "bad-op")
    | _, _, _, _ => (st, "bad-op")
  | ["seek", iid, k] => match parseNat iid, parseHexBytes k with
    | some iid, some k => match lookup st.iters iid with
      | some (snap, it) =>
        let it' := it.seek snap k
        ({ st with iters := upsert st.iters iid (snap, it') }, cur it')
      | none => (st, "bad-op")
    | _, _ => (st, "bad-op")
  | ["next", iid] => match parseNat iid with
    | some iid => match lookup st.iters iid with
      | some (snap, it) =>
        let it' := it.next
        ({ st with iters := upsert st.iters iid (snap, it') }, cur it')
      | none => (st, "bad-op")
    | none => (st, "bad-op")
  | _ => (st, "bad-op")

end Bleve.Drv.C15
