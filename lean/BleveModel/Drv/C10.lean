import BleveModel.Proto
import BleveModel.Model.Facet
/-! Driver for the facet correspondence (C10). -/
namespace Bleve.Drv.C10
open Bleve.Proto Bleve.Facet

def parseTermList (s : String) : Option (List Bytes) :=
  if s == "-" then some []
  else (s.splitOn ",").mapM (fun p => if p == "e" then some [] else parseHexBytes p)

def fmtResult (r : FacetResult) : String :=
  let bs := r.listed.map (fun b => hexOfBytes b.name ++ ":" ++ toString b.count)
  toString r.total ++ " " ++ toString r.missing ++ " " ++ toString r.other ++ " " ++
    (if bs.isEmpty then "-" else joinWith "," bs)

def optW (s : String) : Option (Option Numeric.W) :=
  if s == "nil" then some none else (parseW s).map some
def optI (s : String) : Option (Option Int) :=
  if s == "nil" then some none else (parseInt s).map some

def parseNumRanges : Nat → List String → Option (List NumRange × List String)
  | 0, rest => some ([], rest)
  | n+1, name :: mn :: mx :: rest =>
    match parseHexBytes name, optW mn, optW mx, parseNumRanges n rest with
    | some name, some mn, some mx, some (rs, rest') => some (⟨name, mn, mx⟩ :: rs, rest')
    | _, _, _, _ => none
  | _, _ => none

def parseDateRanges : Nat → List String → Option (List DateRange × List String)
  | 0, rest => some ([], rest)
  | n+1, name :: a :: b :: rest =>
    match parseHexBytes name, optI a, optI b, parseDateRanges n rest with
    | some name, some a, some b, some (rs, rest') => some (⟨name, a, b⟩ :: rs, rest')
    | _, _, _, _ => none
  | _, _ => none

def step (toks : List String) : String :=
  match toks with
  | "tfacet" :: size :: pfx :: accept :: nd :: docs =>
    match parseNat size, parseHexBytes pfx, parseNat nd, docs.mapM parseTermList with
    | some size, some pfx, some nd, some docs =>
      let acc : Option (Option (List Bytes)) :=
        if accept == "*" then some none else (parseTermList accept).map some
      match acc with
      | some acc =>
        if docs.length != nd then "bad-op" else
        -- doc values hold each distinct term of a document once
        fmtResult (termsFacet ⟨size, pfx, acc⟩ (docs.map List.eraseDups))
      | none => "bad-op"
    | _, _, _, _ => "bad-op"
  | "nfacet" :: size :: nr :: rest =>
    match parseNat size, parseNat nr with
    | some size, some nr =>
      match parseNumRanges nr rest with
      | some (ranges, nd :: docs) =>
        match parseNat nd, docs.mapM (fun d => if d == "-" then some [] else (d.splitOn ",").mapM parseW) with
        | some nd, some docs =>
          if docs.length != nd then "bad-op" else
          fmtResult (numFacet size ranges (docs.map (fun vs => (vs.eraseDups.map numericTerms).flatten)))
        | _, _ => "bad-op"
      | _ => "bad-op"
    | _, _ => "bad-op"
  | "dfacet" :: size :: nr :: rest =>
    match parseNat size, parseNat nr with
    | some size, some nr =>
      match parseDateRanges nr rest with
      | some (ranges, nd :: docs) =>
        match parseNat nd, docs.mapM (fun d => if d == "-" then some [] else (d.splitOn ",").mapM parseInt) with
        | some nd, some docs =>
          if docs.length != nd then "bad-op" else
          fmtResult (dateFacet size ranges (docs.map (fun vs => (vs.eraseDups.map dateTerms).flatten)))
        | _, _ => "bad-op"
      | _ => "bad-op"
    | _, _ => "bad-op"
  | _ => "bad-op"

end Bleve.Drv.C10
