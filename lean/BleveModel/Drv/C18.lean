import BleveModel.Proto
import BleveModel.Model.Geo
namespace Bleve.Drv.C18
open Bleve.Proto Bleve.Geo

def step (toks : List String) : String :=
  match toks with
  | "echo" :: rest => joinWith " " rest
  | ["il", a, b] => match parseHexNat a, parseHexNat b with
    | some a, some b => hex16 (interleave64 (a % 2^32) (b % 2^32))
    | _, _ => "bad-op"
  | ["dil", h] => match parseHexNat h with
    | some h => hex16 (deinterleave64 h)
    | none => "bad-op"
  | _ => "bad-op"
end Bleve.Drv.C18
