import BleveModel.Proto
import BleveModel.Model.Nested
namespace Bleve.Drv.C20
open Bleve.Proto Bleve.Nested

def parsePairs : Nat → List String → Option (List (Name × Term) × List String)
  | 0, rest => some ([], rest)
  | n+1, f :: t :: rest => match parseHexBytes f, parseHexBytes t, parsePairs n rest with
    | some f, some t, some (ps, r) => some ((f, t) :: ps, r)
    | _, _, _ => none
  | _, _ => none

/-- `-` or hex components joined by `.` -/
def parsePath (s : String) : Option Path :=
  if s == "-" then some [] else (s.splitOn ".").mapM parseHexBytes

/-- `-` or decimal indexes joined by `.` -/
def parseIdx (s : String) : Option (List Nat) :=
  if s == "-" then some [] else (s.splitOn ".").mapM parseNat

def parseNodes : Nat → List String → Option (List Node × List String)
  | 0, rest => some ([], rest)
  | n+1, ap :: ix :: nf :: rest => match parsePath ap, parseIdx ix, parseNat nf with
    | some ap, some ix, some nf => match parsePairs nf rest with
      | some (fs, r) => match parseNodes n r with
        | some (ns, r') => some (⟨ap, ix, fs⟩ :: ns, r')
        | none => none
      | none => none
    | _, _, _ => none
  | _, _ => none

def parseDocs : Nat → List String → Option (List Doc × List String)
  | 0, rest => some ([], rest)
  | n+1, id :: nn :: rest => match parseHexBytes id, parseNat nn with
    | some id, some nn => match parseNodes nn rest with
      | some (ns, r) => match parseDocs n r with
        | some (ds, r') => some (⟨id, ns⟩ :: ds, r')
        | none => none
      | none => none
    | _, _ => none
  | _, _ => none

mutual
  def parseQ : Nat → List String → Option (Q × List String)
    | 0, _ => none
    | fuel+1, toks => match toks with
      | "T" :: a :: f :: t :: rest => match parsePath a, parseHexBytes f, parseHexBytes t with
        | some a, some f, some t => some (.term a f t, rest)
        | _, _, _ => none
      | "C" :: n :: rest => match parseNat n with
        | some n => match parseQs fuel n rest with
          | some (qs, r) => some (.conj qs, r)
          | none => none
        | none => none
      | "D" :: mn :: n :: rest => match parseNat mn, parseNat n with
        | some mn, some n => match parseQs fuel n rest with
          | some (qs, r) => some (.disj mn qs, r)
          | none => none
        | _, _ => none
      | "O" :: nm :: rest => match parseNat nm with
        | some nm => match parseQs fuel nm rest with
          | some (m, ns :: r1) => match parseNat ns with
            | some ns => match parseQs fuel ns r1 with
              | some (s, nn :: r2) => match parseNat nn with
                | some nn => match parseQs fuel nn r2 with
                  | some (n, ms :: r3) => match parseNat ms with
                    | some ms => some (.bool m s n ms, r3)
                    | none => none
                  | _ => none
                | none => none
              | _ => none
            | none => none
          | _ => none
        | none => none
      | _ => none
  def parseQs : Nat → Nat → List String → Option (List Q × List String)
    | _, 0, rest => some ([], rest)
    | 0, _, _ => none
    | fuel+1, n+1, rest => match parseQ fuel rest with
      | some (q, r) => match parseQs fuel n r with
        | some (qs, r') => some (q :: qs, r')
        | none => none
      | none => none
end

def step (toks : List String) : String :=
  match toks with
  | "echo" :: rest => joinWith " " rest
  | "nsearch" :: nested :: nd :: rest => match parseBool nested, parseNat nd with
    | some nested, some nd => match parseDocs nd rest with
      | some (docs, "|" :: qt) => match parseQ (qt.length + 1) qt with
        | some (q, []) =>
          let ids := search nested q docs
          toString ids.length ++ " " ++ (if ids.isEmpty then "-" else joinWith "," (ids.map hexOfBytes))
        | _ => "bad-op"
      | _ => "bad-op"
    | _, _ => "bad-op"
  | _ => "bad-op"
end Bleve.Drv.C20
