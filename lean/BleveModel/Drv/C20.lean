import BleveModel.Proto
import BleveModel.Model.Nested
namespace Bleve.Drv.C20
open Bleve.Proto Bleve.Nested

def parsePairs : Nat → List String → Option (Obj × List String)
  | 0, rest => some ([], rest)
  | n+1, f :: t :: rest => match parseHexBytes f, parseHexBytes t, parsePairs n rest with
    | some f, some t, some (ps, r) => some ((f, t) :: ps, r)
    | _, _, _ => none
  | _, _ => none

def parseObjs : Nat → List String → Option (List Obj × List String)
  | 0, rest => some ([], rest)
  | n+1, np :: rest => match parseNat np with
    | some np => match parsePairs np rest with
      | some (o, r) => match parseObjs n r with
        | some (os, r') => some (o :: os, r')
        | none => none
      | none => none
    | none => none
  | _, [] => none

def parseArrays : Nat → List String → Option (List (Name × List Obj) × List String)
  | 0, rest => some ([], rest)
  | n+1, a :: ne :: rest => match parseHexBytes a, parseNat ne with
    | some a, some ne => match parseObjs ne rest with
      | some (os, r) => match parseArrays n r with
        | some (as, r') => some ((a, os) :: as, r')
        | none => none
      | none => none
    | _, _ => none
  | _, _ => none

def parseDocs : Nat → List String → Option (List Doc × List String)
  | 0, rest => some ([], rest)
  | n+1, id :: nt :: rest => match parseHexBytes id, parseNat nt with
    | some id, some nt => match parsePairs nt rest with
      | some (top, na :: r) => match parseNat na with
        | some na => match parseArrays na r with
          | some (arrs, r') => match parseDocs n r' with
            | some (ds, r'') => some (⟨id, top, arrs⟩ :: ds, r'')
            | none => none
          | none => none
        | none => none
      | _ => none
    | _, _ => none
  | _, _ => none

mutual
  def parseQ : Nat → List String → Option (Q × List String)
    | 0, _ => none
    | fuel+1, toks => match toks with
      | "T" :: a :: f :: t :: rest => match parseHexBytes a, parseHexBytes f, parseHexBytes t with
        | some a, some f, some t => some (.term a f t, rest)
        | _, _, _ => none
      | "C" :: n :: rest => match parseNat n with
        | some n => match parseQs fuel n rest with
          | some (qs, r) => some (.conj qs, r)
          | none => none
        | none => none
      | "D" :: mn :: n :: rest => match parseNat mn, parseNat n with
        | some mn, some n => match parseQs fuel n rest with
          | some (qs, r) => some (.disj mn qs, r)
          | none => none
        | _, _ => none
      | "O" :: nm :: rest => match parseNat nm with
        | some nm => match parseQs fuel nm rest with
          | some (m, ns :: r1) => match parseNat ns with
            | some ns => match parseQs fuel ns r1 with
              | some (s, nn :: r2) => match parseNat nn with
                | some nn => match parseQs fuel nn r2 with
                  | some (n, ms :: r3) => match parseNat ms with
                    | some ms => some (.bool m s n ms, r3)
                    | none => none
                  | _ => none
                | none => none
              | _ => none
            | none => none
          | _ => none
        | none => none
      | _ => none
  def parseQs : Nat → Nat → List String → Option (List Q × List String)
    | _, 0, rest => some ([], rest)
    | 0, _, _ => none
    | fuel+1, n+1, rest => match parseQ fuel rest with
      | some (q, r) => match parseQs fuel n r with
        | some (qs, r') => some (q :: qs, r')
        | none => none
      | none => none
end

def step (toks : List String) : String :=
  match toks with
  | "echo" :: rest => joinWith " " rest
  | "nsearch" :: nested :: nd :: rest => match parseBool nested, parseNat nd with
    | some nested, some nd => match parseDocs nd rest with
      | some (docs, "|" :: qt) => match parseQ (qt.length + 1) qt with
        | some (q, []) =>
          let ids := search nested q docs
          toString ids.length ++ " " ++ (if ids.isEmpty then "-" else joinWith "," (ids.map hexOfBytes))
        | _ => "bad-op"
      | _ => "bad-op"
    | _, _ => "bad-op"
  | _ => "bad-op"
end Bleve.Drv.C20
