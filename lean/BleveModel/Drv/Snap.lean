import BleveModel.Proto
import BleveModel.Model.Snapshot
/-! Driver for the step-by-step refinement check of scorch's introducer against the snapshot model. -/
namespace Bleve.Drv.Snap
open Bleve.Proto Bleve.Snapshot
open Bleve.KV (Bytes)

/-- segment token: `sid:doc,doc,…:del,del,…` (docs as hex ids, `-` for none) -/
def parseSeg (s : String) : Option Seg :=
  match s.splitOn ":" with
  | [sid, docs, del] =>
    match parseNat sid with
    | some sid =>
      let ds : Option (List Bytes) := if docs == "-" then some [] else (docs.splitOn ",").mapM parseHexBytes
      let dl : Option (List Nat) := if del == "-" then some [] else (del.splitOn ",").mapM parseNat
      match ds, dl with
      | some ds, some dl =>
        -- the content of a document is its physical identity: segment id and local number
        some ⟨sid, ds.zipIdx.map (fun p => (p.1, [sid, p.2])), dl⟩
      | _, _ => none
    | none => none
  | _ => none

def insertSortedNat (x : Nat) : List Nat → List Nat
  | [] => [x]
  | y :: ys => if x ≤ y then x :: y :: ys else y :: insertSortedNat x ys

def fmtSeg (s : Seg) : String :=
  let ds := s.docs.map (fun p => hexOfBytes p.1)
  let dl := (s.del.foldl (fun acc n => insertSortedNat n acc) []).eraseDups
  toString s.sid ++ ":" ++ (if ds.isEmpty then "-" else joinWith "," ds) ++ ":" ++
    (if dl.isEmpty then "-" else joinWith "," (dl.map toString))

def fmtSnap (r : Snap) : String := if r.isEmpty then "empty" else joinWith " " (r.map fmtSeg)

def splitBar (toks : List String) : List String × List String :=
  (toks.takeWhile (· != "|"), (toks.dropWhile (· != "|")).drop 1)

def bytesLe : Bytes → Bytes → Bool
  | [], _ => true
  | _ :: _, [] => false
  | a :: as, b :: bs => if a < b then true else if a > b then false else bytesLe as bs

def insertSortedB (x : Bytes × Bytes) : List (Bytes × Bytes) → List (Bytes × Bytes)
  | [] => [x]
  | y :: ys => if bytesLe x.1 y.1 then x :: y :: ys else y :: insertSortedB x ys

def sortedLive (r : Snap) : List (Bytes × Bytes) := (liveDocs r).foldl (fun acc p => insertSortedB p acc) []

def step (toks : List String) : String :=
  match toks with
  | "echo" :: rest => joinWith " " rest
  -- intro <newSid> <pre segs…> | <batch: i:<id> (indexed, in new-segment order) or d:<id> (deleted)…>
  | "intro" :: sid :: rest =>
    let (preT, batchT) := splitBar rest
    match parseNat sid, preT.mapM parseSeg with
    | some sid, some pre =>
      let b : Option Batch := batchT.mapM (fun t =>
        if t.startsWith "i:" then (parseHexBytes (t.drop 2).toString).map (fun id => (id, some [0]))
        else if t.startsWith "d:" then (parseHexBytes (t.drop 2).toString).map (fun id => (id, none))
        else none)
      match b with
      | some b =>
        -- contents of the new documents: their physical identity in the new segment
        let idx := (b.filter (fun p => p.2.isSome)).zipIdx
        let b' : Batch := b.map (fun p => match p.2 with
          | some _ => (p.1, some [sid, ((idx.find? (fun q => q.1.1 == p.1)).map (·.2)).getD 0])
          | none => p)
        fmtSnap (introduce pre b' sid)
      | none => "bad-op"
    | _, _ => "bad-op"
  -- same <pre segs…> | <post segs…> : a merge or persist must keep the live documents (as a set) and the invariant
  | "same" :: rest =>
    let (preT, postT) := splitBar rest
    match preT.mapM parseSeg, postT.mapM parseSeg with
    | some pre, some post =>
      let a := (sortedLive pre).map (·.1)
      let b := (sortedLive post).map (·.1)
      if a != b then "live-ids-differ"
      else if b.eraseDups.length != b.length then "duplicate-live-id"
      else "ok"
    | _, _ => "bad-op"
  | _ => "bad-op"

end Bleve.Drv.Snap
