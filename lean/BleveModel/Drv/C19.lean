import BleveModel.Proto
import BleveModel.Model.Text
namespace Bleve.Drv.C19
open Bleve.Proto Bleve.Text

def parseRune (s : String) : Option (Nat × Nat) :=
  match s.splitOn ":" with
  | [a, b] => match parseNat a, parseNat b with
    | some a, some b => some (a, b)
    | _, _ => none
  | _ => none

def step (toks : List String) : String :=
  match toks with
  | "echo" :: rest => joinWith " " rest
  | "ctok" :: rs => match rs.mapM parseRune with
    | some runes =>
      let ts := charTokenize runes
      if ts.isEmpty then "-" else joinWith "," (ts.map (fun t => s!"{t.start}-{t.stop}-{t.pos}"))
    | none => "bad-op"
  | _ => "bad-op"
end Bleve.Drv.C19
