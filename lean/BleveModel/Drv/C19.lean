import BleveModel.Proto
import BleveModel.Model.Text
import BleveModel.Model.Highlight
namespace Bleve.Drv.C19
open Bleve.Proto Bleve.Text Bleve.Highlight

def parseRune (s : String) : Option (Nat × Nat) :=
  match s.splitOn ":" with
  | [a, b] => match parseNat a, parseNat b with
    | some a, some b => some (a, b)
    | _, _ => none
  | _ => none

/-- `s:e:ap` or `nil` -/
def parseLocO (s : String) : Option (Option Loc) :=
  if s == "nil" then some none else
  match s.splitOn ":" with
  | [a, b, c] => match parseInt a, parseInt b, parseNat c with
    | some a, some b, some c => some (some ⟨a, b, c⟩)
    | _, _, _ => none
  | _ => none

/-- comma separated, "-" = none -/
def parseLocsO (s : String) : Option (List (Option Loc)) :=
  if s == "-" then some [] else (s.splitOn ",").mapM parseLocO

def parseLocs (s : String) : Option (List Loc) :=
  match parseLocsO s with
  | some l => l.mapM id
  | none => none

def showLocO : Option Loc → String
  | none => "nil"
  | some l => s!"{l.start}:{l.stop}:{l.ap}"

def showFrags (fs : List Frag) : String :=
  if fs.isEmpty then "-" else joinWith "," (fs.map (fun f => s!"{f.start}-{f.stop}"))

def step (toks : List String) : String :=
  match toks with
  | "echo" :: rest => joinWith " " rest
  | "ctok" :: rs => match rs.mapM parseRune with
    | some runes =>
      let ts := charTokenize runes
      if ts.isEmpty then "-" else joinWith "," (ts.map (fun t => s!"{t.start}-{t.stop}-{t.pos}"))
    | none => "bad-op"
  | ["hfrag", size, orig, locs] =>
    match parseInt size, parseHexBytes orig, parseLocs locs with
    | some size, some orig, some locs =>
      match fragment orig size locs with
      | .ok fs => showFrags fs
      | .bail => "BAIL"
      | .panic => "PANIC"
    | _, _, _ => "bad-op"
  | ["hmerge", locs] =>
    match parseLocs locs with
    | some locs => let m := mergeOverlapping locs
      if m.isEmpty then "-" else joinWith "," (m.map showLocO)
    | none => "bad-op"
  | ["hfmt", esc, before, after, orig, fs, fe, fap, locs] =>
    match parseBool esc, parseHexBytes before, parseHexBytes after, parseHexBytes orig, parseNat fs, parseNat fe, parseNat fap, parseLocsO locs with
    | some esc, some before, some after, some orig, some fs, some fe, some fap, some locs =>
      match render orig esc before after (format ⟨fs, fe⟩ fap locs) with
      | some out => hexOfBytes out
      | none => "PANIC"
    | _, _, _, _, _, _, _, _ => "bad-op"
  | ["hlcheck", stored, locs, frag] =>
    match parseHexBytes stored, parseLocs locs, parseHexBytes frag with
    | some stored, some locs, some frag => fragmentOK stored locs frag
    | _, _, _ => "bad-op"
  | ["hdec", p] =>
    match parseHexBytes p with
    | some p => let a := decodeRune p; let b := decodeLastRune p
      s!"{boolStr a.1}:{a.2} {boolStr b.1}:{b.2} {runeCount p}"
    | none => "bad-op"
  | _ => "bad-op"
end Bleve.Drv.C19
