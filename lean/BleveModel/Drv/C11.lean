import BleveModel.Proto
import BleveModel.Model.Lifecycle
namespace Bleve.Drv.C11
open Bleve.Proto Bleve.Lifecycle

structure S where
  close : Option (Nat × Nat) := none     -- the Close that succeeded
  closes : Nat := 0

def parseRes (s : String) : Res :=
  if s == "ok" then .ok else if s == "closed" then .closed else if s == "ctx" then .ctx
  else if s == "refused" || s == "void" then .refused else .bad

def step (st : S) (toks : List String) : S × String :=
  match toks with
  | ["reset"] => ({}, "ok")
  | ["close", _, cs, ce, res] => match parseNat cs, parseNat ce with
    | some cs, some ce =>
      match parseRes res with
      | .ok => if st.close.isSome then (st, "BAD:two-closes-succeeded") else ({ st with close := some (cs, ce), closes := st.closes + 1 }, "ok")
      | .closed => ({ st with closes := st.closes + 1 }, "ok")
      | _ => (st, "BAD:close-" ++ res)
    | _, _ => (st, "bad-op")
  | ["call", _, _, s, e, res] => match parseNat s, parseNat e with
    | some s, some e => (st, if verdict st.close s e (parseRes res) then "ok" else "BAD:" ++ res ++
        (match st.close with
         | some (_, ce) => if s > ce then "-after-close" else "-before-close"
         | none => "-no-close"))
    | _, _ => (st, "bad-op")
  | ["closed-in-time", v] => (st, if v == "yes" then "ok" else "BAD:close-did-not-return")
  | ["calls-returned", v] => (st, if v == "yes" then "ok" else "BAD:a-call-never-returned")
  | ["goroutines-left", n] => (st, if n == "0" then "ok" else "BAD:background-work-after-close")
  | "echo" :: rest => (st, " ".intercalate rest)
  | _ => (st, "bad-op")
end Bleve.Drv.C11
