import BleveModel.Proto
import BleveModel.Model.Collector
/-! Driver for the collector correspondence (C06). -/
namespace Bleve.Drv.C06
open Bleve.Proto Bleve.Collector

def parseSpec (s : String) : Option SortSpec :=
  match s.toList with
  | ['S', d] => some ⟨.score, d == '-'⟩
  | ['I', d] => some ⟨.id, d == '-'⟩
  | ['F', ty, mode, miss, d] =>
    let ty? : Option SType := match ty with
      | 'a' => some .auto | 's' => some .str | 'n' => some .num | 'd' => some .date | _ => none
    let mode? : Option SMode := match mode with
      | '0' => some .dflt | 'm' => some .min | 'M' => some .max | _ => none
    match ty?, mode? with
    | some ty, some mode => some ⟨.field ty mode (miss == 'f'), d == '-'⟩
    | _, _ => none
  | _ => none

def parseTerms (s : String) : Option (List (List Nat)) :=
  if s == "-" then some []
  else (s.splitOn ",").mapM (fun p => if p == "e" then some [] else parseHexBytes p)

/-- take `n` tokens -/
def takeN (n : Nat) (l : List String) : Option (List String × List String) :=
  if l.length < n then none else some (l.take n, l.drop n)

def parseMatches (nspec : Nat) : Nat → List String → Option (List Raw)
  | 0, _ => some []
  | n+1, sc :: id :: rest =>
    match parseInt sc, parseHexBytes id, takeN nspec rest with
    | some sc, some id, some (fs, rest') =>
      match fs.mapM parseTerms, parseMatches nspec n rest' with
      | some fs, some ms => some (⟨sc, id, fs⟩ :: ms)
      | _, _ => none
    | _, _, _ => none
  | _, _ => none

def fmtResult (r : Result) : String :=
  let hs := r.hits.map (fun m => toString m.hit)
  toString r.total ++ " " ++ toString r.maxScore ++ " " ++ (if hs.isEmpty then "-" else joinWith "," hs)

def step (toks : List String) : String :=
  match toks with
  | "coll" :: size :: skip :: nsort :: rest =>
    match parseNat size, parseNat skip, parseNat nsort with
    | some size, some skip, some nsort =>
      match takeN nsort rest with
      | some (specToks, rest) =>
        match specToks.mapM parseSpec with
        | some so =>
          -- after
          let afterRes : Option (Option Match × List String) :=
            match rest with
            | "-" :: rest' => some (none, rest')
            | "A" :: sc :: rest' =>
              match parseInt sc, takeN nsort rest' with
              | some sc, some (ks, rest'') =>
                match ks.mapM parseHexBytes with
                | some ks => some (some ⟨0, sc, ks⟩, rest'')
                | none => none
              | _, _ => none
            | _ => none
          match afterRes with
          | some (after, nm :: rest') =>
            match parseNat nm with
            | some nm =>
              match parseMatches nsort nm rest' with
              | some raws => fmtResult (collect so size skip after (prepare so raws))
              | none => "bad-op"
            | none => "bad-op"
          | _ => "bad-op"
        | none => "bad-op"
      | none => "bad-op"
    | _, _, _ => "bad-op"
  | "e2e" :: mode :: size :: skip :: nsort :: rest =>
    match parseNat size, parseNat skip, parseNat nsort with
    | some size, some skip, some nsort =>
      match takeN nsort rest with
      | some (specToks, rest) =>
        match specToks.mapM parseSpec with
        | some so =>
          let afterRes : Option (Option Match × List String) :=
            match rest with
            | "-" :: rest' => some (none, rest')
            | "A" :: sc :: rest' =>
              match parseInt sc, takeN nsort rest' with
              | some sc, some (ks, rest'') =>
                match ks.mapM parseHexBytes with
                | some ks => some (some ⟨0, sc, ks⟩, rest'')
                | none => none
              | _, _ => none
            | _ => none
          match afterRes with
          | some (after, nm :: rest') =>
            match parseNat nm with
            | some nm =>
              match parseMatches nsort nm rest' with
              | some raws =>
                let ids := raws.map (·.id)
                let fmt (r : Result) : String :=
                  let hs := r.hits.map (fun m => hexOfBytes (ids.getD (m.hit - 1) []))
                  toString r.total ++ " " ++ (if hs.isEmpty then "-" else joinWith "," hs)
                if mode == "b" then
                  match after with
                  | some b =>
                    -- keys are computed under the reversed specification, as the real execution does
                    fmt (searchBefore so size b (prepare (so.map SortSpec.reverse) raws))
                  | none => "bad-op"
                else fmt (collect so size (if after.isSome then 0 else skip) after (prepare so raws))
              | none => "bad-op"
            | none => "bad-op"
          | _ => "bad-op"
        | none => "bad-op"
      | none => "bad-op"
    | _, _, _ => "bad-op"
  | _ => "bad-op"

end Bleve.Drv.C06
