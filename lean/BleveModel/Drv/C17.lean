import BleveModel.Proto
import BleveModel.Model.QueryString
namespace Bleve.Drv.C17
open Bleve.Proto Bleve.QueryString

/-- `cp:d:s` -/
def parseR (s : String) : Option R :=
  match s.splitOn ":" with
  | [a, b, c] => match parseNat a, parseBool b, parseBool c with
    | some a, some b, some c => some ⟨a, b, c⟩
    | _, _, _ => none
  | _ => none

def parseRunes (s : String) : Option (List R) :=
  if s == "-" then some [] else (s.splitOn ",").mapM parseR

def showText (t : Text) : String := joinWith "." (t.map toString)

def ttName : TT → String
  | .STRING => "STRING" | .PHRASE => "PHRASE" | .PLUS => "PLUS" | .MINUS => "MINUS" | .COLON => "COLON"
  | .BOOST => "BOOST" | .NUMBER => "NUMBER" | .GREATER => "GREATER" | .LESS => "LESS" | .EQUAL => "EQUAL"
  | .TILDE => "TILDE" | .NONE => "NONE"

def showToks (ts : List Tok) (err : Bool) : String :=
  let body := if ts.isEmpty then "-" else joinWith "," (ts.map (fun t => s!"{ttName t.ty}:{showText t.text}"))
  if err then body ++ " ERR" else body

def cmpName : Cmp → String
  | .gt => "gt" | .ge => "ge" | .lt => "lt" | .le => "le"

/-- the clause a part's action builds; `none` = the action fails (a parse error), `some none` = not decided here -/
def clause (p : Part) : Option (Option String) :=
  let boost : Option (Option String) := match p.boost with
    | none => some (some "-")
    | some b => match classify b with
      | .simple => (canonDec b).map (fun c => some (showText c))
      | .invalid => none
      | .undecided => some none
  match boost with
  | none => none
  | some none => some none
  | some (some bs) =>
    let fld (f : Option Text) : String := match f with | none => "" | some f => showText f
    match p.base with
    | .str f s => match strKind s with
      | none => none
      | some (.match_, t) => some (some s!"match({fld f},{showText t},48,{bs})")
      | some (.regexp, t) => some (some s!"regexp({fld f},{showText t},{bs})")
      | some (.wildcard, t) => some (some s!"wildcard({fld f},{showText t},{bs})")
    | .fuzzy f s z => match classify z with
      | .simple => (truncDec z).map (fun c => some s!"match({fld f},{showText s},{showText c},{bs})")
      | .invalid => none
      | .undecided => some none
    | .num f n => match classify n with
      | .simple => (canonDec n).map (fun c => some s!"number({fld f},{showText n},{showText c},{bs})")
      | .invalid => none
      | .undecided => some none
    | .phrase f ph => some (some s!"phrase({fld f},{showText ph},{bs})")
    | .cmp f op n => match classify n with
      | .simple => (canonDec n).map (fun c => some s!"range({showText f},{cmpName op},{showText c},{bs})")
      | .invalid => none
      | .undecided => some none
    | .cmpDate _ _ _ => some none

def showParse (input : List R) : String :=
  if input.isEmpty then "NONE" else            -- parseQuerySyntax("") = MatchNoneQuery
  let (toks, err) := lex input
  if err then "ERR" else
  match parts toks with
  | none => "ERR"
  | some ps =>
    let cs := ps.map (fun p => (p.occ, clause p))
    if cs.any (fun c => c.2 == none) then "ERR"
    else if cs.any (fun c => c.2 == some none) then "UNDECIDED"
    else
      let pick (o : Occur) : String := joinWith ";" (cs.filterMap (fun c => if c.1 == o then c.2.join else none))
      s!"M[{pick .must}]S[{pick .should}]N[{pick .mustNot}]"

def step (toks : List String) : String :=
  match toks with
  | "echo" :: rest => joinWith " " rest
  | ["qslex", rs] => match parseRunes rs with
    | some input => let (ts, e) := lex input; showToks ts e
    | none => "bad-op"
  | ["qsparse", rs] => match parseRunes rs with
    | some input => showParse input
    | none => "bad-op"
  | _ => "bad-op"
end Bleve.Drv.C17
