import BleveModel.Proto
import BleveModel.Model.Query
import BleveModel.Model.BoolSearcher
import BleveModel.Model.ConjSearcher
import BleveModel.Model.DisjSearcher
import BleveModel.Model.Phrase
/-! Driver for the search-semantics (C02) and searcher-contract (C08) correspondences. -/
namespace Bleve.Drv.C02
open Bleve.Proto Bleve.Query

def takeParse {β : Type} (f : String → Option β) : Nat → List String → Option (List β × List String)
  | 0, rest => some ([], rest)
  | n+1, t :: rest => match f t, takeParse f n rest with
    | some x, some (xs, r) => some (x :: xs, r)
    | _, _ => none
  | _, [] => none

def parseElems : Nat → List String → Option (List Elem × List String)
  | 0, rest => some ([], rest)
  | n+1, nw :: rest => match parseNat nw with
    | some nw => match takeParse parseHexBytes nw rest with
      | some (ws, rest') => match parseElems n rest' with
        | some (es, r) => some (ws :: es, r)
        | none => none
      | none => none
    | none => none
  | _, [] => none

def parseTexts : Nat → List String → Option (List (List Nat × List Elem) × List String)
  | 0, rest => some ([], rest)
  | n+1, f :: ne :: rest => match parseHexBytes f, parseNat ne with
    | some f, some ne => match parseElems ne rest with
      | some (es, rest') => match parseTexts n rest' with
        | some (ts, r) => some ((f, es) :: ts, r)
        | none => none
      | none => none
    | _, _ => none
  | _, _ => none

def parseNums : Nat → List String → Option (List (List Nat × List Numeric.W) × List String)
  | 0, rest => some ([], rest)
  | n+1, f :: nv :: rest => match parseHexBytes f, parseNat nv with
    | some f, some nv => match takeParse parseW nv rest with
      | some (vs, rest') => match parseNums n rest' with
        | some (ns, r) => some ((f, vs) :: ns, r)
        | none => none
      | none => none
    | _, _ => none
  | _, _ => none

def parseDocs : Nat → List String → Option (List Doc × List String)
  | 0, rest => some ([], rest)
  | n+1, iid :: ext :: nt :: rest => match parseNat iid, parseHexBytes ext, parseNat nt with
    | some iid, some ext, some nt => match parseTexts nt rest with
      | some (ts, nn :: rest') => match parseNat nn with
        | some nn => match parseNums nn rest' with
          | some (ns, rest'') => match parseDocs n rest'' with
            | some (ds, r) => some (⟨iid, ext, ts, ns⟩ :: ds, r)
            | none => none
          | none => none
        | none => none
      | _ => none
    | _, _, _ => none
  | _, _ => none

def optTerm (s : String) : Option (Option Term) := if s == "nil" then some none else (parseHexBytes s).map some
def optW (s : String) : Option (Option Numeric.W) := if s == "nil" then some none else (parseW s).map some
def optB (s : String) : Option (Option Bool) := if s == "nil" then some none else (parseBool s).map some

mutual
  def parseQ : Nat → List String → Option (Q × List String)
    | 0, _ => none
    | fuel+1, toks =>
      match toks with
      | "T" :: f :: t :: rest => match parseHexBytes f, parseHexBytes t with
        | some f, some t => some (.term f t, rest)
        | _, _ => none
      | "P" :: f :: n :: rest => match parseHexBytes f, parseNat n with
        | some f, some n => match takeParse parseHexBytes n rest with
          | some (ts, r) => some (.phrase f ts, r)
          | none => none
        | _, _ => none
      | "X" :: f :: p :: rest => match parseHexBytes f, parseHexBytes p with
        | some f, some p => some (.pfx f p, rest)
        | _, _ => none
      | "W" :: f :: n :: rest => match parseHexBytes f, parseNat n with
        | some f, some n => match takeParse parseHexBytes n rest with
          | some (ts, r) => some (.anyOf f ts, r)
          | none => none
        | _, _ => none
      | "R" :: f :: lo :: hi :: il :: ih :: rest =>
        match parseHexBytes f, optTerm lo, optTerm hi, parseBool il, parseBool ih with
        | some f, some lo, some hi, some il, some ih => some (.termRange f lo hi il ih, rest)
        | _, _, _, _, _ => none
      | "N" :: f :: mn :: mx :: il :: ih :: rest =>
        match parseHexBytes f, optW mn, optW mx, optB il, optB ih with
        | some f, some mn, some mx, some il, some ih => some (.numRange f mn mx il ih, rest)
        | _, _, _, _, _ => none
      | "I" :: n :: rest => match parseNat n with
        | some n => match takeParse parseHexBytes n rest with
          | some (ids, r) => some (.docIds ids, r)
          | none => none
        | none => none
      | "A" :: rest => some (.all, rest)
      | "Z" :: rest => some (.none, rest)
      | "C" :: n :: rest => match parseNat n with
        | some n => match parseQs fuel n rest with
          | some (qs, r) => some (.conj qs, r)
          | none => none
        | none => none
      | "D" :: mn :: n :: rest => match parseNat mn, parseNat n with
        | some mn, some n => match parseQs fuel n rest with
          | some (qs, r) => some (.disj mn qs, r)
          | none => none
        | _, _ => none
      | "O" :: rest =>
        match parseOpt fuel rest with
        | some (m, r1) => match parseOpt fuel r1 with
          | some (s, r2) => match parseOpt fuel r2 with
            | some (n, r3) => match parseOpt fuel r3 with
              | some (f, r4) => some (.bool m s n f, r4)
              | none => none
            | none => none
          | none => none
        | none => none
      | _ => none
  def parseQs : Nat → Nat → List String → Option (List Q × List String)
    | _, 0, rest => some ([], rest)
    | 0, _, _ => none
    | fuel+1, n+1, rest => match parseQ fuel rest with
      | some (q, r) => match parseQs fuel n r with
        | some (qs, r') => some (q :: qs, r')
        | none => none
      | none => none
  def parseOpt : Nat → List String → Option (Option Q × List String)
    | _, "0" :: rest => some (none, rest)
    | 0, _ => none
    | fuel+1, "1" :: rest => match parseQ fuel rest with
      | some (q, r) => some (some q, r)
      | none => none
    | _, _ => none
end

def parseCalls : List String → Option (List Call)
  | [] => some []
  | "N" :: rest => (parseCalls rest).map (Call.next :: ·)
  | "A" :: t :: rest => match parseNat t, parseCalls rest with
    | some t, some cs => some (Call.adv t :: cs)
    | _, _ => none
  | _ => none

/-- `phrase <slop> <nparts> {<nalts> alt*} <nterms> {term nlocs {pos:ap}*}` -/
def parseAlts : Nat → List String → Option (List Phrase.Term × List String)
  | 0, rest => some ([], rest)
  | n+1, a :: rest => match parseHexBytes a, parseAlts n rest with
    | some a, some (as, r) => some (a :: as, r)
    | _, _ => none
  | _, [] => none

def parseParts : Nat → List String → Option (List (List Phrase.Term) × List String)
  | 0, rest => some ([], rest)
  | n+1, na :: rest => match parseNat na with
    | some na => match parseAlts na rest with
      | some (alts, r) => match parseParts n r with
        | some (ps, r') => some (alts :: ps, r')
        | none => none
      | none => none
    | none => none
  | _, [] => none

def parsePLoc (s : String) : Option Phrase.Loc :=
  match s.splitOn ":" with
  | [a, b] => match parseNat a, parseNat b with
    | some a, some b => some ⟨a, b⟩
    | _, _ => none
  | _ => none

def parseTLM : Nat → List String → Option (Phrase.TLM × List String)
  | 0, rest => some ([], rest)
  | n+1, t :: nl :: rest => match parseHexBytes t, parseNat nl with
    | some t, some nl => match (rest.take nl).mapM parsePLoc, parseTLM n (rest.drop nl) with
      | some ls, some (m, r) => if (rest.take nl).length == nl then some ((t, ls) :: m, r) else none
      | _, _ => none
    | _, _ => none
  | _, _ => none

def showPaths (ps : List Phrase.Path) : String :=
  if ps.isEmpty then "-" else
  joinWith ";" (ps.map (fun p => joinWith "," (p.map (fun x => s!"{hexOfBytes x.term}:{x.idx}"))))

def phraseOp (toks : List String) : String :=
  match toks with
  | slop :: np :: rest => match parseInt slop, parseNat np with
    | some slop, some np => match parseParts np rest with
      | some (parts, nt :: r) => match parseNat nt with
        | some nt => match parseTLM nt r with
          | some (tlm, []) => showPaths (Phrase.phrasePaths tlm parts slop)
          | _ => "bad-op"
        | none => "bad-op"
      | _ => "bad-op"
    | _, _ => "bad-op"
  | _ => "bad-op"

def step (toks : List String) : String :=
  match toks with
  | "phrase" :: rest => phraseOp rest
  | "search" :: nd :: rest => match parseNat nd with
    | some nd => match parseDocs nd rest with
      | some (docs, "|" :: qt) => match parseQ (qt.length + 1) qt with
        | some (q, []) =>
          let ms := docs.filter (eval q)
          toString ms.length ++ " " ++ (if ms.isEmpty then "-" else joinWith "," (ms.map (fun d => hexOfBytes d.ext)))
        | _ => "bad-op"
      | _ => "bad-op"
    | none => "bad-op"
  | "progl" :: ids :: "|" :: ctoks =>
    -- a program against a given Next-only enumeration (searchers no document-level model speaks about)
    let l : Option (List Nat) := if ids == "-" then some [] else (ids.splitOn ",").mapM parseNat
    match l, parseCalls ctoks with
    | some l, some calls =>
      let asc := (l.zip l.tail).all (fun p => decide (p.1 < p.2))
      if !asc then "ENUM-NOT-ASCENDING"
      else joinWith "," ((runContract l calls).map (fun o => match o with | some i => toString i | none => "nil"))
    | _, _ => "bad-op"
  | "prog" :: nd :: rest => match parseNat nd with
    | some nd => match parseDocs nd rest with
      | some (docs, "|" :: qt) =>
        let qtoks := qt.takeWhile (· != "|")
        let ctoks := (qt.dropWhile (· != "|")).drop 1
        match parseQ (qtoks.length + 1) qtoks, parseCalls ctoks with
        | some (q, []), some calls =>
          let viaContract := runContract (den q docs) calls
          -- a boolean query without filter is also run through the operational model of the boolean
          -- searcher over the match lists of its clauses; the two answers must coincide
          let viaMachine : Option (List (Option Nat)) := match q with
            | .bool m s n Option.none =>
              let parts := boolParts m s n docs
              let ops := calls.map (fun c => match c with
                | .next => Bleve.BoolSearcher.Op.next | .adv t => Bleve.BoolSearcher.Op.adv t)
              if m.isSome || s.isSome || n.isSome then
                some (Bleve.BoolSearcher.runImpl (fun _ c => c)
                  (Bleve.BoolSearcher.init parts.1 parts.2.1 parts.2.2.1 parts.2.2.2) ops)
              else Option.none
            | .conj (q0 :: qs) =>
              let ops := calls.map (fun c => match c with
                | .next => Bleve.BoolSearcher.Op.next | .adv t => Bleve.BoolSearcher.Op.adv t)
              some (Bleve.ConjSearcher.runImpl (fun _ c => c)
                (Bleve.ConjSearcher.init ((q0 :: qs).map (fun x => den x docs))) ops)
            | .disj mn qs =>
              -- both disjunction searchers: the heap variant (more than DisjunctionHeapTakeover = 10
              -- clauses) selects the same smallest cursors through a priority queue
              let ops := calls.map (fun c => match c with
                | .next => Bleve.BoolSearcher.Op.next | .adv t => Bleve.BoolSearcher.Op.adv t)
              some (Bleve.DisjSearcher.runImpl (fun _ c => c)
                (Bleve.DisjSearcher.init (qs.map (fun x => den x docs)) mn) ops)
            | _ => Option.none
          let render := fun (l : List (Option Nat)) => joinWith "," (l.map (fun o => match o with
            | some i => toString i | none => "nil"))
          match viaMachine with
          | some r => if r == viaContract then render viaContract
                      else "OPERATIONAL-MODEL-DISAGREES " ++ render r ++ " vs " ++ render viaContract
          | Option.none => render viaContract
        | _, _ => "bad-op"
      | _ => "bad-op"
    | none => "bad-op"
  | _ => "bad-op"

end Bleve.Drv.C02
