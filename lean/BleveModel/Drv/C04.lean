import BleveModel.Proto
import BleveModel.Model.History
namespace Bleve.Drv.C04
open Bleve.Proto Bleve.History

structure S where
  ks : List Nat := []
  prev : List (Nat × List Nat) := []       -- client ↦ last prefix vector seen
  handles : List (Nat × String) := []

def natList (s : String) : Option (List Nat) :=
  if s == "-" then some [] else (s.splitOn ",").mapM parseNat

def step (st : S) (toks : List String) : S × String :=
  match toks with
  | "reset" :: ks => match ks.mapM parseNat with
    | some ks => ({ ks := ks }, "ok")
    | none => (st, "bad-op")
  | ["obs", client, acked, docs, ints, count] =>
    match parseNat client, natList acked, (if docs == "-" then some [] else (docs.splitOn ";").mapM natList), natList ints, parseNat count with
    | some client, some acked, some docs, some ints, some count =>
      let prev := ((st.prev.find? (fun p => p.1 == client)).map (·.2)).getD []
      let o : Obs := ⟨client, acked, docs, ints, count⟩
      if check st.ks prev o then
        ({ st with prev := (client, ints) :: st.prev.filter (fun p => p.1 != client) }, "ok")
      else (st, "INCONSISTENT")
    | _, _, _, _, _ => (st, "bad-op")
  | ["handle", hid, digest] => match parseNat hid with
    | some hid => match st.handles.find? (fun p => p.1 == hid) with
      | some (_, d) => (st, if d == digest then "ok" else "CHANGED")
      | none => ({ st with handles := (hid, digest) :: st.handles }, "ok")
    | none => (st, "bad-op")
  | ["shared", ints, present, w, n] =>
    match natList ints, parseNat w, parseNat n with
    | some i, some w, some n => (st, if Bleve.History.sharedOK i (present == "1") w n then "ok" else "SHARED-INCONSISTENT")
    | _, _, _ => (st, "bad-op")
  | "echo" :: rest => (st, " ".intercalate rest)
  | _ => (st, "bad-op")
end Bleve.Drv.C04
