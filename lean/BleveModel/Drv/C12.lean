import BleveModel.Proto
import BleveModel.Model.Files
import BleveModel.Drv.C03
namespace Bleve.Drv.C12
open Bleve.Proto Bleve.Durable Bleve.Files

abbrev S := Files.F

def flagged (fs : List String) : List (String × Bool) :=
  fs.filterMap (fun t => match t.splitOn ":" with
    | [f, "1"] => some (f, true)
    | [f, _] => some (f, false)
    | _ => none)

/-- files seen complete on disk that the model has not seen written yet (e.g. a merge output no
    snapshot names so far) are recorded as written -/
def learn (s : S) (fs : List (String × Bool)) : S :=
  fs.foldl (fun s p => if p.2 && !s.d.present.contains p.1 then { s with d := Durable.step s.d (.writeFile p.1) } else s) s

def sortStrs (l : List String) : List String := (l.toArray.qsort (· < ·)).toList

def dedup (l : List String) : List String := l.foldl (fun acc x => if acc.contains x then acc else acc ++ [x]) []

def step (s : S) (toks : List String) : S × String :=
  match toks with
  | "boot" :: recs => match recs.mapM Bleve.Drv.C03.parseRec with
    | some rs => ({ d := { bolt := rs, present := (rs.map (·.files)).flatten, acked := 0 }, held := [] }, "ok")
    | none => (s, "bad-op")
  | "commit" :: e :: fs => match parseNat e with
    | some e =>
      let fl := flagged fs
      let s1 := learn s fl
      let ev := Files.Ev.dur (.commit e (fl.map (·.1)))
      if Files.stepOK s1 ev then (Files.step s1 ev, "ok") else (s, "BAD:commit-of-missing-file-or-stale-epoch")
    | none => (s, "bad-op")
  | ["boltrm", e] => match parseNat e with
    | some e =>
      let ev := Files.Ev.dur (.boltRemove e)
      if Files.stepOK s ev then (Files.step s ev, "ok") else (s, "BAD:newest-snapshot-removed")
    | none => (s, "bad-op")
  | ["zaprm", f] =>
    let ev := Files.Ev.dur (.zapRemove f)
    if Files.stepOK s ev then (Files.step s ev, "ok")
    else if named s.d f then (s, "BAD:named-file-removed") else (Files.step s ev, "BAD:reader-held-file-removed")
  | "hold" :: h :: fs => match parseNat h with
    | some h =>
      let fl := flagged fs
      let s1 := learn s fl
      let ev := Files.Ev.hold h (fl.map (·.1))
      if Files.stepOK s1 ev then (Files.step s1 ev, "ok") else (s, "BAD:file-of-current-state-missing")
    | none => (s, "bad-op")
  | "restat" :: _ :: fs =>
    if (flagged fs).all (·.2) then (s, "ok") else (s, "BAD:held-file-gone")
  | ["release", h] => match parseNat h with
    | some h => (Files.step s (.release h), "ok")
    | none => (s, "bad-op")
  | ["dir"] =>
    -- what the directory must hold at quiescence: exactly the files some committed snapshot names or an open reader uses
    let want := sortStrs (dedup ((s.d.bolt.map (·.files)).flatten ++ (s.held.map (·.2)).flatten))
    (s, " ".intercalate ("files" :: want))
  | ["epochs"] => (s, " ".intercalate ("epochs" :: s.d.bolt.map (fun r => toString r.epoch)))
  | "echo" :: rest => (s, " ".intercalate rest)
  | _ => (s, "ok")          -- intro / ack lines of the shared event log are not file events
end Bleve.Drv.C12
