import BleveModel.Proto
import BleveModel.Model.Retention
import BleveModel.Drv.C01
/-! Driver for the rollback / retention correspondence (C13): retention functions, plus the
    index-content replay of C01 for the rolled-back states. -/
namespace Bleve.Drv.C13
open Bleve.Proto Bleve.Retention

def parseSnaps : Nat → List String → Option (List Snap)
  | 0, _ => some []
  | n+1, e :: t :: rest => match parseNat e, parseNat t, parseSnaps n rest with
    | some e, some t, some r => some (⟨e, t⟩ :: r)
    | _, _, _ => none
  | _, _ => none

def insertSorted (x : Nat) : List Nat → List Nat
  | [] => [x]
  | y :: ys => if x ≤ y then x :: y :: ys else y :: insertSorted x ys

def fmtEpochs (l : List Snap) : String :=
  let es := (l.map (·.epoch)).foldl (fun acc e => insertSorted e acc) []
  if es.isEmpty then "-" else joinWith "," (es.map toString)

def step (s : IndexSpec.Spec) (toks : List String) : IndexSpec.Spec × String :=
  match toks with
  | "ts" :: mp :: iv :: n :: rest => match parseNat mp, parseNat iv, parseNat n with
    | some mp, some iv, some n => match parseSnaps n rest with
      | some snaps => (s, fmtEpochs (timeSeries mp iv snaps))
      | none => (s, "bad-op")
    | _, _, _ => (s, "bad-op")
  | "prot" :: keep :: iv :: n :: rest => match parseNat keep, parseNat iv, parseNat n with
    | some keep, some iv, some n => match parseSnaps n rest with
      | some snaps => (s, fmtEpochs (protectedSnaps keep iv snaps))
      | none => (s, "bad-op")
    | _, _, _ => (s, "bad-op")
  | ["offered", pts, keep, since] => match parseNat pts, parseNat keep, parseNat since with
    -- safe batches: each batch since the last open was persisted under its own epoch, so the configured
    -- number of rollback points (or as many as there were batches) must be on offer
    | some pts, some keep, some since => (s, if min keep since ≤ pts then "ok" else "TOO-FEW-ROLLBACK-POINTS")
    | _, _, _ => (s, "bad-op")
  | _ => C01.step s toks

end Bleve.Drv.C13
