import BleveModel.Proto
import BleveModel.Model.Durable
import BleveModel.Drv.C04
namespace Bleve.Drv.C03
open Bleve.Proto Bleve.Durable

structure S where
  d : D := {}
  intro : List (Nat × Nat) := []      -- batch ↦ epoch of its introduction
  h : Bleve.Drv.C04.S := {}

def parseRec (s : String) : Option Rec :=
  match s.splitOn ":" with
  | [e, fs] => (parseNat e).map (fun e => ⟨e, if fs == "" then [] else fs.splitOn ","⟩)
  | _ => none

/-- apply one event through the protocol's side condition -/
def apply (st : S) (ev : Ev) (why : String) : S × String :=
  if stepOK st.d ev then ({ st with d := step st.d ev }, "ok") else (st, "BAD:" ++ why)

def step (st : S) (toks : List String) : S × String :=
  match toks with
  | "boot" :: recs => match recs.mapM parseRec with
    | some rs => ({ st with d := { bolt := rs, present := (rs.map (·.files)).flatten, acked := 0 }, intro := [] }, "ok")
    | none => (st, "bad-op")
  | ["intro", n, e] => match parseNat n, parseNat e with
    | some n, some e => ({ st with intro := (n, e) :: st.intro }, "ok")
    | _, _ => (st, "bad-op")
  | "commit" :: e :: fs => match parseNat e with
    | some e =>
      -- a file seen complete on disk at commit time was written before; one not seen is missing
      let seen := fs.filterMap (fun t => match t.splitOn ":" with | [f, "1"] => some f | _ => none)
      let all := fs.filterMap (fun t => match t.splitOn ":" with | [f, _] => some f | _ => none)
      let d1 := seen.foldl (fun d f => if d.present.contains f then d else Durable.step d (.writeFile f)) st.d
      apply { st with d := d1 } (.commit e all) "commit-of-missing-file-or-stale-epoch"
    | none => (st, "bad-op")
  | ["ack", n] => match parseNat n with
    | some n => match st.intro.find? (fun p => p.1 == n) with
      | some (_, e) => apply st (.ack e) "acknowledged-before-commit"
      | none => (st, "BAD:ack-of-unknown-batch")
    | none => (st, "bad-op")
  | ["boltrm", e] => match parseNat e with
    | some e => apply st (.boltRemove e) "newest-snapshot-removed"
    | none => (st, "bad-op")
  | ["zaprm", f] => apply st (.zapRemove f) "named-file-removed"
  | ["aux", ints, aux, acked] =>
    match Bleve.Drv.C04.natList ints, Bleve.Drv.C04.natList aux, Bleve.Drv.C04.natList acked with
    | some i, some a, some d => (st, if Bleve.History.auxOK i a d then "ok" else "AUX-INCONSISTENT")
    | _, _, _ => (st, "bad-op")
  | "echo" :: rest => (st, " ".intercalate rest)
  | _ =>
    let (h', out) := Bleve.Drv.C04.step st.h toks
    ({ st with h := h' }, out)
end Bleve.Drv.C03
