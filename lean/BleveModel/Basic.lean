def hello := "world"
