import BleveModel.Model.Collector
import BleveModel.Lemmas.Collector
set_option linter.unusedSimpArgs false
set_option linter.unusedVariables false
/-!
# C06 — Hits are the requested slice of the fully sorted match list

"For any set of matches and any sort specification (score, id, field values ascending or
descending, missing first or last, min/max mode, several keys), the returned hits are exactly
positions From..From+Size of all matches ordered by that specification with ties broken by natural
index order, Total is the number of all matches and MaxScore their maximum score. Pages requested
with From/Size tile the ordering with no gap or duplicate, and when the sort is a total order
SearchAfter and SearchBefore started from any hit return exactly the following and preceding
pages."

Model: `Model/TopN.lean` (generic bounded store + `lowestMatchOutsideResults`), `Model/Collector.lean`
(sort keys, `SortOrder.Compare`, search-after).  Tie: `./check C06` feeds seeded match streams into
the real `TopNCollector` (stub searcher/reader) and compares hits, Total and MaxScore with the model.
Scores are modelled as integers: an order-isomorphic stand-in for non-NaN floats (NaN scores are an
excluded point, see DESIGN.md).
-/
namespace Bleve.Collector
open Bleve.TopN

/-- the comparison is a strict total order for every sort specification (matches with distinct
    hit numbers) -/
theorem cmp_strict_total (so : List SortSpec) : Ord (lt so) (fun m => m.hit) := lt_ord so

/-- **Main statement.** For every sort specification, every stream of matches with distinct hit
    numbers, every size and skip: the collector (bounded store, eviction shortcut, `Final(skip)`)
    returns exactly positions `skip .. skip+size` of the fully sorted match list. -/
theorem collector_eq_page (so : List SortSpec) (size skip : Nat) (ms : List Match)
    (hd : (ms.map (fun m => m.hit)).Nodup) :
    (collect so size skip none ms).hits = page (lt so) size skip ms := by
  have hf : ms.filter (afterKeep so none) = ms := by
    apply List.filter_eq_self.2; intro a _; rfl
  simp only [collect, hf]
  exact collect_eq_page (lt_ord so) size skip ms hd

/-- ... where "the fully sorted match list" is any sorted permutation of the matches (there is
    only one), so the statement does not depend on a sorting algorithm. -/
theorem collector_eq_slice_of_sorted (so : List SortSpec) (size skip : Nat) (ms L : List Match)
    (hd : (ms.map (fun m => m.hit)).Nodup) (hp : L.Perm ms) (hs : Sorted (lt so) L) :
    (collect so size skip none ms).hits = (L.drop skip).take size := by
  rw [collector_eq_page so size skip ms hd]
  exact page_eq_of_sorted_perm (lt_ord so) size skip ms L hd hp hs

/-- the collector numbers hits 1, 2, 3, … in arrival order, so the hypothesis of the main statement
    holds for every prepared stream -/
theorem prepare_hits_nodup (so : List SortSpec) (raws : List Raw) :
    ((prepare so raws).map (fun m => m.hit)).Nodup := by
  unfold prepare
  rw [List.map_map]
  have : (raws.zipIdx.map ((fun m : Match => m.hit) ∘ fun p =>
      ({ hit := p.2 + 1, score := p.1.score,
         keys := so.zipIdx.map (fun q => sortValue q.1 p.1.id (p.1.fields.getD q.2 [])) } : Match)))
      = (raws.zipIdx.map Prod.snd).map (· + 1) := by
    rw [List.map_map]; rfl
  rw [this, List.zipIdx_map_snd]
  have e : (fun x : Nat => x + 1) = (fun x => 1 + x) := by funext x; omega
  rw [e, List.map_add_range']
  exact List.nodup_range'

theorem total_eq (so : List SortSpec) (size skip : Nat) (after : Option Match) (ms : List Match) :
    (collect so size skip after ms).total = ms.length := rfl

/-- MaxScore is an upper bound of all scores, and is attained (or is the initial 0). -/
theorem maxScore_bound (so : List SortSpec) (size skip : Nat) (after : Option Match) (ms : List Match) :
    ∀ m ∈ ms, m.score ≤ (collect so size skip after ms).maxScore := by
  simp only [collect]
  have gen : ∀ (l : List Match) (init : Int),
      init ≤ l.foldl (fun m d => if d.score > m then d.score else m) init ∧
      ∀ m ∈ l, m.score ≤ l.foldl (fun m d => if d.score > m then d.score else m) init := by
    intro l
    induction l with
    | nil => intro init; simp
    | cons x xs ih =>
      intro init
      simp only [List.foldl_cons, List.mem_cons]
      have h1 := ih (if x.score > init then x.score else init)
      refine ⟨?_, ?_⟩
      · have := h1.1; split at this <;> omega
      · intro m hm
        rcases hm with rfl | hm
        · have := h1.1; split at this <;> omega
        · exact h1.2 m hm
  exact (gen ms 0).2

theorem maxScore_attained (so : List SortSpec) (size skip : Nat) (after : Option Match) (ms : List Match) :
    (collect so size skip after ms).maxScore = 0 ∨
      ∃ m ∈ ms, m.score = (collect so size skip after ms).maxScore := by
  simp only [collect]
  have gen : ∀ (l : List Match) (init : Int),
      l.foldl (fun m d => if d.score > m then d.score else m) init = init ∨
      ∃ m ∈ l, m.score = l.foldl (fun m d => if d.score > m then d.score else m) init := by
    intro l
    induction l with
    | nil => intro init; simp
    | cons x xs ih =>
      intro init
      simp only [List.foldl_cons]
      rcases ih (if x.score > init then x.score else init) with h | ⟨m, hm, he⟩
      · rw [h]
        by_cases hx : x.score > init
        · rw [if_pos hx]; exact Or.inr ⟨x, List.mem_cons_self, rfl⟩
        · rw [if_neg hx]; exact Or.inl rfl
      · exact Or.inr ⟨m, List.mem_cons_of_mem _ hm, he⟩
  exact gen ms 0

/-- with non-negative scores (tf-idf scores are) MaxScore is the maximum -/
theorem maxScore_eq (so : List SortSpec) (size skip : Nat) (after : Option Match) (ms : List Match)
    (hne : ms ≠ []) (hpos : ∀ m ∈ ms, 0 ≤ m.score) :
    (∃ m ∈ ms, m.score = (collect so size skip after ms).maxScore) ∧
    ∀ m ∈ ms, m.score ≤ (collect so size skip after ms).maxScore := by
  refine ⟨?_, maxScore_bound so size skip after ms⟩
  rcases maxScore_attained so size skip after ms with h | h
  · cases ms with
    | nil => exact absurd rfl hne
    | cons x xs =>
      have hb := maxScore_bound so size skip after (x :: xs) x List.mem_cons_self
      have := hpos x List.mem_cons_self
      exact ⟨x, List.mem_cons_self, by omega⟩
  · exact h

/-- pages tile the ordering: consecutive pages concatenate to the bigger page, no gap, no duplicate -/
theorem pages_tile (so : List SortSpec) (s₁ s₂ skip : Nat) (ms : List Match) :
    page (lt so) s₁ skip ms ++ page (lt so) s₂ (skip + s₁) ms = page (lt so) (s₁ + s₂) skip ms := by
  unfold page
  generalize isort (lt so) ms = L
  rw [← List.drop_drop, List.take_add]

/-! ## search-after under a total sort -/

/-- the sort keys alone separate any two matches of the stream -/
def TotalOn (so : List SortSpec) (ms : List Match) : Prop :=
  ∀ a ∈ ms, ∀ b ∈ ms, a.hit ≠ b.hit → keyCmp so a b ≠ 0

/-- **SearchAfter returns the following page.** If the sort is total on the matches and the
    sorted list is `pre ++ [h] ++ post`, then searching after `h`'s sort key (whatever hit number
    the client-side copy carries) returns the first `size` elements of `post`. -/
theorem searchAfter_next_page (so : List SortSpec) (size : Nat) (ms pre post : List Match) (h : Match)
    (n : Nat) (hd : (ms.map (fun m => m.hit)).Nodup) (htot : TotalOn so ms)
    (hL : isort (lt so) ms = pre ++ [h] ++ post) :
    (collect so size 0 (some { h with hit := n }) ms).hits = post.take size := by
  have ho := lt_ord so
  have hc := cmp_isCmp so
  have hperm := isort_perm (lt so) ms
  have hsorted : Sorted (lt so) (pre ++ [h] ++ post) := by rw [← hL]; exact isort_sorted ho ms hd
  have hmem : ∀ x, x ∈ ms ↔ x ∈ pre ++ [h] ++ post := by intro x; rw [← hL]; exact (hperm.mem_iff).symm
  have hh : h ∈ ms := (hmem h).2 (by simp)
  -- the filter keeps exactly the matches sorting after h
  have hkeep : ∀ d ∈ ms, afterKeep so (some { h with hit := n }) d = lt so h d := by
    intro d hdm
    simp only [afterKeep, lt]
    have e1 : cmp so d { h with hit := d.hit } = lexCmp (comps so) hitCmp d { h with hit := d.hit } := rfl
    by_cases hhit : d.hit = h.hit
    · -- same hit number: d is h itself
      have hdh : d = h := inj_of_nodup_map (fun m : Match => m.hit) ms hd d hdm h hh hhit
      subst hdh
      have : ({ d with hit := d.hit } : Match) = d := rfl
      simp [this, hc.refl]
    · have hk := htot d hdm h hh hhit
      have e2 : lexCmp (comps so) hitCmp d { h with hit := d.hit }
          = lexCmp (comps so) hitCmp d h := by
        have hk' : lexCmp (comps so) (fun _ _ => 0) d { h with hit := d.hit } ≠ 0 := by
          have : lexCmp (comps so) (fun _ _ => 0) d { h with hit := d.hit }
              = lexCmp (comps so) (fun _ _ => 0) d h := by
            apply lexCmp_congr_right
            · intro c hcm
              unfold comps at hcm
              rw [List.mem_map] at hcm
              obtain ⟨p, _, rfl⟩ := hcm
              rfl
            · rfl
          rw [this]; exact hk
        rw [lexCmp_of_key_ne _ _ _ _ hk', lexCmp_of_key_ne _ _ _ _ hk]
        apply lexCmp_congr_right
        · intro c hcm
          unfold comps at hcm
          rw [List.mem_map] at hcm
          obtain ⟨p, _, rfl⟩ := hcm
          rfl
        · rfl
      rw [e1, e2]
      have ha := hc.anti d h
      have : cmp so d h = lexCmp (comps so) hitCmp d h := rfl
      rw [← this]
      by_cases hpos : cmp so d h > 0
      · have : cmp so h d < 0 := by omega
        simp [hpos, this]
      · have : ¬ cmp so h d < 0 := by omega
        simp [hpos, this]
  have hfilter : ms.filter (afterKeep so (some { h with hit := n })) = ms.filter (lt so h) :=
    List.filter_congr hkeep
  simp only [collect, hfilter]
  have hk' : ((ms.filter (lt so h)).map (fun m => m.hit)).Nodup := by
    have : ((ms.filter (lt so h)).map (fun m => m.hit)).Sublist (ms.map (fun m => m.hit)) :=
      List.Sublist.map _ List.filter_sublist
    exact this.nodup hd
  rw [collect_eq_page ho size 0 _ hk']
  unfold page
  rw [isort_filter ho (lt so h) ms hd, hL]
  -- filter over pre ++ [h] ++ post
  unfold Sorted at hsorted
  rw [List.append_assoc, List.pairwise_append] at hsorted
  obtain ⟨_, hs2, hs3⟩ := hsorted
  rw [List.singleton_append, List.pairwise_cons] at hs2
  have hpre : pre.filter (lt so h) = [] := by
    apply List.filter_eq_nil_iff.2
    intro x hx
    have := hs3 x hx h (by simp)
    rw [ho.asymm x h this]; simp
  have hpost : post.filter (lt so h) = post := by
    apply List.filter_eq_self.2
    intro x hx; exact hs2.1 x hx
  rw [List.append_assoc, List.filter_append, List.filter_append, hpre, hpost]
  simp [ho.irrefl]

/-! ## non-vacuity -/

example : (collect [⟨.score, true⟩] 2 1 none
    [⟨1, 5, [[]]⟩, ⟨2, 7, [[]]⟩, ⟨3, 5, [[]]⟩, ⟨4, 9, [[]]⟩]).hits.map (fun m => m.hit) = [2, 1] := by decide

end Bleve.Collector
