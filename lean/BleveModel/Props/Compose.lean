import BleveModel.Props.BoolSearcher
import BleveModel.Props.ConjSearcher
import BleveModel.Props.DisjSearcher
set_option linter.unusedVariables false
set_option linter.unusedSimpArgs false
/-!
# Composite searchers are contract-keeping clauses

The refinement theorems take the clauses of a composite searcher as values of `Ch`: a cursor and the
ascending list of matches after it, with `Next` and forward `Advance` fixed by the contract and
everything else left open (`w`).  The theorems here close the loop: a boolean, conjunction or
disjunction searcher, seen from outside through the answer it last gave and the matches it still has,
*is* such a clause — its `Next` is the clause's `next`, its `Advance` is the clause's `adv` for the
particular out-of-contract behaviour "move on" (`fun _ c => c.next`).  Since the refinement theorems
hold for every `w`, a tree of these searchers over contract-keeping leaves enumerates, at every node,
the denotation computed bottom-up by `boolDen`, `conjDen` and `disjDen`.
-/
namespace Bleve.Compose
open Bleve.BoolSearcher (Ch Weird Asc)

/-- out-of-contract behaviour of a composite searcher: asked to advance to where it already is, it moves on -/
def moveOn : Weird := fun _ c => c.next

/-- the clause a searcher looks like from outside: its last answer and what it still has -/
def view (last : Option Nat) (rest : List Nat) : Ch := { curr := last, rem := rest }

theorem view_next (last : Option Nat) (rest : List Nat) :
    (view last rest).next = view rest.head? rest.tail := by
  unfold view Ch.next
  cases rest <;> rfl

/-- advancing the outside view to `t`: the first remaining match at or after `t`, then what follows it —
    provided the last answer and the remaining matches are ascending (then "move on" and the forward case agree) -/
theorem view_adv (last : Option Nat) (rest : List Nat) (t : Nat)
    (hasc : Asc (last.toList ++ rest)) :
    (view last rest).adv moveOn t = view (rest.dropWhile (· < t)).head? (rest.dropWhile (· < t)).tail := by
  unfold Ch.adv
  cases hl : last with
  | none =>
    show Ch.next (view none (rest.dropWhile (· < t))) = _
    rw [view_next]
  | some v =>
    show (if t ≤ v then moveOn t (view (some v) rest)
      else Ch.next (view (some v) (rest.dropWhile (· < t)))) = _
    by_cases htv : t ≤ v
    · -- already at or past the target: the searcher moves on; every remaining match is beyond the target anyway
      rw [if_pos htv]
      have hrest : ∀ x ∈ rest, t ≤ x := by
        intro x hx
        rw [hl] at hasc
        have h2 : Asc (v :: rest) := by simpa using hasc
        have := (List.pairwise_cons.1 h2).1 x hx
        omega
      rw [Bleve.BoolSearcher.dropWhile_id_of_ge rest t hrest]
      show (view (some v) rest).next = _
      rw [view_next]
    · rw [if_neg htv, view_next]

/-- **The boolean searcher is a clause**: `Next` and `Advance` act on its outside view as the contract says. -/
theorem bool_is_clause (w : Weird) (st : Bleve.BoolSearcher.St) (hi : Bleve.BoolSearcher.Inv st)
    (last : Option Nat) (t : Nat) (hasc : Asc (last.toList ++ Bleve.BoolSearcher.abs st)) :
    view (Bleve.BoolSearcher.next w st).1 (Bleve.BoolSearcher.abs (Bleve.BoolSearcher.next w st).2) =
      (view last (Bleve.BoolSearcher.abs st)).next ∧
    view (Bleve.BoolSearcher.advance w t st).1 (Bleve.BoolSearcher.abs (Bleve.BoolSearcher.advance w t st).2) =
      (view last (Bleve.BoolSearcher.abs st)).adv moveOn t := by
  obtain ⟨n1, n2, _⟩ := Bleve.BoolSearcher.next_spec w st hi
  obtain ⟨a1, a2, _⟩ := Bleve.BoolSearcher.advance_spec w t st hi
  rw [n1, n2, a1, a2, view_next, view_adv last _ t hasc]
  exact ⟨rfl, rfl⟩

/-- **The conjunction searcher is a clause.** -/
theorem conj_is_clause (w : Weird) (st : Bleve.ConjSearcher.St) (hi : Bleve.ConjSearcher.Inv st)
    (last : Option Nat) (t : Nat) (hasc : Asc (last.toList ++ Bleve.ConjSearcher.common st.chs)) :
    view (Bleve.ConjSearcher.next w st).1 (Bleve.ConjSearcher.common (Bleve.ConjSearcher.next w st).2.chs) =
      (view last (Bleve.ConjSearcher.common st.chs)).next ∧
    view (Bleve.ConjSearcher.advance w t st).1 (Bleve.ConjSearcher.common (Bleve.ConjSearcher.advance w t st).2.chs) =
      (view last (Bleve.ConjSearcher.common st.chs)).adv moveOn t := by
  obtain ⟨n1, n2, _⟩ := Bleve.ConjSearcher.next_spec w st hi
  obtain ⟨a1, a2, _⟩ := Bleve.ConjSearcher.advance_spec w t st hi
  rw [n1, n2, a1, a2, view_next, view_adv last _ t hasc]
  exact ⟨rfl, rfl⟩

/-- **The disjunction searcher is a clause.** -/
theorem disj_is_clause (w : Weird) (st : Bleve.DisjSearcher.St) (hok : Bleve.ConjSearcher.AllOk st.chs)
    (last : Option Nat) (t : Nat) (hasc : Asc (last.toList ++ Bleve.DisjSearcher.abs st)) :
    view (Bleve.DisjSearcher.next st).1 (Bleve.DisjSearcher.abs (Bleve.DisjSearcher.next st).2) =
      (view last (Bleve.DisjSearcher.abs st)).next ∧
    view (Bleve.DisjSearcher.advance w t st).1 (Bleve.DisjSearcher.abs (Bleve.DisjSearcher.advance w t st).2) =
      (view last (Bleve.DisjSearcher.abs st)).adv moveOn t := by
  obtain ⟨n1, n2, _⟩ := Bleve.DisjSearcher.next_spec st hok
  obtain ⟨a1, a2, _⟩ := Bleve.DisjSearcher.advance_spec w t st hok
  rw [n1, n2, a1, a2, view_next, view_adv last _ t hasc]
  exact ⟨rfl, rfl⟩

/-- a clause that keeps the contract stays one: its outside view after a step is again ascending -/
theorem view_ok_next (last : Option Nat) (rest : List Nat) (h : Asc rest) :
    Asc (rest.head?.toList ++ rest.tail) := by
  cases rest with
  | nil => exact List.Pairwise.nil
  | cons x xs => simpa using h

end Bleve.Compose
