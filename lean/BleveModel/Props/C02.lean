import BleveModel.Model.Query
set_option linter.unusedSimpArgs false
set_option linter.unusedVariables false
/-!
# C02 — A search returns exactly the live documents that satisfy the query

"For any corpus and any query composed of term, match (and/or), phrase and match-phrase, prefix,
wildcard, regexp, fuzzy, term-range, numeric-range, date-range, boolean-field, doc-id, match-all and
match-none leaves under conjunction, disjunction-with-minimum and boolean
must/should/must-not/filter composition, the hit set and Total equal the set obtained by evaluating
the documented meaning of the query over the analysed field values of the live documents. No
matching live document is missed, no non-matching or deleted document is returned, none is returned
twice, and the answer is the same whether or not scoring, term locations or explanations are
requested."

`Query.eval` *is* the documented meaning (structural recursion over the query tree); `./check C02`
compares the hit set and Total of the real search (both engines, three option settings) with it on
every run.  Proved here: the answer set is duplicate free and exact by construction, and the
algebraic identities that `BooleanQuery.Searcher`, `ConjunctionQuery.Searcher` and
`DisjunctionQuery.Searcher` rely on when they replace a searcher tree by a simpler one — so that
those rewrites are meaning preserving for every corpus and every sub-query.
-/
namespace Bleve.Query

/-- exactly the matching documents, each once -/
theorem den_exact (q : Q) (corpus : List Doc) (i : Nat) :
    i ∈ den q corpus ↔ ∃ d ∈ corpus, eval q d = true ∧ d.iid = i := by
  simp [den, List.mem_map, List.mem_filter, and_assoc]

theorem den_nodup (q : Q) (corpus : List Doc) (h : (corpus.map (·.iid)).Nodup) : (den q corpus).Nodup := by
  unfold den
  exact List.Nodup.sublist (List.Sublist.map _ List.filter_sublist) h

theorem total_eq (q : Q) (corpus : List Doc) : (den q corpus).length = (corpus.filter (eval q)).length := by
  simp [den]

/-! ## identities behind the searcher-construction shortcuts -/

/-- a single-clause conjunction is its clause (`NewConjunctionSearcher` with one searcher) -/
theorem conj_single (q : Q) (d : Doc) : eval (.conj [q]) d = eval q d := by
  simp [eval, evalAll]

/-- a match-none clause empties a conjunction -/
theorem conj_with_none (qs₁ qs₂ : List Q) (d : Doc) : eval (.conj (qs₁ ++ Q.none :: qs₂)) d = false := by
  simp only [eval]
  induction qs₁ with
  | nil => simp [evalAll, eval]
  | cons q qs ih => simp [evalAll, ih]

/-- a minimum of 0 behaves as 1 -/
theorem disj_min0 (qs : List Q) (d : Doc) : eval (.disj 0 qs) d = eval (.disj 1 qs) d := by
  simp [eval]

theorem disj_single (q : Q) (d : Doc) : eval (.disj 0 [q]) d = eval q d := by
  cases h : eval q d <;> simp [eval, countTrue, h]

/-- match-none clauses do not count (dropping them, as query-string mode does, changes nothing) -/
theorem countTrue_drop_none (qs₁ qs₂ : List Q) (d : Doc) :
    countTrue (qs₁ ++ Q.none :: qs₂) d = countTrue (qs₁ ++ qs₂) d := by
  induction qs₁ with
  | nil => simp [countTrue, eval]
  | cons q qs ih => simp [countTrue, ih]

/-- only `must`: the boolean query is its conjunction -/
theorem bool_only_must (m : Q) (d : Doc) : eval (.bool (some m) none none none) d = eval m d := by
  simp [eval]

/-- only `should`: the boolean query is its disjunction -/
theorem bool_only_should (min : Nat) (qs : List Q) (d : Doc) :
    eval (.bool none (some (.disj min qs)) none none) d = eval (.disj min qs) d := by
  simp [eval]

/-- only `must_not`: match-all minus the excluded documents -/
theorem bool_only_mustNot (n : Q) (d : Doc) :
    eval (.bool none none (some n) none) d = (eval .all d && !eval n d) := by
  simp [eval]

/-- only `filter`: match-all restricted by the filter -/
theorem bool_only_filter (f : Q) (d : Doc) :
    eval (.bool none none none (some f)) d = (eval .all d && eval f d) := by
  simp [eval]

/-- nothing at all: match-none -/
theorem bool_empty (d : Doc) : eval (.bool none none none none) d = eval .none d := by
  rw [eval.eq_def]; simp [eval]

/-- with a `must`, a `should` with minimum 0 never excludes a document -/
theorem bool_should_optional (m : Q) (qs : List Q) (n f : Option Q) (d : Doc) :
    eval (.bool (some m) (some (.disj 0 qs)) n f) d = eval (.bool (some m) none n f) d := by
  rw [eval.eq_def, eval.eq_def (Q.bool (some m) none n f)]; simp

/-- must-not always excludes, whatever the other clauses say -/
theorem bool_mustNot_excludes (m s f : Option Q) (n : Q) (d : Doc) (h : eval n d = true) :
    eval (.bool m s (some n) f) d = false := by
  rw [eval.eq_def]; simp [h]

/-- the filter clause always restricts -/
theorem bool_filter_restricts (m s n : Option Q) (f : Q) (d : Doc) (h : eval f d = false) :
    eval (.bool m s n (some f)) d = false := by
  rw [eval.eq_def]; simp [h]

/-- a phrase needs its terms consecutively inside one array element: a document whose elements
    each lack some term of the phrase does not match -/
theorem phraseAt_needs_terms (ts : List Term) (e : Elem) (t : Term) (ht : t ∈ ts) (hne : t ≠ [])
    (hno : t ∉ e) : phraseAt ts e = false := by
  induction ts generalizing e with
  | nil => cases ht
  | cons x xs ih =>
    cases e with
    | nil => simp [phraseAt]
    | cons w ws =>
      simp only [phraseAt]
      rcases List.mem_cons.1 ht with rfl | ht'
      · have h1 : t.isEmpty = false := by cases t <;> simp_all
        have h2 : (t == w) = false := by
          simp only [beq_eq_false_iff_ne, ne_eq]
          intro e; apply hno; rw [e]; exact List.mem_cons_self
        simp [h1, h2]
      · have := ih ws ht' (fun hm => hno (List.mem_cons_of_mem _ hm))
        simp [this]

/-! ## non-vacuity -/

example : eval (.bool (some (.conj [.all])) (some (.disj 2 [.all, .none])) none none)
    ⟨0, [100], [], []⟩ = false := by decide

end Bleve.Query
