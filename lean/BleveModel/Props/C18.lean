import BleveModel.Model.Geo
set_option linter.unusedVariables false
set_option linter.unusedSimpArgs false
/-!
# C18 — Geo point queries match exactly the points inside the shape

"A distance, bounding-box or polygon query matches a document if and only if one of its indexed
points lies inside the circle, box or polygon, up to the stated resolution of the point encoding:
points clearly inside are always returned and points clearly outside never are, including boxes and
circles that cross the date line or contain a pole. The point encoding round-trips within its
resolution, and sorting by distance orders hits by true distance."

**Partial.**  Proved here: the integer layer of the point encoding — interleaving two 32-bit
coordinates and taking them apart again is the identity, for every pair of coordinates, and the
hash of a point determines its cell at every precision (so a point's indexed prefix terms are those
of the cells containing it).  The floating-point layer (scaling, haversine, rectangle construction
across the date line and the poles, polygon containment, the s2 plugin) cannot be carried by this
model; `./check C18` compares it end to end with an independent float oracle using a margin, with
and without the s2 plugin.
-/
namespace Bleve.Geo

theorem interleave_lt (n : Nat) : ∀ a b, interleave n a b < 4 ^ n := by
  induction n with
  | zero => intro a b; simp [interleave]
  | succ n ih =>
    intro a b
    have := ih (a / 2) (b / 2)
    simp only [interleave, Nat.pow_succ]
    omega

/-- **Round trip, longitude half**: the even bits give the first coordinate back -/
theorem deinterleave_interleave (n : Nat) : ∀ a b, a < 2 ^ n → deinterleave n (interleave n a b) = a := by
  induction n with
  | zero => intro a b h; simp at h; simp [deinterleave, h]
  | succ n ih =>
    intro a b h
    have ha : a / 2 < 2 ^ n := by rw [Nat.pow_succ] at h; omega
    have e : (a % 2 + 2 * (b % 2) + 4 * interleave n (a / 2) (b / 2)) / 4 = interleave n (a / 2) (b / 2) := by omega
    have e2 : (a % 2 + 2 * (b % 2) + 4 * interleave n (a / 2) (b / 2)) % 2 = a % 2 := by omega
    simp only [interleave, deinterleave, e, e2, ih (a / 2) (b / 2) ha]
    omega

/-- **Round trip, latitude half**: shifting right by one and taking the even bits gives the second
    coordinate back (`MortonUnhashLat` uses `Deinterleave(hash >> 1)`) -/
theorem deinterleave_interleave_odd (n : Nat) : ∀ a b, b < 2 ^ n →
    deinterleave n (interleave n a b / 2) = b := by
  induction n with
  | zero => intro a b h; simp at h; simp [deinterleave, interleave, h]
  | succ n ih =>
    intro a b h
    have hb : b / 2 < 2 ^ n := by rw [Nat.pow_succ] at h; omega
    have ihr := ih (a / 2) (b / 2) hb
    simp only [interleave, deinterleave]
    have e1 : (a % 2 + 2 * (b % 2) + 4 * interleave n (a / 2) (b / 2)) / 2 % 2 = b % 2 := by omega
    have e2 : (a % 2 + 2 * (b % 2) + 4 * interleave n (a / 2) (b / 2)) / 2 / 4
        = interleave n (a / 2) (b / 2) / 2 := by omega
    rw [e1, e2, ihr]
    omega

/-- the encoding is injective on 32-bit coordinate pairs: different points, different hashes -/
theorem interleave_inj (a b a' b' : Nat) (ha : a < 2 ^ 32) (hb : b < 2 ^ 32) (ha' : a' < 2 ^ 32) (hb' : b' < 2 ^ 32)
    (h : interleave64 a b = interleave64 a' b') : a = a' ∧ b = b' := by
  unfold interleave64 at h
  constructor
  · have := deinterleave_interleave 32 a b ha
    rw [h, deinterleave_interleave 32 a' b' ha'] at this
    exact this.symm
  · have := deinterleave_interleave_odd 32 a b hb
    rw [h, deinterleave_interleave_odd 32 a' b' hb'] at this
    exact this.symm

/-- cells nest: the cell of a hash at a coarser precision is determined by its cell at a finer one -/
theorem cell_nest (hash s t : Nat) : cellOf (cellOf hash s) t = cellOf hash (s + t) := by
  unfold cellOf
  rw [Nat.div_div_eq_div_mul, ← Nat.pow_add]

/-- dropping one interleaved bit pair halves both coordinates: a cell at shift `2k` is the pair of
    coordinate prefixes -/
theorem cell_is_coordinate_prefix (n : Nat) (a b : Nat) :
    interleave (n + 1) a b / 4 = interleave n (a / 2) (b / 2) := by
  simp only [interleave]; omega

example : interleave64 5 3 = 27 := by decide        -- 0b011011
example : deinterleave64 27 = 5 ∧ deinterleave64 (27 / 2) = 3 := by decide

end Bleve.Geo
