import BleveModel.Model.Phrase
import BleveModel.Model.Query
set_option linter.unusedSimpArgs false
set_option linter.unusedVariables false
/-!
# C02, phrase queries: the matcher `findPhrasePaths` against its meaning

`Model/Phrase.lean` is the recursive search of `search/searcher/search_phrase.go` (alternatives per
part, placeholders, array positions, slop, locations used once per path).  Proved here, for every
field value and every phrase: without slop, alternatives and placeholders the matcher finds a path
exactly when the phrase's words stand next to each other, in order, somewhere in the value
(`phrase_exact`) — the reading `Model/Query.lean` gives a phrase clause.  That the Go function behaves
like the model (also with slop, alternatives, placeholders and several array positions) is compared
by `./check C02` through the verif export `VerifFindPhrasePaths`.
-/
namespace Bleve.Phrase

/-- locations of term `t` in a field value given as its words (one array position), in order -/
def positions (t : Term) : List Term → Nat → List Loc
  | [], _ => []
  | w :: ws, i => if w == t then ⟨i + 1, 0⟩ :: positions t ws (i + 1) else positions t ws (i + 1)

/-- the term location map of a field value -/
def tlmOf (ws : List Term) : TLM := ws.eraseDups.map (fun t => (t, positions t ws 0))

theorem mem_positions (t : Term) : ∀ (ws : List Term) (i : Nat) (l : Loc),
    l ∈ positions t ws i ↔ l.ap = 0 ∧ i + 1 ≤ l.pos ∧ ws[l.pos - (i + 1)]? = some t := by
  intro ws
  induction ws with
  | nil => intro i l; simp [positions]
  | cons w ws ih =>
    intro i l
    unfold positions
    by_cases hw : (w == t) = true
    · simp only [hw, if_true, List.mem_cons, ih]
      have hwt : w = t := by simpa using hw
      constructor
      · rintro (rfl | ⟨h1, h2, h3⟩)
        · simp [hwt]
        · refine ⟨h1, by omega, ?_⟩
          have : l.pos - (i + 1) = (l.pos - (i + 1 + 1)) + 1 := by omega
          rw [this, List.getElem?_cons_succ]; exact h3
      · rintro ⟨h1, h2, h3⟩
        by_cases he : l.pos = i + 1
        · left
          cases l; simp_all
        · right
          refine ⟨h1, by omega, ?_⟩
          have : l.pos - (i + 1) = (l.pos - (i + 1 + 1)) + 1 := by omega
          rw [this, List.getElem?_cons_succ] at h3; exact h3
    · simp only [hw, Bool.false_eq_true, if_false, ih]
      have hwt : w ≠ t := by simpa using hw
      constructor
      · rintro ⟨h1, h2, h3⟩
        refine ⟨h1, by omega, ?_⟩
        have : l.pos - (i + 1) = (l.pos - (i + 1 + 1)) + 1 := by omega
        rw [this, List.getElem?_cons_succ]; exact h3
      · rintro ⟨h1, h2, h3⟩
        by_cases he : l.pos = i + 1
        · rw [he] at h3; simp at h3; exact absurd h3 hwt
        · refine ⟨h1, by omega, ?_⟩
          have : l.pos - (i + 1) = (l.pos - (i + 1 + 1)) + 1 := by omega
          rw [this, List.getElem?_cons_succ] at h3; exact h3

theorem locsOf_tlmOf (ws : List Term) (t : Term) :
    locsOf (tlmOf ws) t = if t ∈ ws then positions t ws 0 else [] := by
  unfold locsOf tlmOf
  have : ∀ (l : List Term), (List.find? (fun p => p.1 == t) (l.map (fun t => (t, positions t ws 0)))) =
      if t ∈ l then some (t, positions t ws 0) else none := by
    intro l
    induction l with
    | nil => simp
    | cons a l ih =>
      simp only [List.map_cons, List.find?_cons, List.mem_cons]
      by_cases ha : a = t
      · subst ha; simp
      · have : (a == t) = false := by simpa using ha
        simp only [this, ih]
        have hne : t ≠ a := fun h => ha h.symm
        simp [hne]
  rw [this]
  by_cases h : t ∈ ws
  · have : t ∈ ws.eraseDups := List.mem_eraseDups.mpr h
    simp [h, this]
  · have : t ∉ ws.eraseDups := fun hh => h (List.mem_eraseDups.mp hh)
    simp [h, this]

/-- the locations the matcher sees for a term are exactly the places where the word stands -/
theorem mem_locsOf (ws : List Term) (t : Term) (l : Loc) :
    l ∈ locsOf (tlmOf ws) t ↔ l.ap = 0 ∧ 1 ≤ l.pos ∧ ws[l.pos - 1]? = some t := by
  rw [locsOf_tlmOf]
  by_cases h : t ∈ ws
  · simp only [h, if_true, mem_positions]
  · simp only [h, if_false, List.not_mem_nil, false_iff]
    rintro ⟨_, _, h3⟩
    exact h (List.mem_of_getElem? h3)

def single (ph : List Term) : List (List Term) := ph.map (fun t => [t])

/-- everything on the path sits at or before `prevPos` -/
def Fresh (tlm : TLM) (p : Path) (prevPos : Nat) : Prop :=
  ∀ x ∈ p, ∀ l, (locsOf tlm x.term)[x.idx]? = some l → l.pos ≤ prevPos

theorem flatMap_ne_nil {α β : Type} (l : List α) (f : α → List β) :
    l.flatMap f ≠ [] ↔ ∃ a ∈ l, f a ≠ [] := by
  induction l with
  | nil => simp
  | cons a l ih =>
    simp only [List.flatMap_cons, ne_eq, List.append_eq_nil_iff, List.mem_cons, exists_eq_or_imp]
    constructor
    · intro h
      by_cases ha : f a = []
      · right; apply ih.mp; intro hl; exact h ⟨ha, hl⟩
      · left; exact ha
    · rintro (h | h)
      · intro hc; exact h hc.1
      · intro hc; exact (ih.mpr h) hc.2

theorem dist_zero_iff (prevPos pos : Nat) : dist prevPos pos = 0 ↔ pos = prevPos + 1 := by
  unfold dist; split <;> omega

/-- with no slop left and a previous part, a location is taken exactly when it is the very next
position (same array position) and not on the path yet -/
theorem admits_zero (prevPos : Nat) (hp : 1 ≤ prevPos) (p : Path) (t : Term) (i : Nat) (l : Loc) (s : Int) :
    admits prevPos 0 p 0 t i l = some s ↔
      l.ap = 0 ∧ l.pos = prevPos + 1 ∧ p.any (fun x => x.term == t && x.idx == i) = false ∧ s = 0 := by
  have hp0 : (prevPos != 0) = true := by simp; omega
  have hp0' : (prevPos == 0) = false := by simp; omega
  unfold admits
  simp only [hp0, hp0', Bool.true_and, Bool.false_or, if_true]
  by_cases hap : l.ap = 0
  · have h1 : (l.ap != 0) = false := by simp [hap]
    simp only [h1, Bool.false_eq_true, if_false]
    by_cases hd : dist prevPos l.pos = 0
    · have hpos := (dist_zero_iff _ _).mp hd
      have hge : ((0 : Int) - ((dist prevPos l.pos : Nat) : Int) ≥ 0) := by rw [hd]; decide
      have hz : (0 : Int) - ((dist prevPos l.pos : Nat) : Int) = 0 := by rw [hd]; decide
      rw [hz]
      have h00 : (decide ((0 : Int) ≥ 0)) = true := by decide
      simp only [h00, if_true]
      cases hu : p.any (fun x => x.term == t && x.idx == i) with
      | true => simp [hap, hpos]
      | false =>
        simp only [Bool.false_eq_true, if_false, Option.some.injEq]
        constructor
        · intro h; exact ⟨hap, hpos, trivial, h.symm⟩
        · rintro ⟨_, _, _, h⟩; exact h.symm
    · have hne : ¬ (l.pos = prevPos + 1) := fun h => hd ((dist_zero_iff _ _).mpr h)
      have : ¬ ((0 : Int) - ((dist prevPos l.pos : Nat) : Int) ≥ 0) := by omega
      simp only [this, decide_false, Bool.false_eq_true, if_false]
      constructor
      · intro h; simp at h
      · rintro ⟨_, h, _⟩; exact absurd h hne
  · have h1 : (l.ap != 0) = true := by simp [hap]
    simp only [h1, if_true]
    constructor
    · intro h; simp at h
    · rintro ⟨h, _⟩; exact absurd h hap

theorem drop_cons_of_getElem? (ws : List Term) (k : Nat) (t : Term) (h : ws[k]? = some t) :
    ws.drop k = t :: ws.drop (k + 1) := by
  have hk : k < ws.length := by
    rcases Nat.lt_or_ge k ws.length with h1 | h1
    · exact h1
    · rw [List.getElem?_eq_none h1] at h; simp at h
  rw [List.drop_eq_getElem_cons hk]
  rw [List.getElem?_eq_getElem hk] at h
  simp at h
  rw [h]

theorem prefix_cons_iff (t : Term) (rest ws : List Term) (k : Nat) :
    (t :: rest).isPrefixOf (ws.drop k) = true ↔ ws[k]? = some t ∧ rest.isPrefixOf (ws.drop (k + 1)) = true := by
  constructor
  · intro h
    cases hd : ws.drop k with
    | nil => rw [hd] at h; simp [List.isPrefixOf] at h
    | cons w tl =>
      rw [hd] at h
      simp only [List.isPrefixOf, Bool.and_eq_true, beq_iff_eq] at h
      have hk : k < ws.length := by
        rcases Nat.lt_or_ge k ws.length with h1 | h1
        · exact h1
        · rw [List.drop_eq_nil_of_le h1] at hd; simp at hd
      rw [List.drop_eq_getElem_cons hk] at hd
      simp only [List.cons.injEq] at hd
      refine ⟨?_, ?_⟩
      · rw [List.getElem?_eq_getElem hk, hd.1, h.1]
      · rw [hd.2]; exact h.2
  · rintro ⟨h1, h2⟩
    rw [drop_cons_of_getElem? ws k t h1]
    simp [List.isPrefixOf, h2]

theorem fresh_snoc (tlm : TLM) (p : Path) (prevPos : Nat) (t : Term) (i : Nat) (l : Loc)
    (hf : Fresh tlm p prevPos) (hle : prevPos ≤ l.pos) (hget : (locsOf tlm t)[i]? = some l) :
    Fresh tlm (p ++ [⟨t, i, l⟩]) l.pos := by
  intro x hx l' hl'
  rcases List.mem_append.mp hx with hx | hx
  · have := hf x hx l' hl'; omega
  · simp only [List.mem_singleton] at hx
    subst hx
    simp only [] at hl'
    rw [hget] at hl'
    simp only [Option.some.injEq] at hl'
    rw [← hl']; exact Nat.le_refl _

/-- the heart: after a part at `prevPos`, the rest of an exact phrase is found iff it stands right there -/
theorem findPaths_rest (ws : List Term) : ∀ (rest : List Term) (prevPos : Nat) (p : Path),
    (∀ t ∈ rest, t ≠ []) → 1 ≤ prevPos → Fresh (tlmOf ws) p prevPos →
    (findPaths (tlmOf ws) (single rest) prevPos 0 p 0 ≠ [] ↔ rest.isPrefixOf (ws.drop prevPos) = true) := by
  intro rest
  induction rest with
  | nil => intro prevPos p _ _ _; simp [single, findPaths, List.isPrefixOf]
  | cons t rest ih =>
    intro prevPos p hne hpos hfresh
    have ht : t ≠ [] := hne t List.mem_cons_self
    have hrest : ∀ u ∈ rest, u ≠ [] := fun u hu => hne u (List.mem_cons_of_mem _ hu)
    have hph : isPlaceholder [t] = false := by simp [isPlaceholder, ht]
    simp only [single, List.map_cons, findPaths, hph, Bool.false_eq_true, if_false, List.flatMap_cons,
      List.flatMap_nil, List.append_nil]
    rw [flatMap_ne_nil, prefix_cons_iff]
    constructor
    · rintro ⟨⟨l, i⟩, hmem, hne'⟩
      have hget : (locsOf (tlmOf ws) t)[i]? = some l := List.mem_zipIdx_iff_getElem?.mp hmem
      have hloc : l ∈ locsOf (tlmOf ws) t := List.mem_of_getElem? hget
      obtain ⟨hap, hp1, hw⟩ := (mem_locsOf ws t l).mp hloc
      cases hadm : admits prevPos 0 p 0 t i l with
      | none => simp [hadm] at hne'
      | some s =>
        obtain ⟨_, hpos', _, hs⟩ := (admits_zero prevPos hpos p t i l s).mp hadm
        subst hs
        simp only [hadm] at hne'
        rw [hap] at hne'
        have hfresh' := fresh_snoc (tlmOf ws) p prevPos t i l hfresh (by omega) hget
        have := (ih l.pos (p ++ [⟨t, i, l⟩]) hrest (by omega) hfresh').mp (by simpa [single] using hne')
        rw [hpos'] at this hw
        exact ⟨by simpa using hw, this⟩
    · rintro ⟨hw, hpre⟩
      have hloc : (⟨prevPos + 1, 0⟩ : Loc) ∈ locsOf (tlmOf ws) t :=
        (mem_locsOf ws t ⟨prevPos + 1, 0⟩).mpr ⟨rfl, by simp, by simpa using hw⟩
      obtain ⟨i, hget⟩ := List.mem_iff_getElem?.mp hloc
      refine ⟨(⟨prevPos + 1, 0⟩, i), List.mem_zipIdx_iff_getElem?.mpr hget, ?_⟩
      have hnot : (p.any (fun x => x.term == t && x.idx == i)) = false := by
        rw [Bool.eq_false_iff]
        intro hany
        rw [List.any_eq_true] at hany
        obtain ⟨x, hx, hxe⟩ := hany
        simp only [Bool.and_eq_true, beq_iff_eq] at hxe
        have := hfresh x hx ⟨prevPos + 1, 0⟩ (by rw [hxe.1, hxe.2]; exact hget)
        simp only [] at this
        omega
      have hadm : admits prevPos 0 p 0 t i ⟨prevPos + 1, 0⟩ = some 0 :=
        (admits_zero prevPos hpos p t i ⟨prevPos + 1, 0⟩ 0).mpr ⟨rfl, rfl, hnot, rfl⟩
      simp only [hadm]
      have hfresh' := fresh_snoc (tlmOf ws) p prevPos t i ⟨prevPos + 1, 0⟩ hfresh (by simp) hget
      have := (ih (prevPos + 1) _ hrest (by omega) hfresh').mpr hpre
      simpa [single] using this

theorem admits_first (t : Term) (i : Nat) (l : Loc) : admits 0 0 [] 0 t i l = some 0 := by
  simp [admits]

/-- **An exact phrase (no slop, no alternatives, no placeholders) is found by the matcher exactly when
its words stand next to each other, in order, somewhere in the field value.** -/
theorem phrase_exact (ws : List Term) (t0 : Term) (rest : List Term) (hne : ∀ t ∈ t0 :: rest, t ≠ []) :
    phrasePaths (tlmOf ws) (single (t0 :: rest)) 0 ≠ [] ↔
      ∃ k, (t0 :: rest).isPrefixOf (ws.drop k) = true := by
  have ht : t0 ≠ [] := hne t0 List.mem_cons_self
  have hrest : ∀ u ∈ rest, u ≠ [] := fun u hu => hne u (List.mem_cons_of_mem _ hu)
  have hph : isPlaceholder [t0] = false := by simp [isPlaceholder, ht]
  unfold phrasePaths
  simp only [single, List.map_cons, findPaths, hph, Bool.false_eq_true, if_false, List.flatMap_cons,
    List.flatMap_nil, List.append_nil]
  rw [flatMap_ne_nil]
  constructor
  · rintro ⟨⟨l, i⟩, hmem, hne'⟩
    have hget : (locsOf (tlmOf ws) t0)[i]? = some l := List.mem_zipIdx_iff_getElem?.mp hmem
    have hloc : l ∈ locsOf (tlmOf ws) t0 := List.mem_of_getElem? hget
    obtain ⟨hap, hp1, hw⟩ := (mem_locsOf ws t0 l).mp hloc
    simp only [admits_first] at hne'
    rw [hap] at hne'
    have hfresh : Fresh (tlmOf ws) ([] ++ [⟨t0, i, l⟩]) l.pos :=
      fresh_snoc (tlmOf ws) [] 0 t0 i l (by intro x hx; simp at hx) (by omega) hget
    have := (findPaths_rest ws rest l.pos ([] ++ [⟨t0, i, l⟩]) hrest hp1 hfresh).mp (by simpa [single] using hne')
    refine ⟨l.pos - 1, ?_⟩
    rw [prefix_cons_iff]
    have e : l.pos - 1 + 1 = l.pos := by omega
    rw [e]
    exact ⟨hw, this⟩
  · rintro ⟨k, hk⟩
    rw [prefix_cons_iff] at hk
    obtain ⟨hw, hpre⟩ := hk
    have hloc : (⟨k + 1, 0⟩ : Loc) ∈ locsOf (tlmOf ws) t0 :=
      (mem_locsOf ws t0 ⟨k + 1, 0⟩).mpr ⟨rfl, by simp, by simpa using hw⟩
    obtain ⟨i, hget⟩ := List.mem_iff_getElem?.mp hloc
    refine ⟨(⟨k + 1, 0⟩, i), List.mem_zipIdx_iff_getElem?.mpr hget, ?_⟩
    simp only [admits_first]
    have hfresh : Fresh (tlmOf ws) ([] ++ [⟨t0, i, ⟨k + 1, 0⟩⟩]) (k + 1) :=
      fresh_snoc (tlmOf ws) [] 0 t0 i ⟨k + 1, 0⟩ (by intro x hx; simp at hx) (by simp) hget
    have := (findPaths_rest ws rest (k + 1) ([] ++ [⟨t0, i, ⟨k + 1, 0⟩⟩]) hrest (by omega) hfresh).mpr hpre
    simpa [single] using this

/-- non-vacuity: "b c" in "a b c b", and not "c a"; one wildcard between "a" and "c"; slop 1 lets "a c" match -/
example : phrasePaths (tlmOf [[1], [2], [3], [2]]) (single [[2], [3]]) 0 ≠ [] := by decide
example : phrasePaths (tlmOf [[1], [2], [3], [2]]) (single [[3], [1]]) 0 = [] := by decide
example : phrasePaths (tlmOf [[1], [2], [3], [2]]) [[[1]], [], [[3]]] 0 ≠ [] := by decide
example : phrasePaths (tlmOf [[1], [2], [3], [2]]) (single [[1], [3]]) 0 = [] ∧
    phrasePaths (tlmOf [[1], [2], [3], [2]]) (single [[1], [3]]) 1 ≠ [] := by decide

/-! ### the phrase clause of the query model -/

open Bleve.Query (phraseAt phraseIn)

theorem phraseAt_iff_prefix (ts : List Term) (hne : ∀ t ∈ ts, t ≠ []) :
    ∀ ws : List Term, phraseAt ts ws = ts.isPrefixOf ws := by
  induction ts with
  | nil => intro ws; simp [phraseAt, List.isPrefixOf]
  | cons t ts ih =>
    intro ws
    have ht : t ≠ [] := hne t List.mem_cons_self
    have hts : ∀ u ∈ ts, u ≠ [] := fun u hu => hne u (List.mem_cons_of_mem _ hu)
    cases ws with
    | nil => simp [phraseAt, List.isPrefixOf]
    | cons w ws =>
      have hte : t.isEmpty = false := by cases t <;> simp_all
      simp only [phraseAt, List.isPrefixOf, hte, Bool.false_or, ih hts ws]

theorem phraseIn_iff (ts : List Term) (hne : ∀ t ∈ ts, t ≠ []) (h0 : ts ≠ []) :
    ∀ ws : List Term, phraseIn ts ws = true ↔ ∃ k, ts.isPrefixOf (ws.drop k) = true := by
  intro ws
  induction ws with
  | nil =>
    simp only [phraseIn, List.drop_nil]
    cases ts with
    | nil => exact absurd rfl h0
    | cons t ts => simp [List.isPrefixOf]
  | cons w ws ih =>
    simp only [phraseIn, Bool.or_eq_true, phraseAt_iff_prefix ts hne, ih]
    constructor
    · rintro (h | ⟨k, hk⟩)
      · exact ⟨0, by simpa using h⟩
      · exact ⟨k + 1, by simpa using hk⟩
    · rintro ⟨k, hk⟩
      cases k with
      | zero => left; simpa using hk
      | succ k => right; exact ⟨k, by simpa using hk⟩

/-- **The phrase clause of the query model and the matcher agree**: for a phrase of real words, a
field value matches in the sense of `Model/Query.lean` exactly when `findPhrasePaths` finds a path over
the value's term locations. -/
theorem phrase_query_matcher (ws : List Term) (t0 : Term) (rest : List Term) (hne : ∀ t ∈ t0 :: rest, t ≠ []) :
    phraseIn (t0 :: rest) ws = true ↔ phrasePaths (tlmOf ws) (single (t0 :: rest)) 0 ≠ [] := by
  rw [phrase_exact ws t0 rest hne]
  exact phraseIn_iff (t0 :: rest) hne (by simp) ws

/-! ### phrases with placeholders -/

/-- what the matcher does from a position on: a real word must stand there, a placeholder skips one
position whether or not a word stands there -/
def matchFrom : List Term → List Term → Bool
  | [], _ => true
  | t :: ts, ws =>
    if t.isEmpty then matchFrom ts (ws.drop 1)
    else match ws with
      | w :: ws' => t == w && matchFrom ts ws'
      | [] => false

theorem single_placeholder (t : Term) : isPlaceholder [t] = t.isEmpty := by
  cases t <;> simp [isPlaceholder]

/-- after a part at `prevPos`, the rest of a phrase (placeholders allowed) is found iff it matches from there -/
theorem findPaths_rest_gaps (ws : List Term) : ∀ (rest : List Term) (prevPos : Nat) (p : Path),
    1 ≤ prevPos → Fresh (tlmOf ws) p prevPos →
    (findPaths (tlmOf ws) (single rest) prevPos 0 p 0 ≠ [] ↔ matchFrom rest (ws.drop prevPos) = true) := by
  intro rest
  induction rest with
  | nil => intro prevPos p _ _; simp [single, findPaths, matchFrom]
  | cons t rest ih =>
    intro prevPos p hpos hfresh
    by_cases hte : t.isEmpty = true
    · -- a placeholder: one position on, the path unchanged
      have hp0' : (prevPos == 0) = false := by simp; omega
      have hfresh' : Fresh (tlmOf ws) p (prevPos + 1) := by
        intro x hx l hl; have := hfresh x hx l hl; omega
      simp only [single, List.map_cons, findPaths, single_placeholder, hte, if_true, hp0', Bool.false_eq_true,
        if_false, matchFrom, List.drop_drop]
      have := ih (prevPos + 1) p (by omega) hfresh'
      simp only [single] at this
      rw [this]
    · have hte' : t.isEmpty = false := by simpa using hte
      have ht : t ≠ [] := by intro h; subst h; simp at hte'
      have hph : isPlaceholder [t] = false := by rw [single_placeholder]; exact hte'
      simp only [single, List.map_cons, findPaths, hph, Bool.false_eq_true, if_false, List.flatMap_cons,
        List.flatMap_nil, List.append_nil, matchFrom, hte']
      rw [flatMap_ne_nil]
      constructor
      · rintro ⟨⟨l, i⟩, hmem, hne'⟩
        have hget : (locsOf (tlmOf ws) t)[i]? = some l := List.mem_zipIdx_iff_getElem?.mp hmem
        have hloc : l ∈ locsOf (tlmOf ws) t := List.mem_of_getElem? hget
        obtain ⟨hap, hp1, hw⟩ := (mem_locsOf ws t l).mp hloc
        cases hadm : admits prevPos 0 p 0 t i l with
        | none => simp [hadm] at hne'
        | some s =>
          obtain ⟨_, hpos', _, hs⟩ := (admits_zero prevPos hpos p t i l s).mp hadm
          subst hs
          simp only [hadm] at hne'
          rw [hap] at hne'
          have hfresh' := fresh_snoc (tlmOf ws) p prevPos t i l hfresh (by omega) hget
          have := (ih l.pos (p ++ [⟨t, i, l⟩]) (by omega) hfresh').mp (by simpa [single] using hne')
          rw [hpos'] at this hw
          have hw' : ws[prevPos]? = some t := by simpa using hw
          rw [drop_cons_of_getElem? ws prevPos t hw']
          simp [this]
      · intro hm
        cases hd : ws.drop prevPos with
        | nil => rw [hd] at hm; simp at hm
        | cons w tl =>
          rw [hd] at hm
          simp only [Bool.and_eq_true, beq_iff_eq] at hm
          have hk : prevPos < ws.length := by
            rcases Nat.lt_or_ge prevPos ws.length with h1 | h1
            · exact h1
            · rw [List.drop_eq_nil_of_le h1] at hd; simp at hd
          rw [List.drop_eq_getElem_cons hk] at hd
          simp only [List.cons.injEq] at hd
          have hw : ws[prevPos]? = some t := by rw [List.getElem?_eq_getElem hk, hd.1, hm.1]
          have hpre : matchFrom rest (ws.drop (prevPos + 1)) = true := by rw [hd.2]; exact hm.2
          have hloc : (⟨prevPos + 1, 0⟩ : Loc) ∈ locsOf (tlmOf ws) t :=
            (mem_locsOf ws t ⟨prevPos + 1, 0⟩).mpr ⟨rfl, by simp, by simpa using hw⟩
          obtain ⟨i, hget⟩ := List.mem_iff_getElem?.mp hloc
          refine ⟨(⟨prevPos + 1, 0⟩, i), List.mem_zipIdx_iff_getElem?.mpr hget, ?_⟩
          have hnot : (p.any (fun x => x.term == t && x.idx == i)) = false := by
            rw [Bool.eq_false_iff]
            intro hany
            rw [List.any_eq_true] at hany
            obtain ⟨x, hx, hxe⟩ := hany
            simp only [Bool.and_eq_true, beq_iff_eq] at hxe
            have := hfresh x hx ⟨prevPos + 1, 0⟩ (by rw [hxe.1, hxe.2]; exact hget)
            simp only [] at this
            omega
          have hadm : admits prevPos 0 p 0 t i ⟨prevPos + 1, 0⟩ = some 0 :=
            (admits_zero prevPos hpos p t i ⟨prevPos + 1, 0⟩ 0).mpr ⟨rfl, rfl, hnot, rfl⟩
          simp only [hadm]
          have hfresh' := fresh_snoc (tlmOf ws) p prevPos t i ⟨prevPos + 1, 0⟩ hfresh (by simp) hget
          have := (ih (prevPos + 1) _ (by omega) hfresh').mpr hpre
          simpa [single] using this

/-- the phrase does not end in a placeholder -/
def lastReal : List Term → Bool
  | [] => false
  | [t] => !t.isEmpty
  | _ :: t :: ts => lastReal (t :: ts)

theorem matchFrom_nil : ∀ (ts : List Term), lastReal ts = true → matchFrom ts [] = false := by
  intro ts
  induction ts with
  | nil => intro h; simp [lastReal] at h
  | cons t ts ih =>
    intro h
    cases ts with
    | nil =>
      have hte : t.isEmpty = false := by simpa [lastReal] using h
      rw [matchFrom.eq_def]; simp [hte]
    | cons t' r =>
      have h' : lastReal (t' :: r) = true := by simpa [lastReal] using h
      by_cases hte : t.isEmpty = true
      · rw [matchFrom.eq_def]; simp only [hte, if_true, List.drop_nil]
        exact ih h'
      · have : t.isEmpty = false := by simpa using hte
        rw [matchFrom.eq_def]; simp [this]

theorem matchFrom_empty (t : Term) (ts ws : List Term) (h : t.isEmpty = true) :
    matchFrom (t :: ts) ws = matchFrom ts (ws.drop 1) := by
  rw [matchFrom.eq_def]; simp [h]

theorem matchFrom_real_cons (t : Term) (ts : List Term) (w : Term) (ws : List Term) (h : t.isEmpty = false) :
    matchFrom (t :: ts) (w :: ws) = (t == w && matchFrom ts ws) := by
  rw [matchFrom.eq_def]; simp [h]

theorem matchFrom_real_nil (t : Term) (ts : List Term) (h : t.isEmpty = false) :
    matchFrom (t :: ts) [] = false := by
  rw [matchFrom.eq_def]; simp [h]

/-- a phrase that ends in a real word: the query model's reading and the matcher's are the same -/
theorem phraseAt_eq_matchFrom : ∀ (ts : List Term), lastReal ts = true → ∀ ws, phraseAt ts ws = matchFrom ts ws := by
  intro ts
  induction ts with
  | nil => intro h; simp [lastReal] at h
  | cons t ts ih =>
    intro h ws
    cases ts with
    | nil =>
      have hte : t.isEmpty = false := by simpa [lastReal] using h
      cases ws with
      | nil => rw [matchFrom_real_nil t [] hte]; simp [phraseAt]
      | cons w ws' => rw [matchFrom_real_cons t [] w ws' hte]; simp [phraseAt, matchFrom, hte]
    | cons t' r =>
      have h' : lastReal (t' :: r) = true := by simpa [lastReal] using h
      cases ws with
      | nil =>
        by_cases hte : t.isEmpty = true
        · rw [matchFrom_empty t _ _ hte, List.drop_nil, matchFrom_nil _ h']; simp [phraseAt]
        · have hte' : t.isEmpty = false := by simpa using hte
          rw [matchFrom_real_nil t _ hte']; simp [phraseAt]
      | cons w ws' =>
        by_cases hte : t.isEmpty = true
        · rw [matchFrom_empty t _ _ hte]
          simp only [phraseAt, hte, Bool.true_or, Bool.true_and, List.drop_one, List.tail_cons]
          exact ih h' ws'
        · have hte' : t.isEmpty = false := by simpa using hte
          rw [matchFrom_real_cons t _ w ws' hte']
          simp only [phraseAt, hte', Bool.false_or]
          rw [ih h' ws']

theorem phraseIn_iff_at (ts : List Term) (h0 : ts ≠ []) :
    ∀ ws : List Term, phraseIn ts ws = true ↔ ∃ k, phraseAt ts (ws.drop k) = true := by
  intro ws
  have hnil : phraseAt ts [] = false := by
    cases ts with
    | nil => exact absurd rfl h0
    | cons t r => simp [phraseAt]
  induction ws with
  | nil =>
    simp only [phraseIn, List.drop_nil, hnil]
    cases ts with
    | nil => exact absurd rfl h0
    | cons t r => simp
  | cons w ws ih =>
    simp only [phraseIn, Bool.or_eq_true, ih]
    constructor
    · rintro (h | ⟨k, hk⟩)
      · exact ⟨0, by simpa using h⟩
      · exact ⟨k + 1, by simpa using hk⟩
    · rintro ⟨k, hk⟩
      cases k with
      | zero => left; simpa using hk
      | succ k => right; exact ⟨k, by simpa using hk⟩

/-- **Phrases with gaps.**  For a phrase that starts and ends with a real word (placeholders for
removed words in between), a field value matches in the sense of `Model/Query.lean` exactly when
`findPhrasePaths` finds a path over the value's term locations. -/
theorem phrase_gaps_query_matcher (ws : List Term) (t0 : Term) (rest : List Term) (ht0 : t0 ≠ [])
    (hl : lastReal (t0 :: rest) = true) :
    phraseIn (t0 :: rest) ws = true ↔ phrasePaths (tlmOf ws) (single (t0 :: rest)) 0 ≠ [] := by
  rw [phraseIn_iff_at (t0 :: rest) (by simp) ws]
  have hte : t0.isEmpty = false := by cases t0 <;> simp_all
  have hph : isPlaceholder [t0] = false := by rw [single_placeholder]; exact hte
  unfold phrasePaths
  simp only [single, List.map_cons, findPaths, hph, Bool.false_eq_true, if_false, List.flatMap_cons,
    List.flatMap_nil, List.append_nil]
  rw [flatMap_ne_nil]
  constructor
  · rintro ⟨k, hk⟩
    rw [phraseAt_eq_matchFrom _ hl] at hk
    cases hd : ws.drop k with
    | nil => rw [hd, matchFrom_real_nil t0 rest hte] at hk; simp at hk
    | cons w tl =>
      rw [hd, matchFrom_real_cons t0 rest w tl hte] at hk
      simp only [Bool.and_eq_true, beq_iff_eq] at hk
      have hklt : k < ws.length := by
        rcases Nat.lt_or_ge k ws.length with h1 | h1
        · exact h1
        · rw [List.drop_eq_nil_of_le h1] at hd; simp at hd
      rw [List.drop_eq_getElem_cons hklt] at hd
      simp only [List.cons.injEq] at hd
      have hw : ws[k]? = some t0 := by rw [List.getElem?_eq_getElem hklt, hd.1, hk.1]
      have hpre : matchFrom rest (ws.drop (k + 1)) = true := by rw [hd.2]; exact hk.2
      have hloc : (⟨k + 1, 0⟩ : Loc) ∈ locsOf (tlmOf ws) t0 :=
        (mem_locsOf ws t0 ⟨k + 1, 0⟩).mpr ⟨rfl, by simp, by simpa using hw⟩
      obtain ⟨i, hget⟩ := List.mem_iff_getElem?.mp hloc
      refine ⟨(⟨k + 1, 0⟩, i), List.mem_zipIdx_iff_getElem?.mpr hget, ?_⟩
      simp only [admits_first]
      have hfresh : Fresh (tlmOf ws) ([] ++ [⟨t0, i, ⟨k + 1, 0⟩⟩]) (k + 1) :=
        fresh_snoc (tlmOf ws) [] 0 t0 i ⟨k + 1, 0⟩ (by intro x hx; simp at hx) (by simp) hget
      have := (findPaths_rest_gaps ws rest (k + 1) ([] ++ [⟨t0, i, ⟨k + 1, 0⟩⟩]) (by omega) hfresh).mpr hpre
      simpa [single] using this
  · rintro ⟨⟨l, i⟩, hmem, hne'⟩
    have hget : (locsOf (tlmOf ws) t0)[i]? = some l := List.mem_zipIdx_iff_getElem?.mp hmem
    have hloc : l ∈ locsOf (tlmOf ws) t0 := List.mem_of_getElem? hget
    obtain ⟨hap, hp1, hw⟩ := (mem_locsOf ws t0 l).mp hloc
    simp only [admits_first] at hne'
    rw [hap] at hne'
    have hfresh : Fresh (tlmOf ws) ([] ++ [⟨t0, i, l⟩]) l.pos :=
      fresh_snoc (tlmOf ws) [] 0 t0 i l (by intro x hx; simp at hx) (by omega) hget
    have hm := (findPaths_rest_gaps ws rest l.pos ([] ++ [⟨t0, i, l⟩]) hp1 hfresh).mp (by simpa [single] using hne')
    refine ⟨l.pos - 1, ?_⟩
    rw [phraseAt_eq_matchFrom _ hl, drop_cons_of_getElem? ws (l.pos - 1) t0 hw, matchFrom_real_cons t0 rest _ _ hte]
    have e : l.pos - 1 + 1 = l.pos := by omega
    simp only [beq_self_eq_true, Bool.true_and, e]
    exact hm

example : phrasePaths (tlmOf [[1], [2], [3], [2]]) (single [[1], [], [3]]) 0 ≠ [] ∧
    phraseIn [[1], [], [3]] [[1], [2], [3], [2]] = true := by decide

end Bleve.Phrase
