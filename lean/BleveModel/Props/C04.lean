import BleveModel.Model.History
import BleveModel.Props.Snapshot
set_option linter.unusedVariables false
set_option linter.unusedSimpArgs false
/-!
# C04 — Readers see whole batches, in order, and a reader's view never changes

"While writers, the persister and the merger run concurrently, every search or reader observes the
index exactly as it was after some prefix of each writer's completed-or-in-flight batches: never
part of a batch, and never a state older than a batch whose call had already returned when the read
began. Successive reads by one client never go backwards, and an index reader, once obtained,
returns identical answers for its whole lifetime no matter what is indexed, merged, persisted or
purged meanwhile."

Two proved parts.  (1) `Props/Snapshot.lean`: every root the introducer can produce is the replay of
a prefix of the introduced batches, an introduction changes all of a batch's documents in one step,
merges and persists change nothing (`introduce_lookup`, `merge_lookup`, `reachable_refines`) — so a
reader, which captures one root, sees whole batches.  (2) the monitor below: `check` is *exactly*
the specification `Consistent` (`check_iff`), so an observation the monitor rejects is a real
violation and one it accepts really is a whole-batch, acknowledged-covering, monotone view.
`./check C04` records observations made through real readers while writers, persister and merger
run, and evaluates `check` on each of them in Lean.  **Partial**: that the Go runtime delivers the
modelled atomicity of the root swap is exercised by these runs, not proved.
-/
namespace Bleve.History

theorem allLe_iff : ∀ (a b : List Nat), allLe a b = true ↔ ∀ i, a.getD i 0 ≤ b.getD i 0 := by
  intro a
  induction a with
  | nil => intro b; simp [allLe]
  | cons x xs ih =>
    intro b
    cases b with
    | nil =>
      simp only [allLe, Bool.and_eq_true, beq_iff_eq]
      rw [ih []]
      constructor
      · intro ⟨hx, hr⟩ i
        cases i with
        | zero => simp [hx]
        | succ j => have := hr j; simpa using this
      · intro h
        refine ⟨by have := h 0; simpa using this, fun i => by have := h (i + 1); simpa using this⟩
    | cons y ys =>
      simp only [allLe, Bool.and_eq_true, decide_eq_true_eq]
      rw [ih ys]
      constructor
      · intro ⟨hx, hr⟩ i
        cases i with
        | zero => simpa using hx
        | succ j => have := hr j; simpa using this
      · intro h
        refine ⟨by have := h 0; simpa using this, fun i => by have := h (i + 1); simpa using this⟩

/-- **The monitor is the specification.** -/
theorem check_iff (ks prev : List Nat) (o : Obs) : check ks prev o = true ↔ Consistent ks prev o := by
  unfold check Consistent
  simp only [Bool.and_eq_true, beq_iff_eq]
  constructor
  · intro ⟨⟨⟨⟨hlen, hdocs⟩, hcount⟩, hacked⟩, hprev⟩
    exact ⟨o.ints, hlen, hdocs, rfl, hcount, (allLe_iff _ _).1 hacked, (allLe_iff _ _).1 hprev⟩
  · intro ⟨ps, hlen, hdocs, hints, hcount, hacked, hprev⟩
    subst hints
    exact ⟨⟨⟨⟨hlen, hdocs⟩, hcount⟩, (allLe_iff _ _).2 hacked⟩, (allLe_iff _ _).2 hprev⟩

/-- a consistent observation never shows part of a batch: what is seen of writer `w`'s documents is
    exactly their state after the batch whose number is in the writer's internal key -/
theorem whole_batches (ks prev : List Nat) (o : Obs) (h : Consistent ks prev o) (w : Nat) (ds : List Nat)
    (hw : o.docs[w]? = some ds) : ∃ k, ks[w]? = some k ∧ ds = docsAfter k (o.ints.getD w 0) := by
  obtain ⟨ps, hlen, hdocs, hints, _, _, _⟩ := h
  subst hints
  rw [hdocs, List.getElem?_map] at hw
  cases hz : (ks.zip o.ints)[w]? with
  | none => rw [hz] at hw; simp at hw
  | some kp =>
    rw [hz] at hw
    simp only [Option.map_some, Option.some.injEq] at hw
    subst hw
    rw [List.getElem?_zip_eq_some] at hz
    refine ⟨kp.1, hz.1, ?_⟩
    simp [List.getD, hz.2]

/-- in particular every fixed document of a writer carries the number in the writer's internal key -/
theorem fixed_docs_one_seq (ks prev : List Nat) (o : Obs) (h : Consistent ks prev o) (w : Nat) (ds : List Nat)
    (hw : o.docs[w]? = some ds) : ∃ k, ks[w]? = some k ∧ ds.take k = List.replicate k (o.ints.getD w 0) := by
  obtain ⟨k, hk, hds⟩ := whole_batches ks prev o h w ds hw
  refine ⟨k, hk, ?_⟩
  subst hds
  unfold docsAfter
  rw [List.append_assoc, List.take_append_of_le_length (by simp)]
  simp

/-- a ring slot never runs ahead of the writer's batch number and is at most five batches behind -/
theorem ring_le (p s : Nat) : ring p s ≤ p := by
  unfold ring; split <;> omega

theorem ring_recent (p s : Nat) (hs : s < 6) (hp : 6 ≤ p) : p < ring p s + 6 := by
  unfold ring
  have : ¬ p < s := by omega
  rw [if_neg this]
  have := Nat.mod_lt (p - s) (by omega : 0 < 6)
  omega

/-- successive accepted observations of one client never go backwards -/
theorem monotone_reads (ks prev : List Nat) (o : Obs) (h : Consistent ks prev o) :
    ∀ i, prev.getD i 0 ≤ o.ints.getD i 0 := by
  obtain ⟨ps, _, _, hints, _, _, hprev⟩ := h
  subst hints; exact hprev

/-- ... and never miss an acknowledged batch -/
theorem covers_acked (ks prev : List Nat) (o : Obs) (h : Consistent ks prev o) :
    ∀ i, o.acked.getD i 0 ≤ o.ints.getD i 0 := by
  obtain ⟨ps, _, _, hints, _, hacked, _⟩ := h
  subst hints; exact hacked

/-- what the shared-document monitor accepts -/
theorem sharedOK_iff (ints : List Nat) (present : Bool) (w n : Nat) :
    sharedOK ints present w n = true ↔
      ((∀ x ∈ ints, x = 0) ∧ present = false) ∨
      ((∃ x ∈ ints, x ≠ 0) ∧ present = true ∧ 0 < n ∧ ints.getD w 0 = n) := by
  unfold sharedOK
  by_cases h : ints.all (· == 0) = true
  · rw [if_pos h]
    have h' : ∀ x ∈ ints, x = 0 := by
      intro x hx; simpa using (List.all_eq_true.1 h) x hx
    constructor
    · intro hp; exact Or.inl ⟨h', by simpa using hp⟩
    · rintro (⟨_, hp⟩ | ⟨⟨x, hx, hne⟩, _⟩)
      · simp [hp]
      · exact absurd (h' x hx) hne
  · rw [if_neg h]
    have h' : ∃ x ∈ ints, x ≠ 0 := by
      have hf : ints.all (· == 0) = false := by simpa using h
      rw [List.all_eq_false] at hf
      obtain ⟨x, hx, hne⟩ := hf
      exact ⟨x, hx, by simpa using hne⟩
    simp only [Bool.and_eq_true, decide_eq_true_eq, beq_iff_eq]
    constructor
    · intro ⟨⟨hp, hn⟩, hw⟩; exact Or.inr ⟨h', hp, hn, hw⟩
    · rintro (⟨hz, _⟩ | ⟨_, hp, hn, hw⟩)
      · obtain ⟨x, hx, hne⟩ := h'; exact absurd (hz x hx) hne
      · exact ⟨⟨hp, hn⟩, hw⟩

example : sharedOK [4, 7] true 1 7 = true := by decide
example : sharedOK [4, 7] true 1 6 = false := by decide     -- a copy from an earlier batch of writer 1
example : sharedOK [0, 0] true 0 1 = false := by decide

example : docsAfter 2 8 = [8, 8, 8, 8, 6, 7, 8, 3, 4, 5] := by decide
example : check [2, 2] [0, 0] ⟨1, [1, 0], [[1, 1, 1, 0, 0, 1, 0, 0, 0, 0], [0, 0, 0, 0, 0, 0, 0, 0, 0, 0]], [1, 0], 4⟩ = true := by decide
example : check [2, 2] [0, 0] ⟨1, [1, 0], [[1, 2, 1, 0, 0, 1, 0, 0, 0, 0], [0, 0, 0, 0, 0, 0, 0, 0, 0, 0]], [1, 0], 4⟩ = false := by decide   -- half a batch
example : check [2, 2] [0, 0] ⟨1, [2, 0], [[1, 1, 1, 0, 0, 1, 0, 0, 0, 0], [0, 0, 0, 0, 0, 0, 0, 0, 0, 0]], [1, 0], 4⟩ = false := by decide   -- older than acknowledged
example : check [2, 2] [0, 0] ⟨1, [1, 0], [[1, 1, 1, 0, 0, 1, 0, 0, 0, 0], [0, 0, 0, 0, 0, 0, 0, 0, 0, 0]], [1, 0], 3⟩ = false := by decide   -- count from another moment

end Bleve.History
