import BleveModel.Gen.QueryDispatch
set_option linter.unusedVariables false
/-!
# C17 — Queries and requests keep their meaning across JSON and the query-string syntax

"Any query value serialises to JSON that parses back to a query returning the same results on any
index, and any search request serialises and parses back to an equivalent request. The query-string
parser accepts or rejects arbitrary input without panicking, and for well-formed input the parsed
query returns the same results as the directly constructed query the syntax documents (required,
optional and excluded clauses, field scoping, phrases, boosts, fuzziness, numeric and date
comparisons)."

What is proved here is the *dispatch* half of the JSON round trip: `ParseQuery` recognises the
concrete type of a JSON object from which keys are present, through an ordered list of tests.  That
list is regenerated from /repo's `ParseQuery` on every run as the Lean function
`Gen.parseQueryDispatch`, and the keys each query struct emits are regenerated from its struct tags
(`Gen.queryStructTags`).  `dispatch_correct` says: for every query type of the family, for every
subset of its optional (`omitempty`) keys that a valid query can have, the first test that fires
selects that type (or the documented equivalent type).  Reordering two tests, adding a key to a
struct without excluding it in an earlier test, or dropping `omitempty` changes the generated file
and the kernel evaluation below fails.  Everything else of C17 — equal results after the JSON round
trip of random query trees and search requests, the query-string parser against directly built
queries, arbitrary bytes without panics, independence from the lexer pool's history — is checked by
the differential correspondence of `./check C17`.
-/
namespace Bleve.C17

def tagsOf (t : String) : List (String × String × Bool × String) :=
  Gen.queryStructTags.filter (fun r => r.1 == t)

def mandatory (t : String) : List String := ((tagsOf t).filter (fun r => !r.2.2.1)).map (·.2.1)
def optional (t : String) : List String := ((tagsOf t).filter (fun r => r.2.2.1)).map (·.2.1)

def goType (t k : String) : String := (((tagsOf t).find? (fun r => r.2.1 == k)).map (·.2.2.2)).getD ""

def subsets : List String → List (List String)
  | [] => [[]]
  | x :: xs => let r := subsets xs; r ++ r.map (x :: ·)

/-- what `ParseQuery` answers for a query of type `t` whose JSON object has exactly `keys` -/
def dispatchOf (t : String) (keys : List String) : String :=
  Gen.parseQueryDispatch (fun k => keys.contains k)
    (fun k => keys.contains k && (goType t k == "*float64" || goType t k == "float64"))
    (fun k => keys.contains k && goType t k == "string")

/-- key sets a query that passes `Validate` can produce -/
def validKeys (t : String) (keys : List String) : Bool :=
  match t with
  | "NumericRangeQuery" | "TermRangeQuery" => keys.contains "min" || keys.contains "max"
  | "DateRangeQuery" => keys.contains "start" || keys.contains "end"
  | "BooleanQuery" => keys.contains "must" || keys.contains "should" || keys.contains "must_not" || keys.contains "filter"
  | _ => true

/-- the type the round trip is expected to come back as: itself, except that a date range comes
    back in its string form (same bounds) and a fuzzy query whose fuzziness is 0 (key omitted) comes
    back as the term query it is equivalent to -/
def expected (t : String) (keys : List String) : String :=
  match t with
  | "DateRangeQuery" => "DateRangeStringQuery"
  | "FuzzyQuery" => if keys.contains "fuzziness" then "FuzzyQuery" else "TermQuery"
  | _ => t

def family : List String :=
  ["TermQuery", "MatchQuery", "MatchPhraseQuery", "PhraseQuery", "FuzzyQuery", "PrefixQuery", "WildcardQuery",
   "RegexpQuery", "TermRangeQuery", "NumericRangeQuery", "DateRangeQuery", "BoolFieldQuery", "DocIDQuery",
   "ConjunctionQuery", "DisjunctionQuery", "BooleanQuery", "QueryStringQuery"]

def dispatchOK (t : String) : Bool :=
  !(tagsOf t).isEmpty &&
  (subsets (optional t)).all (fun s =>
    let keys := mandatory t ++ s
    !validKeys t keys || dispatchOf t keys == expected t keys)

/-- **Dispatch is correct for the whole family**, for every combination of optional keys. -/
theorem dispatch_correct : family.all dispatchOK = true := by decide

/-- the two parameterless queries -/
theorem dispatch_match_all :
    Gen.parseQueryDispatch (fun k => k == "match_all") (fun _ => false) (fun _ => false) = "MatchAllQuery" := by decide
theorem dispatch_match_none :
    Gen.parseQueryDispatch (fun k => k == "match_none") (fun _ => false) (fun _ => false) = "MatchNoneQuery" := by decide

/-- a disjunction carries a numeric `min`; it must not be mistaken for a numeric range -/
example : dispatchOf "DisjunctionQuery" ["disjuncts", "min"] = "DisjunctionQuery" := by decide

end Bleve.C17
