import BleveModel.Model.IndexSpec
import BleveModel.Props.C15
set_option linter.unusedSimpArgs false
set_option linter.unusedVariables false
/-!
# C01 — Index contents equal the last-write-wins replay of the operation history

"After any sequence of Index, Delete, Batch, SetInternal and DeleteInternal calls (re-indexing a
live id, deleting an absent id, several operations on one id inside one batch, empty batches), the
index behaves as a map from document id to the most recently written document: DocCount equals the
number of live ids, Document(id) returns exactly the stored fields of the latest version (nil for an
absent id), a match-all or doc-id search returns exactly the live ids once each, and GetInternal
returns the latest value of each internal key. Operations of one batch take effect together with the
last operation per id winning, and the outcome does not depend on the index type (scorch on disk,
scorch in memory, upsidedown over any KV store) or on how the same operations are split into
batches."

`Model/IndexSpec.lean` is the replay.  `./check C01` runs seeded histories, each with a different
random partition into batches, against scorch (disk, memory, zap v11–v17, with forced merges and
close/reopen) and upsidedown over boltdb, goleveldb, gtreap and moss, and compares DocCount,
Document(id) for every id of the space, match-all ids, doc-id search and GetInternal with the replay
after the batches.  The theorems say what the replay itself guarantees, for every history.
-/
namespace Bleve.IndexSpec
open Bleve.KV

/-- how the history is split into batches does not matter -/
theorem partition_independent (s : Spec) (batches : List (List Op)) :
    applyBatches s batches = applyOps s batches.flatten := by
  unfold applyBatches applyBatch applyOps
  induction batches generalizing s with
  | nil => rfl
  | cons b bs ih => simp only [List.foldl_cons, List.flatten_cons, List.foldl_append]; exact ih _

theorem applyOps_append (s : Spec) (a b : List Op) : applyOps s (a ++ b) = applyOps (applyOps s a) b := by
  simp [applyOps, List.foldl_append]

/-- an empty batch changes nothing -/
theorem empty_batch (s : Spec) : applyBatch s [] = s := rfl

theorem document_applyOp (s : Spec) (op : Op) (id : Bytes) :
    (applyOp s op).document id =
      match op with
      | .index i d => if i = id then some d else s.document id
      | .delete i => if i = id then none else s.document id
      | _ => s.document id := by
  cases op with
  | index i d =>
    simp only [applyOp, Spec.document]
    by_cases h : i = id
    · subst h; simp [get_put_same]
    · simp only [h, if_false]; exact get_put_other _ _ _ _ (fun e => h e.symm)
  | delete i =>
    simp only [applyOp, Spec.document]
    by_cases h : i = id
    · subst h; simp [get_del_same]
    · simp only [h, if_false]; exact get_del_other _ _ _ (fun e => h e.symm)
  | setInternal k v => rfl
  | deleteInternal k => rfl

/-- **Last write wins.** After any operation list, `Document(id)` is what the last operation on
    `id` says (the document of the last Index, or nothing after a Delete), and the previous answer
    if the list never mentions `id`. -/
theorem document_last_write_wins (ops : List Op) : ∀ (s : Spec) (id : Bytes),
    (applyOps s ops).document id =
      match lastDocOp id ops with
      | some r => r
      | none => s.document id := by
  induction ops with
  | nil => intro s id; rfl
  | cons op rest ih =>
    intro s id
    have e : applyOps s (op :: rest) = applyOps (applyOp s op) rest := rfl
    rw [e, ih (applyOp s op) id]
    simp only [lastDocOp]
    cases hl : lastDocOp id rest with
    | some r => rfl
    | none =>
      simp only
      rw [document_applyOp]
      cases op with
      | index i d =>
        by_cases h : i = id
        · simp [h]
        · have hb : (i == id) = false := by simpa using h
          simp [h, hb]
      | delete i =>
        by_cases h : i = id
        · simp [h]
        · have hb : (i == id) = false := by simpa using h
          simp [h, hb]
      | setInternal k v => rfl
      | deleteInternal k => rfl

/-- the document map stays an ordered map with distinct ids under every history -/
def Spec.WF (s : Spec) : Prop := SortedKeys s.docs ∧ SortedKeys s.ints

theorem wf_applyOp (s : Spec) (op : Op) (h : s.WF) : (applyOp s op).WF := by
  cases op with
  | index i d => exact ⟨put_sorted _ _ _ h.1, h.2⟩
  | delete i => exact ⟨del_sorted _ _ h.1, h.2⟩
  | setInternal k v => exact ⟨h.1, put_sorted _ _ _ h.2⟩
  | deleteInternal k => exact ⟨h.1, del_sorted _ _ h.2⟩

theorem wf_applyOps (ops : List Op) (s : Spec) (h : s.WF) : (applyOps s ops).WF := by
  induction ops generalizing s with
  | nil => exact h
  | cons op rest ih => exact ih _ (wf_applyOp s op h)

theorem wf_init : ({} : Spec).WF := by simp [Spec.WF, SortedKeys]

theorem sortedKeys_nodup (s : Store) (h : SortedKeys s) : (s.map (·.1)).Nodup := by
  unfold SortedKeys at h
  induction s with
  | nil => simp
  | cons p rest ih =>
    rw [List.pairwise_cons] at h
    rw [List.map_cons, List.nodup_cons]
    refine ⟨?_, ih h.2⟩
    intro hm
    rw [List.mem_map] at hm
    obtain ⟨q, hq, he⟩ := hm
    have := h.1 q hq
    rw [← he, bytesLt_irrefl] at this
    cases this

/-- match-all returns every live id exactly once; DocCount is the number of live ids -/
theorem liveIds_once (ops : List Op) : ((applyOps {} ops).liveIds).Nodup ∧
    (applyOps {} ops).docCount = (applyOps {} ops).liveIds.length := by
  have h := wf_applyOps ops {} wf_init
  exact ⟨sortedKeys_nodup _ h.1, by simp [Spec.docCount, Spec.liveIds]⟩

theorem get_some_iff_mem (s : Store) (k : Bytes) (h : SortedKeys s) :
    (get s k).isSome = true ↔ k ∈ s.map (·.1) := by
  induction s with
  | nil => simp [KV.get]
  | cons p rest ih =>
    unfold SortedKeys at h
    rw [List.pairwise_cons] at h
    simp only [KV.get]
    by_cases hk : (p.1 == k) = true
    · have e : p.1 = k := by simpa using hk
      simp [hk, e]
    · have e : ¬ p.1 = k := by simpa using hk
      simp only [hk, Bool.false_eq_true, if_false, List.map_cons, List.mem_cons]
      rw [ih h.2]
      constructor
      · intro hm; exact Or.inr hm
      · intro hm; rcases hm with hm | hm
        · exact absurd hm.symm e
        · exact hm

/-- `Document(id)` answers exactly for the live ids (what match-all and the doc-id search return) -/
theorem document_iff_live (ops : List Op) (id : Bytes) :
    ((applyOps {} ops).document id).isSome = true ↔ id ∈ (applyOps {} ops).liveIds :=
  get_some_iff_mem _ _ (wf_applyOps ops {} wf_init).1

/-- **Re-submitting a batch is harmless** (a retry after an ambiguous failure): replaying the same
    operation list a second time changes no `Document` answer. -/
theorem resubmit_idempotent (s : Spec) (ops : List Op) (id : Bytes) :
    (applyOps (applyOps s ops) ops).document id = (applyOps s ops).document id := by
  rw [document_last_write_wins ops (applyOps s ops) id]
  cases h : lastDocOp id ops with
  | none => rfl
  | some r =>
    rw [document_last_write_wins ops s id, h]

/-- operations on other ids never change `Document(id)`: the answer for an id depends only on the
    operations that mention it -/
theorem document_frame (s : Spec) (ops : List Op) (id : Bytes) (h : lastDocOp id ops = none) :
    (applyOps s ops).document id = s.document id := by
  rw [document_last_write_wins ops s id, h]

/-- two operation lists that agree on the last operation of every id yield the same answers — in
    particular any reordering of a batch that keeps the relative order of the operations on each id -/
theorem document_depends_on_last (s : Spec) (ops₁ ops₂ : List Op) (id : Bytes)
    (h : lastDocOp id ops₁ = lastDocOp id ops₂) :
    (applyOps s ops₁).document id = (applyOps s ops₂).document id := by
  rw [document_last_write_wins ops₁ s id, document_last_write_wins ops₂ s id, h]

example : (applyOps (applyOps {} [.index [1] [10], .delete [2]]) [.index [1] [10], .delete [2]]).document [1] = some [10] := by decide

example : (applyBatches {} [[.index [1] [10], .delete [1], .index [1] [11]], [], [.index [2] [20], .delete [3]]]).liveIds
    = [[1], [2]] := by decide

end Bleve.IndexSpec
