import BleveModel.Model.QueryString
set_option linter.unusedSimpArgs false
set_option linter.unusedVariables false
/-!
# C17, query-string syntax: theorems about the lexer and grammar model

The lexer is total and terminates by construction (`run` is structural over the input: every step
consumes one rune), its only error is an unterminated quote (`lex_error_iff_in_phrase`).  Any text
can be written as one term (`lex_escTerm`) or as one phrase (`lex_phrase`), and the documented
clause syntax parses back to exactly the clauses written (`parts_render`).  That the Go lexer and
the goyacc parser behave like this model is what `./check C17` compares (token streams through the
`verif` export `VerifLexQueryString`, parsed queries through `QueryStringQuery.Parse`).
-/
namespace Bleve.QueryString

/-! ### escaping: any text can be written as one term, any text as one phrase -/

def bs : R := ⟨92, false, false⟩
def quote : R := ⟨34, false, false⟩

/-- a term written with every reserved character escaped -/
def escTerm (rs : List R) : List R :=
  rs.flatMap (fun r => if reserved.contains r.cp then [bs, r] else [r])

/-- a phrase body written with `"` and `\` escaped -/
def escPhrase (rs : List R) : List R :=
  rs.flatMap (fun r => if r.cp == 34 || r.cp == 92 then [bs, r] else [r])

theorem reserved_92 : reserved.contains 92 = true := by decide
theorem reserved_34 : reserved.contains 34 = true := by decide
theorem reserved_32 : reserved.contains 32 = true := by decide

theorem not_reserved_ne (c : Nat) (h : reserved.contains c = false) :
    c ≠ 92 ∧ c ≠ 34 ∧ c ≠ 32 ∧ c ≠ 58 ∧ c ≠ 94 ∧ c ≠ 126 ∧ c ≠ 43 ∧ c ≠ 45 ∧ c ≠ 62 ∧ c ≠ 60 ∧ c ≠ 61 := by
  refine ⟨?_, ?_, ?_, ?_, ?_, ?_, ?_, ?_, ?_, ?_, ?_⟩ <;> (intro hc; subst hc; revert h; decide)

/-- in the string state an escaped term only grows the buffer -/
theorem run_str_escTerm (rs : List R) (buf : Text) :
    run { mode := .str, buf := buf, esc := false, dot := false } (escTerm rs)
      = ([⟨.STRING, buf ++ rs.map (·.cp)⟩], false) := by
  induction rs generalizing buf with
  | nil => simp [escTerm, run, finish, optL]
  | cons r rs ih =>
    simp only [escTerm, List.flatMap_cons] at ih ⊢
    by_cases hr : reserved.contains r.cp = true
    · simp only [hr, if_true, List.cons_append, List.nil_append]
      have h1 : step { mode := .str, buf := buf, esc := false, dot := false } bs
          = ({ mode := .str, buf := buf, esc := true, dot := false }, none) := by
        simp [step, bs, handsBack, accum]
      have h2 : step { mode := .str, buf := buf, esc := true, dot := false } r
          = ({ mode := .str, buf := buf ++ [r.cp], esc := false, dot := false }, none) := by
        have hm : r.cp ∈ reserved := by simpa using hr
        simp [step, accum, unesc, hm]
      simp only [run, h1, h2, optL, List.nil_append]
      rw [ih (buf ++ [r.cp])]
      simp
    · have hr' : reserved.contains r.cp = false := by simpa using hr
      obtain ⟨n92, _, n32, n58, n94, n126, _⟩ := not_reserved_ne r.cp hr'
      simp only [hr', Bool.false_eq_true, if_false, List.cons_append, List.nil_append]
      have h1 : step { mode := .str, buf := buf, esc := false, dot := false } r
          = ({ mode := .str, buf := buf ++ [r.cp], esc := false, dot := false }, none) := by
        simp [step, handsBack, accum, n92, n32, n58, n94, n126]
      simp only [run, h1, optL, List.nil_append]
      rw [ih (buf ++ [r.cp])]
      simp

/-- **Any text can be written as one term.**  Escape every reserved character; unless the text starts
with a digit (then it may lex as a number) or with an unescapable space-class rune (eaten as
separator), the lexer returns exactly one STRING token carrying the text. -/
theorem lex_escTerm (r : R) (rs : List R)
    (h0 : reserved.contains r.cp = true ∨ (r.digit = false ∧ r.space = false)) :
    lex (escTerm (r :: rs)) = ([⟨.STRING, (r :: rs).map (·.cp)⟩], false) := by
  have hsplit : escTerm (r :: rs) = (if reserved.contains r.cp then [bs, r] else [r]) ++ escTerm rs := by
    simp [escTerm]
  rw [hsplit]
  unfold lex
  by_cases hr : reserved.contains r.cp = true
  · simp only [hr, if_true, List.cons_append, List.nil_append]
    have h1 : step fresh bs = ({ mode := .start, buf := [], esc := true, dot := false }, none) := by
      simp [step, fresh, startStep, bs]
    have h2 : step { mode := .start, buf := [], esc := true, dot := false } r
        = ({ mode := .str, buf := [r.cp], esc := false, dot := false }, none) := by
      have hm : r.cp ∈ reserved := by simpa using hr
      simp [step, startStep, unesc, hm]
    simp only [run, h1, h2, optL, List.nil_append]
    rw [run_str_escTerm rs [r.cp]]
    simp
  · have hr' : reserved.contains r.cp = false := by simpa using hr
    obtain ⟨n92, n34, n32, n58, n94, n126, n43, n45, n62, n60, n61⟩ := not_reserved_ne r.cp hr'
    rcases h0 with h0 | ⟨hd, hs⟩
    · exact absurd h0 hr
    simp only [hr', Bool.false_eq_true, if_false, List.cons_append, List.nil_append]
    have h1 : step fresh r = ({ mode := .str, buf := [r.cp], esc := false, dot := false }, none) := by
      simp [step, fresh, startStep, n92, n34, n58, n94, n126, n43, n45, n62, n60, n61, hd, hs]
    simp only [run, h1, optL, List.nil_append]
    rw [run_str_escTerm rs [r.cp]]
    simp

theorem run_phrase_esc (rs : List R) (buf : Text) :
    run { mode := .phrase, buf := buf, esc := false, dot := false } (escPhrase rs ++ [quote])
      = ([⟨.PHRASE, buf ++ rs.map (·.cp)⟩], false) := by
  induction rs generalizing buf with
  | nil =>
    simp [escPhrase, run, step, quote, finish, optL, fresh]
  | cons r rs ih =>
    simp only [escPhrase, List.flatMap_cons] at ih ⊢
    by_cases hr : (r.cp == 34 || r.cp == 92) = true
    · simp only [hr, if_true, List.cons_append, List.nil_append, List.append_assoc]
      have h1 : step { mode := .phrase, buf := buf, esc := false, dot := false } bs
          = ({ mode := .phrase, buf := buf, esc := true, dot := false }, none) := by
        simp [step, bs, accum]
      have hres : reserved.contains r.cp = true := by
        simp only [Bool.or_eq_true, beq_iff_eq] at hr
        rcases hr with h | h <;> rw [h] <;> decide
      have h2 : step { mode := .phrase, buf := buf, esc := true, dot := false } r
          = ({ mode := .phrase, buf := buf ++ [r.cp], esc := false, dot := false }, none) := by
        have hm : r.cp ∈ reserved := by simpa using hres
        simp [step, accum, unesc, hm]
      simp only [run, h1, h2, optL, List.nil_append]
      rw [ih (buf ++ [r.cp])]
      simp
    · have hr' : (r.cp == 34 || r.cp == 92) = false := by simpa using hr
      simp only [Bool.or_eq_false_iff, beq_eq_false_iff_ne] at hr'
      simp only [show (r.cp == 34 || r.cp == 92) = false from by simpa using hr, Bool.false_eq_true, if_false,
        List.cons_append, List.nil_append]
      have h1 : step { mode := .phrase, buf := buf, esc := false, dot := false } r
          = ({ mode := .phrase, buf := buf ++ [r.cp], esc := false, dot := false }, none) := by
        simp [step, accum, hr'.1, hr'.2]
      simp only [run, h1, optL, List.nil_append]
      rw [ih (buf ++ [r.cp])]
      simp

/-- **Any text can be written as one phrase**: between quotes, with `"` and `\` escaped. -/
theorem lex_phrase (rs : List R) :
    lex (quote :: (escPhrase rs ++ [quote])) = ([⟨.PHRASE, rs.map (·.cp)⟩], false) := by
  unfold lex
  have h1 : step fresh quote = ({ mode := .phrase, buf := [], esc := false, dot := false }, none) := by
    simp [step, fresh, startStep, quote]
  simp only [run, h1, optL, List.nil_append]
  rw [run_phrase_esc rs []]
  simp

/-- the lexer's only error: an opening quote that is never closed -/
theorem lex_error_iff_in_phrase (input : List R) :
    (lex input).2 = true ↔ ∃ s, (input.foldl (fun s r => (step s r).1) fresh) = s ∧ s.mode = .phrase := by
  unfold lex
  have : ∀ (s : LS) (l : List R), (run s l).2 = true ↔ (l.foldl (fun s r => (step s r).1) s).mode = .phrase := by
    intro s l
    induction l generalizing s with
    | nil =>
      simp only [run, List.foldl_nil, finish]
      cases s.mode <;> simp
    | cons r rs ih =>
      simp only [run, List.foldl_cons]
      exact ih _
  rw [this]
  constructor
  · intro h; exact ⟨_, rfl, h⟩
  · rintro ⟨s, rfl, h⟩; exact h

example : lex [⟨97, false, false⟩, ⟨58, false, false⟩, ⟨34, false, false⟩, ⟨98, false, false⟩, ⟨34, false, false⟩, ⟨126, false, false⟩, ⟨50, true, false⟩]
    = ([⟨.STRING, [97]⟩, ⟨.COLON, []⟩, ⟨.PHRASE, [98]⟩, ⟨.TILDE, [50]⟩], false) := by decide

/-! ### the grammar: the documented syntax parses back to what was written -/

def renderNum (n : Text) : List Tok :=
  match n with
  | 45 :: m => [⟨.MINUS, []⟩, ⟨.NUMBER, m⟩]
  | _ => [⟨.NUMBER, n⟩]

def cmpToks : Cmp → List Tok
  | .gt => [⟨.GREATER, []⟩]
  | .ge => [⟨.GREATER, []⟩, ⟨.EQUAL, []⟩]
  | .lt => [⟨.LESS, []⟩]
  | .le => [⟨.LESS, []⟩, ⟨.EQUAL, []⟩]

def fieldToks : Option Text → List Tok
  | none => []
  | some f => [⟨.STRING, f⟩, ⟨.COLON, []⟩]

/-- the documented way to write a clause, as tokens -/
def renderBase : Base → List Tok
  | .str f s => fieldToks f ++ [⟨.STRING, s⟩]
  | .fuzzy f s z => fieldToks f ++ [⟨.STRING, s⟩, ⟨.TILDE, z⟩]
  | .num none n => [⟨.NUMBER, n⟩]
  | .num (some f) n => fieldToks (some f) ++ renderNum n
  | .phrase f p => fieldToks f ++ [⟨.PHRASE, p⟩]
  | .cmp f op n => fieldToks (some f) ++ cmpToks op ++ renderNum n
  | .cmpDate f op p => fieldToks (some f) ++ cmpToks op ++ [⟨.PHRASE, p⟩]

def renderPart (p : Part) : List Tok :=
  (match p.occ with | .should => [] | .must => [⟨.PLUS, []⟩] | .mustNot => [⟨.MINUS, []⟩])
    ++ renderBase p.base ++ (match p.boost with | none => [] | some b => [⟨.BOOST, b⟩])

/-- what can follow a complete clause: nothing, or the first token of another clause -/
def StartsPart : List Tok → Prop
  | [] => True
  | t :: _ => t.ty = .PLUS ∨ t.ty = .MINUS ∨ t.ty = .STRING ∨ t.ty = .NUMBER ∨ t.ty = .PHRASE

/-- a clause may be followed by a boost as well -/
def AfterBase : List Tok → Prop
  | [] => True
  | t :: _ => t.ty = .PLUS ∨ t.ty = .MINUS ∨ t.ty = .STRING ∨ t.ty = .NUMBER ∨ t.ty = .PHRASE ∨ t.ty = .BOOST

theorem posNeg_render (n : Text) (rest : List Tok) : posNeg (renderNum n ++ rest) = some (n, rest) := by
  unfold renderNum
  split <;> simp [posNeg]

theorem base_render (b : Base) (rest : List Tok) (hr : AfterBase rest) :
    base (renderBase b ++ rest) = some (b, rest) := by
  have key : ∀ (t : Tok) (ts : List Tok), AfterBase (t :: ts) → t.ty ≠ .COLON ∧ t.ty ≠ .TILDE ∧ t.ty ≠ .EQUAL := by
    intro t ts h
    simp only [AfterBase] at h
    refine ⟨?_, ?_, ?_⟩ <;> (intro hc; rw [hc] at h; simp at h)
  cases b with
  | str f s =>
    cases f with
    | none =>
      cases rest with
      | nil => simp [renderBase, fieldToks, base]
      | cons t ts =>
        obtain ⟨h1, h2, _⟩ := key t ts hr
        obtain ⟨ty, tx⟩ := t
        cases ty <;> simp_all [renderBase, fieldToks, base]
    | some f =>
      cases rest with
      | nil => simp [renderBase, fieldToks, base, fielded]
      | cons t ts =>
        obtain ⟨h1, h2, _⟩ := key t ts hr
        obtain ⟨ty, tx⟩ := t
        cases ty <;> simp_all [renderBase, fieldToks, base, fielded]
  | fuzzy f s z =>
    cases f with
    | none => simp [renderBase, fieldToks, base]
    | some f => simp [renderBase, fieldToks, base, fielded]
  | num f n =>
    cases f with
    | none => simp [renderBase, base]
    | some f =>
      simp only [renderBase, fieldToks, List.cons_append, List.nil_append, base]
      unfold renderNum
      split
      · simp [fielded, posNeg]
      · rename_i hne
        cases n with
        | nil => simp [fielded, posNeg]
        | cons c cs => simp [fielded, posNeg]
  | phrase f p =>
    cases f with
    | none =>
      cases rest with
      | nil => simp [renderBase, fieldToks, base]
      | cons t ts =>
        obtain ⟨h1, h2, _⟩ := key t ts hr
        obtain ⟨ty, tx⟩ := t
        cases ty <;> simp_all [renderBase, fieldToks, base]
    | some f => simp [renderBase, fieldToks, base, fielded]
  | cmp f op n =>
    simp only [renderBase, fieldToks, List.cons_append, List.nil_append, base, List.append_assoc]
    cases op <;> simp only [cmpToks, List.cons_append, List.nil_append] <;> unfold renderNum <;> split <;>
      simp [fielded, posNeg]
  | cmpDate f op p =>
    cases op <;> simp [renderBase, fieldToks, cmpToks, base, fielded]

theorem renderBase_head (b : Base) : ∃ t ts, renderBase b = t :: ts ∧ (t.ty = .STRING ∨ t.ty = .NUMBER ∨ t.ty = .PHRASE) := by
  cases b with
  | str f s => cases f <;> simp [renderBase, fieldToks]
  | fuzzy f s z => cases f <;> simp [renderBase, fieldToks]
  | num f n => cases f <;> simp [renderBase, fieldToks]
  | phrase f p => cases f <;> simp [renderBase, fieldToks]
  | cmp f op n => simp [renderBase, fieldToks]
  | cmpDate f op p => simp [renderBase, fieldToks]

theorem part_render (p : Part) (rest : List Tok) (hr : StartsPart rest) :
    part (renderPart p ++ rest) = some (p, rest) := by
  obtain ⟨occ, b, boost⟩ := p
  obtain ⟨t, ts, hb, ht⟩ := renderBase_head b
  have hAfter : ∀ (l : List Tok), StartsPart l → AfterBase l := by
    intro l h
    cases l with
    | nil => trivial
    | cons x xs =>
      simp only [StartsPart] at h
      simp only [AfterBase]
      rcases h with h | h | h | h | h <;> simp [h]
  -- the clause itself, after the prefix
  have hbase : ∀ (tail : List Tok), AfterBase tail → base (renderBase b ++ tail) = some (b, tail) :=
    fun tail h => base_render b tail h
  have hnotPM : t.ty ≠ .PLUS ∧ t.ty ≠ .MINUS := by
    rcases ht with h | h | h <;> rw [h] <;> simp
  cases boost with
  | none =>
    have hB := hbase rest (hAfter rest hr)
    have hrestNoBoost : ∀ x xs, rest = x :: xs → x.ty ≠ .BOOST := by
      intro x xs he hc
      rw [he] at hr
      simp only [StartsPart] at hr
      rw [hc] at hr
      simp at hr
    cases occ with
    | should =>
      simp only [renderPart, List.nil_append, List.append_nil]
      unfold part
      rw [hb] at hB ⊢
      obtain ⟨tty, ttx⟩ := t
      cases tty <;> simp_all
      all_goals (cases rest with
        | nil => rfl
        | cons x xs =>
          obtain ⟨xty, xtx⟩ := x
          have := hrestNoBoost ⟨xty, xtx⟩ xs rfl
          cases xty <;> simp_all)
    | must =>
      simp only [renderPart, List.cons_append, List.nil_append, List.append_nil]
      unfold part
      simp only [hB]
      cases rest with
      | nil => rfl
      | cons x xs =>
        obtain ⟨xty, xtx⟩ := x
        have := hrestNoBoost ⟨xty, xtx⟩ xs rfl
        cases xty <;> simp_all
    | mustNot =>
      simp only [renderPart, List.cons_append, List.nil_append, List.append_nil]
      unfold part
      simp only [hB]
      cases rest with
      | nil => rfl
      | cons x xs =>
        obtain ⟨xty, xtx⟩ := x
        have := hrestNoBoost ⟨xty, xtx⟩ xs rfl
        cases xty <;> simp_all
  | some bt =>
    have hB := hbase (⟨.BOOST, bt⟩ :: rest) (by simp [AfterBase])
    cases occ with
    | should =>
      simp only [renderPart, List.nil_append, List.append_assoc, List.cons_append]
      unfold part
      rw [hb] at hB ⊢
      obtain ⟨tty, ttx⟩ := t
      cases tty <;> simp_all
    | must =>
      simp only [renderPart, List.cons_append, List.nil_append, List.append_assoc]
      unfold part
      simp only [hB]
    | mustNot =>
      simp only [renderPart, List.cons_append, List.nil_append, List.append_assoc]
      unfold part
      simp only [hB]

theorem renderPart_starts (p : Part) (rest : List Tok) :
    ∃ t ts, renderPart p ++ rest = t :: ts ∧ StartsPart (t :: ts) := by
  obtain ⟨occ, b, boost⟩ := p
  obtain ⟨t, ts, hb, ht⟩ := renderBase_head b
  cases occ with
  | should =>
    refine ⟨t, ts ++ (match boost with | none => [] | some b => [⟨.BOOST, b⟩]) ++ rest, ?_, ?_⟩
    · simp [renderPart, hb]
    · simp only [StartsPart]; rcases ht with h | h | h <;> simp [h]
  | must =>
    exact ⟨⟨.PLUS, []⟩, renderBase b ++ ((match boost with | none => [] | some b => [⟨.BOOST, b⟩]) ++ rest),
      by simp [renderPart], by simp [StartsPart]⟩
  | mustNot =>
    exact ⟨⟨.MINUS, []⟩, renderBase b ++ ((match boost with | none => [] | some b => [⟨.BOOST, b⟩]) ++ rest),
      by simp [renderPart], by simp [StartsPart]⟩

theorem renderPart_length (p : Part) : 1 ≤ (renderPart p).length := by
  obtain ⟨t, ts, h, _⟩ := renderPart_starts p []
  simp only [List.append_nil] at h
  rw [h]; simp

theorem partsF_render : ∀ (ps : List Part) (fuel : Nat), ps ≠ [] → ps.length ≤ fuel →
    partsF fuel (ps.flatMap renderPart) = some ps := by
  intro ps
  induction ps with
  | nil => intro _ h; exact absurd rfl h
  | cons p qs ih =>
    intro fuel _ hf
    cases fuel with
    | zero => simp at hf
    | succ fuel =>
      simp only [List.flatMap_cons]
      unfold partsF
      cases qs with
      | nil =>
        simp only [List.flatMap_nil]
        rw [part_render p [] trivial]
      | cons q qs' =>
        obtain ⟨t, ts, hts, hsp⟩ := renderPart_starts q ((qs').flatMap renderPart)
        have hrest : (q :: qs').flatMap renderPart = t :: ts := by
          simp only [List.flatMap_cons]; exact hts
        rw [hrest, part_render p (t :: ts) hsp]
        simp only []
        rw [← hrest, ih fuel (by simp) (by simp at hf ⊢; omega)]
        simp

/-- **The documented syntax parses back.**  Any non-empty list of clauses — each with its occurrence
prefix, optional field, term / fuzzy term / number / phrase / numeric or date comparison, optional
boost — written as the tokens the grammar documents is accepted and yields exactly those clauses, in
order. -/
theorem parts_render (ps : List Part) (h : ps ≠ []) : parts (ps.flatMap renderPart) = some ps := by
  unfold parts
  apply partsF_render ps _ h
  have : ∀ (l : List Part), l.length ≤ (l.flatMap renderPart).length := by
    intro l
    induction l with
    | nil => simp
    | cons p l ih =>
      simp only [List.flatMap_cons, List.length_append, List.length_cons]
      have := renderPart_length p
      omega
  have := this ps
  omega

/-- nothing is accepted without at least one clause; a stray operator is a syntax error -/
example : parts [] = none := by decide
example : parts [⟨.COLON, []⟩] = none := by decide
example : parts [⟨.STRING, [97]⟩, ⟨.COLON, []⟩] = none := by decide
example : parts [⟨.NUMBER, [49]⟩, ⟨.COLON, []⟩, ⟨.NUMBER, [50]⟩] = none := by decide
example : parts [⟨.PLUS, []⟩, ⟨.STRING, [97]⟩, ⟨.COLON, []⟩, ⟨.GREATER, []⟩, ⟨.EQUAL, []⟩, ⟨.MINUS, []⟩, ⟨.NUMBER, [49]⟩, ⟨.BOOST, [50]⟩, ⟨.STRING, [98]⟩]
    = some [⟨.must, .cmp [97] .ge [45, 49], some [50]⟩, ⟨.should, .str none [98], none⟩] := by decide

/-! ### field scoping, from characters to the clause -/

def colon : R := ⟨58, false, false⟩
def plus : R := ⟨43, false, false⟩

/-- an escaped term followed by a colon: the STRING token, then the machine goes on from the colon -/
theorem run_str_escTerm_colon (rs : List R) (buf : Text) (rest : List R) :
    run { mode := .str, buf := buf, esc := false, dot := false } (escTerm rs ++ colon :: rest)
      = (⟨.STRING, buf ++ rs.map (·.cp)⟩ :: (run { mode := .op, buf := [58], esc := false, dot := false } rest).1,
         (run { mode := .op, buf := [58], esc := false, dot := false } rest).2) := by
  induction rs generalizing buf with
  | nil =>
    simp only [escTerm, List.flatMap_nil, List.nil_append, List.map_nil, List.append_nil]
    have h1 : step { mode := .str, buf := buf, esc := false, dot := false } colon
        = ({ mode := .op, buf := [58], esc := false, dot := false }, some ⟨.STRING, buf⟩) := by
      simp [step, colon, handsBack, startStep, fresh]
    simp only [run, h1, optL, List.singleton_append]
  | cons r rs ih =>
    simp only [escTerm, List.flatMap_cons, List.append_assoc] at ih ⊢
    by_cases hr : reserved.contains r.cp = true
    · simp only [hr, if_true, List.cons_append, List.nil_append]
      have h1 : step { mode := .str, buf := buf, esc := false, dot := false } bs
          = ({ mode := .str, buf := buf, esc := true, dot := false }, none) := by
        simp [step, bs, handsBack, accum]
      have h2 : step { mode := .str, buf := buf, esc := true, dot := false } r
          = ({ mode := .str, buf := buf ++ [r.cp], esc := false, dot := false }, none) := by
        have hm : r.cp ∈ reserved := by simpa using hr
        simp [step, accum, unesc, hm]
      simp only [run, h1, h2, optL, List.nil_append]
      rw [ih (buf ++ [r.cp])]
      simp
    · have hr' : reserved.contains r.cp = false := by simpa using hr
      obtain ⟨n92, _, n32, n58, n94, n126, _⟩ := not_reserved_ne r.cp hr'
      simp only [hr', Bool.false_eq_true, if_false, List.cons_append, List.nil_append]
      have h1 : step { mode := .str, buf := buf, esc := false, dot := false } r
          = ({ mode := .str, buf := buf ++ [r.cp], esc := false, dot := false }, none) := by
        simp [step, handsBack, accum, n92, n32, n58, n94, n126]
      simp only [run, h1, optL, List.nil_append]
      rw [ih (buf ++ [r.cp])]
      simp

/-- the first rune of an escaped term, from the start state: it opens a string -/
theorem start_escTerm (r : R) (rs : List R) (tail : List R) (s0 : LS) (hs0 : s0 = fresh)
    (h0 : reserved.contains r.cp = true ∨ (r.digit = false ∧ r.space = false)) :
    run s0 (escTerm (r :: rs) ++ tail)
      = run { mode := .str, buf := [r.cp], esc := false, dot := false } (escTerm rs ++ tail) := by
  subst hs0
  have hsplit : escTerm (r :: rs) = (if reserved.contains r.cp then [bs, r] else [r]) ++ escTerm rs := by
    simp [escTerm]
  rw [hsplit]
  by_cases hr : reserved.contains r.cp = true
  · simp only [hr, if_true, List.cons_append, List.nil_append, List.append_assoc]
    have h1 : step fresh bs = ({ mode := .start, buf := [], esc := true, dot := false }, none) := by
      simp [step, fresh, startStep, bs]
    have h2 : step { mode := .start, buf := [], esc := true, dot := false } r
        = ({ mode := .str, buf := [r.cp], esc := false, dot := false }, none) := by
      have hm : r.cp ∈ reserved := by simpa using hr
      simp [step, startStep, unesc, hm]
    simp only [run, h1, h2, optL, List.nil_append]
  · have hr' : reserved.contains r.cp = false := by simpa using hr
    obtain ⟨n92, n34, n32, n58, n94, n126, n43, n45, n62, n60, n61⟩ := not_reserved_ne r.cp hr'
    rcases h0 with h0 | ⟨hd, hs⟩
    · exact absurd h0 hr
    simp only [hr', Bool.false_eq_true, if_false, List.cons_append, List.nil_append, List.append_assoc]
    have h1 : step fresh r = ({ mode := .str, buf := [r.cp], esc := false, dot := false }, none) := by
      simp [step, fresh, startStep, n92, n34, n58, n94, n126, n43, n45, n62, n60, n61, hd, hs]
    simp only [run, h1, optL, List.nil_append]

/-- after an operator character, the next rune emits the operator and starts afresh -/
theorem run_op (buf : Text) (r : R) (rest : List R) :
    run { mode := .op, buf := buf, esc := false, dot := false } (r :: rest)
      = (opTok buf :: (run (startStep fresh r) rest).1, (run (startStep fresh r) rest).2) := by
  simp [run, step, optL]

/-- **`field:term` at the level of characters.**  Written with its reserved characters escaped, a
field name, a colon and a term lex to STRING COLON STRING and parse to the one clause "term in
field", optional; with a leading `+` the clause is required. -/
theorem lex_parse_field_term (f : R) (fs : List R) (t : R) (ts : List R)
    (hf : reserved.contains f.cp = true ∨ (f.digit = false ∧ f.space = false))
    (ht : reserved.contains t.cp = true ∨ (t.digit = false ∧ t.space = false)) :
    lex (escTerm (f :: fs) ++ colon :: escTerm (t :: ts))
      = ([⟨.STRING, (f :: fs).map (·.cp)⟩, ⟨.COLON, []⟩, ⟨.STRING, (t :: ts).map (·.cp)⟩], false) ∧
    parts [⟨.STRING, (f :: fs).map (·.cp)⟩, ⟨.COLON, []⟩, ⟨.STRING, (t :: ts).map (·.cp)⟩]
      = some [⟨.should, .str (some ((f :: fs).map (·.cp))) ((t :: ts).map (·.cp)), none⟩] := by
  constructor
  · unfold lex
    rw [start_escTerm f fs _ fresh rfl hf, run_str_escTerm_colon]
    have hcons : ∃ x xs, escTerm (t :: ts) = x :: xs ∧ run (startStep fresh x) xs
        = ([⟨.STRING, (t :: ts).map (·.cp)⟩], false) := by
      by_cases hr : reserved.contains t.cp = true
      · have hm0 : t.cp ∈ reserved := by simpa using hr
        refine ⟨bs, t :: escTerm ts, by simp [escTerm, hm0], ?_⟩
        have h0 : startStep fresh bs = { mode := .start, buf := [], esc := true, dot := false } := by
          simp [startStep, fresh, bs]
        have h2 : step { mode := .start, buf := [], esc := true, dot := false } t
            = ({ mode := .str, buf := [t.cp], esc := false, dot := false }, none) := by
          have hm : t.cp ∈ reserved := by simpa using hr
          simp [step, startStep, unesc, hm]
        rw [h0]
        simp only [run, h2, optL, List.nil_append]
        rw [run_str_escTerm ts [t.cp]]
        simp
      · have hr' : reserved.contains t.cp = false := by simpa using hr
        obtain ⟨n92, n34, n32, n58, n94, n126, n43, n45, n62, n60, n61⟩ := not_reserved_ne t.cp hr'
        rcases ht with ht | ⟨hd, hs⟩
        · exact absurd ht hr
        have hm0 : t.cp ∉ reserved := by simpa using hr'
        refine ⟨t, escTerm ts, by simp [escTerm, hm0], ?_⟩
        have h0 : startStep fresh t = { mode := .str, buf := [t.cp], esc := false, dot := false } := by
          simp [startStep, fresh, n92, n34, n58, n94, n126, n43, n45, n62, n60, n61, hd, hs]
        rw [h0, run_str_escTerm ts [t.cp]]
        simp
    obtain ⟨x, xs, hx, hrun⟩ := hcons
    rw [hx, run_op, hrun]
    simp [opTok]
  · simp [parts, partsF, part, base, fielded]

def space : R := ⟨32, false, true⟩

/-- an escaped term followed by a space: the STRING token, then the machine starts afresh -/
theorem run_str_escTerm_space (rs : List R) (buf : Text) (rest : List R) :
    run { mode := .str, buf := buf, esc := false, dot := false } (escTerm rs ++ space :: rest)
      = (⟨.STRING, buf ++ rs.map (·.cp)⟩ :: (run fresh rest).1, (run fresh rest).2) := by
  induction rs generalizing buf with
  | nil =>
    simp only [escTerm, List.flatMap_nil, List.nil_append, List.map_nil, List.append_nil]
    have h1 : step { mode := .str, buf := buf, esc := false, dot := false } space
        = (fresh, some ⟨.STRING, buf⟩) := by
      simp [step, space, handsBack]
    simp only [run, h1, optL, List.singleton_append]
  | cons r rs ih =>
    simp only [escTerm, List.flatMap_cons, List.append_assoc] at ih ⊢
    by_cases hr : reserved.contains r.cp = true
    · simp only [hr, if_true, List.cons_append, List.nil_append]
      have h1 : step { mode := .str, buf := buf, esc := false, dot := false } bs
          = ({ mode := .str, buf := buf, esc := true, dot := false }, none) := by
        simp [step, bs, handsBack, accum]
      have h2 : step { mode := .str, buf := buf, esc := true, dot := false } r
          = ({ mode := .str, buf := buf ++ [r.cp], esc := false, dot := false }, none) := by
        have hm : r.cp ∈ reserved := by simpa using hr
        simp [step, accum, unesc, hm]
      simp only [run, h1, h2, optL, List.nil_append]
      rw [ih (buf ++ [r.cp])]
      simp
    · have hr' : reserved.contains r.cp = false := by simpa using hr
      obtain ⟨n92, _, n32, n58, n94, n126, _⟩ := not_reserved_ne r.cp hr'
      simp only [hr', Bool.false_eq_true, if_false, List.cons_append, List.nil_append]
      have h1 : step { mode := .str, buf := buf, esc := false, dot := false } r
          = ({ mode := .str, buf := buf ++ [r.cp], esc := false, dot := false }, none) := by
        simp [step, handsBack, accum, n92, n32, n58, n94, n126]
      simp only [run, h1, optL, List.nil_append]
      rw [ih (buf ++ [r.cp])]
      simp

/-- **Clauses are separated by a space**: two escaped terms with a space between them are two STRING
tokens, and parse to two optional clauses in that order. -/
theorem lex_parse_two_terms (a : R) (as : List R) (b : R) (bs' : List R)
    (ha : reserved.contains a.cp = true ∨ (a.digit = false ∧ a.space = false))
    (hb : reserved.contains b.cp = true ∨ (b.digit = false ∧ b.space = false)) :
    lex (escTerm (a :: as) ++ space :: escTerm (b :: bs'))
      = ([⟨.STRING, (a :: as).map (·.cp)⟩, ⟨.STRING, (b :: bs').map (·.cp)⟩], false) ∧
    parts [⟨.STRING, (a :: as).map (·.cp)⟩, ⟨.STRING, (b :: bs').map (·.cp)⟩]
      = some [⟨.should, .str none ((a :: as).map (·.cp)), none⟩, ⟨.should, .str none ((b :: bs').map (·.cp)), none⟩] := by
  constructor
  · unfold lex
    rw [start_escTerm a as _ fresh rfl ha, run_str_escTerm_space]
    have := lex_escTerm b bs' hb
    unfold lex at this
    rw [this]
    simp
  · simp [parts, partsF, part, base]

end Bleve.QueryString
