import BleveModel.Model.Facet
import BleveModel.Lemmas.TopN
import BleveModel.Lemmas.Collector
set_option linter.unusedSimpArgs false
set_option linter.unusedVariables false
/-!
# C10 — Facet counts describe all matching documents, not only the returned page

"For any query and any facet request, a terms facet reports for each returned term the number of
matching documents containing it, in descending count then ascending term order, with Total, Missing
and Other accounting for every matching document and term not listed; numeric and date range facets
report for each range the number of values of matching documents falling in [min, max). The result
does not depend on Size, From or the sort of the request."

Model: `Model/Facet.lean`.  The facet result is a function of the list of matching documents' field
terms only — page size, offset and sort are not inputs of the model at all; that the real collector
feeds the builders with *every* match (before the bounded store) is what the correspondence checks
(`./check C10`: Index.Search with random Size/From/Sort and 1–3 facets, on both engines).
-/
namespace Bleve.Facet
open Bleve.TopN Bleve.Collector

/-! ## the bucket order is a strict total order on buckets with distinct names -/

theorem cmpBytes_eq_zero : ∀ a b : Bytes, cmpBytes a b = 0 → a = b := by
  intro a
  induction a with
  | nil => intro b h; cases b with
    | nil => rfl
    | cons y ys => simp [cmpBytes] at h
  | cons x xs ih =>
    intro b h
    cases b with
    | nil => simp [cmpBytes] at h
    | cons y ys =>
      simp only [cmpBytes] at h
      split at h
      · omega
      · split at h
        · omega
        · have : x = y := by omega
          rw [this, ih ys h]

/-- `bucketLt` as a three-way comparison: count descending, then name ascending -/
def bucketCmp : Bucket → Bucket → Int :=
  lexCmp [fun a b => cmpInt b.count a.count] (fun a b => cmpBytes a.name b.name)

theorem bucketCmp_isCmp : IsCmp bucketCmp := by
  unfold bucketCmp
  apply lexCmp_isCmp
  · intro c hc
    rw [List.mem_singleton] at hc
    subst hc
    have h := (cmpInt_isCmp.comap (fun b : Bucket => (b.count : Int)))
    exact ⟨fun x => h.refl x, fun x y => by have := h.anti y x; omega,
      fun x y z h1 h2 => h.trans z y x h2 h1⟩
  · exact cmpBytes_isCmp.comap (fun b : Bucket => b.name)

theorem bucketLt_eq (a b : Bucket) : bucketLt a b = decide (bucketCmp a b < 0) := by
  unfold bucketLt bucketCmp
  simp only [lexCmp, cmpInt]
  by_cases e : a.count = b.count
  · simp [e]
  · have e2 : ¬ (a.count == b.count) = true := by simpa using e
    simp only [e2, Bool.false_eq_true, if_false]
    by_cases h : a.count > b.count
    · have h1 : (b.count : Int) < a.count := by omega
      simp [h, h1]
    · have h1 : ¬ (b.count : Int) < a.count := by omega
      have h2 : (b.count : Int) > a.count := by omega
      simp [h, h1, h2]

theorem bucketLt_ord : Ord bucketLt (fun b : Bucket => b.name) := by
  have h := ord_of_isCmp bucketCmp bucketCmp_isCmp (fun b : Bucket => b.name) (by
    intro a b h0
    have := lexCmp_zero_tie _ _ _ _ h0
    exact cmpBytes_eq_zero _ _ this)
  have e : bucketLt = (fun a b => decide (bucketCmp a b < 0)) := by
    funext a b; exact bucketLt_eq a b
  rw [e]; exact h

/-! ## bump: an association list of counters with distinct names -/

def countOf (counts : List Bucket) (t : Bytes) : Nat :=
  match counts with
  | [] => 0
  | b :: rest => if b.name == t then b.count else countOf rest t

theorem countOf_bump_same (counts : List Bucket) (t : Bytes) :
    countOf (bump counts t) t = countOf counts t + 1 := by
  induction counts with
  | nil => simp [bump, countOf]
  | cons b rest ih =>
    simp only [bump]
    by_cases h : (b.name == t) = true
    · simp [h, countOf]
    · simp [h, countOf, ih]

theorem countOf_bump_other (counts : List Bucket) (t u : Bytes) (hne : u ≠ t) :
    countOf (bump counts t) u = countOf counts u := by
  induction counts with
  | nil =>
    have : (t == u) = false := by simp [beq_iff_eq]; exact fun e => hne e.symm
    simp [bump, countOf, this]
  | cons b rest ih =>
    simp only [bump]
    by_cases h : (b.name == t) = true
    · have e : b.name = t := by simpa using h
      have h2 : (b.name == u) = false := by simp [beq_iff_eq, e]; exact fun e2 => hne e2.symm
      simp [h, countOf, h2]
    · simp only [h, Bool.false_eq_true, if_false, countOf]
      by_cases h3 : (b.name == u) = true
      · simp [h3]
      · simp [h3, ih]

theorem names_bump (counts : List Bucket) (t : Bytes) (x : Bytes)
    (hx : x ∈ (bump counts t).map (·.name)) : x = t ∨ x ∈ counts.map (·.name) := by
  induction counts with
  | nil => simp [bump] at hx; exact Or.inl hx
  | cons b rest ih =>
    simp only [bump] at hx
    split at hx
    · simp only [List.map_cons, List.mem_cons] at hx ⊢
      rcases hx with h | h
      · exact Or.inr (Or.inl h)
      · exact Or.inr (Or.inr h)
    · simp only [List.map_cons, List.mem_cons] at hx ⊢
      rcases hx with h | h
      · exact Or.inr (Or.inl h)
      · rcases ih h with h | h
        · exact Or.inl h
        · exact Or.inr (Or.inr h)

theorem bump_nodup (counts : List Bucket) (t : Bytes) (h : (counts.map (·.name)).Nodup) :
    ((bump counts t).map (·.name)).Nodup := by
  induction counts with
  | nil => simp [bump]
  | cons b rest ih =>
    rw [List.map_cons, List.nodup_cons] at h
    simp only [bump]
    by_cases hb : (b.name == t) = true
    · simp only [hb, if_true, List.map_cons, List.nodup_cons]; exact h
    · simp only [hb, Bool.false_eq_true, if_false, List.map_cons, List.nodup_cons]
      refine ⟨?_, ih h.2⟩
      intro hm
      rcases names_bump rest t b.name hm with e | e
      · apply hb; simp [e]
      · exact h.1 e

theorem foldl_bump_nodup (ts : List Bytes) (counts : List Bucket) (h : (counts.map (·.name)).Nodup) :
    ((ts.foldl bump counts).map (·.name)).Nodup := by
  induction ts generalizing counts with
  | nil => exact h
  | cons t ts ih => exact ih _ (bump_nodup counts t h)

theorem countOf_foldl_bump (ts : List Bytes) (counts : List Bucket) (u : Bytes) :
    countOf (ts.foldl bump counts) u = countOf counts u + ts.count u := by
  induction ts generalizing counts with
  | nil => simp
  | cons t ts ih =>
    simp only [List.foldl_cons]
    rw [ih]
    by_cases e : t = u
    · subst e; rw [countOf_bump_same]; simp; omega
    · rw [countOf_bump_other _ _ _ (fun h => e h.symm)]
      have : (t == u) = false := by simp [beq_iff_eq]; exact e
      simp [List.count_cons, this]

/-! ## terms facet: what the state holds after all matching documents -/

/-- accepted terms of a document -/
def accepted (s : TermsSpec) (d : List Bytes) : List Bytes := d.filter s.accepts

theorem terms_state (s : TermsSpec) (docs : List (List Bytes)) (st : FState) (u : Bytes) :
    let fin := docs.foldl (termsVisitDoc s) st
    countOf fin.counts u = countOf st.counts u + (docs.map (fun d => (accepted s d).count u)).sum ∧
    fin.total = st.total + (docs.map List.length).sum ∧
    fin.missing = st.missing + (docs.filter (fun d => (accepted s d).isEmpty)).length := by
  induction docs generalizing st with
  | nil => simp
  | cons d ds ih =>
    simp only [List.foldl_cons]
    have h := ih (termsVisitDoc s st d)
    simp only at h
    refine ⟨?_, ?_, ?_⟩
    · rw [h.1]; simp only [termsVisitDoc, countOf_foldl_bump, accepted, List.map_cons, List.sum_cons]; omega
    · rw [h.2.1]; simp only [termsVisitDoc, List.map_cons, List.sum_cons]; omega
    · rw [h.2.2]
      simp only [termsVisitDoc, accepted, List.filter_cons]
      by_cases he : (d.filter s.accepts).isEmpty = true
      · simp [he]; omega
      · simp [he]

/-- **Counts.** After all matching documents, the counter of every term is the number of
    (document, accepted occurrence) pairs; when each document lists a term at most once (doc values
    do) that is the number of matching documents containing the term. Total counts every visited
    term; Missing counts the documents without an accepted term. None of this mentions page size,
    offset or sort. -/
theorem terms_counts (s : TermsSpec) (docs : List (List Bytes)) (u : Bytes) :
    let fin := docs.foldl (termsVisitDoc s) {}
    countOf fin.counts u = (docs.map (fun d => (accepted s d).count u)).sum ∧
    fin.total = (docs.map List.length).sum ∧
    fin.missing = (docs.filter (fun d => (accepted s d).isEmpty)).length := by
  have h := terms_state s docs {} u
  simpa [countOf] using h

theorem count_le_one_of_nodup (d : List Bytes) (u : Bytes) (h : d.Nodup) : d.count u ≤ 1 :=
  List.nodup_iff_count.1 h u

/-- with duplicate-free documents a term's count is the number of matching documents containing it -/
theorem terms_count_is_doc_count (s : TermsSpec) (docs : List (List Bytes)) (u : Bytes)
    (hn : ∀ d ∈ docs, d.Nodup) :
    (docs.map (fun d => (accepted s d).count u)).sum = (docs.filter (fun d => (accepted s d).contains u)).length := by
  induction docs with
  | nil => rfl
  | cons d ds ih =>
    have hd : (accepted s d).Nodup := List.Nodup.sublist List.filter_sublist (hn d List.mem_cons_self)
    have h1 := count_le_one_of_nodup _ u hd
    simp only [List.map_cons, List.sum_cons, List.filter_cons]
    rw [ih (fun d' hd' => hn d' (List.mem_cons_of_mem _ hd'))]
    by_cases hc : (accepted s d).contains u = true
    · have hpos : 0 < (accepted s d).count u := List.count_pos_iff.2 (by simpa using hc)
      rw [if_pos hc, List.length_cons]; omega
    · have hz : (accepted s d).count u = 0 := List.count_eq_zero.2 (by simpa using hc)
      rw [if_neg hc, hz]; omega

/-! ## ordering and accounting of the reported buckets -/

def sumC : List Bucket → Nat
  | [] => 0
  | b :: rest => b.count + sumC rest

theorem sumCounts_eq (l : List Bucket) : sumCounts l = sumC l := by
  unfold sumCounts
  have gen : ∀ (l : List Bucket) (a : Nat), l.foldl (fun a b => a + b.count) a = a + sumC l := by
    intro l; induction l with
    | nil => intro a; simp [sumC]
    | cons b rest ih => intro a; simp only [List.foldl_cons, sumC]; rw [ih]; omega
  rw [gen]; omega

theorem sumC_perm {l₁ l₂ : List Bucket} (h : l₁.Perm l₂) : sumC l₁ = sumC l₂ := by
  induction h with
  | nil => rfl
  | cons x _ ih => simp [sumC, ih]
  | swap x y l => simp [sumC]; omega
  | trans _ _ ih1 ih2 => rw [ih1, ih2]

theorem sumC_take_le (l : List Bucket) (n : Nat) : sumC (l.take n) ≤ sumC l := by
  induction l generalizing n with
  | nil => simp [sumC]
  | cons b rest ih =>
    cases n with
    | zero => simp [sumC]
    | succ m => simp only [List.take_succ_cons, sumC]; have := ih m; omega

/-- the reported buckets are in descending count, then ascending name order -/
theorem listed_sorted (size : Nat) (st : FState) (hn : (st.counts.map (·.name)).Nodup) :
    Sorted bucketLt (result size st).listed := by
  simp only [result]
  exact List.Pairwise.take (isort_sorted bucketLt_ord st.counts hn)

/-- every reported bucket is one of the counters, with its count -/
theorem listed_sub (size : Nat) (st : FState) : ∀ b ∈ (result size st).listed, b ∈ st.counts := by
  intro b hb
  simp only [result] at hb
  exact (isort_perm bucketLt st.counts).mem_iff.1 (List.mem_of_mem_take hb)

/-- when the facet size covers all buckets, every counter is reported -/
theorem listed_all (size : Nat) (st : FState) (h : st.counts.length ≤ size) :
    (result size st).listed.Perm st.counts := by
  simp only [result]
  rw [List.take_of_length_le (by rw [(isort_perm bucketLt st.counts).length_eq]; exact h)]
  exact isort_perm bucketLt st.counts

/-- **Accounting.** Listed counts plus Other add up to Total whenever the counters never exceed
    the total (true for all three builders, see below). -/
theorem accounting (size : Nat) (st : FState) (h : sumC st.counts ≤ st.total) :
    sumC (result size st).listed + (result size st).other = (result size st).total := by
  simp only [result, sumCounts_eq]
  have h1 := sumC_take_le (isort bucketLt st.counts) size
  have h2 := sumC_perm (isort_perm bucketLt st.counts)
  omega

theorem sumC_bump (counts : List Bucket) (t : Bytes) : sumC (bump counts t) = sumC counts + 1 := by
  induction counts with
  | nil => simp [bump, sumC]
  | cons b rest ih =>
    simp only [bump]
    split
    · simp [sumC]; omega
    · simp [sumC, ih]; omega

theorem sumC_foldl_bump (ts : List Bytes) (counts : List Bucket) :
    sumC (ts.foldl bump counts) = sumC counts + ts.length := by
  induction ts generalizing counts with
  | nil => simp
  | cons t ts ih => simp only [List.foldl_cons, List.length_cons]; rw [ih, sumC_bump]; omega

theorem terms_sum_le_total (s : TermsSpec) (docs : List (List Bytes)) (st : FState)
    (h : sumC st.counts ≤ st.total) :
    sumC (docs.foldl (termsVisitDoc s) st).counts ≤ (docs.foldl (termsVisitDoc s) st).total := by
  induction docs generalizing st with
  | nil => exact h
  | cons d ds ih =>
    simp only [List.foldl_cons]
    apply ih
    simp only [termsVisitDoc, sumC_foldl_bump]
    have : (d.filter s.accepts).length ≤ d.length := List.length_filter_le _ _
    omega

/-- terms facet: Σ listed + Other = Total, for every request and every list of matching documents -/
theorem terms_accounting (s : TermsSpec) (docs : List (List Bytes)) :
    sumC (termsFacet s docs).listed + (termsFacet s docs).other = (termsFacet s docs).total := by
  unfold termsFacet
  exact accounting s.size _ (terms_sum_le_total s docs {} (by simp [sumC]))

theorem terms_names_nodup (s : TermsSpec) (docs : List (List Bytes)) (st : FState)
    (h : (st.counts.map (·.name)).Nodup) :
    ((docs.foldl (termsVisitDoc s) st).counts.map (·.name)).Nodup := by
  induction docs generalizing st with
  | nil => exact h
  | cons d ds ih =>
    simp only [List.foldl_cons]
    apply ih
    simp only [termsVisitDoc]
    exact foldl_bump_nodup _ _ h

/-- terms facet: reported in descending count, then ascending term order -/
theorem terms_sorted (s : TermsSpec) (docs : List (List Bytes)) :
    Sorted bucketLt (termsFacet s docs).listed := by
  unfold termsFacet
  exact listed_sorted s.size _ (terms_names_nodup s docs {} (by simp))

/-! ## non-vacuity -/

example : (termsFacet ⟨2, [], none⟩ [[[97], [98]], [[97]], [], [[99]]]).listed = [⟨[97], 2⟩, ⟨[98], 1⟩] := by
  decide
example : (termsFacet ⟨2, [], none⟩ [[[97], [98]], [[97]], [], [[99]]]).other = 1 := by decide

end Bleve.Facet
