import BleveModel.Model.Numeric
import BleveModel.Lemmas.Numeric
import BleveModel.Gen.Consts
set_option linter.unusedSimpArgs false
/-!
# C07 — Numeric and date values sort and range-match exactly as numbers

"The index encoding of numbers preserves order and value: for any two float64 values a < b the
encoded term of a sorts before that of b, and decoding returns the original value. A numeric range
query with any bounds (including open ends and infinities) and any combination of inclusive flags
terminates and matches a document if and only if one of its values lies in the range; the same
holds for date ranges at nanosecond resolution, and sorting by such a field orders hits
numerically."  (for all float64 except NaN and negative zero, which the encoding places just
below +0.)

Model: `BleveModel/Model/Numeric.lean`.  Tie: I/O equality with the Go functions on every run
(`./check C07`).  All statements are for every 64-bit pattern / every int64 / every bound pair.
-/
namespace Bleve.Numeric

/-! ## value round trip -/

theorem i2f_f2i (b : W) : i2f (f2i b) = b := by
  unfold i2f
  rw [f2i_msb]
  unfold f2i
  cases h : b.msb
  · simp
  · simp only [if_true]
    rw [BitVec.xor_assoc, BitVec.xor_self, BitVec.xor_zero]

theorem f2i_i2f (i : W) : f2i (i2f i) = i := i2f_f2i i

/-! ## order -/

/-- the encoding orders *all* bit patterns by the IEEE total order (−0 just below +0, NaNs at the
    two ends ordered by payload) -/
theorem f2i_order (a b : W) : ieeeTotalLt a b ↔ (f2i a).slt (f2i b) = true := by
  rw [BitVec.slt_iff_toInt_lt, f2i_toInt, f2i_toInt]
  unfold ieeeTotalLt
  have := a.isLt
  have := b.isLt
  cases ha : a.msb <;> cases hb : b.msb <;> simp only [if_true, if_false, Bool.false_eq_true]
  · omega
  · have := (msb_iff b).1 hb; have := (msb_false_iff a).1 ha; constructor
    · intro h; exact h.elim
    · intro h; omega
  · have := (msb_iff a).1 ha; have := (msb_false_iff b).1 hb; constructor
    · intro _; omega
    · intro _; trivial
  · omega

/-- Go's `<` on float64 implies the sortable ints are ordered (NaN and the ±0 pair excluded by
    `floatLt` itself). -/
theorem float_lt_sortable (a b : W) (h : floatLt a b = true) : (f2i a).slt (f2i b) = true := by
  unfold floatLt at h
  simp only [Bool.and_eq_true, decide_eq_true_eq] at h
  exact (f2i_order a b).1 h.2

/-- ... and therefore the shift-0 terms (the ones sorting and exact matching use) are ordered. -/
theorem float_lt_term_lt (a b : W) (h : floatLt a b = true) :
    ∃ ta tb, prefixCode (f2i a).toInt 0 = some ta ∧ prefixCode (f2i b).toInt 0 = some tb ∧
      bytesLt ta tb = true := by
  have hlt := float_lt_sortable a b h
  rw [BitVec.slt_iff_toInt_lt] at hlt
  have ha : inI64 (f2i a).toInt = true := by
    have := BitVec.toInt_lt (x := f2i a); have := BitVec.le_toInt (x := f2i a)
    simp [inI64]; omega
  have hb : inI64 (f2i b).toInt = true := by
    have := BitVec.toInt_lt (x := f2i b); have := BitVec.le_toInt (x := f2i b)
    simp [inI64]; omega
  obtain ⟨ta, tb, h1, h2, h3⟩ := prefixCode_order (f2i a).toInt (f2i b).toInt 0 (by omega) ha hb
  refine ⟨ta, tb, h1, h2, h3.2 ?_⟩
  simpa using hlt

/-- order at every precision shift -/
theorem prefixCode_order_all (v w : Int) (s : Nat) (hs : s ≤ 63)
    (hv : inI64 v = true) (hw : inI64 w = true) :
    ∃ tv tw, prefixCode v s = some tv ∧ prefixCode w s = some tw ∧
      (bytesLt tv tw = true ↔ v / 2^s < w / 2^s) := prefixCode_order v w s hs hv hw

/-! ## range splitting covers exactly the interval -/

/-- For all int64 bounds and values: `v` lies in `[min, max]` iff one of the split ranges contains
    `v`'s block at that range's precision (i.e. the term of `v` indexed at that shift lies between
    the range's end terms). `min > max` gives no range at all. -/
theorem split_cover (min max v : Int) :
    (∃ r ∈ splitRange min max, r.covers v) ↔ (min ≤ v ∧ v ≤ max) := splitRange_cover min max v

/-- every range produced for int64 bounds is well formed (level ≤ 15, blocks inside the lattice) -/
theorem split_wf (min max : Int) (hmin : inI64 min = true) (hmax : inI64 max = true) :
    ∀ r ∈ splitRange min max, r.wf := splitRange_wf min max hmin hmax

/-- the terms of a range are prefix codes of its blocks, so "covers" is the same as
    "the value's indexed term at that shift is one of the enumerated terms" -/
theorem covers_iff_term_mem (r : Rng) (v : Int) (hr : r.wf) (hv : inI64 v = true) :
    r.covers v ↔ ∃ t, prefixCode v (4*r.lvl) = some t ∧ t ∈ r.enumerate := by
  obtain ⟨hl, h1, h2, h3⟩ := hr
  rw [termOf_eq_prefixCode v r.lvl hl hv]
  unfold Rng.covers Rng.enumerate
  obtain ⟨hx1, hx2⟩ := block_range v r.lvl hl hv
  generalize v / 2^(4*r.lvl) = x at *
  constructor
  · intro ⟨h1, h2⟩
    refine ⟨_, rfl, ?_⟩
    rw [List.mem_map]
    refine ⟨(x - r.lo).toNat, ?_, ?_⟩
    · rw [List.mem_range]; omega
    · congr 1; omega
  · intro ⟨t, ht, hm⟩
    rw [List.mem_map] at hm
    obtain ⟨i, hi, he⟩ := hm
    rw [List.mem_range] at hi
    injection ht with ht
    rw [← ht] at he
    have hx : r.lo + (i:Int) = x :=
      termOf_inj _ _ _ hl (by omega) (by omega) hx1 hx2 he
    omega

/-! ## the query: inclusive flags, open ends, infinities -/

theorem toInt_inI64 (a : W) : inI64 a.toInt = true := by
  have := BitVec.toInt_lt (x := a); have := BitVec.le_toInt (x := a)
  simp [inI64]; omega

/-- The model of `NewNumericRangeSearcher` matches a document value exactly when its sortable int
    lies in the adjusted interval. -/
theorem rangeMatches_iff (mn mx : Option W) (im iM : Option Bool) (d : W) :
    rangeMatches mn mx im iM d = true ↔
      (adjustBounds mn mx im iM).1 ≤ (f2i d).toInt ∧ (f2i d).toInt ≤ (adjustBounds mn mx im iM).2 := by
  unfold rangeMatches
  simp only [List.any_eq_true, decide_eq_true_eq]
  exact split_cover _ _ _

/-- Full statement for explicit bounds: with `lo`/`hi` the sortable ints of the bounds, a value
    matches iff it is on the right side of each bound, strictly when the flag says exclusive.
    The two guards exclude the all-ones NaN patterns (`f2i` = MaxInt64 / MinInt64), where the Go
    code deliberately does not step. -/
theorem range_query_correct (mn mx : W) (im iM : Bool) (d : W)
    (hmn : (f2i mn).toInt ≠ maxI64) (hmx : (f2i mx).toInt ≠ minI64) :
    rangeMatches (some mn) (some mx) (some im) (some iM) d = true ↔
      (if im then ¬ ieeeTotalLt d mn else ieeeTotalLt mn d) ∧
      (if iM then ¬ ieeeTotalLt mx d else ieeeTotalLt d mx) := by
  rw [rangeMatches_iff]
  have o1 := f2i_order d mn
  have o2 := f2i_order mn d
  have o3 := f2i_order mx d
  have o4 := f2i_order d mx
  rw [BitVec.slt_iff_toInt_lt] at o1 o2 o3 o4
  rw [o1, o2, o3, o4]
  unfold maxI64 at hmn
  unfold minI64 at hmx
  cases im <;> cases iM <;>
    simp only [adjustBounds, Option.getD_some, maxI64, minI64, Bool.not_true, Bool.not_false,
      Bool.false_and, Bool.true_and, if_true, if_false, Bool.false_eq_true, decide_eq_true_eq,
      ne_eq, hmn, hmx, not_false_eq_true, decide_true, decide_false] <;> omega

/-- date ranges: nanosecond timestamps travel as `Int64ToFloat64(ns)` and come back unchanged, so a
    date range is an exact int64 interval test. -/
theorem date_range_correct (s e : W) (im iM : Bool) (ns : W)
    (hs : s.toInt ≠ maxI64) (he : e.toInt ≠ minI64) :
    rangeMatches (some (i2f s)) (some (i2f e)) (some im) (some iM) (i2f ns) = true ↔
      (if im then s.toInt ≤ ns.toInt else s.toInt < ns.toInt) ∧
      (if iM then ns.toInt ≤ e.toInt else ns.toInt < e.toInt) := by
  rw [rangeMatches_iff]
  unfold maxI64 at hs
  unfold minI64 at he
  cases im <;> cases iM <;>
    simp only [adjustBounds, Option.getD_some, f2i_i2f, maxI64, minI64, Bool.not_true, Bool.not_false,
      Bool.false_and, Bool.true_and, if_true, if_false, Bool.false_eq_true, decide_eq_true_eq,
      ne_eq, hs, he, not_false_eq_true, decide_true, decide_false] <;> omega

/-- an open end of a date range (what `parseEndpoints` passes since fix 53d92a2: the end of the int64
    range, exclusive) puts no upper limit on any representable timestamp -/
theorem date_range_open_end (s ns : W) (im : Bool) (hs : s.toInt ≠ maxI64) (hn : ns.toInt ≠ maxI64) :
    rangeMatches (some (i2f s)) (some (i2f (BitVec.ofInt 64 maxI64))) (some im) (some false) (i2f ns) = true ↔
      (if im then s.toInt ≤ ns.toInt else s.toInt < ns.toInt) := by
  have he : (BitVec.ofInt 64 maxI64).toInt = maxI64 := by decide
  rw [date_range_correct s _ im false ns hs (by rw [he]; decide), he]
  have hlt : ns.toInt < 2 ^ 63 := by
    have := @BitVec.toInt_lt 64 ns
    omega
  unfold maxI64 at *
  simp only [Bool.false_eq_true, if_false]
  constructor
  · intro h; exact h.1
  · intro h; exact ⟨h, by omega⟩

/-- `min > max` (after adjustment) matches nothing -/
theorem empty_range (mn mx : Option W) (im iM : Option Bool) (d : W)
    (h : (adjustBounds mn mx im iM).1 > (adjustBounds mn mx im iM).2) :
    rangeMatches mn mx im iM d = false := by
  cases hm : rangeMatches mn mx im iM d
  · rfl
  · have := (rangeMatches_iff mn mx im iM d).1 hm; omega

/-! ## constants regenerated from the source -/

theorem gen_shiftStart : Gen.shiftStartInt64 = shiftStart := by decide
theorem gen_precisionStep : Gen.numericPrecisionStep = precisionStep := by decide

/-! ## the shift-0 term of a value decodes back to the value -/

theorem or_digit (a d : Nat) (hd : d < 128) : (a * 128) ||| d = a * 128 + d := by
  have h := Nat.shiftLeft_add_eq_or_of_lt (i := 7) (b := d) (by simpa using hd) a
  rw [Nat.shiftLeft_eq] at h
  simpa using h.symm

theorem decode_digits (k : Nat) : ∀ (a u : Nat), u < 128^k → a * 128^k + u < 2^64 →
    (digits k u).foldl (fun a b => ((a * 128) % 2^64) ||| b) a = a * 128^k + u := by
  induction k with
  | zero => intro a u hu _; simp [digits]; omega
  | succ k ih =>
    intro a u hu hb
    simp only [digits, List.foldl_cons]
    have hp : 0 < 128^k := Nat.pow_pos (by decide)
    have hdiv : u / 128^k < 128 := by
      rw [Nat.div_lt_iff_lt_mul hp]; rw [Nat.pow_succ] at hu; omega
    have hmod : u / 128^k % 128 = u / 128^k := Nat.mod_eq_of_lt hdiv
    have hsplit : u = 128^k * (u / 128^k) + u % 128^k := (Nat.div_add_mod u (128^k)).symm
    have hpow : 128^(k+1) = 128^k * 128 := Nat.pow_succ ..
    have ha : a * 128 < 2^64 := by
      have : a * 128 ≤ a * 128^(k+1) := by
        rw [hpow]; calc a * 128 = a * (1 * 128) := by omega
          _ ≤ a * (128^k * 128) := Nat.mul_le_mul_left _ (Nat.mul_le_mul_right _ hp)
      omega
    rw [Nat.mod_eq_of_lt ha, hmod, or_digit _ _ hdiv]
    have hml : u % 128^k < 128^k := Nat.mod_lt _ hp
    have e : (a * 128 + u / 128^k) * 128^k + u % 128^k = a * 128^(k+1) + u := by
      rw [hpow, Nat.add_mul, Nat.mul_assoc, Nat.mul_comm 128 (128^k), Nat.mul_comm (u / 128^k) (128^k)]
      omega
    rw [ih _ _ hml (by omega), e]

theorem xor_top (u : Nat) (hu : u < 2^64) :
    u ^^^ 2^63 = if u < 2^63 then u + 2^63 else u - 2^63 := by
  have hd : (u ^^^ 2^63) / 2^63 = (u / 2^63) ^^^ 1 := by
    rw [Nat.xor_div_two_pow, Nat.div_self (by decide)]
  have hm : (u ^^^ 2^63) % 2^63 = u % 2^63 := by
    rw [Nat.xor_mod_two_pow]; simp
  have hs := Nat.div_add_mod (u ^^^ 2^63) (2^63)
  generalize u ^^^ 2^63 = x at hd hm hs ⊢
  split
  · rename_i h
    have h0 : u / 2^63 = 0 := by omega
    rw [h0] at hd
    have h1 : (0 : Nat) ^^^ 1 = 1 := by decide
    rw [h1] at hd
    omega
  · rename_i h
    have h0 : u / 2^63 = 1 := by omega
    rw [h0] at hd
    have h1 : (1 : Nat) ^^^ 1 = 0 := by decide
    rw [h1] at hd
    omega

/-- **Round trip of the term encoding**: the full-precision (shift 0) term of an int64 is recognised
as a shift-0 term and decodes to the same int64. -/
theorem decode_prefixCode_zero (v : Int) (hv : inI64 v = true) (t : List Nat)
    (ht : prefixCode v 0 = some t) : shiftOf t = some 0 ∧ decodeInt64 t = some v := by
  simp only [inI64, Bool.and_eq_true, decide_eq_true_eq] at hv
  simp only [prefixCode, if_false, Option.some.injEq, Nat.add_zero, Nat.pow_zero, Nat.div_one,
    show ¬ (0 > 63) by omega] at ht
  subst ht
  have hsh : shiftOf (shiftStart :: digits (nChars 0) (sortable v)) = some 0 := by
    simp [shiftOf, shiftStart]
  refine ⟨hsh, ?_⟩
  unfold decodeInt64
  rw [hsh]
  simp only [List.drop_one, List.tail_cons, Nat.pow_zero, Nat.mul_one]
  have hu : sortable v < 2^64 := by unfold sortable; omega
  have hn : nChars 0 = 10 := by decide
  rw [hn, decode_digits 10 0 (sortable v) (by omega) (by omega)]
  simp only [Nat.zero_mul, Nat.zero_add, Nat.mod_eq_of_lt hu]
  rw [xor_top _ hu]
  unfold toI64 sortable
  congr 1
  split <;> split <;> omega

/-- a coarser term of the same value is not a shift-0 term -/
theorem shiftOf_prefixCode (v : Int) (s : Nat) (hs : s < 63) (t : List Nat)
    (ht : prefixCode v s = some t) : shiftOf t = some s := by
  simp only [prefixCode, show ¬ (s > 63) by omega, if_false, Option.some.injEq] at ht
  subst ht
  simp only [shiftOf, shiftStart]
  have : (32 + s + 256 - 32) % 256 = s := by omega
  simp only [this, hs, if_true]

/-! ## non-vacuity -/

example : floatLt 0x3ff0000000000000#64 0x4000000000000000#64 = true := by decide   -- 1.0 < 2.0
example : floatLt 0xbff0000000000000#64 0x0000000000000001#64 = true := by decide   -- −1.0 < smallest subnormal
example : (splitRange (-100) 1000).length = 5 := by decide
example : rangeMatches none (some 0x3ff0000000000000#64) none (some true) 0x3ff0000000000000#64 = true := by
  decide

example : decodeInt64 ((prefixCode (-42) 0).getD []) = some (-42) := by decide
example : shiftOf ((prefixCode (-42) 8).getD []) = some 8 := by decide

end Bleve.Numeric
