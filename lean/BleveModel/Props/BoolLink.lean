import BleveModel.Model.Query
import BleveModel.Props.BoolSearcher
import BleveModel.Props.ConjSearcher
import BleveModel.Props.DisjSearcher
set_option linter.unusedVariables false
set_option linter.unusedSimpArgs false
/-!
# From the query's meaning to the boolean searcher (C02 ⟷ C08)

`Query.den` is the documented meaning of a query over a corpus; `BoolSearcher.boolDen` is what the
operational model of the boolean searcher yields from the match lists of its clauses.  For a boolean
query without filter the two coincide (`den_bool`), so `bool_searcher_correct` says: the boolean
searcher, built over clause searchers that keep the contract, enumerates exactly the documents the
query means, under every program of Next and Advance calls.
-/
namespace Bleve.Query
open Bleve.BoolSearcher (boolDen)

theorem contains_filter_map_iid (p : Doc → Bool) : ∀ (docs : List Doc) (d : Doc),
    docs.Pairwise (fun a b => a.iid ≠ b.iid) → d ∈ docs →
    ((docs.filter p).map (·.iid)).contains d.iid = p d := by
  intro docs
  induction docs with
  | nil => intro d _ h; simp at h
  | cons x xs ih =>
    intro d hp hd
    have hxs := (List.pairwise_cons.1 hp).2
    have hne := (List.pairwise_cons.1 hp).1
    rcases List.mem_cons.1 hd with rfl | hd'
    · -- d is the head: no later document carries its id
      have hrest : ((xs.filter p).map (·.iid)).contains d.iid = false := by
        cases hc : ((xs.filter p).map (·.iid)).contains d.iid
        · rfl
        · have hm := List.contains_iff_mem.1 hc
          rw [List.mem_map] at hm
          obtain ⟨y, hy, hyi⟩ := hm
          exact absurd hyi.symm (hne y (List.mem_filter.1 hy).1)
      by_cases hpd : p d = true
      · simp [List.filter_cons, hpd]
      · have hpd' : p d = false := by simpa using hpd
        simp only [List.filter_cons, hpd', Bool.false_eq_true, if_false]
        exact hrest
    · have hnx : d.iid ≠ x.iid := fun h => hne d hd' h.symm
      have hb : (d.iid == x.iid) = false := by simpa using hnx
      by_cases hpx : p x = true
      · simp only [List.filter_cons, hpx, if_true, List.map_cons, List.contains_cons, hb, Bool.false_or]
        exact ih d hxs hd'
      · have hpx' : p x = false := by simpa using hpx
        simp only [List.filter_cons, hpx', Bool.false_eq_true, if_false]
        exact ih d hxs hd'

theorem filter_map_iid (p : Doc → Bool) (g : Nat → Bool) (docs : List Doc) :
    ((docs.filter p).map (·.iid)).filter g = (docs.filter (fun d => p d && g d.iid)).map (·.iid) := by
  induction docs with
  | nil => rfl
  | cons x xs ih =>
    by_cases hp : p x = true
    · by_cases hg : g x.iid = true
      · simp [List.filter_cons, hp, hg, ih]
      · simp [List.filter_cons, hp, hg, ih]
    · simp [List.filter_cons, hp, ih]

def predList (docs : List Doc) (p : Doc → Bool) : List Nat := (docs.filter p).map (·.iid)

/-- `boolDen` over match lists that come from predicates on the documents of a corpus -/
theorem boolDen_pred (docs : List Doc) (hinj : docs.Pairwise (fun a b => a.iid ≠ b.iid))
    (pm ps pn : Option (Doc → Bool)) (min0 : Bool) :
    boolDen (pm.map (predList docs)) (ps.map (predList docs)) (pn.map (predList docs)) min0 =
    predList docs (fun d =>
      (match pm, ps with | some p, _ => p d | Option.none, some p => p d | Option.none, Option.none => false) &&
      (!(match pn with | some p => p d | Option.none => false) &&
      (if pm.isSome && ps.isSome && !min0 then (match ps with | some p => p d | Option.none => false) else true))) := by
  have hc : ∀ (p : Doc → Bool) (d : Doc), d ∈ docs → (predList docs p).contains d.iid = p d :=
    fun p d hd => contains_filter_map_iid p docs d hinj hd
  cases pm <;> cases ps <;> cases pn <;>
    simp only [boolDen, Option.map_some, Option.map_none, Option.some_or, Option.none_or, Option.getD_some,
      Option.getD_none, Option.isSome_some, Option.isSome_none, Bool.and_false, Bool.false_and, Bool.true_and,
      Bool.false_eq_true, if_false, List.contains_nil, Bool.not_false, Bool.and_true, List.filter_nil]
  all_goals (try (unfold predList; rw [filter_map_iid]; congr 1; apply List.filter_congr; intro d hd))
  all_goals (try (unfold predList at hc))
  all_goals (try (simp only [hc _ d hd]))
  all_goals (try (cases min0 <;> simp))
  all_goals (try (unfold predList; simp))

theorem eval_disj (min : Nat) (qs : List Q) (d : Doc) :
    eval (.disj min qs) d = decide (countTrue qs d ≥ max 1 min) := by
  rw [eval.eq_def]

theorem minshould_arith (mn c : Nat) :
    (mn == 0 || decide (mn ≤ c)) = (decide (mn = 0) || decide (max 1 mn ≤ c)) := by
  cases mn with
  | zero => simp
  | succ k =>
    have : max 1 (k + 1) = k + 1 := Nat.max_eq_right (by omega)
    simp [this]

theorem den_eq_predList (q : Q) (docs : List Doc) : den q docs = predList docs (eval q) := rfl

theorem predList_true (docs : List Doc) : predList docs (fun _ => true) = docs.map (·.iid) := by
  unfold predList
  rw [List.filter_eq_self.2 (fun _ _ => rfl)]

theorem predList_congr (docs : List Doc) (p q : Doc → Bool) (h : ∀ d ∈ docs, p d = q d) :
    predList docs p = predList docs q := by
  unfold predList
  rw [List.filter_congr h]

/-- **The meaning of a boolean query is what the boolean searcher is built to enumerate.** -/
theorem den_bool (m s n : Option Q) (docs : List Doc)
    (hinj : docs.Pairwise (fun a b => a.iid ≠ b.iid))
    (hany : (m.isSome || s.isSome || n.isSome) = true) :
    den (.bool m s n Option.none) docs =
      boolDen (boolParts m s n docs).1 (boolParts m s n docs).2.1 (boolParts m s n docs).2.2.1
        (boolParts m s n docs).2.2.2 := by
  rw [den_eq_predList]
  cases m with
  | none =>
    cases s with
    | none =>
      -- only must-not clauses: a match-all must clause is added
      have h := boolDen_pred docs hinj (some (fun _ => true)) Option.none (n.map eval) true
      simp only [Option.map_some, Option.map_none, predList_true, Option.map_map] at h
      simp only [boolParts, Option.map_none]
      have e : Option.map (fun x => den x docs) n = Option.map (predList docs ∘ eval) n := rfl
      rw [e, h]
      apply predList_congr
      intro d _
      rw [eval.eq_def]
      cases n with
      | none => simp at hany
      | some nq => simp
    | some sq =>
      have h := boolDen_pred docs hinj Option.none (some (eval sq)) (n.map eval)
        (shouldMin0 sq)
      simp only [Option.map_some, Option.map_none, Option.map_map] at h
      have hb : boolParts Option.none (some sq) n docs =
          (Option.none, some (predList docs (eval sq)), Option.map (predList docs ∘ eval) n,
            shouldMin0 sq) := rfl
      rw [hb]
      simp only
      rw [h]
      apply predList_congr
      intro d _
      rw [eval.eq_def]
      cases n <;> cases sq <;> simp [shouldMin0, eval_disj]
  | some mq =>
    cases s with
    | none =>
      have h := boolDen_pred docs hinj (some (eval mq)) Option.none (n.map eval) true
      simp only [Option.map_some, Option.map_none, Option.map_map] at h
      have hb : boolParts (some mq) Option.none n docs =
          (some (predList docs (eval mq)), Option.none, Option.map (predList docs ∘ eval) n, true) := rfl
      rw [hb]
      simp only
      rw [h]
      apply predList_congr
      intro d _
      rw [eval.eq_def]
      cases n <;> simp
    | some sq =>
      have h := boolDen_pred docs hinj (some (eval mq)) (some (eval sq)) (n.map eval)
        (shouldMin0 sq)
      simp only [Option.map_some, Option.map_none, Option.map_map] at h
      have hb : boolParts (some mq) (some sq) n docs =
          (some (predList docs (eval mq)), some (predList docs (eval sq)), Option.map (predList docs ∘ eval) n,
            shouldMin0 sq) := rfl
      rw [hb]
      simp only
      rw [h]
      apply predList_congr
      intro d _
      rw [eval.eq_def]
      cases n <;> cases sq <;> simp [shouldMin0, eval_disj] <;> rw [minshould_arith] <;>
        (try (cases eval mq d <;> cases eval ‹Q› d <;> simp))

theorem predList_asc (docs : List Doc) (hasc : docs.Pairwise (fun a b => a.iid < b.iid)) (p : Doc → Bool) :
    Bleve.BoolSearcher.Asc (predList docs p) := by
  unfold predList Bleve.BoolSearcher.Asc
  rw [List.pairwise_map]
  exact List.Pairwise.sublist List.filter_sublist hasc

/-- **End to end for the boolean query**: over a corpus listed in ascending internal-id order, the
    boolean searcher built from the clause searchers' match lists answers every program of Next and
    Advance calls like the contract machine over the *meaning* of the query, whatever the clause
    searchers do outside their contract. -/
theorem bool_query_searcher_correct (w : Bleve.BoolSearcher.Weird) (m s n : Option Q) (docs : List Doc)
    (hasc : docs.Pairwise (fun a b => a.iid < b.iid))
    (hany : (m.isSome || s.isSome || n.isSome) = true) (ops : List Bleve.BoolSearcher.Op) :
    Bleve.BoolSearcher.runImpl w
      (Bleve.BoolSearcher.init (boolParts m s n docs).1 (boolParts m s n docs).2.1 (boolParts m s n docs).2.2.1
        (boolParts m s n docs).2.2.2) ops =
    Bleve.BoolSearcher.runSpec (den (.bool m s n Option.none) docs) ops := by
  have hinj : docs.Pairwise (fun a b => a.iid ≠ b.iid) :=
    List.Pairwise.imp (fun h => Nat.ne_of_lt h) hasc
  rw [den_bool m s n docs hinj hany]
  apply Bleve.BoolSearcher.bool_searcher_correct
  · unfold boolParts
    cases m <;> cases s <;> simp only [Bleve.BoolSearcher.AscOpt, Option.map_some, Option.map_none]
    · rw [← predList_true]; exact predList_asc docs hasc _
    all_goals (first | exact predList_asc docs hasc _ | trivial)
  · unfold boolParts
    cases s <;> simp only [Bleve.BoolSearcher.AscOpt, Option.map_some, Option.map_none]
    exact predList_asc docs hasc _
  · unfold boolParts
    cases n <;> simp only [Bleve.BoolSearcher.AscOpt, Option.map_some, Option.map_none]
    exact predList_asc docs hasc _

/-! ## the conjunction -/

theorem evalAll_eq (qs : List Q) (docs : List Doc) (hinj : docs.Pairwise (fun a b => a.iid ≠ b.iid))
    (d : Doc) (hd : d ∈ docs) :
    (qs.map (fun q => den q docs)).all (fun m => m.contains d.iid) = evalAll qs d := by
  induction qs with
  | nil => rw [evalAll.eq_def]; rfl
  | cons q qs ih =>
    rw [evalAll.eq_def]
    simp only [List.map_cons, List.all_cons]
    rw [ih, den_eq_predList]
    unfold predList
    rw [contains_filter_map_iid (eval q) docs d hinj hd]

/-- **The meaning of a conjunction is the intersection the conjunction searcher enumerates.** -/
theorem den_conj (q : Q) (qs : List Q) (docs : List Doc) (hinj : docs.Pairwise (fun a b => a.iid ≠ b.iid)) :
    den (.conj (q :: qs)) docs = Bleve.ConjSearcher.conjDen ((q :: qs).map (fun x => den x docs)) := by
  rw [den_eq_predList]
  show predList docs (eval (.conj (q :: qs))) =
    (den q docs).filter (fun d => (qs.map (fun x => den x docs)).all (fun m => m.contains d))
  rw [den_eq_predList]
  unfold predList
  rw [filter_map_iid]
  congr 1
  apply List.filter_congr
  intro d hd
  rw [eval.eq_def]
  simp only
  rw [evalAll.eq_def]
  simp only
  rw [evalAll_eq qs docs hinj d hd]

/-- **End to end for the conjunction**: over a corpus listed in ascending internal-id order, the
    conjunction searcher built from the clause searchers' match lists answers every program of Next and
    Advance calls like the contract machine over the meaning of the query. -/
theorem conj_query_searcher_correct (w : Bleve.BoolSearcher.Weird) (q : Q) (qs : List Q) (docs : List Doc)
    (hasc : docs.Pairwise (fun a b => a.iid < b.iid)) (ops : List Bleve.BoolSearcher.Op) :
    Bleve.ConjSearcher.runImpl w (Bleve.ConjSearcher.init ((q :: qs).map (fun x => den x docs))) ops =
    Bleve.BoolSearcher.runSpec (den (.conj (q :: qs)) docs) ops := by
  have hinj : docs.Pairwise (fun a b => a.iid ≠ b.iid) :=
    List.Pairwise.imp (fun h => Nat.ne_of_lt h) hasc
  rw [den_conj q qs docs hinj]
  apply Bleve.ConjSearcher.conj_searcher_correct
  intro l hl
  obtain ⟨x, _, rfl⟩ := List.mem_map.1 hl
  rw [den_eq_predList]
  exact predList_asc docs hasc _

/-! ## the disjunction -/

theorem countTrue_eq (qs : List Q) (docs : List Doc) (hinj : docs.Pairwise (fun a b => a.iid ≠ b.iid))
    (d : Doc) (hd : d ∈ docs) :
    Bleve.DisjSearcher.cnt (qs.map (fun q => den q docs)) d.iid = countTrue qs d := by
  induction qs with
  | nil => rw [countTrue.eq_def]; rfl
  | cons q qs ih =>
    rw [countTrue.eq_def]
    simp only
    unfold Bleve.DisjSearcher.cnt at ih ⊢
    simp only [List.map_cons, List.filter_cons]
    have hc : (den q docs).contains d.iid = eval q d := by
      rw [den_eq_predList]; unfold predList
      exact contains_filter_map_iid (eval q) docs d hinj hd
    rw [hc]
    by_cases he : eval q d = true
    · simp only [he, if_true, List.length_cons]
      rw [ih]; omega
    · have he' : eval q d = false := by simpa using he
      simp only [he', Bool.false_eq_true, if_false]
      rw [ih]; omega

/-- **The meaning of a disjunction with a minimum is what the disjunction searcher enumerates.** -/
theorem den_disj (min : Nat) (qs : List Q) (docs : List Doc)
    (hasc : docs.Pairwise (fun a b => a.iid < b.iid)) :
    den (.disj min qs) docs = Bleve.DisjSearcher.disjDen (qs.map (fun x => den x docs)) min := by
  have hinj : docs.Pairwise (fun a b => a.iid ≠ b.iid) :=
    List.Pairwise.imp (fun h => Nat.ne_of_lt h) hasc
  apply Bleve.DisjSearcher.asc_ext
  · rw [den_eq_predList]; exact predList_asc docs hasc _
  · exact Bleve.DisjSearcher.disjDen_asc _ _
  · intro d
    rw [Bleve.DisjSearcher.mem_disjDen, den_eq_predList]
    unfold predList
    rw [List.mem_map]
    constructor
    · rintro ⟨doc, hdoc, rfl⟩
      obtain ⟨hmem, hev⟩ := List.mem_filter.1 hdoc
      rw [eval_disj] at hev
      rw [countTrue_eq qs docs hinj doc hmem]
      simpa using hev
    · intro h
      have hpos : 0 < Bleve.DisjSearcher.cnt (qs.map (fun x => den x docs)) d := by omega
      obtain ⟨l, hl, hdl⟩ := (Bleve.DisjSearcher.cnt_pos_iff _ d).1 hpos
      obtain ⟨q, _, rfl⟩ := List.mem_map.1 hl
      rw [den_eq_predList] at hdl
      unfold predList at hdl
      obtain ⟨doc, hdoc, rfl⟩ := List.mem_map.1 hdl
      have hmem := (List.mem_filter.1 hdoc).1
      refine ⟨doc, List.mem_filter.2 ⟨hmem, ?_⟩, rfl⟩
      rw [eval_disj]
      rw [countTrue_eq qs docs hinj doc hmem] at h
      simpa using h

/-- **End to end for the disjunction** (the slice searcher, up to ten clauses). -/
theorem disj_query_searcher_correct (w : Bleve.BoolSearcher.Weird) (min : Nat) (qs : List Q) (docs : List Doc)
    (hasc : docs.Pairwise (fun a b => a.iid < b.iid)) (ops : List Bleve.BoolSearcher.Op) :
    Bleve.DisjSearcher.runImpl w (Bleve.DisjSearcher.init (qs.map (fun x => den x docs)) min) ops =
    Bleve.BoolSearcher.runSpec (den (.disj min qs) docs) ops := by
  rw [den_disj min qs docs hasc]
  apply Bleve.DisjSearcher.disj_searcher_correct
  intro l hl
  obtain ⟨x, _, rfl⟩ := List.mem_map.1 hl
  rw [den_eq_predList]
  exact predList_asc docs hasc _

end Bleve.Query
