import BleveModel.Model.Snapshot
import BleveModel.Lemmas.Snapshot
import BleveModel.Model.IndexSpec
import BleveModel.Props.C01
set_option linter.unusedVariables false
set_option linter.unusedSimpArgs false
/-!
# The snapshot algebra refines the index-content specification (shared by C01, C04, C05)

For every root snapshot that satisfies the invariant "each id has at most one live document" and
every batch (a Go map: one entry per id):

* `introduce_lookup` — after introducing the batch, looking up an id gives what the batch says for
  that id, and what the old root said for every other id: the new segment and all the obsoletions
  take effect together (one root swap);
* `introduce_inv` — the invariant is kept;
* `merge_lookup`, `merge_inv`, `merge_docCount` — replacing any set of segments by one segment holding
  their live documents changes no lookup, keeps the invariant and the document count: merging (and
  persisting, which replaces a segment by an equal one) never changes the logical content;
* `reachable_refines` — by induction over any finite sequence of introductions and merges from the
  empty index, every lookup equals the last-write-wins replay of the batches.
-/
namespace Bleve.Snapshot
open Bleve.KV (Bytes)

/-- what a batch says about an id -/
def batchSays (b : Batch) (id : Bytes) : Option (Option Bytes) := b.lookup id

theorem newDocs_lookup (b : Batch) (id : Bytes) (hn : (b.map (·.1)).Nodup) :
    b.newDocs.lookup id = match batchSays b id with
      | some (some c) => some c
      | _ => none := by
  unfold batchSays Batch.newDocs
  induction b with
  | nil => rfl
  | cons p rest ih =>
    rw [List.map_cons, List.nodup_cons] at hn
    obtain ⟨k, v⟩ := p
    rw [List.lookup_cons]
    by_cases hk : (id == k) = true
    · have e : id = k := by simpa using hk
      subst e
      simp only [hk]
      cases v with
      | some c => simp [List.filterMap_cons, List.lookup_cons]
      | none =>
        simp only [List.filterMap_cons, Option.map_none]
        -- id does not occur in the rest
        rw [List.lookup_eq_none_iff]
        intro q hq
        rw [List.mem_filterMap] at hq
        obtain ⟨x, hx, hxe⟩ := hq
        simp only [bne_iff_ne, ne_eq]
        intro e
        apply hn.1
        cases hv : x.2 with
        | none => rw [hv] at hxe; simp at hxe
        | some c =>
          rw [hv] at hxe; simp at hxe
          have : x.1 = id := by rw [e, ← hxe]
          rw [← this]; exact List.mem_map_of_mem (f := (·.1)) hx
    · simp only [hk]
      cases v with
      | some c =>
        simp only [List.filterMap_cons, Option.map_some, List.lookup_cons, hk]
        exact ih hn.2
      | none =>
        simp only [List.filterMap_cons, Option.map_none]
        exact ih hn.2

theorem batchSays_none_iff (b : Batch) (id : Bytes) :
    batchSays b id = none ↔ (b.map (·.1)).contains id = false := by
  unfold batchSays
  rw [List.lookup_eq_none_iff]
  constructor
  · intro h
    cases hc : (b.map (·.1)).contains id
    · rfl
    · exfalso
      have := List.contains_iff_mem.1 hc
      rw [List.mem_map] at this
      obtain ⟨p, hp, he⟩ := this
      have := h p hp
      simp [he] at this
  · intro h p hp
    simp only [bne_iff_ne, ne_eq]
    intro e
    have : (b.map (·.1)).contains id = true := by
      apply List.contains_iff_mem.2; rw [e]; exact List.mem_map_of_mem (f := (·.1)) hp
    rw [h] at this; cases this

/-- **Batches take effect together, last write wins.** -/
theorem introduce_lookup (r : Snap) (b : Batch) (sid : Nat) (id : Bytes) (hb : (b.map (·.1)).Nodup) :
    lookup (introduce r b sid) id = match batchSays b id with
      | some (some c) => some c
      | some none => none
      | none => lookup r id := by
  unfold lookup
  rw [liveDocs_introduce, List.lookup_append, newDocs_lookup b id hb]
  cases hs : batchSays b id with
  | none =>
    have hc := (batchSays_none_iff b id).1 hs
    rw [lookup_filter_keep _ id hc]
    simp
  | some v =>
    have hc : (b.map (·.1)).contains id = true := by
      cases h : (b.map (·.1)).contains id
      · have := (batchSays_none_iff b id).2 h; rw [hs] at this; cases this
      · rfl
    rw [lookup_filter_drop _ id hc]
    cases v <;> simp

theorem newDocs_keys_sub (b : Batch) : ∀ k ∈ b.newDocs.map (·.1), k ∈ b.map (·.1) := by
  intro k hk
  unfold Batch.newDocs at hk
  rw [List.mem_map] at hk
  obtain ⟨p, hp, rfl⟩ := hk
  rw [List.mem_filterMap] at hp
  obtain ⟨x, hx, hxe⟩ := hp
  cases hv : x.2 with
  | none => rw [hv] at hxe; simp at hxe
  | some c =>
    rw [hv] at hxe; simp at hxe
    rw [← hxe]; exact List.mem_map_of_mem (f := (·.1)) hx

theorem newDocs_keys_nodup (b : Batch) (hb : (b.map (·.1)).Nodup) : (b.newDocs.map (·.1)).Nodup := by
  unfold Batch.newDocs
  induction b with
  | nil => simp
  | cons p rest ih =>
    rw [List.map_cons, List.nodup_cons] at hb
    obtain ⟨k, v⟩ := p
    cases v with
    | none => simp only [List.filterMap_cons, Option.map_none]; exact ih hb.2
    | some c =>
      simp only [List.filterMap_cons, Option.map_some, List.map_cons, List.nodup_cons]
      refine ⟨?_, ih hb.2⟩
      intro hm
      exact hb.1 (newDocs_keys_sub rest k hm)

/-- the invariant survives every introduction -/
theorem introduce_inv (r : Snap) (b : Batch) (sid : Nat) (hb : (b.map (·.1)).Nodup) (h : Inv r) :
    Inv (introduce r b sid) := by
  unfold Inv at h ⊢
  rw [liveDocs_introduce, List.map_append, List.nodup_append]
  refine ⟨?_, newDocs_keys_nodup b hb, ?_⟩
  · exact List.Nodup.sublist (List.Sublist.map _ List.filter_sublist) h
  · intro x hx y hy hxy
    rw [List.mem_map] at hx
    obtain ⟨p, hp, rfl⟩ := hx
    rw [List.mem_filter] at hp
    have hy' := newDocs_keys_sub b y hy
    have : (b.map (·.1)).contains p.1 = true := by rw [hxy]; exact List.contains_iff_mem.2 hy'
    rw [this] at hp; simp at hp

/-! ## merges -/

theorem liveDocs_merge_perm (r : Snap) (sids : List Nat) (n : Nat) :
    (liveDocs (mergeSegs r sids n)).Perm (liveDocs r) := by
  unfold mergeSegs
  simp only
  have hpart : ((r.filter (fun s => !sids.contains s.sid)) ++ (r.filter (fun s => sids.contains s.sid))).Perm r := by
    have := List.filter_append_perm (fun s : Seg => sids.contains s.sid) r
    exact (List.perm_append_comm).trans this
  have hflat : (liveDocs (r.filter (fun s => !sids.contains s.sid)) ++ liveDocs (r.filter (fun s => sids.contains s.sid))).Perm (liveDocs r) := by
    unfold liveDocs
    rw [← List.flatMap_append]
    exact List.Perm.flatMap_right _ hpart
  split
  · rename_i he
    have : liveDocs (r.filter (fun s => sids.contains s.sid)) = [] := List.isEmpty_iff.1 he
    rw [this, List.append_nil] at hflat
    exact hflat
  · have hnew : ∀ docs : List (Bytes × Bytes), liveDocs [⟨n, docs, []⟩] = docs := by
      intro docs
      simp [liveDocs, Seg.live, List.filter_eq_self.2, List.zipIdx_map_fst]
    have e : liveDocs (r.filter (fun s => !sids.contains s.sid) ++ [⟨n, liveDocs (r.filter (fun s => sids.contains s.sid)), []⟩])
        = liveDocs (r.filter (fun s => !sids.contains s.sid)) ++ liveDocs (r.filter (fun s => sids.contains s.sid)) := by
      have := hnew (liveDocs (r.filter (fun s => sids.contains s.sid)))
      unfold liveDocs at this ⊢
      rw [List.flatMap_append, this]
    rw [e]
    exact hflat

/-- **Merging never changes what a lookup returns.** -/
theorem merge_lookup (r : Snap) (sids : List Nat) (n : Nat) (id : Bytes) (h : Inv r) :
    lookup (mergeSegs r sids n) id = lookup r id := by
  unfold lookup
  have hp := liveDocs_merge_perm r sids n
  exact (lookup_perm _ _ id h hp.symm).symm

theorem merge_inv (r : Snap) (sids : List Nat) (n : Nat) (h : Inv r) : Inv (mergeSegs r sids n) := by
  unfold Inv at h ⊢
  exact ((liveDocs_merge_perm r sids n).map _).nodup_iff.2 h

theorem merge_docCount (r : Snap) (sids : List Nat) (n : Nat) : docCount (mergeSegs r sids n) = docCount r :=
  (liveDocs_merge_perm r sids n).length_eq

/-! ## every reachable snapshot -/

inductive Event where
  | batch (b : Batch) (sid : Nat)
  | merge (sids : List Nat) (newSid : Nat)

def step (r : Snap) : Event → Snap
  | .batch b sid => introduce r b sid
  | .merge sids n => mergeSegs r sids n

def run (es : List Event) : Snap := es.foldl step []

def batchesOf : List Event → List Batch
  | [] => []
  | .batch b _ :: es => b :: batchesOf es
  | .merge _ _ :: es => batchesOf es

def WellFormed : List Event → Prop
  | [] => True
  | .batch b _ :: es => (b.map (·.1)).Nodup ∧ WellFormed es
  | .merge _ _ :: es => WellFormed es

/-- last-write-wins replay of batches, as a function of the id -/
def replay : List Batch → Bytes → Option Bytes
  | [], _ => none
  | b :: bs, id =>
    -- later batches win: evaluate the rest first
    match replayLast (b :: bs) id with
    | some v => v
    | none => none
where
  replayLast : List Batch → Bytes → Option (Option Bytes)
    | [], _ => none
    | b :: bs, id => match replayLast bs id with
      | some v => some v
      | none => batchSays b id

theorem foldl_step_inv (es : List Event) : ∀ (r : Snap), Inv r → WellFormed es → Inv (es.foldl step r) := by
  induction es with
  | nil => intro r h _; exact h
  | cons e rest ih =>
    intro r h hw
    simp only [List.foldl_cons]
    cases e with
    | batch b sid => exact ih _ (introduce_inv r b sid hw.1 h) hw.2
    | merge sids n => exact ih _ (merge_inv r sids n h) hw

/-- **Reachable snapshots refine the replay**: for every finite sequence of introductions and merges
    from any root satisfying the invariant, a lookup returns what the latest batch mentioning the id
    says, or what the starting root held if no batch mentions it. -/
theorem foldl_step_lookup (es : List Event) : ∀ (r : Snap) (id : Bytes), Inv r → WellFormed es →
    lookup (es.foldl step r) id = match replay.replayLast (batchesOf es) id with
      | some v => v
      | none => lookup r id := by
  induction es with
  | nil => intro r id _ _; rfl
  | cons e rest ih =>
    intro r id h hw
    simp only [List.foldl_cons]
    cases e with
    | batch b sid =>
      have := ih (introduce r b sid) id (introduce_inv r b sid hw.1 h) hw.2
      show lookup (List.foldl step (introduce r b sid) rest) id = _
      rw [this]
      simp only [batchesOf, replay.replayLast]
      cases hr : replay.replayLast (batchesOf rest) id with
      | some v => rfl
      | none =>
        simp only
        rw [introduce_lookup r b sid id hw.1]
        cases batchSays b id with
        | none => rfl
        | some v => cases v <;> rfl
    | merge sids n =>
      have := ih (mergeSegs r sids n) id (merge_inv r sids n h) hw
      show lookup (List.foldl step (mergeSegs r sids n) rest) id = _
      rw [this, merge_lookup r sids n id h]
      rfl

theorem reachable_refines (es : List Event) (id : Bytes) (hw : WellFormed es) :
    lookup (run es) id = replay (batchesOf es) id ∧ Inv (run es) := by
  have hinv0 : Inv ([] : Snap) := by simp [Inv, liveDocs]
  refine ⟨?_, foldl_step_inv es [] hinv0 hw⟩
  have := foldl_step_lookup es [] id hinv0 hw
  unfold run
  rw [this]
  cases hb : batchesOf es with
  | nil => simp [replay.replayLast, replay, lookup, liveDocs]
  | cons b bs =>
    simp only [replay]
    cases replay.replayLast (b :: bs) id with
    | some v => rfl
    | none => simp [lookup, liveDocs]

/-- DocCount is the number of distinct live ids (under the invariant the live ids are distinct) -/
theorem docCount_eq_ids (r : Snap) : docCount r = ((liveDocs r).map (·.1)).length := by
  simp [docCount]

example : lookup (run [.batch [([1], some [10]), ([2], some [20])] 1, .batch [([1], none), ([3], some [30])] 2, .merge [1, 2] 3]) [2]
    = some [20] := by decide

end Bleve.Snapshot
