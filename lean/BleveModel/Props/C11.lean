import BleveModel.Model.Lifecycle
set_option linter.unusedVariables false
set_option linter.unusedSimpArgs false
/-!
# C11 — The index API is safe under arbitrary concurrent use and Close always completes

"Any number of goroutines may call Index, Delete, Batch, Search (with and without deadlines), Document,
DocCount, FieldDict, Stats, forced merge, backup and Close on one index concurrently without data
races, panics or deadlocks. Close returns after in-flight calls finish and stops all background work;
every call made after Close returns the closed-index error. A search whose context is cancelled returns
an error promptly and leaves the index usable."

What a theorem can carry here is the lifecycle protocol (`Model/Lifecycle.lean`): for every
interleaving of calls entering, leaving and Close asking for the lock — Close is granted only when no
call is inside (`close_waits`), after it every call gets the closed-index error and nothing is inside
any more (`after_close_rejected`, `closed_stays_closed`), before it every call proceeds
(`before_close_proceeds`), closing twice is answered with the closed-index error and changes nothing.
The monitor `verdict` states the two observable consequences for a real history.
**Partial**: data races, panics, deadlocks, goroutine leaks and promptness of cancellation live in the
Go runtime; `./check C11` exercises them (race detector build, many goroutines over all four engines,
Close at a random moment from two goroutines at once, cancelled searches, goroutine count after
Close) and feeds every call's start/return sequence numbers and result to `verdict` in Lean.
-/
namespace Bleve.Lifecycle

theorem closed_stays_closed (s : L) (ev : Ev) (h : s.isOpen = false) : (step s ev).1.isOpen = false := by
  cases ev <;> simp [step, h]

theorem run_closed : ∀ (evs : List Ev) (s : L), s.isOpen = false → (run s evs).1.isOpen = false := by
  intro evs
  induction evs with
  | nil => intro s h; simpa [run] using h
  | cons ev evs ih =>
    intro s h
    simp only [run]
    exact ih _ (closed_stays_closed s ev h)

/-- Close is granted only when no call is inside: in-flight calls finish first -/
theorem close_waits (s : L) (h : (step s .close).2 = .closed) : s.inflight = 0 ∧ s.isOpen = true := by
  unfold step at h
  cases ho : s.isOpen <;> simp [ho] at h
  · by_cases hz : s.inflight = 0
    · exact ⟨hz, rfl⟩
    · simp [hz] at h

/-- once closed, every call is answered with the closed-index error and never gets inside -/
theorem after_close_rejected : ∀ (evs : List Ev) (s : L), s.isOpen = false →
    ∀ (i : Nat), evs[i]? = some Ev.enter → (run s evs).2[i]? = some Out.closedErr := by
  intro evs
  induction evs with
  | nil => intro s h i hi; simp at hi
  | cons ev evs ih =>
    intro s h i hi
    simp only [run]
    cases i with
    | zero =>
      simp only [List.getElem?_cons_zero, Option.some.injEq] at hi
      subst hi
      simp [step, h]
    | succ j =>
      simp only [List.getElem?_cons_succ] at hi ⊢
      exact ih _ (closed_stays_closed s ev h) j hi

/-- a second Close is answered with the closed-index error and changes nothing -/
theorem close_twice (s : L) (h : s.isOpen = false) : step s .close = (s, .closedErr) := by
  simp [step, h]

/-- while the index is open every call proceeds -/
theorem before_close_proceeds (s : L) (h : s.isOpen = true) : (step s .enter).2 = .proceed := by
  simp [step, h]

/-- nothing is inside after a successful Close, and nothing gets inside later -/
theorem inflight_zero_after_close : ∀ (evs : List Ev) (s : L), s.isOpen = false → s.inflight = 0 →
    (run s evs).1.inflight = 0 := by
  intro evs
  induction evs with
  | nil => intro s _ h; simpa [run] using h
  | cons ev evs ih =>
    intro s ho hz
    simp only [run]
    apply ih
    · exact closed_stays_closed s ev ho
    · cases ev <;> simp [step, ho, hz]

/-- the monitor agrees with the model on sequential histories: a call issued after the Close that
    succeeded must report `closed`, one that returned before Close was issued must not -/
theorem verdict_after (cs ce st en : Nat) (r : Res) (h : verdict (some (cs, ce)) st en r = true)
    (hafter : st > ce) : r = .closed ∨ r = .refused := by
  unfold verdict at h
  simp only [Bool.and_eq_true, bne_iff_ne, ne_eq] at h
  have := h.2.1
  simp [hafter] at this
  exact this

theorem verdict_before (cs ce st en : Nat) (r : Res) (h : verdict (some (cs, ce)) st en r = true)
    (hbefore : en < cs) : r ≠ .closed := by
  unfold verdict at h
  simp only [Bool.and_eq_true, bne_iff_ne, ne_eq] at h
  have := h.2.2
  simp [hbefore] at this
  exact this

example : (run {} [.enter, .enter, .close, .leave, .leave, .close, .enter, .close]).2 =
    [.proceed, .proceed, .blocked, .left, .left, .closed, .closedErr, .closedErr] := by decide
example : verdict (some (10, 20)) 25 26 .ok = false := by decide     -- accepted after Close
example : verdict (some (10, 20)) 3 5 .closed = false := by decide   -- rejected before Close
example : verdict (some (10, 20)) 8 15 .closed = true := by decide   -- overlapping Close: either answer

end Bleve.Lifecycle
