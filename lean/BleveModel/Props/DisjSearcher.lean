import BleveModel.Model.DisjSearcher
import BleveModel.Props.ConjSearcher
set_option linter.unusedVariables false
set_option linter.unusedSimpArgs false
/-!
# The disjunction searcher keeps the searcher contract and yields the clauses' matches with a minimum

For every behaviour of the clause searchers outside their contract, every reachable state and every
program of `Next` / `Advance` calls, the machine of `Model/DisjSearcher.lean` (`updateMatches`, the
loop of `Next` that skips documents matched by too few clauses, `Advance`) answers like the contract
machine over `disjDen`: the documents matched by at least `max 1 min` clauses, ascending.
Equalities between ascending lists are obtained from membership (`asc_ext`).
-/
namespace Bleve.DisjSearcher
open Bleve.BoolSearcher (Ch Weird Op Asc dropWhile_ge asc_dropWhile_contains)
open Bleve.ConjSearcher (AllOk size)

/-! ## ascending lists -/

theorem asc_ext : ∀ (l1 l2 : List Nat), Asc l1 → Asc l2 → (∀ d, d ∈ l1 ↔ d ∈ l2) → l1 = l2 := by
  intro l1
  induction l1 with
  | nil =>
    intro l2 _ _ h
    cases l2 with
    | nil => rfl
    | cons y ys => exact absurd ((h y).2 List.mem_cons_self) (by simp)
  | cons x xs ih =>
    intro l2 h1 h2 h
    cases l2 with
    | nil => exact absurd ((h x).1 List.mem_cons_self) (by simp)
    | cons y ys =>
      have hx := (List.pairwise_cons.1 h1)
      have hy := (List.pairwise_cons.1 h2)
      have hxy : x = y := by
        have a1 : x ∈ y :: ys := (h x).1 List.mem_cons_self
        have a2 : y ∈ x :: xs := (h y).2 List.mem_cons_self
        rcases List.mem_cons.1 a1 with e | e
        · exact e
        · rcases List.mem_cons.1 a2 with e' | e'
          · exact e'.symm
          · have := hy.1 x e; have := hx.1 y e'; omega
      subst hxy
      congr 1
      apply ih ys hx.2 hy.2
      intro d
      constructor
      · intro hd
        have := (h d).1 (List.mem_cons_of_mem _ hd)
        rcases List.mem_cons.1 this with e | e
        · have := hx.1 d hd; omega
        · exact e
      · intro hd
        have := (h d).2 (List.mem_cons_of_mem _ hd)
        rcases List.mem_cons.1 this with e | e
        · have := hy.1 d hd; omega
        · exact e

theorem mem_insertAsc (x d : Nat) : ∀ (l : List Nat), d ∈ insertAsc x l ↔ d = x ∨ d ∈ l := by
  intro l
  induction l with
  | nil => simp [insertAsc]
  | cons y ys ih =>
    unfold insertAsc
    split
    · simp
    · split
      · rename_i h1 h2; subst h2; simp
      · simp only [List.mem_cons, ih]
        constructor
        · rintro (h | h | h)
          · exact Or.inr (Or.inl h)
          · exact Or.inl h
          · exact Or.inr (Or.inr h)
        · rintro (h | h | h)
          · exact Or.inr (Or.inl h)
          · exact Or.inl h
          · exact Or.inr (Or.inr h)

theorem insertAsc_asc (x : Nat) : ∀ (l : List Nat), Asc l → Asc (insertAsc x l) := by
  intro l
  induction l with
  | nil => intro _; simp [insertAsc, Asc]
  | cons y ys ih =>
    intro h
    have hy := List.pairwise_cons.1 h
    unfold insertAsc
    split
    · rename_i hlt
      refine List.pairwise_cons.2 ⟨?_, h⟩
      intro z hz
      rcases List.mem_cons.1 hz with rfl | hz'
      · exact hlt
      · have := hy.1 z hz'; omega
    · split
      · exact h
      · rename_i h1 h2
        refine List.pairwise_cons.2 ⟨?_, ih hy.2⟩
        intro z hz
        rcases (mem_insertAsc x z ys).1 hz with rfl | hz'
        · omega
        · exact hy.1 z hz'

theorem foldr_insertAsc_asc : ∀ (l : List Nat), Asc (l.foldr insertAsc []) := by
  intro l
  induction l with
  | nil => exact List.Pairwise.nil
  | cons x xs ih => exact insertAsc_asc x _ ih

theorem mem_foldr_insertAsc (d : Nat) : ∀ (l : List Nat), d ∈ l.foldr insertAsc [] ↔ d ∈ l := by
  intro l
  induction l with
  | nil => simp
  | cons x xs ih => simp only [List.foldr_cons, mem_insertAsc, ih, List.mem_cons]

theorem unionAsc_asc (ls : List (List Nat)) : Asc (unionAsc ls) := foldr_insertAsc_asc _

theorem mem_unionAsc (ls : List (List Nat)) (d : Nat) : d ∈ unionAsc ls ↔ ∃ l ∈ ls, d ∈ l := by
  unfold unionAsc
  rw [mem_foldr_insertAsc, List.mem_flatten]

theorem disjDen_asc (ls : List (List Nat)) (min : Nat) : Asc (disjDen ls min) :=
  List.Pairwise.sublist List.filter_sublist (unionAsc_asc ls)

theorem cnt_pos_iff (ls : List (List Nat)) (d : Nat) : 0 < cnt ls d ↔ ∃ l ∈ ls, d ∈ l := by
  unfold cnt
  rw [List.length_pos_iff_exists_mem]
  constructor
  · rintro ⟨l, hl⟩
    have := List.mem_filter.1 hl
    exact ⟨l, this.1, List.contains_iff_mem.1 this.2⟩
  · rintro ⟨l, hl, hd⟩
    exact ⟨l, List.mem_filter.2 ⟨hl, List.contains_iff_mem.2 hd⟩⟩

/-- membership in the denotation: matched by at least `max 1 min` clauses -/
theorem mem_disjDen (ls : List (List Nat)) (min d : Nat) : d ∈ disjDen ls min ↔ max 1 min ≤ cnt ls d := by
  unfold disjDen
  rw [List.mem_filter, mem_unionAsc, decide_eq_true_eq]
  constructor
  · exact fun h => h.2
  · intro h
    refine ⟨(cnt_pos_iff ls d).1 (by omega), h⟩

theorem mem_dropWhile_asc : ∀ (l : List Nat) (t d : Nat), Asc l →
    (d ∈ l.dropWhile (· < t) ↔ d ∈ l ∧ t ≤ d) := by
  intro l t d h
  constructor
  · intro hd
    exact ⟨(List.dropWhile_sublist _).subset hd, dropWhile_ge l t d hd h⟩
  · intro ⟨hd, htd⟩
    have := asc_dropWhile_contains l t d h htd
    rw [List.contains_iff_mem.2 hd] at this
    exact List.contains_iff_mem.1 this

/-! ## the smallest cursor -/

theorem minCur_none : ∀ (chs : List Ch), minCur chs = none ↔ ∀ c ∈ chs, c.curr = none := by
  intro chs
  induction chs with
  | nil => simp [minCur]
  | cons c cs ih =>
    unfold minCur
    cases hc : c.curr with
    | none =>
      simp only [optMin]
      rw [ih]
      constructor
      · intro h x hx
        rcases List.mem_cons.1 hx with rfl | hx'
        · exact hc
        · exact h x hx'
      · intro h x hx; exact h x (List.mem_cons_of_mem _ hx)
    | some a =>
      constructor
      · intro h
        cases hm : minCur cs <;> rw [hm] at h <;> simp [optMin] at h
      · intro h
        have := h c List.mem_cons_self
        rw [hc] at this; cases this

theorem minCur_some : ∀ (chs : List Ch) (m : Nat), minCur chs = some m →
    (∃ c ∈ chs, c.curr = some m) ∧ (∀ c ∈ chs, ∀ v, c.curr = some v → m ≤ v) := by
  intro chs
  induction chs with
  | nil => intro m h; simp [minCur] at h
  | cons c cs ih =>
    intro m h
    unfold minCur at h
    cases hc : c.curr with
    | none =>
      rw [hc] at h
      simp only [optMin] at h
      obtain ⟨⟨x, hx, hxm⟩, hle⟩ := ih m h
      refine ⟨⟨x, List.mem_cons_of_mem _ hx, hxm⟩, ?_⟩
      intro y hy v hv
      rcases List.mem_cons.1 hy with rfl | hy'
      · rw [hc] at hv; cases hv
      · exact hle y hy' v hv
    | some a =>
      rw [hc] at h
      cases hm : minCur cs with
      | none =>
        rw [hm] at h
        simp only [optMin, Option.some.injEq] at h
        subst h
        refine ⟨⟨c, List.mem_cons_self, hc⟩, ?_⟩
        intro y hy v hv
        rcases List.mem_cons.1 hy with rfl | hy'
        · rw [hc] at hv; injection hv with hv; omega
        · have := (minCur_none cs).1 hm y hy'
          rw [this] at hv; cases hv
      | some b =>
        rw [hm] at h
        simp only [optMin, Option.some.injEq] at h
        obtain ⟨⟨x, hx, hxb⟩, hle⟩ := ih b hm
        have hmin : m = Nat.min a b := h.symm
        refine ⟨?_, ?_⟩
        · by_cases hab : a ≤ b
          · have : m = a := by rw [hmin]; exact Nat.min_eq_left hab
            exact ⟨c, List.mem_cons_self, by rw [hc, this]⟩
          · have : m = b := by rw [hmin]; exact Nat.min_eq_right (by omega)
            exact ⟨x, List.mem_cons_of_mem _ hx, by rw [hxb, this]⟩
        · intro y hy v hv
          have hma : m ≤ a := by rw [hmin]; exact Nat.min_le_left a b
          have hmb : m ≤ b := by rw [hmin]; exact Nat.min_le_right a b
          rcases List.mem_cons.1 hy with rfl | hy'
          · rw [hc] at hv; injection hv with hv; omega
          · have := hle y hy' v hv; omega

/-- with the cursor at or after `m`, a clause holds `m` exactly when its cursor is on `m` -/
theorem contains_min_iff (c : Ch) (hok : c.ok) (m : Nat) (hle : ∀ v, c.curr = some v → m ≤ v) :
    c.all.contains m = (c.curr == some m) := by
  cases hc : c.curr with
  | none => rw [Ch.all_of_curr_none c hok hc]; rfl
  | some v =>
    rw [Ch.contains_le_curr c hok v m hc (hle v hc)]
    by_cases hv : v = m
    · subst hv; simp
    · have h1 : (v == m) = false := by simpa using hv
      have h2 : (some v == some m) = false := by simpa using hv
      rw [h1, h2]

/-- every remaining match of every clause is at or after the smallest cursor -/
theorem min_le_all (chs : List Ch) (hok : AllOk chs) (m : Nat)
    (hle : ∀ c ∈ chs, ∀ v, c.curr = some v → m ≤ v) : ∀ c ∈ chs, ∀ d ∈ c.all, m ≤ d := by
  intro c hc d hd
  cases hcur : c.curr with
  | none => rw [Ch.all_of_curr_none c (hok c hc) hcur] at hd; simp at hd
  | some v =>
    rw [Ch.all_of_curr_some c v hcur] at hd
    have ha : Asc (v :: c.rem) := by rw [← Ch.all_of_curr_some c v hcur]; exact (hok c hc).1
    have := hle c hc v hcur
    rcases List.mem_cons.1 hd with rfl | hd'
    · exact this
    · have := (List.pairwise_cons.1 ha).1 d hd'; omega

theorem cnt_map_all (chs : List Ch) (d : Nat) :
    cnt (chs.map Ch.all) d = (chs.filter (fun c => c.all.contains d)).length := by
  unfold cnt
  rw [List.filter_map, List.length_map]
  rfl

theorem cnt_eq_matching (chs : List Ch) (hok : AllOk chs) (m : Nat)
    (hle : ∀ c ∈ chs, ∀ v, c.curr = some v → m ≤ v) : cnt (chs.map Ch.all) m = matchingCount chs m := by
  rw [cnt_map_all]
  unfold matchingCount
  congr 1
  apply List.filter_congr
  intro c hc
  exact contains_min_iff c (hok c hc) m (hle c hc)

/-! ## one round of the loop -/

def stepC (m : Nat) (c : Ch) : Ch := if c.curr == some m then c.next else c

theorem stepMatching_eq (chs : List Ch) (m : Nat) : stepMatching chs m = chs.map (stepC m) := rfl

theorem stepC_ok (m : Nat) (c : Ch) (h : c.ok) : (stepC m c).ok := by
  unfold stepC
  split
  · exact Ch.next_ok c h
  · exact h

/-- a round takes `m` away from the clauses that sit on it and nothing else -/
theorem mem_stepC (m : Nat) (c : Ch) (hok : c.ok) (hle : ∀ v, c.curr = some v → m ≤ v) (d : Nat) :
    d ∈ (stepC m c).all ↔ d ∈ c.all ∧ d ≠ m := by
  unfold stepC
  by_cases hcm : c.curr = some m
  · have : (c.curr == some m) = true := by simp [hcm]
    rw [this, if_pos rfl, Ch.next_all, Ch.all_of_curr_some c m hcm]
    have ha : Asc (m :: c.rem) := by rw [← Ch.all_of_curr_some c m hcm]; exact hok.1
    constructor
    · intro hd
      exact ⟨List.mem_cons_of_mem _ hd, by have := (List.pairwise_cons.1 ha).1 d hd; omega⟩
    · intro ⟨hd, hne⟩
      rcases List.mem_cons.1 hd with h | h
      · exact absurd h hne
      · exact h
  · have : (c.curr == some m) = false := by simpa using hcm
    rw [this]
    simp only [Bool.false_eq_true, if_false]
    constructor
    · intro hd
      refine ⟨hd, ?_⟩
      intro hdm
      subst hdm
      have := contains_min_iff c hok d hle
      rw [List.contains_iff_mem.2 hd] at this
      have h2 : c.curr = some d := by simpa using this.symm
      exact hcm h2
    · exact fun h => h.1

theorem cnt_step (chs : List Ch) (hok : AllOk chs) (m : Nat)
    (hle : ∀ c ∈ chs, ∀ v, c.curr = some v → m ≤ v) (d : Nat) :
    cnt ((stepMatching chs m).map Ch.all) d = if d = m then 0 else cnt (chs.map Ch.all) d := by
  rw [cnt_map_all, cnt_map_all, stepMatching_eq, List.filter_map, List.length_map]
  by_cases hd : d = m
  · rw [if_pos hd]
    apply List.length_eq_zero_iff.2
    apply List.filter_eq_nil_iff.2
    intro c hc
    simp only [Function.comp]
    intro hcon
    have := (mem_stepC m c (hok c hc) (hle c hc) d).1 (List.contains_iff_mem.1 hcon)
    exact this.2 hd
  · rw [if_neg hd]
    congr 1
    apply List.filter_congr
    intro c hc
    simp only [Function.comp]
    have := mem_stepC m c (hok c hc) (hle c hc) d
    cases h1 : (stepC m c).all.contains d <;> cases h2 : c.all.contains d <;> simp_all

theorem size_step_lt (m : Nat) : ∀ (chs : List Ch), (∃ c ∈ chs, c.curr = some m) →
    size (stepMatching chs m) < size chs := by
  intro chs
  induction chs with
  | nil => intro ⟨c, hc, _⟩; simp at hc
  | cons c cs ih =>
    intro ⟨x, hx, hxm⟩
    have hle : ∀ (l : List Ch), size (stepMatching l m) ≤ size l := by
      intro l
      induction l with
      | nil => exact Nat.le_refl _
      | cons a as iha =>
        unfold size stepMatching at iha ⊢
        simp only [List.map_cons, List.sum_cons]
        have : (if a.curr == some m then a.next else a).all.length ≤ a.all.length := by
          split
          · rw [Ch.next_all]; unfold Ch.all; simp
          · exact Nat.le_refl _
        omega
    unfold size stepMatching
    simp only [List.map_cons, List.sum_cons]
    rcases List.mem_cons.1 hx with rfl | hx'
    · have h1 : (x.curr == some m) = true := by simp [hxm]
      rw [h1, if_pos rfl, Ch.next_all, Ch.all_of_curr_some x m hxm]
      have := hle cs
      unfold size stepMatching at this
      simp only [List.length_cons]
      omega
    · have h1 := ih ⟨x, hx', hxm⟩
      unfold size stepMatching at h1
      have : (if c.curr == some m then c.next else c).all.length ≤ c.all.length := by
        split
        · rw [Ch.next_all]; unfold Ch.all; simp
        · exact Nat.le_refl _
      omega

theorem stepMatching_ok (chs : List Ch) (hok : AllOk chs) (m : Nat) : AllOk (stepMatching chs m) := by
  intro c hc
  rw [stepMatching_eq] at hc
  obtain ⟨c0, hc0, rfl⟩ := List.mem_map.1 hc
  exact stepC_ok m c0 (hok c0 hc0)

/-- **One round**: with `m` the smallest cursor, the remaining matches are `m` — if enough clauses sit
    on it — followed by the remaining matches after the round. -/
theorem abs_step (st : St) (hok : AllOk st.chs) (m : Nat) (hm : minCur st.chs = some m) :
    abs st = (if st.min ≤ matchingCount st.chs m then [m] else []) ++
      abs { st with chs := stepMatching st.chs m } := by
  obtain ⟨⟨cm, hcm, hcmv⟩, hle⟩ := minCur_some st.chs m hm
  have hcnt := cnt_eq_matching st.chs hok m hle
  have hstep := cnt_step st.chs hok m hle
  have hpos : 0 < cnt (st.chs.map Ch.all) m := by
    rw [cnt_pos_iff]
    exact ⟨cm.all, List.mem_map_of_mem hcm, by rw [Ch.all_of_curr_some cm m hcmv]; exact List.mem_cons_self⟩
  -- what is left after the round lies beyond `m`
  have hgt : ∀ d ∈ abs { st with chs := stepMatching st.chs m }, m < d := by
    intro d hd
    unfold abs at hd
    have h1 := (mem_disjDen _ _ d).1 hd
    simp only at h1
    have h2 : 0 < cnt ((stepMatching st.chs m).map Ch.all) d := by omega
    rw [hstep d] at h2
    have hne : d ≠ m := by intro h; rw [if_pos h] at h2; omega
    rw [if_neg hne, cnt_pos_iff] at h2
    obtain ⟨l, hl, hdl⟩ := h2
    obtain ⟨c, hc, rfl⟩ := List.mem_map.1 hl
    have := min_le_all st.chs hok m hle c hc d hdl
    omega
  apply asc_ext
  · exact disjDen_asc _ _
  · by_cases hf : st.min ≤ matchingCount st.chs m
    · rw [if_pos hf]
      exact List.pairwise_cons.2 ⟨hgt, disjDen_asc _ _⟩
    · rw [if_neg hf]; exact disjDen_asc _ _
  · intro d
    unfold abs
    rw [List.mem_append, mem_disjDen, mem_disjDen]
    simp only
    rw [hstep d]
    by_cases hd : d = m
    · subst hd
      rw [if_pos rfl, hcnt]
      by_cases hf : st.min ≤ matchingCount st.chs d
      · rw [if_pos hf]
        rw [hcnt] at hpos
        constructor
        · intro _; exact Or.inl List.mem_cons_self
        · intro _; omega
      · rw [if_neg hf]
        constructor
        · intro h; omega
        · rintro (h | h)
          · simp at h
          · omega
    · rw [if_neg hd]
      constructor
      · intro h; exact Or.inr h
      · rintro (h | h)
        · split at h
          · simp at h; exact absurd h hd
          · simp at h
        · exact h

theorem nextLoop_spec : ∀ (fuel : Nat) (st : St), AllOk st.chs → size st.chs < fuel →
    (nextLoop fuel st).1 = (abs st).head? ∧ abs (nextLoop fuel st).2 = (abs st).tail ∧
    AllOk (nextLoop fuel st).2.chs := by
  intro fuel
  induction fuel with
  | zero => intro st _ h; omega
  | succ fuel ih =>
    intro st hok hfuel
    unfold nextLoop
    cases hm : minCur st.chs with
    | none =>
      simp only
      -- no clause has anything left
      have hnil : abs st = [] := by
        apply List.eq_nil_iff_forall_not_mem.2
        intro d hd
        unfold abs at hd
        have h1 := (mem_disjDen _ _ d).1 hd
        have h2 : 0 < cnt (st.chs.map Ch.all) d := by omega
        rw [cnt_pos_iff] at h2
        obtain ⟨l, hl, hdl⟩ := h2
        obtain ⟨c, hc, rfl⟩ := List.mem_map.1 hl
        rw [Ch.all_of_curr_none c (hok c hc) ((minCur_none st.chs).1 hm c hc)] at hdl
        simp at hdl
      rw [hnil]
      exact ⟨rfl, rfl, hok⟩
    | some m =>
      simp only
      have habs := abs_step st hok m hm
      have hok' := stepMatching_ok st.chs hok m
      obtain ⟨hex, _⟩ := minCur_some st.chs m hm
      have hlt := size_step_lt m st.chs hex
      by_cases hf : st.min ≤ matchingCount st.chs m
      · rw [if_pos hf]
        rw [if_pos hf] at habs
        rw [habs]
        exact ⟨rfl, rfl, hok'⟩
      · rw [if_neg hf]
        rw [if_neg hf, List.nil_append] at habs
        obtain ⟨i1, i2, i3⟩ := ih { st with chs := stepMatching st.chs m } hok' (by simp only; omega)
        rw [habs]
        exact ⟨i1, i2, i3⟩

theorem next_spec (st : St) (hok : AllOk st.chs) :
    (next st).1 = (abs st).head? ∧ abs (next st).2 = (abs st).tail ∧ AllOk (next st).2.chs :=
  nextLoop_spec _ st hok (by omega)

theorem nextLoop_min (fuel : Nat) (st : St) : (nextLoop fuel st).2.min = st.min := by
  induction fuel generalizing st with
  | zero => rfl
  | succ fuel ih =>
    unfold nextLoop
    cases minCur st.chs with
    | none => rfl
    | some m =>
      simp only
      split
      · rfl
      · rw [ih]

/-- **`Advance`**: every clause behind the target is moved up; what remains is what remained at or after it -/
theorem abs_advance (w : Weird) (t : Nat) (st : St) (hok : AllOk st.chs) :
    abs { st with chs := st.chs.map (Bleve.BoolSearcher.advBehind w t) } = (abs st).dropWhile (· < t) ∧
    AllOk (st.chs.map (Bleve.BoolSearcher.advBehind w t)) := by
  have hadv : ∀ c ∈ st.chs, Bleve.ConjSearcher.AdvTo t c (Bleve.BoolSearcher.advBehind w t c) :=
    fun c hc => Bleve.ConjSearcher.advBehind_advTo w t c (hok c hc)
  have hok' : AllOk (st.chs.map (Bleve.BoolSearcher.advBehind w t)) := by
    intro c hc
    obtain ⟨c0, hc0, rfl⟩ := List.mem_map.1 hc
    exact (hadv c0 hc0).1
  refine ⟨?_, hok'⟩
  -- clause by clause: a match at or after the target is kept, one before it is gone
  have hcnt : ∀ d, cnt ((st.chs.map (Bleve.BoolSearcher.advBehind w t)).map Ch.all) d =
      if t ≤ d then cnt (st.chs.map Ch.all) d else 0 := by
    intro d
    rw [cnt_map_all, cnt_map_all, List.filter_map, List.length_map]
    by_cases hd : t ≤ d
    · rw [if_pos hd]
      congr 1
      apply List.filter_congr
      intro c hc
      simp only [Function.comp]
      rw [(hadv c hc).2]
      exact asc_dropWhile_contains c.all t d (hok c hc).1 hd
    · rw [if_neg hd]
      apply List.length_eq_zero_iff.2
      apply List.filter_eq_nil_iff.2
      intro c hc
      simp only [Function.comp]
      intro hcon
      rw [(hadv c hc).2] at hcon
      have := dropWhile_ge c.all t d (List.contains_iff_mem.1 hcon) (hok c hc).1
      exact hd this
  apply asc_ext
  · exact disjDen_asc _ _
  · exact Bleve.BoolSearcher.asc_dropWhile (disjDen_asc _ _) t
  · intro d
    unfold abs
    rw [mem_dropWhile_asc _ t d (disjDen_asc _ _), mem_disjDen, mem_disjDen]
    simp only
    rw [hcnt d]
    by_cases hd : t ≤ d
    · rw [if_pos hd]; exact ⟨fun h => ⟨h, hd⟩, fun h => h.1⟩
    · rw [if_neg hd]
      constructor
      · intro h; omega
      · intro h; exact absurd h.2 hd

theorem advance_spec (w : Weird) (t : Nat) (st : St) (hok : AllOk st.chs) :
    (advance w t st).1 = ((abs st).dropWhile (· < t)).head? ∧
    abs (advance w t st).2 = ((abs st).dropWhile (· < t)).tail ∧ AllOk (advance w t st).2.chs := by
  unfold advance
  obtain ⟨h1, h2⟩ := abs_advance w t st hok
  obtain ⟨n1, n2, n3⟩ := next_spec { st with chs := st.chs.map (Bleve.BoolSearcher.advBehind w t) } h2
  rw [h1] at n1 n2
  exact ⟨n1, n2, n3⟩

/-- **Refinement**: for every behaviour of the clause searchers outside their contract, every reachable
    state and every program of `Next` and `Advance` calls, the disjunction searcher answers exactly like
    the contract machine over the documents enough clauses still match. -/
theorem run_refines (w : Weird) : ∀ (ops : List Op) (st : St), AllOk st.chs →
    runImpl w st ops = Bleve.BoolSearcher.runSpec (abs st) ops := by
  intro ops
  induction ops with
  | nil => intro st _; rfl
  | cons op ops ih =>
    intro st hok
    cases op with
    | next =>
      obtain ⟨n1, n2, n3⟩ := next_spec st hok
      simp only [runImpl, Bleve.BoolSearcher.runSpec, Bleve.BoolSearcher.popList_eq]
      rw [n1, ih _ n3, n2]
    | adv t =>
      obtain ⟨a1, a2, a3⟩ := advance_spec w t st hok
      simp only [runImpl, Bleve.BoolSearcher.runSpec, Bleve.BoolSearcher.popList_eq]
      rw [a1, ih _ a3, a2]

theorem abs_init (clauses : List (List Nat)) (min : Nat) : abs (init clauses min) = disjDen clauses min := by
  unfold abs init
  simp only [List.map_map]
  congr 1
  have : (Ch.all ∘ fun l => (Ch.fresh l).next) = id := by
    funext l
    simp only [Function.comp, Bleve.BoolSearcher.fresh_next_all, id]
  rw [this, List.map_id]

/-- **The disjunction searcher is correct**: built over clauses whose searchers keep the contract, for
    every program of `Next` and `Advance` calls and whatever the clause searchers do outside their
    contract, it answers like the contract machine over the documents matched by at least `max 1 min`
    clauses. -/
theorem disj_searcher_correct (w : Weird) (clauses : List (List Nat)) (min : Nat)
    (h : ∀ l ∈ clauses, Asc l) (ops : List Op) :
    runImpl w (init clauses min) ops = Bleve.BoolSearcher.runSpec (disjDen clauses min) ops := by
  have hok : AllOk (init clauses min).chs := by
    intro c hc
    simp only [init] at hc
    obtain ⟨l, hl, rfl⟩ := List.mem_map.1 hc
    exact Bleve.BoolSearcher.fresh_next_ok l (h l hl)
  rw [run_refines w ops _ hok, abs_init]

example : runImpl (fun _ c => c) (init [[1, 3, 5, 8, 9], [3, 5, 9], [0, 3, 8, 9]] 2) [.next, .next, .adv 6, .next, .next]
    = [some 3, some 5, some 8, some 9, none] := by decide
example : disjDen [[1, 3], [3, 5]] 0 = [1, 3, 5] := by decide

end Bleve.DisjSearcher
