import BleveModel.Model.Highlight
/-!
Theorems about the highlighting model (property C19, second sentence), for every stored value,
every fragment size and every list of term locations, well formed or not.
-/
namespace Bleve.Highlight

/-! ### unicode/utf8 facts the fragmenter depends on -/

theorem decodeRune_size (q : List Nat) (h : q ≠ []) :
    1 ≤ (decodeRune q).2 ∧ (decodeRune q).2 ≤ q.length := by
  cases q with
  | nil => exact absurd rfl h
  | cons p0 rest =>
    simp only [decodeRune]
    repeat' split
    all_goals (simp only [List.length_cons]; omega)

/-- a validly decoded rune starts with a byte that is not a continuation byte -/
theorem decodeRune_head (q : List Nat) (sz : Nat) (h : decodeRune q = (false, sz)) :
    isCont (q.getD 0 0) = false := by
  cases q with
  | nil => simp [decodeRune] at h
  | cons p0 rest =>
    simp only [decodeRune] at h
    simp only [List.getD_cons_zero, isCont]
    repeat' split at h
    all_goals first
      | (simp at h; done)
      | (simp; omega)

/-- the bytes after the first one of a validly decoded rune are continuation bytes -/
theorem decodeRune_tail (q : List Nat) (sz : Nat) (h : decodeRune q = (false, sz)) :
    ∀ j, 1 ≤ j → j < sz → isCont (q.getD j 0) = true := by
  intro j h1 h2
  cases q with
  | nil => simp [decodeRune] at h
  | cons p0 rest =>
    simp only [decodeRune] at h
    repeat' split at h
    all_goals first
      | (simp at h; done)
      | (simp only [Prod.mk.injEq] at h
         obtain ⟨_, rfl⟩ := h
         have hj : j = 1 ∨ j = 2 ∨ j = 3 := by omega
         rcases hj with rfl | rfl | rfl <;> simp_all [isCont] <;> omega)

theorem getD_take_drop (l : List Nat) (k i j : Nat) (h : i + j < k) :
    ((l.take k).drop i).getD j 0 = l.getD (i + j) 0 := by
  simp [List.getD_eq_getElem?_getD, List.getElem?_drop, h]

theorem drop_last (p : List Nat) (h : p ≠ []) : p.drop (p.length - 1) = [p.getD (p.length - 1) 0] := by
  have hl : 0 < p.length := List.length_pos_iff.mpr h
  apply List.ext_getElem
  · simp; omega
  · intro i h1 h2
    simp at h1 h2
    have : i = 0 := by omega
    subst this
    simp [List.getD_eq_getElem?_getD]
    rw [List.getElem?_eq_getElem (by omega)]
    simp

theorem decodeLastRune_valid (p : List Nat) (a : Nat) (h : decodeLastRune p = (false, a)) :
    1 ≤ a ∧ a ≤ p.length ∧ decodeRune (p.drop (p.length - a)) = (false, a) := by
  unfold decodeLastRune at h
  simp only [] at h
  split at h
  · simp at h
  rename_i hne
  have hne' : p ≠ [] := by
    intro hc; subst hc; simp at hne
  have hl : 0 < p.length := List.length_pos_iff.mpr hne'
  split at h
  · rename_i hlt
    simp only [Prod.mk.injEq, true_and] at h
    subst h
    refine ⟨Nat.le_refl _, hl, ?_⟩
    rw [drop_last p hne']
    have hlt' : p.getD (p.length - 1) 0 < 128 := hlt
    simp only [decodeRune, hlt', if_true]
  · split at h
    · simp at h
    · rename_i hs
      simp only [bne_iff_ne, ne_eq, Decidable.not_not] at hs
      have h2 : (decodeRune (List.drop (lastStart p) p)).2 = a := by rw [h]
      have hd : List.drop (lastStart p) p ≠ [] := by
        intro hc; rw [hc] at h; simp [decodeRune] at h
      have hsz := decodeRune_size _ hd
      rw [h2] at hs hsz
      have : p.length - a = lastStart p := by omega
      rw [this]
      exact ⟨hsz.1, by omega, h⟩

theorem back_lockstep (orig : List Nat) (s e a b : Nat) (hse : s ≤ e) (hen : e ≤ orig.length)
    (ha : decodeLastRune (orig.take s) = (false, a)) (hb : decodeLastRune (orig.take e) = (false, b)) :
    a ≤ s ∧ b ≤ e ∧ s - a ≤ e - b := by
  have va := decodeLastRune_valid _ _ ha
  have vb := decodeLastRune_valid _ _ hb
  have ls : (orig.take s).length = s := by simp; omega
  have le : (orig.take e).length = e := by simp; omega
  rw [ls] at va
  rw [le] at vb
  refine ⟨va.2.1, vb.2.1, ?_⟩
  by_cases heq : s = e
  · subst heq
    rw [ha] at hb
    simp at hb
    omega
  · apply Decidable.byContradiction
    intro hc
    have hj1 : 1 ≤ (s - a) - (e - b) := by omega
    have hj2 : (s - a) - (e - b) < b := by omega
    have t := decodeRune_tail _ _ vb.2.2 _ hj1 hj2
    have hd := decodeRune_head _ _ va.2.2
    rw [getD_take_drop _ _ _ _ (by omega)] at t
    rw [getD_take_drop _ _ _ _ (by omega)] at hd
    have : e - b + (s - a - (e - b)) = s - a + 0 := by omega
    rw [this] at t
    rw [t] at hd
    exact absurd hd (by simp)
/-! ### the fragmenter stays inside the value and never panics -/

theorem fwd_bounds (orig : List Nat) : ∀ (k e e' k' : Nat), e ≤ orig.length →
    fwd orig k e = some (e', k') → e ≤ e' ∧ e' ≤ orig.length := by
  intro k
  induction k with
  | zero => intro e e' k' he h; simp [fwd] at h; omega
  | succ k ih =>
    intro e e' k' he h
    unfold fwd at h
    split at h
    · rename_i hlt
      simp only [] at h
      split at h
      · simp at h
      · have hd : orig.drop e ≠ [] := by
          intro hc
          have := congrArg List.length hc
          simp at this; omega
        have hsz := decodeRune_size _ hd
        simp only [List.length_drop] at hsz
        have := ih _ _ _ (by omega) h
        omega
    · simp at h; omega

theorem fwdStop_bounds (orig : List Nat) : ∀ (k e : Nat), e ≤ orig.length →
    e ≤ fwdStop orig k e ∧ fwdStop orig k e ≤ orig.length := by
  intro k
  induction k with
  | zero => intro e he; simp [fwdStop]; omega
  | succ k ih =>
    intro e he
    unfold fwdStop
    split
    · rename_i hlt
      simp only []
      split
      · omega
      · have hd : orig.drop e ≠ [] := by
          intro hc
          have := congrArg List.length hc
          simp at this; omega
        have hsz := decodeRune_size _ hd
        simp only [List.length_drop] at hsz
        have := ih (e + (decodeRune (List.drop e orig)).2) (by omega)
        omega
    · omega

theorem back_bounds (orig : List Nat) (mb : Nat) : ∀ (k s s' : Nat),
    back orig mb k s = .ok s' → s' ≤ s := by
  intro k
  induction k with
  | zero => intro s s' h; simp [back] at h; omega
  | succ k ih =>
    intro s s' h
    unfold back at h
    split at h
    · split at h
      · simp at h
      · simp only [] at h
        split at h
        · simp at h
        · split at h
          · have := ih _ _ h; omega
          · simp at h; omega
    · simp at h; omega

theorem back_no_panic (orig : List Nat) (mb : Nat) : ∀ (k s : Nat), back orig mb k s ≠ .panic := by
  intro k
  induction k with
  | zero => intro s; simp [back]
  | succ k ih =>
    intro s
    unfold back
    split
    · split
      · simp
      · simp only []
        split
        · simp
        · split
          · exact ih _
          · simp
    · simp

theorem minEnd_bounds (e : Nat) : ∀ (ls : List Loc) (m : Int), 0 ≤ m → m ≤ e →
    0 ≤ minEnd e ls m ∧ minEnd e ls m ≤ e := by
  intro ls
  induction ls with
  | nil => intro m h1 h2; simp [minEnd]; omega
  | cons l ls ih =>
    intro m h1 h2
    unfold minEnd
    split
    · exact ih m h1 h2
    · rename_i hg
      simp only [Bool.or_eq_true, decide_eq_true_eq, not_or, Int.not_lt] at hg
      split
      · omega
      · exact ih l.stop (by omega) (by omega)

theorem center_ok (orig : List Nat) : ∀ (k s e : Nat), s ≤ e → e ≤ orig.length →
    center orig k s e ≠ .panic ∧
    ∀ s' e', center orig k s e = .ok (s', e') → s' ≤ e' ∧ e' ≤ orig.length := by
  intro k
  induction k with
  | zero =>
    intro s e h1 h2
    simp [center]; omega
  | succ k ih =>
    intro s e h1 h2
    unfold center
    split
    · omega
    · simp only []
      split
      · simp
      · split
        · omega
        · split
          · simp
          · rename_i hr1 _ hr2
            have ha : decodeLastRune (orig.take s) = (false, (decodeLastRune (orig.take s)).2) :=
              Prod.ext (Bool.eq_false_iff.mpr hr1) rfl
            have hb : decodeLastRune (orig.take e) = (false, (decodeLastRune (orig.take e)).2) :=
              Prod.ext (Bool.eq_false_iff.mpr hr2) rfl
            have := back_lockstep orig s e _ _ h1 h2 ha hb
            exact ih _ _ this.2.2 (by omega)

theorem slice_some (orig : List Nat) (a b : Int) (h1 : 0 ≤ a) (h2 : a ≤ b) (h3 : b ≤ orig.length) :
    ∃ bs, slice orig a b = some bs := by
  unfold slice
  rw [if_pos ⟨h1, h2, h3⟩]
  exact ⟨_, rfl⟩

theorem fragOne_ok (orig : List Nat) (size mb : Nat) (tl : Loc) (rest : List Loc)
    (hg : 0 ≤ tl.start ∧ tl.start ≤ tl.stop ∧ tl.stop ≤ orig.length) :
    fragOne orig size mb tl rest ≠ .panic ∧
    ∀ f, fragOne orig size mb tl rest = .ok f → f.start ≤ f.stop ∧ f.stop ≤ orig.length := by
  have hts : tl.start.toNat ≤ orig.length := by omega
  unfold fragOne
  split
  · simp
  · rename_i e k hf
    have hfb := fwd_bounds orig _ _ _ _ hts hf
    split
    · simp
    · exact absurd ‹_› (back_no_panic _ _ _ _)
    · rename_i s hb
      have hbb := back_bounds orig mb _ _ _ hb
      have hm := minEnd_bounds e (tl :: rest) (e : Int) (by omega) (by omega)
      simp only []
      obtain ⟨bs, hbs⟩ := slice_some orig (minEnd e (tl :: rest) e) e hm.1 hm.2 (by omega)
      rw [hbs]
      simp only []
      by_cases hmb : mb ≤ s
      · obtain ⟨cs, hcs⟩ := slice_some orig mb s (by omega) (by omega) (by omega)
        rw [if_pos hmb, hcs]
        simp only [Option.map_some]
        have hc := center_ok orig ((if runeCount cs < runeCount bs then runeCount cs else runeCount bs) / 2) s e (by omega) hfb.2
        split
        · simp
        · exact absurd ‹_› hc.1
        · rename_i s' e' hce
          refine ⟨by simp, ?_⟩
          intro f hfe
          simp only [Res.ok.injEq] at hfe
          subst hfe
          exact hc.2 _ _ hce
      · rw [if_neg hmb]
        simp only []
        have hc := center_ok orig ((if 0 < runeCount bs then 0 else runeCount bs) / 2) s e (by omega) hfb.2
        split
        · simp
        · exact absurd ‹_› hc.1
        · rename_i s' e' hce
          refine ⟨by simp, ?_⟩
          intro f hfe
          simp only [Res.ok.injEq] at hfe
          subst hfe
          exact hc.2 _ _ hce

theorem fragLoop_ok (orig : List Nat) (size : Nat) : ∀ (ot : List Loc) (mb : Nat),
    ∃ fs, fragLoop orig size ot mb = .ok fs ∧ ∀ f ∈ fs, f.start ≤ f.stop ∧ f.stop ≤ orig.length := by
  intro ot
  induction ot with
  | nil => intro mb; exact ⟨[], by simp [fragLoop]⟩
  | cons tl rest ih =>
    intro mb
    unfold fragLoop
    split
    · exact ih mb
    · rename_i hg
      simp only [Bool.or_eq_true, decide_eq_true_eq, not_or, Int.not_lt] at hg
      have h1 := fragOne_ok orig size mb tl rest ⟨by omega, by omega, by omega⟩
      split
      · exact absurd ‹_› h1.1
      · exact ih mb
      · rename_i f hf
        obtain ⟨fs, hfs, hb⟩ := ih tl.stop.toNat
        rw [hfs]
        refine ⟨f :: fs, rfl, ?_⟩
        intro g hgm
        rcases List.mem_cons.mp hgm with rfl | hgm
        · exact h1.2 _ hf
        · exact hb g hgm

/-- **The simple fragmenter never panics and every fragment lies inside the stored value**, for every
byte string, every fragment size and every list of term locations (negative, backwards, beyond the
value, unsorted, overlapping ...). -/
theorem fragment_ok (orig : List Nat) (size : Int) (ot : List Loc) :
    ∃ fs, fragment orig size ot = .ok fs ∧ ∀ f ∈ fs, f.start ≤ f.stop ∧ f.stop ≤ orig.length := by
  unfold fragment
  split
  · refine ⟨_, rfl, ?_⟩
    intro f hf
    simp only [List.mem_singleton] at hf
    subst hf
    have := fwdStop_bounds orig size.toNat 0 (by omega)
    simp only []
    omega
  · exact fragLoop_ok orig size.toNat ot 0

/-! ### formatters: the pieces tile the fragment, marked pieces are term locations -/

/-- consecutive pieces from `a` to `b`, none of them backwards -/
def Tiles : List Piece → Int → Int → Prop
  | [], a, b => a = b
  | p :: ps, a, b => p.start = a ∧ p.start ≤ p.stop ∧ Tiles ps p.stop b

theorem formatGo_tiles (fstop : Int) (fap : Nat) : ∀ (ls : List (Option Loc)) (curr : Int),
    curr ≤ fstop → Tiles (formatGo fstop fap ls curr) curr fstop := by
  intro ls
  induction ls with
  | nil => intro curr h; simp [formatGo, Tiles, h]
  | cons o ls ih =>
    intro curr h
    cases o with
    | none => simpa [formatGo] using ih curr h
    | some tl =>
      unfold formatGo
      split
      · exact ih curr h
      · split
        · exact ih curr h
        · rename_i hg
          simp only [Bool.or_eq_true, decide_eq_true_eq, not_or, Int.not_lt] at hg
          split
          · simp [Tiles, h]
          · rename_i hs
            have := ih tl.stop (by omega)
            simp only [Tiles]
            exact ⟨trivial, hg.1, trivial, hg.2, this⟩

theorem formatGo_marks (fstop : Int) (fap : Nat) : ∀ (ls : List (Option Loc)) (curr : Int) (p : Piece),
    p ∈ formatGo fstop fap ls curr → p.marked = true →
    ∃ tl, some tl ∈ ls ∧ tl.ap = fap ∧ tl.start = p.start ∧ tl.stop = p.stop ∧ curr ≤ tl.start ∧ tl.stop ≤ fstop := by
  intro ls
  induction ls with
  | nil => intro curr p hp hm; simp [formatGo] at hp; subst hp; simp at hm
  | cons o ls ih =>
    intro curr p hp hm
    cases o with
    | none =>
      simp only [formatGo] at hp
      obtain ⟨tl, h1, h2⟩ := ih curr p hp hm
      exact ⟨tl, List.mem_cons_of_mem _ h1, h2⟩
    | some tl =>
      unfold formatGo at hp
      split at hp
      · obtain ⟨t, h1, h2⟩ := ih curr p hp hm
        exact ⟨t, List.mem_cons_of_mem _ h1, h2⟩
      · rename_i hap
        split at hp
        · obtain ⟨t, h1, h2⟩ := ih curr p hp hm
          exact ⟨t, List.mem_cons_of_mem _ h1, h2⟩
        · rename_i hg
          simp only [Bool.or_eq_true, decide_eq_true_eq, not_or, Int.not_lt] at hg
          split at hp
          · simp at hp; subst hp; simp at hm
          · rename_i hs
            simp only [List.mem_cons] at hp
            rcases hp with rfl | rfl | hp
            · simp at hm
            · refine ⟨tl, List.mem_cons_self, ?_, rfl, rfl, hg.1, by omega⟩
              simpa using hap
            · obtain ⟨t, h1, h2, h3, h4, h5, h6⟩ := ih tl.stop p hp hm
              exact ⟨t, List.mem_cons_of_mem _ h1, h2, h3, h4, by omega, h6⟩

theorem slice_append (orig : List Nat) (a m b : Int) (h0 : 0 ≤ a) (h1 : a ≤ m) (h2 : m ≤ b)
    (h3 : b ≤ orig.length) :
    ∃ x y, slice orig a m = some x ∧ slice orig m b = some y ∧ slice orig a b = some (x ++ y) := by
  unfold slice
  rw [if_pos ⟨h0, h1, by omega⟩, if_pos ⟨by omega, h2, h3⟩, if_pos ⟨h0, by omega, h3⟩]
  refine ⟨_, _, rfl, rfl, ?_⟩
  congr 1
  have e1 : m.toNat = a.toNat + (m.toNat - a.toNat) := by omega
  have e2 : b.toNat - a.toNat = (m.toNat - a.toNat) + (b.toNat - m.toNat) := by omega
  rw [e2, List.take_add]
  congr 2
  rw [List.drop_drop]
  congr 1
  omega

theorem slice_empty (orig : List Nat) (a : Int) (h0 : 0 ≤ a) (h3 : a ≤ orig.length) :
    slice orig a a = some [] := by
  unfold slice
  rw [if_pos ⟨h0, Int.le_refl _, h3⟩]
  simp

/-- tiling pieces read, with the markup left out, exactly the bytes of the tiled range -/
theorem tiles_plain (orig : List Nat) : ∀ (ps : List Piece) (a b : Int), 0 ≤ a → b ≤ orig.length →
    Tiles ps a b → a ≤ b ∧ plainOf orig ps = slice orig a b := by
  intro ps
  induction ps with
  | nil =>
    intro a b h0 h3 ht
    simp only [Tiles] at ht
    subst ht
    simp [plainOf, slice_empty orig a h0 h3]
  | cons p ps ih =>
    intro a b h0 h3 ht
    simp only [Tiles] at ht
    obtain ⟨rfl, hle, ht⟩ := ht
    have := ih p.stop b (by omega) h3 ht
    obtain ⟨x, y, hx, hy, hxy⟩ := slice_append orig p.start p.stop b h0 hle this.1 h3
    refine ⟨by omega, ?_⟩
    simp only [plainOf, this.2, hx, hy, hxy]

/-- tiling pieces never make `Format` slice out of range -/
theorem tiles_render (orig : List Nat) (esc : Bool) (before after : List Nat) :
    ∀ (ps : List Piece) (a b : Int), 0 ≤ a → b ≤ orig.length → Tiles ps a b →
    ∃ out, render orig esc before after ps = some out := by
  intro ps
  induction ps with
  | nil => intro a b _ _ _; exact ⟨[], rfl⟩
  | cons p ps ih =>
    intro a b h0 h3 ht
    simp only [Tiles] at ht
    obtain ⟨rfl, hle, ht⟩ := ht
    obtain ⟨out, ho⟩ := ih p.stop b (by omega) h3 ht
    have hb := (tiles_plain orig ps p.stop b (by omega) h3 ht).1
    obtain ⟨bs, hbs⟩ := slice_some orig p.start p.stop h0 hle (by omega)
    simp only [render, hbs, ho]
    exact ⟨_, rfl⟩

/-- **Formatting a fragment that lies inside the value never panics; with the markup removed the
result is exactly the fragment's bytes; every marked span is a term location handed to Format**
(same array position, inside the fragment) — for any list of term locations, nil entries and
malformed ones included. -/
theorem format_correct (orig : List Nat) (f : Frag) (fap : Nat) (ls : List (Option Loc))
    (esc : Bool) (before after : List Nat) (hf : f.start ≤ f.stop ∧ f.stop ≤ orig.length) :
    (∃ out, render orig esc before after (format f fap ls) = some out) ∧
    plainOf orig (format f fap ls) = slice orig f.start f.stop ∧
    ∀ p ∈ format f fap ls, p.marked = true →
      ∃ tl, some tl ∈ ls ∧ tl.ap = fap ∧ tl.start = p.start ∧ tl.stop = p.stop ∧
        (f.start : Int) ≤ p.start ∧ p.stop ≤ f.stop := by
  have ht := formatGo_tiles (f.stop : Int) fap ls (f.start : Int) (by omega)
  refine ⟨tiles_render orig esc before after _ _ _ (by omega) (by omega) ht,
    (tiles_plain orig _ _ _ (by omega) (by omega) ht).2, ?_⟩
  intro p hp hm
  obtain ⟨tl, h1, h2, h3, h4, h5, h6⟩ := formatGo_marks _ _ _ _ p hp hm
  exact ⟨tl, h1, h2, h3, h4, by omega, by omega⟩

/-! ### merging overlapping term locations -/

/-- every byte offset of `[a, b)` lies in a location of `ls` with array position `ap` -/
def Covered (ls : List Loc) (ap : Nat) (a b : Int) : Prop :=
  ∀ x, a ≤ x → x < b → ∃ t ∈ ls, t.ap = ap ∧ t.start ≤ x ∧ x < t.stop

theorem mergeTail_spec : ∀ (ts : List Loc) (l0 : Loc),
    (mergeTail l0 ts).1.start = l0.start ∧ (mergeTail l0 ts).1.ap = l0.ap ∧
    l0.stop ≤ (mergeTail l0 ts).1.stop ∧
    ((mergeTail l0 ts).1.stop = l0.stop ∨ ∃ t ∈ ts, t.stop = (mergeTail l0 ts).1.stop) ∧
    (∀ x, l0.start ≤ x → x < (mergeTail l0 ts).1.stop →
        (x < l0.stop ∨ ∃ t ∈ ts, t.ap = l0.ap ∧ t.start ≤ x ∧ x < t.stop ∧ t.stop ≤ (mergeTail l0 ts).1.stop)) ∧
    (∀ t, some t ∈ (mergeTail l0 ts).2 → t ∈ ts) ∧
    (mergeTail l0 ts).2.length = ts.length ∧
    (∀ (i : Nat) (t : Loc), ts[i]? = some t → (mergeTail l0 ts).2[i]? = some none →
        t.ap = l0.ap ∧ t.stop ≤ (mergeTail l0 ts).1.stop) := by
  intro ts
  induction ts with
  | nil => intro l0; simp [mergeTail]
  | cons tl ts ih =>
    intro l0
    unfold mergeTail
    split
    · rename_i hov
      simp only []
      obtain ⟨S, hSdef, hS1, hS2, hS3⟩ : ∃ S, S = (if tl.stop > l0.stop then tl.stop else l0.stop) ∧
          l0.stop ≤ S ∧ tl.stop ≤ S ∧ (S = l0.stop ∨ S = tl.stop) :=
        ⟨_, rfl, by split <;> omega, by split <;> omega, by split <;> simp⟩
      rw [← hSdef]
      clear hSdef
      have h := ih { l0 with stop := S }
      simp only [] at h
      obtain ⟨h1, h2, h3, h4, h5, h6, h7, h8⟩ := h
      simp only [overlaps, Bool.and_eq_true, beq_iff_eq, Bool.or_eq_true, decide_eq_true_eq] at hov
      refine ⟨h1, h2, by omega, ?_, ?_, ?_, ?_, ?_⟩
      · rcases h4 with h4 | ⟨t, ht, hs⟩
        · rcases hS3 with hS3 | hS3
          · exact Or.inl (by omega)
          · exact Or.inr ⟨tl, List.mem_cons_self, by omega⟩
        · exact Or.inr ⟨t, List.mem_cons_of_mem _ ht, hs⟩
      · intro x hx1 hx2
        rcases h5 x hx1 hx2 with hlt | ⟨t, ht, hap, hs⟩
        · by_cases hx : x < l0.stop
          · exact Or.inl hx
          · refine Or.inr ⟨tl, List.mem_cons_self, hov.1.symm, ?_, ?_, ?_⟩
            · rcases hov.2 with ⟨ha, hb⟩ | ⟨ha, hb⟩ <;> omega
            · rcases hS3 with hS3 | hS3 <;> omega
            · omega
        · exact Or.inr ⟨t, List.mem_cons_of_mem _ ht, hap, hs⟩
      · intro t ht
        simp only [List.mem_cons] at ht
        rcases ht with ht | ht
        · simp at ht
        · exact List.mem_cons_of_mem _ (h6 t ht)
      · simp [h7]
      · intro i t hi hn
        cases i with
        | zero =>
          simp only [List.getElem?_cons_zero, Option.some.injEq] at hi
          subst hi
          exact ⟨hov.1.symm, by omega⟩
        | succ i =>
          simp only [List.getElem?_cons_succ] at hi hn
          exact h8 i t hi hn
    · simp only []
      obtain ⟨h1, h2, h3, h4, h5, h6, h7, h8⟩ := ih l0
      refine ⟨h1, h2, h3, ?_, ?_, ?_, ?_, ?_⟩
      · rcases h4 with h4 | ⟨t, ht, hs⟩
        · exact Or.inl h4
        · exact Or.inr ⟨t, List.mem_cons_of_mem _ ht, hs⟩
      · intro x hx1 hx2
        rcases h5 x hx1 hx2 with hlt | ⟨t, ht, hs⟩
        · exact Or.inl hlt
        · exact Or.inr ⟨t, List.mem_cons_of_mem _ ht, hs⟩
      · intro t ht
        simp only [List.mem_cons, Option.some.injEq] at ht
        rcases ht with rfl | ht
        · exact List.mem_cons_self
        · exact List.mem_cons_of_mem _ (h6 t ht)
      · simp [h7]
      · intro i t hi hn
        cases i with
        | zero => simp at hn
        | succ i =>
          simp only [List.getElem?_cons_succ] at hi hn
          exact h8 i t hi hn

/-- **What `MergeOverlapping` leaves in the list**: every remaining entry starts where an original
location starts, ends where an original location ends, and every byte of it lies in an original
location of the same array position — a merged span is a union of overlapping matched locations,
never a piece no location accounts for. -/
theorem merge_entries (ls : List Loc) (m : Loc) (hm : some m ∈ mergeOverlapping ls) :
    (∃ t ∈ ls, t.start = m.start ∧ t.ap = m.ap) ∧ (∃ t ∈ ls, t.stop = m.stop) ∧
    Covered ls m.ap m.start m.stop := by
  cases ls with
  | nil => simp [mergeOverlapping] at hm
  | cons l0 ts =>
    obtain ⟨h1, h2, h3, h4, h5, h6, _, _⟩ := mergeTail_spec ts l0
    simp only [mergeOverlapping, List.mem_cons, Option.some.injEq] at hm
    rcases hm with rfl | hm
    · refine ⟨⟨l0, List.mem_cons_self, h1.symm, h2.symm⟩, ?_, ?_⟩
      · rcases h4 with h4 | ⟨t, ht, hs⟩
        · exact ⟨l0, List.mem_cons_self, h4.symm⟩
        · exact ⟨t, List.mem_cons_of_mem _ ht, hs⟩
      · intro x hx1 hx2
        rw [h1] at hx1
        rcases h5 x hx1 hx2 with hlt | ⟨t, ht, hap, hs1, hs2, _⟩
        · exact ⟨l0, List.mem_cons_self, h2.symm, hx1, hlt⟩
        · exact ⟨t, List.mem_cons_of_mem _ ht, by rw [hap, h2], hs1, hs2⟩
    · have hmem := h6 m hm
      refine ⟨⟨m, List.mem_cons_of_mem _ hmem, rfl, rfl⟩, ⟨m, List.mem_cons_of_mem _ hmem, rfl⟩, ?_⟩
      intro x hx1 hx2
      exact ⟨m, List.mem_cons_of_mem _ hmem, rfl, hx1, hx2⟩

/-- **With locations ordered by start** (what `OrderTermLocations` hands over), a merged span is a
union of whole locations: every byte of it lies in an original location that lies inside the span.
This is the form the end-to-end predicate `fragmentOK` asks of every marked span. -/
theorem merge_span_union (l0 : Loc) (ts : List Loc) (hs : ∀ t ∈ ts, l0.start ≤ t.start) (x : Int)
    (h1 : l0.start ≤ x) (h2 : x < (mergeTail l0 ts).1.stop) :
    ∃ t ∈ l0 :: ts, t.ap = l0.ap ∧ t.start ≤ x ∧ x < t.stop ∧
      (mergeTail l0 ts).1.start ≤ t.start ∧ t.stop ≤ (mergeTail l0 ts).1.stop := by
  obtain ⟨e1, _, e3, _, e5, _, _, _⟩ := mergeTail_spec ts l0
  rcases e5 x h1 h2 with hlt | ⟨t, ht, hap, ha, hb, hc⟩
  · exact ⟨l0, List.mem_cons_self, rfl, h1, hlt, by omega, e3⟩
  · exact ⟨t, List.mem_cons_of_mem _ ht, hap, ha, hb, by have := hs t ht; omega, hc⟩

/-- **Merging never shortens**: a location that was merged away (its slot holds nil) lies, end
included, inside what the first entry has become (the defect repaired by 64c2772). -/
theorem merge_never_shortens (l0 : Loc) (ts : List Loc) (i : Nat) (t : Loc)
    (hi : ts[i]? = some t) (hn : (mergeOverlapping (l0 :: ts))[i + 1]? = some none) :
    ∃ m, (mergeOverlapping (l0 :: ts))[0]? = some (some m) ∧ m.start = l0.start ∧
      l0.stop ≤ m.stop ∧ t.stop ≤ m.stop ∧ t.ap = m.ap := by
  obtain ⟨h1, h2, h3, _, _, _, _, h8⟩ := mergeTail_spec ts l0
  simp only [mergeOverlapping, List.getElem?_cons_succ] at hn
  have := h8 i t hi hn
  exact ⟨(mergeTail l0 ts).1, by simp [mergeOverlapping], h1, h3, this.2, by rw [this.1, h2]⟩

/-! ### html escaping can be undone -/

def unescape : List Nat → List Nat
  | 38 :: 97 :: 109 :: 112 :: 59 :: r => 38 :: unescape r
  | 38 :: 35 :: 51 :: 57 :: 59 :: r => 39 :: unescape r
  | 38 :: 108 :: 116 :: 59 :: r => 60 :: unescape r
  | 38 :: 103 :: 116 :: 59 :: r => 62 :: unescape r
  | 38 :: 35 :: 51 :: 52 :: 59 :: r => 34 :: unescape r
  | b :: r => b :: unescape r
  | [] => []

theorem unescape_other (b : Nat) (r : List Nat) (h : b ≠ 38) : unescape (b :: r) = b :: unescape r := by
  rw [unescape.eq_def]
  split <;> simp_all

theorem unescape_escapeByte (b : Nat) (rest : List Nat) :
    unescape (escapeByte b ++ rest) = b :: unescape rest := by
  unfold escapeByte
  split
  · rename_i h; simp only [beq_iff_eq] at h; subst h; simp [unescape]
  split
  · rename_i h; simp only [beq_iff_eq] at h; subst h; simp [unescape]
  split
  · rename_i h; simp only [beq_iff_eq] at h; subst h; simp [unescape]
  split
  · rename_i h; simp only [beq_iff_eq] at h; subst h; simp [unescape]
  split
  · rename_i h; simp only [beq_iff_eq] at h; subst h; simp [unescape]
  · rename_i h1 _ _ _ _
    simp only [beq_iff_eq] at h1
    simp only [List.singleton_append]
    exact unescape_other b _ h1

/-- `html.EscapeString` loses nothing: the escaped text determines the bytes -/
theorem unescape_escape (bs : List Nat) : unescape (escape bs) = bs := by
  induction bs with
  | nil => simp [escape, unescape]
  | cons b bs ih =>
    simp only [escape, List.flatMap_cons] at ih ⊢
    rw [unescape_escapeByte, ih]

theorem escape_injective (a b : List Nat) (h : escape a = escape b) : a = b := by
  rw [← unescape_escape a, ← unescape_escape b, h]

/-! ### the pipeline of `BestFragmentsInField`: fragment, merge, format -/

/-- **Every marked span of a formatted fragment is text at matched term locations**: it starts where
a location starts, ends where a location ends, lies inside the fragment, and every byte of it
belongs to a location of the fragment's array position — for any value, fragment size, locations. -/
theorem highlight_marks (orig : List Nat) (ls : List Loc) (f : Frag) (fap : Nat)
    (hf : f.start ≤ f.stop ∧ f.stop ≤ orig.length) (p : Piece)
    (hp : p ∈ format f fap (mergeOverlapping ls)) (hm : p.marked = true) :
    (∃ t ∈ ls, t.start = p.start ∧ t.ap = fap) ∧ (∃ t ∈ ls, t.stop = p.stop) ∧
    Covered ls fap p.start p.stop ∧ (f.start : Int) ≤ p.start ∧ p.start ≤ p.stop ∧ p.stop ≤ f.stop := by
  obtain ⟨_, _, h3⟩ := format_correct orig f fap (mergeOverlapping ls) false [] [] hf
  obtain ⟨tl, h1, h2, hs, he, hb1, hb2⟩ := h3 p hp hm
  obtain ⟨⟨t, ht, hts, hta⟩, ⟨u, hu, hus⟩, hc⟩ := merge_entries ls tl h1
  refine ⟨⟨t, ht, by omega, by rw [hta, h2]⟩, ⟨u, hu, by omega⟩, ?_, hb1, ?_, hb2⟩
  · rw [← h2, ← hs, ← he]; exact hc
  · have ht := formatGo_tiles (f.stop : Int) fap (mergeOverlapping ls) (f.start : Int) (by omega)
    -- a marked piece is never backwards: it is one of the tiles
    have : ∀ (ps : List Piece) (a b : Int), Tiles ps a b → ∀ q ∈ ps, q.start ≤ q.stop := by
      intro ps
      induction ps with
      | nil => intro a b _ q hq; simp at hq
      | cons r rs ih =>
        intro a b hT q hq
        simp only [Tiles] at hT
        rcases List.mem_cons.mp hq with rfl | hq
        · exact hT.2.1
        · exact ih _ _ hT.2.2 q hq
    exact this _ _ _ ht p hp

/-- the whole pipeline on one value never panics: fragments lie inside the value and each of them
formats, through any of the three formatters, to its own bytes plus markup -/
theorem highlight_no_panic (orig : List Nat) (size : Int) (ls : List Loc) (fap : Nat) (esc : Bool)
    (before after : List Nat) :
    ∃ fs, fragment orig size ls = .ok fs ∧ ∀ f ∈ fs,
      (∃ out, render orig esc before after (format f fap (mergeOverlapping ls)) = some out) ∧
      plainOf orig (format f fap (mergeOverlapping ls)) = slice orig f.start f.stop := by
  obtain ⟨fs, h1, h2⟩ := fragment_ok orig size ls
  refine ⟨fs, h1, ?_⟩
  intro f hf
  obtain ⟨a, b, _⟩ := format_correct orig f fap (mergeOverlapping ls) esc before after (h2 f hf)
  exact ⟨a, b⟩

/-! non-vacuity: "we play basketballs daily", locations of "basketballs" (8-19) and of the compound
part "ball" (14-18): one fragment, the merged location is the longer one, the mark is the whole word -/
example : fragment (List.replicate 25 97) 200 [⟨8, 19, 0⟩, ⟨14, 18, 0⟩] = .ok [⟨0, 25⟩, ⟨14, 25⟩] := by decide
example : mergeOverlapping [⟨8, 19, 0⟩, ⟨14, 18, 0⟩] = [some ⟨8, 19, 0⟩, none] := by decide
example : format ⟨0, 25⟩ 0 [some ⟨8, 19, 0⟩, none] = [⟨false, 0, 8⟩, ⟨true, 8, 19⟩, ⟨false, 19, 25⟩] := by decide
/-- malformed locations are skipped, not sliced -/
example : format ⟨0, 10⟩ 0 [some ⟨7, 3, 0⟩, some ⟨-2, 4, 0⟩, none, some ⟨4, 6, 1⟩] = [⟨false, 0, 10⟩] := by decide
example : fragment [104, 101, 108, 108, 111] 5 [⟨0, 1, 0⟩, ⟨5, -3, 0⟩] = .ok [⟨0, 5⟩] := by decide
example : unescape (escape [60, 38, 97, 109, 112, 59, 34]) = [60, 38, 97, 109, 112, 59, 34] := by decide

end Bleve.Highlight
