import BleveModel.Model.Files
import BleveModel.Props.C03
set_option linter.unusedVariables false
set_option linter.unusedSimpArgs false
/-!
# C12 — Needed segment files are never removed; unneeded files do not accumulate

"At every moment each segment file named by a snapshot recorded in the index's metadata store, used
by the current state, held by an open reader, or scheduled for an online copy exists on disk, so that
reopening at that moment never fails or silently falls back to older data. Once writing stops and
background work has settled, the directory holds only the metadata store and the segment files of the
retained rollback snapshots, and after Close no file of the index remains open."

Model: `Model/Files.lean` over `Model/Durable.lean`.  Theorems, for every trace of steps whose side
conditions hold: every needed file (named by a committed snapshot or used by an open reader) exists
(`needed_present`), so Open at that moment loads the newest snapshot (C03 `recover_newest`); the
purger's fixpoint keeps exactly the needed files (`purgeAll_exact`) and is itself a legal sequence of
removals (`purgeAll_inv`).
Tie (`./check C12`): the durable events of the real persister, merger and purger and the readers the
harness opens and closes are replayed through `stepOK` in Lean; every reader's files are stat-ed when
it is opened and while it is held; at quiescence the directory listing is compared with the files the
model's root.bolt names; after Close the process holds no descriptor inside the index directory.
-/
namespace Bleve.Files
open Bleve.Durable

def Inv (s : F) : Prop :=
  Durable.Inv s.d ∧ ∀ p ∈ s.held, ∀ f ∈ p.2, f ∈ s.d.present

theorem heldFile_iff (s : F) (f : Name) : heldFile s f = true ↔ ∃ p ∈ s.held, f ∈ p.2 := by
  unfold heldFile
  simp [List.any_eq_true, List.contains_iff_mem]

/-- **Needed files exist** in every state satisfying the invariant. -/
theorem needed_present (s : F) (hi : Inv s) (f : Name) (hn : needed s f = true) : f ∈ s.d.present := by
  unfold needed at hn
  rcases Bool.or_eq_true_iff.1 hn with h | h
  · obtain ⟨r, hr, hf⟩ := (named_iff s.d f).1 h
    exact hi.1.1 r hr f hf
  · obtain ⟨p, hp, hf⟩ := (heldFile_iff s f).1 h
    exact hi.2 p hp f hf

/-- the durable part of a step never loses a file unless the step is a removal -/
theorem present_mono (d : D) (ev : Durable.Ev) (hne : ∀ f, ev ≠ .zapRemove f) :
    ∀ g ∈ d.present, g ∈ (Durable.step d ev).present := by
  intro g hg
  cases ev with
  | writeFile f => exact List.mem_cons_of_mem _ hg
  | commit e fs => simp only [Durable.step]; split <;> exact hg
  | ack e => exact hg
  | boltRemove e => exact hg
  | zapRemove f => exact absurd rfl (hne f)

/-- **Every step preserves the invariant.** -/
theorem step_inv (s : F) (ev : Ev) (hi : Inv s) (hok : stepOK s ev = true) : Inv (step s ev) := by
  obtain ⟨hd, hh⟩ := hi
  cases ev with
  | hold h fs =>
    simp only [stepOK, List.all_eq_true, List.contains_iff_mem] at hok
    refine ⟨hd, ?_⟩
    intro p hp f hf
    simp only [step] at hp
    rcases List.mem_cons.1 hp with rfl | hp'
    · exact hok f hf
    · exact hh p hp' f hf
  | release h =>
    refine ⟨hd, ?_⟩
    intro p hp f hf
    simp only [step] at hp
    exact hh p (List.mem_filter.1 hp).1 f hf
  | dur dev =>
    cases dev with
    | zapRemove f =>
      simp only [stepOK, Bool.not_eq_true', needed, Bool.or_eq_false_iff] at hok
      obtain ⟨hnn, hnh⟩ := hok
      refine ⟨Durable.step_inv s.d (.zapRemove f) hd (by simp [Durable.stepOK, hnn]), ?_⟩
      intro p hp g hg
      simp only [step, Durable.step]
      rw [List.mem_filter]
      refine ⟨hh p hp g hg, ?_⟩
      have hne : g ≠ f := by
        intro heq; subst heq
        have : heldFile s g = true := (heldFile_iff s g).2 ⟨p, hp, hg⟩
        rw [this] at hnh; cases hnh
      simpa [bne_iff_ne] using hne
    | writeFile f =>
      refine ⟨Durable.step_inv s.d _ hd hok, ?_⟩
      intro p hp g hg
      exact present_mono s.d _ (by intro f h; cases h) g (hh p hp g hg)
    | commit e fs =>
      refine ⟨Durable.step_inv s.d _ hd hok, ?_⟩
      intro p hp g hg
      exact present_mono s.d _ (by intro f h; cases h) g (hh p hp g hg)
    | ack e =>
      refine ⟨Durable.step_inv s.d _ hd hok, ?_⟩
      intro p hp g hg
      exact present_mono s.d _ (by intro f h; cases h) g (hh p hp g hg)
    | boltRemove e =>
      refine ⟨Durable.step_inv s.d _ hd hok, ?_⟩
      intro p hp g hg
      exact present_mono s.d _ (by intro f h; cases h) g (hh p hp g hg)

theorem run_inv : ∀ (evs : List Ev) (s s' : F), Inv s → run s evs = some s' → Inv s' := by
  intro evs
  induction evs with
  | nil => intro s s' hi h; simp only [run, Option.some.injEq] at h; subst h; exact hi
  | cons ev evs ih =>
    intro s s' hi h
    simp only [run] at h
    split at h
    · rename_i hok
      exact ih _ _ (step_inv s ev hi hok) h
    · cases h

/-- **At every moment**: after any legal trace every needed file exists and Open would load the newest
    committed snapshot. -/
theorem always_openable (evs : List Ev) (s0 s : F) (hi : Inv s0) (hrun : run s0 evs = some s) :
    (∀ f, needed s f = true → f ∈ s.d.present) ∧ recover s.d = s.d.bolt.head? := by
  have h := run_inv evs s0 s hi hrun
  exact ⟨needed_present s h, recover_newest s.d h.1⟩

/-- `needed` does not depend on which files are present -/
theorem needed_purgeAll (s : F) (f : Name) : needed (purgeAll s) f = needed s f := rfl

/-- **Quiescence**: the purger's fixpoint keeps exactly the needed files. -/
theorem purgeAll_exact (s : F) (hi : Inv s) (f : Name) :
    f ∈ (purgeAll s).d.present ↔ needed s f = true := by
  simp only [purgeAll]
  rw [List.mem_filter]
  constructor
  · intro h; exact h.2
  · intro h; exact ⟨needed_present s hi f h, h⟩

/-- ... and removes nothing that is needed (the invariant survives) -/
theorem purgeAll_inv (s : F) (hi : Inv s) : Inv (purgeAll s) := by
  obtain ⟨⟨h1, h2, h3⟩, hh⟩ := hi
  refine ⟨⟨?_, h2, h3⟩, ?_⟩
  · intro r hr g hg
    simp only [purgeAll]
    rw [List.mem_filter]
    refine ⟨h1 r hr g hg, ?_⟩
    unfold needed
    have : named s.d g = true := (named_iff s.d g).2 ⟨r, hr, hg⟩
    simp [this]
  · intro p hp g hg
    simp only [purgeAll]
    rw [List.mem_filter]
    refine ⟨hh p hp g hg, ?_⟩
    unfold needed
    have : heldFile s g = true := (heldFile_iff s g).2 ⟨p, hp, hg⟩
    simp [this]

theorem inv_init : Inv {} := ⟨Durable.inv_init, by intro p hp; simp at hp⟩

/-! ## non-vacuity, and what the side conditions exclude -/

/-- removing a file an open reader uses is rejected, and would break the invariant -/
example : stepOK { d := { present := ["1.zap"] }, held := [(7, ["1.zap"])] } (.dur (.zapRemove "1.zap")) = false := by decide
/-- once the reader is closed and no snapshot names the file, the removal is legal -/
example : (run { d := { present := ["1.zap"] }, held := [(7, ["1.zap"])] }
    [.release 7, .dur (.zapRemove "1.zap")]).map (fun s => s.d.present) = some [] := by decide
example : (purgeAll { d := { bolt := [⟨3, ["3.zap"]⟩], present := ["1.zap", "2.zap", "3.zap"] }, held := [(1, ["2.zap"])] }).d.present
    = ["2.zap", "3.zap"] := by decide

end Bleve.Files
