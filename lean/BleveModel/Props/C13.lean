import BleveModel.Model.Retention
set_option linter.unusedSimpArgs false
set_option linter.unusedVariables false
/-!
# C13 — Rollback restores exactly the state persisted at the chosen rollback point

"Every rollback point listed for an index corresponds to a state the index really had, identified by
the internal values stored with it, and the list always includes the most recent persisted state and
honours the configured number of snapshots to keep. After Rollback to a point and reopening,
documents, counts, search results and internal values equal that state, later batches are gone
completely, and the index accepts new writes."

Model: `Model/Retention.lean` (the persisted epoch list of root.bolt with what each epoch recorded,
`RollbackPoints`, `Rollback`, what Open loads, and the retention arithmetic).  Tie: `./check C13`
compares the retention functions with the Go code through a `verif` export and, end to end, rolls a
copy of a real index back to every offered point, reopens it and compares all observables with the
replay of the batches up to that point's sequence number, then writes to it.
That each persisted epoch records the index content of its moment is the durable-state invariant of
C03; here it is the content `γ` attached to the epoch.
-/
namespace Bleve.Retention

variable {γ : Type}

/-- epochs in root.bolt are listed newest first, strictly descending -/
def Desc (b : Bolt γ) : Prop := (epochs b).Pairwise (· > ·)

theorem rollback_some (b : Bolt γ) (t : Nat) (h : t ∈ epochs b) :
    rollback b t = some (b.dropWhile (fun p => p.1 != t)) := by
  unfold rollback
  have : (epochs b).contains t = true := List.contains_iff_mem.2 h
  rw [if_pos this]

theorem dropWhile_head (b : Bolt γ) (t : Nat) (h : t ∈ epochs b) :
    ∃ c rest, b.dropWhile (fun p => p.1 != t) = (t, c) :: rest ∧ (t, c) ∈ b := by
  induction b with
  | nil => simp [epochs] at h
  | cons p ps ih =>
    by_cases hp : p.1 = t
    · refine ⟨p.2, ps, ?_, ?_⟩
      · simp [List.dropWhile, hp]; rw [← hp]
      · rw [← hp]; exact List.mem_cons_self
    · have hne : (p.1 != t) = true := by simpa using hp
      simp only [epochs, List.map_cons, List.mem_cons] at h
      rcases h with h | h
      · exact absurd h.symm hp
      · obtain ⟨c, rest, h1, h2⟩ := ih h
        exact ⟨c, rest, by simp [List.dropWhile, hne, h1], List.mem_cons_of_mem _ h2⟩

/-- **Rollback then open loads exactly the chosen point**: the content recorded with that epoch. -/
theorem rollback_recover (b : Bolt γ) (t : Nat) (h : t ∈ epochs b) :
    ∃ b' c, rollback b t = some b' ∧ recover b' = some (t, c) ∧ (t, c) ∈ b := by
  obtain ⟨c, rest, h1, h2⟩ := dropWhile_head b t h
  refine ⟨_, c, rollback_some b t h, ?_, h2⟩
  simp [recover, h1]

/-- what survives a rollback was persisted before (nothing is invented) -/
theorem rollback_sub (b b' : Bolt γ) (t : Nat) (h : rollback b t = some b') : ∀ p ∈ b', p ∈ b := by
  unfold rollback at h
  split at h
  · injection h with h; subst h
    intro p hp; exact (List.dropWhile_sublist _).subset hp
  · cases h

/-- **Later batches are gone completely**: no epoch newer than the target survives. -/
theorem rollback_drops_newer (b b' : Bolt γ) (t : Nat) (hd : Desc b) (h : rollback b t = some b') :
    ∀ p ∈ b', p.1 ≤ t := by
  unfold rollback at h
  split at h
  · rename_i hc
    injection h with h; subst h
    have ht : t ∈ epochs b := by simpa using hc
    obtain ⟨c, rest, h1, _⟩ := dropWhile_head b t ht
    rw [h1]
    intro p hp
    rcases List.mem_cons.1 hp with rfl | hp'
    · exact Nat.le_refl _
    · -- the suffix of a strictly descending list lies below its head
      have hsuf : ((t, c) :: rest).Sublist b := by rw [← h1]; exact List.dropWhile_sublist _
      have hd' : (epochs ((t, c) :: rest)).Pairwise (· > ·) :=
        List.Pairwise.sublist (List.Sublist.map _ hsuf) hd
      simp only [epochs, List.map_cons] at hd'
      have := (List.pairwise_cons.1 hd').1 p.1 (List.mem_map_of_mem hp')
      omega
  · cases h

/-- rolling back to an epoch that is not persisted is refused -/
theorem rollback_unknown (b : Bolt γ) (t : Nat) (h : t ∉ epochs b) : rollback b t = none := by
  unfold rollback
  have : (epochs b).contains t = false := by
    cases hc : (epochs b).contains t
    · rfl
    · exact absurd (List.contains_iff_mem.1 hc) h
  rw [this]; rfl

/-- the list of rollback points is the persisted epochs, newest first, and starts with the state
    Open would load -/
theorem points_are_persisted (b : Bolt γ) : rollbackPoints b = b := rfl
theorem latest_listed (b : Bolt γ) : (rollbackPoints b).head? = recover b := rfl

/-- the purger never removes a protected epoch, nor one that is not eligible -/
theorem purge_keeps (b : Bolt γ) (eligible protectedE : List Nat) (p : Nat × γ) (hp : p ∈ b)
    (h : p.1 ∈ protectedE ∨ p.1 ∉ eligible) : p ∈ purge b eligible protectedE := by
  unfold purge
  rw [List.mem_filter]
  refine ⟨hp, ?_⟩
  rcases h with h | h
  · have : protectedE.contains p.1 = true := List.contains_iff_mem.2 h
    rw [this]; simp
  · have : eligible.contains p.1 = false := by
      cases hc : eligible.contains p.1
      · rfl
      · exact absurd (List.contains_iff_mem.1 hc) h
    rw [this]; simp

/-! ## retention arithmetic -/

theorem tsStep_length (arr : Array Snap) (interval i ptr : Nat) (acc : List Snap) :
    (tsStep arr interval i ptr acc).2.length ≤ acc.length + 1 := by
  unfold tsStep
  simp only
  split
  · split <;> split <;> simp
  · simp

theorem tsGo_length (arr : Array Snap) (maxPts interval : Nat) :
    ∀ (fuel i ptr : Nat) (acc : List Snap), acc.length ≤ maxPts →
      (tsGo arr maxPts interval fuel i ptr acc).length ≤ maxPts := by
  intro fuel
  induction fuel with
  | zero => intro i ptr acc h; simpa [tsGo] using h
  | succ fuel ih =>
    intro i ptr acc h
    unfold tsGo
    split
    · exact h
    · rename_i hlt
      have hs := tsStep_length arr interval i ptr acc
      have hacc' : (tsStep arr interval i ptr acc).2.length ≤ maxPts := by omega
      simp only
      split
      · exact hacc'
      · exact ih _ _ _ hacc'

/-- the time series never protects more than `maxPts` snapshots -/
theorem timeSeries_length (maxPts interval : Nat) (snaps : List Snap) :
    (timeSeries maxPts interval snaps).length ≤ maxPts := by
  unfold timeSeries
  split
  · simp
  · rename_i hc
    have hp : 0 < maxPts := by
      simp only [Bool.or_eq_true, beq_iff_eq, not_or] at hc
      omega
    simp only
    split
    · simp; omega
    · exact tsGo_length _ _ _ _ _ _ _ (by simp; omega)

theorem foldl_fill_length (keep : Nat) (l : List Snap) : ∀ (acc : List Snap), acc.length ≤ max keep 1 →
    (l.foldl (fun acc s =>
      if acc.length < keep && !(acc.any (fun x => x.epoch == s.epoch)) then acc ++ [s] else acc) acc).length
      ≤ max keep 1 := by
  induction l with
  | nil => intro acc h; exact h
  | cons s rest ih =>
    intro acc h
    simp only [List.foldl_cons]
    apply ih
    split
    · rename_i hc
      simp only [Bool.and_eq_true, decide_eq_true_eq] at hc
      simp; omega
    · exact h

/-- **Retention bound**: at most `numSnapshotsToKeep` (and at least the latest) epochs are protected. -/
theorem protected_bound (keep interval : Nat) (live : List Snap) :
    (protectedSnaps keep interval live).length ≤ max keep 1 := by
  unfold protectedSnaps
  apply foldl_fill_length
  have ht := timeSeries_length (keep - 1) interval live
  cases hl : live.head? with
  | none => simp only; omega
  | some l =>
    simp only
    split
    · omega
    · simp; omega

theorem foldl_fill_mono (keep : Nat) (l : List Snap) (x : Snap) : ∀ (acc : List Snap), x ∈ acc →
    x ∈ l.foldl (fun acc s =>
      if acc.length < keep && !(acc.any (fun y => y.epoch == s.epoch)) then acc ++ [s] else acc) acc := by
  induction l with
  | nil => intro acc h; exact h
  | cons s rest ih =>
    intro acc h
    simp only [List.foldl_cons]
    apply ih
    split
    · exact List.mem_append_left _ h
    · exact h

/-- the latest persisted snapshot is always protected -/
theorem latest_protected (keep interval : Nat) (l : Snap) (rest : List Snap) :
    ∃ s ∈ protectedSnaps keep interval (l :: rest), s.epoch = l.epoch := by
  unfold protectedSnaps
  simp only [List.head?_cons]
  split
  · rename_i hany
    rw [List.any_eq_true] at hany
    obtain ⟨s, hs, he⟩ := hany
    exact ⟨s, foldl_fill_mono keep _ s _ hs, by simpa using he⟩
  · exact ⟨l, foldl_fill_mono keep _ l _ (by simp), rfl⟩

/-! ## non-vacuity -/

example : rollback [(7, "c"), (5, "b"), (2, "a")] 5 = some [(5, "b"), (2, "a")] := by decide
example : (protectedSnaps 3 0 [⟨9, 50⟩, ⟨8, 40⟩, ⟨7, 30⟩, ⟨6, 20⟩]).map (·.epoch) = [9, 8, 7] := by decide

end Bleve.Retention
