import BleveModel.Model.Text
set_option linter.unusedSimpArgs false
set_option linter.unusedVariables false
/-!
# C19 — Analysis and highlighting never panic; offsets always point into the source text

"Every registered analyzer, tokenizer, token filter and character filter terminates without
panicking on any byte string, and every tokenizer emits tokens with 0 <= Start <= End <= len(input),
non-decreasing starts and positive, non-decreasing positions. Highlighting never panics for any
stored value and any term locations, and when the field's analyzer does not change the text length
before tokenising, every fragment with markup and escaping removed is a contiguous piece of the
stored value in which every marked span is the text at a matched term's location."

**Partial.**  Proved here, for every input: the offset / position clause for bleve's own
character-class tokenizer (the base of `letter` and `whitespace`), on a model that is compared with
the real tokenizer on every run.  Everything else — the ~110 registered components built on
third-party libraries, termination, absence of panics, the highlighter clauses — cannot be carried
by an executable Lean model of this size and is *explored* by `./check C19` (every registry entry on
structured and raw byte strings under recover and a time limit; fragmenter, formatter and
highlighters end to end and with arbitrary term locations).
-/
namespace Bleve.Text

/-- invariant of the tokenizer loop -/
structure Inv (o s e c : Nat) (acc : List Tok) : Prop where
  se : s ≤ e
  eo : e ≤ o
  cnt : c = acc.length
  wf : ∀ t ∈ acc, t.start < t.stop ∧ t.stop ≤ s
  ord : acc.Pairwise (fun a b => a.stop ≤ b.start ∧ a.pos < b.pos)
  posn : ∀ t ∈ acc, 1 ≤ t.pos ∧ t.pos ≤ c

/-- what the statement asks of the final token list, relative to the input length -/
structure Good (n : Nat) (l : List Tok) : Prop where
  bounds : ∀ t ∈ l, t.start < t.stop ∧ t.stop ≤ n
  ord : l.Pairwise (fun a b => a.stop ≤ b.start ∧ a.pos < b.pos)
  pos : ∀ t ∈ l, 1 ≤ t.pos ∧ t.pos ≤ l.length

theorem finish_good (o s e c : Nat) (acc : List Tok) (n : Nat) (hn : o ≤ n) (h : Inv o s e c acc) :
    Good n (if e > s then acc ++ [⟨s, e, c + 1⟩] else acc) := by
  by_cases hes : e > s
  · simp only [hes, if_true]
    refine ⟨?_, ?_, ?_⟩
    · intro t ht
      rcases List.mem_append.1 ht with ht | ht
      · have := h.wf t ht; have := h.se; have := h.eo; omega
      · simp only [List.mem_singleton] at ht; subst ht; simp only; have := h.eo; omega
    · rw [List.pairwise_append]
      refine ⟨h.ord, by simp, ?_⟩
      intro a ha b hb
      simp only [List.mem_singleton] at hb; subst hb
      have := h.wf a ha; have := h.posn a ha
      simp only; omega
    · intro t ht
      simp only [List.length_append, List.length_singleton]
      rcases List.mem_append.1 ht with ht | ht
      · have := h.posn t ht; have := h.cnt; omega
      · simp only [List.mem_singleton] at ht; subst ht; have := h.cnt; simp only; omega
  · simp only [hes, if_false]
    refine ⟨?_, h.ord, ?_⟩
    · intro t ht; have := h.wf t ht; have := h.se; have := h.eo; omega
    · intro t ht; have := h.posn t ht; have := h.cnt; omega

theorem go_good : ∀ (runes : List (Nat × Nat)) (o s e c : Nat) (acc : List Tok) (n : Nat),
    o + totalBytes runes ≤ n → Inv o s e c acc → Good n (go runes o s e c acc) := by
  intro runes
  induction runes with
  | nil =>
    intro o s e c acc n hn h
    simp only [go]
    exact finish_good o s e c acc n (by simpa [totalBytes] using hn) h
  | cons r rest ih =>
    intro o s e c acc n hn h
    obtain ⟨sz, k⟩ := r
    have htot : totalBytes ((sz, k) :: rest) = sz + totalBytes rest := by simp [totalBytes]
    rw [htot] at hn
    simp only [go]
    split
    · exact finish_good o s e c acc n (by omega) h
    · split
      · -- token rune: extend the current token
        apply ih (o + sz) s (o + sz) c acc n (by omega)
        exact ⟨by have := h.se; have := h.eo; omega, Nat.le_refl _, h.cnt, h.wf, h.ord, h.posn⟩
      · split
        · -- separator closing a token
          rename_i hes
          apply ih (o + sz) (o + sz) (o + sz) (c + 1) _ n (by omega)
          refine ⟨Nat.le_refl _, Nat.le_refl _, by simp [h.cnt], ?_, ?_, ?_⟩
          · intro t ht
            rcases List.mem_append.1 ht with ht | ht
            · have := h.wf t ht; have := h.se; have := h.eo; omega
            · simp only [List.mem_singleton] at ht; subst ht; simp only; have := h.eo; omega
          · rw [List.pairwise_append]
            refine ⟨h.ord, by simp, ?_⟩
            intro a ha b hb
            simp only [List.mem_singleton] at hb; subst hb
            have := h.wf a ha; have := h.posn a ha
            simp only; omega
          · intro t ht
            rcases List.mem_append.1 ht with ht | ht
            · have := h.posn t ht; omega
            · simp only [List.mem_singleton] at ht; subst ht; simp only; omega
        · -- separator with no open token
          apply ih (o + sz) (o + sz) (o + sz) c acc n (by omega)
          refine ⟨Nat.le_refl _, Nat.le_refl _, h.cnt, ?_, h.ord, h.posn⟩
          intro t ht; have := h.wf t ht; have := h.se; have := h.eo; omega

/-- **Tokenizer offsets.** For every input (valid or invalid UTF-8, any length): every token has
    `0 ≤ Start < End ≤ len(input)`, tokens do not overlap and come in increasing start order, and
    positions are positive, strictly increasing and at most the number of tokens (so they are
    exactly 1, 2, …). -/
theorem tokenizer_offsets (runes : List (Nat × Nat)) :
    Good (totalBytes runes) (charTokenize runes) := by
  unfold charTokenize
  apply go_good runes 0 0 0 0 [] _ (by omega)
  exact ⟨Nat.le_refl _, Nat.le_refl _, rfl, by simp, by simp, by simp⟩

/-- positions are exactly 1, 2, …, n -/
theorem positions_exact (runes : List (Nat × Nat)) :
    ∀ t ∈ charTokenize runes, 1 ≤ t.pos ∧ t.pos ≤ (charTokenize runes).length :=
  (tokenizer_offsets runes).pos

example : charTokenize [(1, 1), (1, 1), (1, 0), (2, 1), (1, 2), (1, 1)] = [⟨0, 2, 1⟩, ⟨3, 5, 2⟩] := by decide

end Bleve.Text
