import BleveModel.Model.ConjSearcher
import BleveModel.Props.BoolSearcher
set_option linter.unusedVariables false
set_option linter.unusedSimpArgs false
/-!
# The conjunction searcher keeps the searcher contract and yields the intersection of its clauses

For every behaviour of the clause searchers outside their contract (`w`), every state reachable from
`init` and every program of `Next` / `Advance` calls, the machine of `Model/ConjSearcher.lean` (the
leap-frog loop of `search_conjunction.go` with its `maxIDIdx` bookkeeping and its `continue OUTER`)
answers like the contract machine over `common` — the matches every clause still has.
-/
namespace Bleve.ConjSearcher
open Bleve.BoolSearcher (Ch Weird Op Asc asc_dropWhile_contains asc_contains_false_of_lt filter_dropWhile
  dropWhile_id_of_ge dropWhile_ge)

/-! ## lists of children related position by position -/

inductive Rel (R : Ch → Ch → Prop) : List Ch → List Ch → Prop
  | nil : Rel R [] []
  | cons {a b : Ch} {as bs : List Ch} : R a b → Rel R as bs → Rel R (a :: as) (b :: bs)

theorem rel_mapIdx (R : Ch → Ch → Prop) : ∀ (chs : List Ch) (f : Nat → Ch → Ch),
    (∀ x c, chs[x]? = some c → R c (f x c)) → Rel R chs (chs.mapIdx f) := by
  intro chs
  induction chs with
  | nil => intro f _; exact Rel.nil
  | cons a as ih =>
    intro f h
    rw [List.mapIdx_cons]
    refine Rel.cons (h 0 a (by simp)) ?_
    apply ih
    intro x c hx
    exact h (x + 1) c (by simpa using hx)

theorem rel_length {R : Ch → Ch → Prop} {as bs : List Ch} (h : Rel R as bs) : bs.length = as.length := by
  induction h with
  | nil => rfl
  | cons _ _ ih => simp [ih]

theorem rel_getElem {R : Ch → Ch → Prop} {as bs : List Ch} (h : Rel R as bs) :
    ∀ (j : Nat) (a : Ch), as[j]? = some a → ∃ b, bs[j]? = some b ∧ R a b := by
  induction h with
  | nil => intro j a hj; simp at hj
  | cons hr _ ih =>
    intro j a hj
    cases j with
    | zero => simp at hj; subst hj; exact ⟨_, by simp, hr⟩
    | succ k => simp at hj; obtain ⟨b, hb, hrb⟩ := ih k a hj; exact ⟨b, by simpa using hb, hrb⟩

def AllOk (chs : List Ch) : Prop := ∀ c ∈ chs, c.ok

/-- a child before and after possibly being advanced to `t` while its cursor was behind `t` -/
def Shrunk (t : Nat) (c c' : Ch) : Prop :=
  c'.ok ∧ (c' = c ∨ c'.all = c.all.dropWhile (· < t))

theorem rel_allOk {t : Nat} {as bs : List Ch} (h : Rel (Shrunk t) as bs) : AllOk bs := by
  induction h with
  | nil => intro c hc; simp at hc
  | cons hr _ ih =>
    intro c hc
    rcases List.mem_cons.1 hc with rfl | hc'
    · exact hr.1
    · exact ih c hc'

theorem contains_dropWhile_imp (l : List Nat) (t d : Nat) (h : (l.dropWhile (· < t)).contains d = true) :
    l.contains d = true :=
  List.contains_iff_mem.2 ((List.dropWhile_sublist _).subset (List.contains_iff_mem.1 h))

theorem isCommon_rel_ge {t d : Nat} {as bs : List Ch} (h : Rel (Shrunk t) as bs) (hok : AllOk as) (hd : t ≤ d) :
    isCommon bs d = isCommon as d := by
  induction h with
  | nil => rfl
  | @cons a b as' bs' hr _ ih =>
    unfold isCommon at ih ⊢
    rw [List.all_cons, List.all_cons, ih (fun c hc => hok c (List.mem_cons_of_mem _ hc))]
    congr 1
    rcases hr.2 with he | he
    · rw [he]
    · rw [he]
      exact asc_dropWhile_contains a.all t d (hok a List.mem_cons_self).1 hd

theorem isCommon_rel_mono {t d : Nat} {as bs : List Ch} (h : Rel (Shrunk t) as bs)
    (hb : isCommon bs d = true) : isCommon as d = true := by
  induction h with
  | nil => exact hb
  | @cons a b as' bs' hr _ ih =>
    unfold isCommon at ih hb ⊢
    rw [List.all_cons, Bool.and_eq_true] at hb ⊢
    refine ⟨?_, ih hb.2⟩
    rcases hr.2 with he | he
    · rw [← he]; exact hb.1
    · rw [he] at hb; exact contains_dropWhile_imp _ _ _ hb.1

/-- **Advancing clauses to a target below every common match loses nothing.** -/
theorem common_rel {t : Nat} {as bs : List Ch} (h : Rel (Shrunk t) as bs) (hok : AllOk as)
    (hlow : ∀ d ∈ common as, t ≤ d) : common bs = common as := by
  cases h with
  | nil => rfl
  | @cons a b as' bs' hr hrest =>
    have hfull : Rel (Shrunk t) (a :: as') (b :: bs') := Rel.cons hr hrest
    have hasc : Asc a.all := (hok a List.mem_cons_self).1
    show b.all.filter (isCommon (b :: bs')) = a.all.filter (isCommon (a :: as'))
    rcases hr.2 with he | he
    · -- the first clause was not moved
      subst he
      apply List.filter_congr
      intro d hd
      by_cases hdt : t ≤ d
      · exact isCommon_rel_ge hfull hok hdt
      · -- below the target nothing is common, before or after
        have h1 : isCommon (b :: as') d = false := by
          cases hc : isCommon (b :: as') d
          · rfl
          · have : d ∈ common (b :: as') := List.mem_filter.2 ⟨hd, hc⟩
            have := hlow d this; omega
        rw [h1]
        cases hc : isCommon (b :: bs') d
        · rfl
        · have := isCommon_rel_mono hfull hc
          rw [this] at h1; cases h1
    · rw [he]
      have e1 : (a.all.dropWhile (· < t)).filter (isCommon (b :: bs')) =
          (a.all.dropWhile (· < t)).filter (isCommon (a :: as')) := by
        apply List.filter_congr
        intro d hd
        exact isCommon_rel_ge hfull hok (dropWhile_ge a.all t d hd hasc)
      rw [e1, filter_dropWhile (isCommon (a :: as')) a.all t hasc]
      apply dropWhile_id_of_ge
      intro d hd
      exact hlow d hd

/-! ## what is common, and the cursors -/

theorem all_congr_mem {α : Type} (f g : α → Bool) : ∀ (l : List α), (∀ x ∈ l, f x = g x) → l.all f = l.all g := by
  intro l
  induction l with
  | nil => intro _; rfl
  | cons a as ih =>
    intro h
    rw [List.all_cons, List.all_cons, h a List.mem_cons_self, ih (fun x hx => h x (List.mem_cons_of_mem _ hx))]

theorem isCommon_mem {chs : List Ch} {d : Nat} (h : isCommon chs d = true) {c : Ch} (hc : c ∈ chs) :
    d ∈ c.all := by
  unfold isCommon at h
  rw [List.all_eq_true] at h
  exact List.contains_iff_mem.1 (h c hc)

theorem mem_common {chs : List Ch} {d : Nat} (h : d ∈ common chs) : isCommon chs d = true := by
  cases chs with
  | nil => simp [common] at h
  | cons c cs => exact (List.mem_filter.1 h).2

/-- every common match is at or after every cursor -/
theorem common_ge_curr {chs : List Ch} (hok : AllOk chs) {d : Nat} (hd : d ∈ common chs)
    {c : Ch} (hc : c ∈ chs) {v : Nat} (hv : c.curr = some v) : v ≤ d := by
  have hm := isCommon_mem (mem_common hd) hc
  rw [Ch.all_of_curr_some c v hv] at hm
  have ha : Asc (v :: c.rem) := by rw [← Ch.all_of_curr_some c v hv]; exact (hok c hc).1
  rcases List.mem_cons.1 hm with rfl | h'
  · exact Nat.le_refl _
  · have := (List.pairwise_cons.1 ha).1 d h'; omega

/-- a clause without a match left: nothing is common -/
theorem common_nil_of_none {chs : List Ch} (hok : AllOk chs) {c : Ch} (hc : c ∈ chs) (hn : c.curr = none) :
    common chs = [] := by
  apply List.eq_nil_iff_forall_not_mem.2
  intro d hd
  have := isCommon_mem (mem_common hd) hc
  rw [Ch.all_of_curr_none c (hok c hc) hn] at this
  simp at this

theorem mem_of_getElem? {chs : List Ch} {j : Nat} {c : Ch} (h : chs[j]? = some c) : c ∈ chs :=
  List.mem_of_getElem? h

theorem currAt_some {chs : List Ch} {j v : Nat} (h : currAt chs j = some v) :
    ∃ c, chs[j]? = some c ∧ c.curr = some v := by
  unfold currAt at h
  cases hc : chs[j]? with
  | none => rw [hc] at h; simp at h
  | some c => rw [hc] at h; exact ⟨c, rfl, by simpa using h⟩

/-- **All cursors on the same document**: it is the first common match, and moving every clause on
    leaves the rest. -/
theorem common_all_on (chs : List Ch) (hok : AllOk chs) (m : Nat) (hne : chs ≠ [])
    (hall : ∀ c ∈ chs, c.curr = some m) :
    common chs = m :: common (chs.map Ch.next) ∧ AllOk (chs.map Ch.next) := by
  have hok' : AllOk (chs.map Ch.next) := by
    intro c hc
    obtain ⟨c0, hc0, rfl⟩ := List.mem_map.1 hc
    exact Ch.next_ok c0 (hok c0 hc0)
  refine ⟨?_, hok'⟩
  cases chs with
  | nil => exact absurd rfl hne
  | cons c cs =>
    have hcm := hall c List.mem_cons_self
    have hcall := Ch.all_of_curr_some c m hcm
    have hasc : Asc (m :: c.rem) := by rw [← hcall]; exact (hok c List.mem_cons_self).1
    have hm : isCommon (c :: cs) m = true := by
      unfold isCommon
      rw [List.all_eq_true]
      intro x hx
      rw [Ch.all_of_curr_some x m (hall x hx)]
      simp
    show c.all.filter (isCommon (c :: cs)) = m :: (Ch.next c).all.filter (isCommon ((c :: cs).map Ch.next))
    rw [hcall, List.filter_cons, hm, if_pos rfl, Ch.next_all]
    congr 1
    apply List.filter_congr
    intro d hd
    have hdm : m < d := (List.pairwise_cons.1 hasc).1 d hd
    -- beyond `m`, a clause has `d` exactly when it has it after its cursor
    unfold isCommon
    rw [List.all_map]
    apply all_congr_mem
    intro x hx
    simp only [Function.comp]
    symm
    rw [Ch.next_all, Ch.all_of_curr_some x m (hall x hx), List.contains_cons]
    have : (d == m) = false := by
      have : d ≠ m := by omega
      simpa using this
    rw [this, Bool.false_or]

/-! ## advancing clauses -/

theorem shrunk_refl (t : Nat) (c : Ch) (h : c.ok) : Shrunk t c c := ⟨h, Or.inl rfl⟩

theorem shrunk_adv (w : Weird) (t : Nat) (c : Ch) (h : c.ok) (hb : ∀ v, c.curr = some v → v < t) :
    Shrunk t c (c.adv w t) :=
  ⟨Ch.adv_ok w t c h hb, Or.inr (Ch.adv_all w t c hb)⟩

theorem rel_advAt (w : Weird) (t i : Nat) (chs : List Ch) (hok : AllOk chs)
    (hb : ∀ c, chs[i]? = some c → ∀ v, c.curr = some v → v < t) :
    Rel (Shrunk t) chs (advAt w t i chs) := by
  unfold advAt
  apply rel_mapIdx
  intro x c hx
  by_cases hxi : x = i
  · subst hxi
    simp only [if_true]
    exact shrunk_adv w t c (hok c (mem_of_getElem? hx)) (hb c hx)
  · simp only [hxi, if_false]
    exact shrunk_refl t c (hok c (mem_of_getElem? hx))

theorem rel_advPrefix (w : Weird) (t i : Nat) (chs : List Ch) (hok : AllOk chs)
    (hb : ∀ x c, x < i → chs[x]? = some c → ∀ v, c.curr = some v → v < t) :
    Rel (Shrunk t) chs (advPrefix w t i chs) := by
  unfold advPrefix
  apply rel_mapIdx
  intro x c hx
  by_cases hxi : x < i
  · simp only [hxi, if_true]
    exact shrunk_adv w t c (hok c (mem_of_getElem? hx)) (hb x c hxi hx)
  · simp only [hxi, if_false]
    exact shrunk_refl t c (hok c (mem_of_getElem? hx))

theorem currAt_advAt_ne (w : Weird) (t i x : Nat) (chs : List Ch) (h : x ≠ i) :
    currAt (advAt w t i chs) x = currAt chs x := by
  unfold currAt advAt
  rw [List.getElem?_mapIdx]
  cases chs[x]? <;> simp [h]

theorem currAt_advPrefix_ge (w : Weird) (t i x : Nat) (chs : List Ch) (h : i ≤ x) :
    currAt (advPrefix w t i chs) x = currAt chs x := by
  unfold currAt advPrefix
  rw [List.getElem?_mapIdx]
  have : ¬ x < i := by omega
  cases chs[x]? <;> simp [this]

theorem length_advAt (w : Weird) (t i : Nat) (chs : List Ch) : (advAt w t i chs).length = chs.length := by
  unfold advAt; exact List.length_mapIdx

theorem length_advPrefix (w : Weird) (t i : Nat) (chs : List Ch) : (advPrefix w t i chs).length = chs.length := by
  unfold advPrefix; exact List.length_mapIdx

/-! ## the measure -/

theorem shrunk_length_le {t : Nat} {c c' : Ch} (h : Shrunk t c c') : c'.all.length ≤ c.all.length := by
  rcases h.2 with he | he
  · rw [he]; exact Nat.le_refl _
  · rw [he]; exact (List.dropWhile_sublist _).length_le

theorem size_rel_le {t : Nat} {as bs : List Ch} (h : Rel (Shrunk t) as bs) : size bs ≤ size as := by
  induction h with
  | nil => exact Nat.le_refl _
  | cons hr _ ih =>
    unfold size at ih ⊢
    simp only [List.map_cons, List.sum_cons]
    have := shrunk_length_le hr
    omega

theorem size_rel_lt {t : Nat} {as bs : List Ch} (h : Rel (Shrunk t) as bs) :
    ∀ (j : Nat) (a b : Ch), as[j]? = some a → bs[j]? = some b → b.all.length < a.all.length →
      size bs < size as := by
  induction h with
  | nil => intro j a b hj; simp at hj
  | @cons a0 b0 as' bs' hr hrest ih =>
    intro j a b ha hb hlt
    unfold size at ih ⊢
    simp only [List.map_cons, List.sum_cons]
    cases j with
    | zero =>
      simp at ha hb
      subst ha; subst hb
      have := size_rel_le hrest
      unfold size at this
      omega
    | succ k =>
      simp at ha hb
      have h1 := ih k a b ha hb hlt
      have h2 := shrunk_length_le hr
      omega

/-- advancing a clause whose cursor is behind the target takes at least the cursor's match away -/
theorem adv_length_lt (w : Weird) (t : Nat) (c : Ch) (v : Nat) (hc : c.curr = some v) (hv : v < t) :
    (c.adv w t).all.length < c.all.length := by
  have hb : ∀ v', c.curr = some v' → v' < t := by
    intro v' h'; rw [hc] at h'; injection h' with h'; omega
  rw [Ch.adv_all w t c hb, Ch.all_of_curr_some c v hc]
  have : (List.dropWhile (· < t) (v :: c.rem)) = List.dropWhile (· < t) c.rem := by
    simp [List.dropWhile_cons, hv]
  rw [this]
  have := (List.dropWhile_sublist (fun x => decide (x < t)) (l := c.rem)).length_le
  simp only [List.length_cons]
  omega

/-! ## the inner loop -/

def flag (i : Nat) : Nat := if i = 0 then 0 else 1

def InnerPost (maxID maxIdx : Nat) (chs : List Ch) : Inner → Prop
  | .matched chs' => AllOk chs' ∧ chs'.length = chs.length ∧ common chs' = common chs ∧
      (∀ c ∈ chs', c.curr = some maxID) ∧ size chs' ≤ size chs
  | .exhausted chs' => AllOk chs' ∧ chs'.length = chs.length ∧ common chs' = common chs ∧
      (∃ c ∈ chs', c.curr = none) ∧ size chs' ≤ size chs
  | .restart chs' mi => AllOk chs' ∧ chs'.length = chs.length ∧ common chs' = common chs ∧
      mi < chs.length ∧ (∃ v, currAt chs' mi = some v) ∧
      2 * size chs' + flag mi < 2 * size chs + flag maxIdx

theorem innerPost_transfer {maxID maxIdx : Nat} {chs chs2 : List Ch} {r : Inner}
    (h : InnerPost maxID maxIdx chs2 r) (hl : chs2.length = chs.length) (hc : common chs2 = common chs)
    (hs : size chs2 ≤ size chs) : InnerPost maxID maxIdx chs r := by
  cases r with
  | matched c => obtain ⟨a, b, c', d, e⟩ := h; exact ⟨a, by omega, by rw [c', hc], d, by omega⟩
  | exhausted c => obtain ⟨a, b, c', d, e⟩ := h; exact ⟨a, by omega, by rw [c', hc], d, by omega⟩
  | restart c mi =>
    obtain ⟨a, b, c', d, e, f⟩ := h
    exact ⟨a, by omega, by rw [c', hc], by omega, e, by omega⟩

theorem currAt_of_getElem {chs : List Ch} {j : Nat} {c : Ch} (h : chs[j]? = some c) : currAt chs j = c.curr := by
  unfold currAt; rw [h]; rfl

theorem inner_spec (w : Weird) (maxID maxIdx : Nat) : ∀ (fuel i : Nat) (chs : List Ch), AllOk chs →
    maxIdx < chs.length → currAt chs maxIdx = some maxID → (∀ x, x < i → currAt chs x = some maxID) →
    i ≤ chs.length → (chs.length - i) + size chs < fuel →
    InnerPost maxID maxIdx chs (inner w maxID maxIdx fuel i chs) := by
  intro fuel
  induction fuel with
  | zero => intro i chs _ _ _ _ _ h; omega
  | succ fuel ih =>
    intro i chs hok hml hmax hinv hil hfuel
    unfold inner
    by_cases hdone : chs.length ≤ i
    · -- every cursor has been compared with the maximum
      rw [if_pos hdone]
      refine ⟨hok, rfl, rfl, ?_, Nat.le_refl _⟩
      intro c hc
      obtain ⟨x, hx⟩ := List.mem_iff_getElem?.1 hc
      have hxl : x < chs.length := by
        rcases Nat.lt_or_ge x chs.length with h | h
        · exact h
        · have hnone := List.getElem?_eq_none h
          rw [hnone] at hx
          exact absurd hx (by simp)
      have := hinv x (by omega)
      rw [currAt_of_getElem hx] at this
      exact this
    · rw [if_neg hdone]
      have hil' : i < chs.length := by omega
      obtain ⟨ci, hci⟩ : ∃ c, chs[i]? = some c := ⟨chs[i], List.getElem?_eq_getElem hil'⟩
      cases hcur : currAt chs i with
      | none =>
        simp only
        refine ⟨hok, rfl, rfl, ⟨ci, mem_of_getElem? hci, ?_⟩, Nat.le_refl _⟩
        rw [← currAt_of_getElem hci]; exact hcur
      | some v =>
        simp only
        have hciv : ci.curr = some v := by rw [← currAt_of_getElem hci]; exact hcur
        by_cases h1 : i = maxIdx
        · rw [if_pos h1]
          apply ih (i + 1) chs hok hml hmax _ (by omega) (by omega)
          intro x hx
          rcases Nat.lt_or_ge x i with h | h
          · exact hinv x h
          · have : x = i := by omega
            rw [this, h1]; exact hmax
        · rw [if_neg h1]
          by_cases h2 : v = maxID
          · rw [if_pos h2]
            apply ih (i + 1) chs hok hml hmax _ (by omega) (by omega)
            intro x hx
            rcases Nat.lt_or_ge x i with h | h
            · exact hinv x h
            · have : x = i := by omega
              rw [this, hcur, h2]
          · rw [if_neg h2]
            by_cases h3 : maxID < v
            · -- a new, larger maximum: the clauses before `i` sat on the old one and are moved up
              rw [if_pos h3]
              have hb : ∀ x c, x < i → chs[x]? = some c → ∀ v', c.curr = some v' → v' < v := by
                intro x c hx hxc v' hv'
                have := hinv x hx
                rw [currAt_of_getElem hxc, hv'] at this
                injection this with this
                omega
              have hrel := rel_advPrefix w v i chs hok hb
              have hlow : ∀ d ∈ common chs, v ≤ d := fun d hd =>
                common_ge_curr hok hd (mem_of_getElem? hci) hciv
              refine ⟨rel_allOk hrel, length_advPrefix w v i chs, common_rel hrel hok hlow, hil',
                ⟨v, by rw [currAt_advPrefix_ge w v i i chs (Nat.le_refl _)]; exact hcur⟩, ?_⟩
              have hle := size_rel_le hrel
              by_cases hi0 : i = 0
              · have hm0 : maxIdx ≠ 0 := by omega
                have f1 : flag i = 0 := by simp [flag, hi0]
                have f2 : flag maxIdx = 1 := by simp [flag, hm0]
                rw [f1, f2]
                omega
              · -- clause 0 is among those moved: the measure drops
                have h0l : 0 < chs.length := by omega
                obtain ⟨c0, hc0⟩ : ∃ c, chs[0]? = some c := ⟨chs[0], List.getElem?_eq_getElem h0l⟩
                have hc0v : c0.curr = some maxID := by
                  have := hinv 0 (by omega)
                  rw [currAt_of_getElem hc0] at this; exact this
                have hc0' : (advPrefix w v i chs)[0]? = some (c0.adv w v) := by
                  unfold advPrefix
                  rw [List.getElem?_mapIdx, hc0]
                  have : 0 < i := by omega
                  simp [this]
                have hlt := size_rel_lt hrel 0 c0 (c0.adv w v) hc0 hc0' (adv_length_lt w v c0 maxID hc0v h3)
                simp only [flag]
                split <;> split <;> omega
            · -- clause `i` is behind the maximum: it is advanced and looked at again
              rw [if_neg h3]
              have hvlt : v < maxID := by omega
              have hb : ∀ c, chs[i]? = some c → ∀ v', c.curr = some v' → v' < maxID := by
                intro c hc v' hv'
                rw [hci] at hc; injection hc with hc; subst hc
                rw [hciv] at hv'; injection hv' with hv'; omega
              have hrel := rel_advAt w maxID i chs hok hb
              obtain ⟨cm, hcm, hcmv⟩ := currAt_some hmax
              have hlow : ∀ d ∈ common chs, maxID ≤ d := fun d hd =>
                common_ge_curr hok hd (mem_of_getElem? hcm) hcmv
              have hci' : (advAt w maxID i chs)[i]? = some (ci.adv w maxID) := by
                unfold advAt
                rw [List.getElem?_mapIdx, hci]
                simp
              have hlt := size_rel_lt hrel i ci (ci.adv w maxID) hci hci' (adv_length_lt w maxID ci v hciv hvlt)
              have hlen := length_advAt w maxID i chs
              have hpost := ih i (advAt w maxID i chs) (rel_allOk hrel) (by omega)
                (by rw [currAt_advAt_ne w maxID i maxIdx chs (fun h => h1 h.symm)]; exact hmax)
                (by intro x hx; rw [currAt_advAt_ne w maxID i x chs (by omega)]; exact hinv x hx)
                (by omega) (by omega)
              exact innerPost_transfer hpost hlen (common_rel hrel hok hlow) (by omega)

/-! ## the outer loop, `Next` and `Advance` -/

structure Inv (st : St) : Prop where
  ok : AllOk st.chs
  idx : st.maxIdx < st.chs.length ∨ st.chs = []

theorem common_nil_of_currAt_none {chs : List Ch} (hok : AllOk chs) {j : Nat} (hj : j < chs.length)
    (h : currAt chs j = none) : common chs = [] := by
  have hc : chs[j]? = some chs[j] := List.getElem?_eq_getElem hj
  apply common_nil_of_none hok (mem_of_getElem? hc)
  rw [← currAt_of_getElem hc]; exact h

theorem nextLoop_spec (w : Weird) : ∀ (fuel : Nat) (st : St), Inv st →
    2 * size st.chs + flag st.maxIdx < fuel →
    (nextLoop w fuel st).1 = (common st.chs).head? ∧
    common (nextLoop w fuel st).2.chs = (common st.chs).tail ∧ Inv (nextLoop w fuel st).2 := by
  intro fuel
  induction fuel with
  | zero => intro st _ h; omega
  | succ fuel ih =>
    intro st hi hfuel
    unfold nextLoop
    by_cases hlen : st.chs.length ≤ st.maxIdx
    · rw [if_pos hlen]
      have hnil : st.chs = [] := by
        rcases hi.idx with h | h
        · omega
        · exact h
      simp only [hnil, common, List.head?_nil, List.tail_nil]
      exact ⟨trivial, trivial, hi⟩
    · rw [if_neg hlen]
      have hml : st.maxIdx < st.chs.length := by omega
      cases hmax : currAt st.chs st.maxIdx with
      | none =>
        simp only
        rw [common_nil_of_currAt_none hi.ok hml hmax]
        exact ⟨rfl, rfl, hi⟩
      | some maxID =>
        simp only
        have hpost := inner_spec w maxID st.maxIdx (st.chs.length + size st.chs + 1) 0 st.chs hi.ok hml hmax
          (by intro x hx; omega) (by omega) (by omega)
        generalize hin : inner w maxID st.maxIdx (st.chs.length + size st.chs + 1) 0 st.chs = r at hpost
        cases r with
        | matched chs' =>
          obtain ⟨p1, p2, p3, p4, p5⟩ := hpost
          simp only
          have hne : chs' ≠ [] := by
            intro h; rw [h] at p2; simp at p2; omega
          obtain ⟨q1, q2⟩ := common_all_on chs' p1 maxID hne p4
          rw [← p3, q1]
          exact ⟨rfl, rfl, ⟨q2, Or.inl (by simp only [List.length_map]; omega)⟩⟩
        | exhausted chs' =>
          obtain ⟨p1, p2, p3, ⟨c, hc, hcn⟩, p5⟩ := hpost
          simp only
          have hnil := common_nil_of_none p1 hc hcn
          rw [← p3, hnil]
          exact ⟨rfl, rfl, ⟨p1, Or.inl (by show st.maxIdx < chs'.length; omega)⟩⟩
        | restart chs' mi =>
          obtain ⟨p1, p2, p3, p4, p5, p6⟩ := hpost
          simp only
          have hinv' : Inv { chs := chs', maxIdx := mi } := ⟨p1, Or.inl (by simp only; omega)⟩
          obtain ⟨i1, i2, i3⟩ := ih { chs := chs', maxIdx := mi } hinv' (by simp only; omega)
          simp only at i1 i2
          rw [p3] at i1 i2
          exact ⟨i1, i2, i3⟩

theorem next_spec (w : Weird) (st : St) (hi : Inv st) :
    (next w st).1 = (common st.chs).head? ∧ common (next w st).2.chs = (common st.chs).tail ∧
    Inv (next w st).2 := by
  unfold next
  apply nextLoop_spec w _ st hi
  unfold flag
  split <;> omega

/-- a clause after `Advance(t)` has looked at it -/
def AdvTo (t : Nat) (c c' : Ch) : Prop := c'.ok ∧ c'.all = c.all.dropWhile (· < t)

theorem advBehind_advTo (w : Weird) (t : Nat) (c : Ch) (h : c.ok) :
    AdvTo t c (Bleve.BoolSearcher.advBehind w t c) := by
  unfold Bleve.BoolSearcher.advBehind
  cases hc : c.curr with
  | none =>
    have hb : ∀ v, c.curr = some v → v < t := by intro v hv; rw [hc] at hv; cases hv
    exact ⟨Ch.adv_ok w t c h hb, Ch.adv_all w t c hb⟩
  | some v =>
    simp only
    by_cases hv : v < t
    · have hb : ∀ v', c.curr = some v' → v' < t := by
        intro v' h'; rw [hc] at h'; injection h' with h'; omega
      simp only [hv, if_true]
      exact ⟨Ch.adv_ok w t c h hb, Ch.adv_all w t c hb⟩
    · simp only [hv, if_false]
      refine ⟨h, ?_⟩
      symm
      apply dropWhile_id_of_ge
      intro d hd
      rw [Ch.all_of_curr_some c v hc] at hd
      have ha : Asc (v :: c.rem) := by rw [← Ch.all_of_curr_some c v hc]; exact h.1
      rcases List.mem_cons.1 hd with rfl | hd'
      · omega
      · have := (List.pairwise_cons.1 ha).1 d hd'; omega

theorem rel_map (R : Ch → Ch → Prop) (f : Ch → Ch) : ∀ (chs : List Ch), (∀ c ∈ chs, R c (f c)) →
    Rel R chs (chs.map f) := by
  intro chs
  induction chs with
  | nil => intro _; exact Rel.nil
  | cons a as ih =>
    intro h
    exact Rel.cons (h a List.mem_cons_self) (ih (fun c hc => h c (List.mem_cons_of_mem _ hc)))

theorem rel_imp {R S : Ch → Ch → Prop} (hrs : ∀ a b, R a b → S a b) {as bs : List Ch} (h : Rel R as bs) :
    Rel S as bs := by
  induction h with
  | nil => exact Rel.nil
  | cons hr _ ih => exact Rel.cons (hrs _ _ hr) ih

/-- **`Advance` repositions every clause**: what is common afterwards is what was common at or after the target -/
theorem common_advTo {t : Nat} {as bs : List Ch} (h : Rel (AdvTo t) as bs) (hok : AllOk as) :
    common bs = (common as).dropWhile (· < t) := by
  have hs : Rel (Shrunk t) as bs := rel_imp (fun a b hab => ⟨hab.1, Or.inr hab.2⟩) h
  cases h with
  | nil => rfl
  | @cons a b as' bs' hr hrest =>
    have hasc : Asc a.all := (hok a List.mem_cons_self).1
    show b.all.filter (isCommon (b :: bs')) = (a.all.filter (isCommon (a :: as'))).dropWhile (· < t)
    rw [hr.2, ← filter_dropWhile (isCommon (a :: as')) a.all t hasc]
    apply List.filter_congr
    intro d hd
    exact isCommon_rel_ge hs hok (dropWhile_ge a.all t d hd hasc)

theorem advance_spec (w : Weird) (t : Nat) (st : St) (hi : Inv st) :
    (advance w t st).1 = ((common st.chs).dropWhile (· < t)).head? ∧
    common (advance w t st).2.chs = ((common st.chs).dropWhile (· < t)).tail ∧ Inv (advance w t st).2 := by
  unfold advance
  have hrel : Rel (AdvTo t) st.chs (st.chs.map (Bleve.BoolSearcher.advBehind w t)) :=
    rel_map _ _ st.chs (fun c hc => advBehind_advTo w t c (hi.ok c hc))
  have hok' : AllOk (st.chs.map (Bleve.BoolSearcher.advBehind w t)) :=
    rel_allOk (rel_imp (fun a b hab => (⟨hab.1, Or.inr hab.2⟩ : Shrunk t a b)) hrel)
  have hinv' : Inv { st with chs := st.chs.map (Bleve.BoolSearcher.advBehind w t) } := by
    refine ⟨hok', ?_⟩
    rcases hi.idx with h | h
    · exact Or.inl (by simp only [List.length_map]; exact h)
    · exact Or.inr (by simp only [h, List.map_nil])
  obtain ⟨n1, n2, n3⟩ := next_spec w _ hinv'
  simp only at n1 n2
  rw [common_advTo hrel hi.ok] at n1 n2
  exact ⟨n1, n2, n3⟩

/-- **Refinement**: for every behaviour of the clause searchers outside their contract, every reachable
    state and every program of `Next` and `Advance` calls, the conjunction searcher answers exactly like
    the contract machine over the matches every clause still has. -/
theorem run_refines (w : Weird) : ∀ (ops : List Op) (st : St), Inv st →
    runImpl w st ops = Bleve.BoolSearcher.runSpec (common st.chs) ops := by
  intro ops
  induction ops with
  | nil => intro st _; rfl
  | cons op ops ih =>
    intro st hi
    cases op with
    | next =>
      obtain ⟨n1, n2, n3⟩ := next_spec w st hi
      simp only [runImpl, Bleve.BoolSearcher.runSpec, Bleve.BoolSearcher.popList_eq]
      rw [n1, ih _ n3, n2]
    | adv t =>
      obtain ⟨a1, a2, a3⟩ := advance_spec w t st hi
      simp only [runImpl, Bleve.BoolSearcher.runSpec, Bleve.BoolSearcher.popList_eq]
      rw [a1, ih _ a3, a2]

/-! ## from the query's clauses -/

theorem init_inv (clauses : List (List Nat)) (h : ∀ l ∈ clauses, Asc l) : Inv (init clauses) := by
  refine ⟨?_, ?_⟩
  · intro c hc
    simp only [init] at hc
    obtain ⟨l, hl, rfl⟩ := List.mem_map.1 hc
    exact Bleve.BoolSearcher.fresh_next_ok l (h l hl)
  · cases clauses with
    | nil => exact Or.inr rfl
    | cons l ls => exact Or.inl (by simp [init])

theorem common_init (clauses : List (List Nat)) : common (init clauses).chs = conjDen clauses := by
  cases clauses with
  | nil => rfl
  | cons l ls =>
    show ((Ch.fresh l).next).all.filter (isCommon ((l :: ls).map (fun l => (Ch.fresh l).next))) = _
    rw [Bleve.BoolSearcher.fresh_next_all]
    unfold conjDen
    apply List.filter_congr
    intro d hd
    unfold isCommon
    rw [List.map_cons, List.all_cons, Bleve.BoolSearcher.fresh_next_all, List.contains_iff_mem.2 hd, Bool.true_and,
      List.all_map]
    apply all_congr_mem
    intro m _
    simp only [Function.comp, Bleve.BoolSearcher.fresh_next_all]

/-- **The conjunction searcher is correct**: built over clauses whose searchers keep the contract, for
    every program of `Next` and `Advance` calls and whatever the clause searchers do outside their
    contract, it answers like the contract machine over the intersection of the clauses' matches. -/
theorem conj_searcher_correct (w : Weird) (clauses : List (List Nat)) (h : ∀ l ∈ clauses, Asc l)
    (ops : List Op) :
    runImpl w (init clauses) ops = Bleve.BoolSearcher.runSpec (conjDen clauses) ops := by
  rw [run_refines w ops _ (init_inv clauses h), common_init]

theorem conjDen_asc (clauses : List (List Nat)) (h : ∀ l ∈ clauses, Asc l) : Asc (conjDen clauses) := by
  cases clauses with
  | nil => exact List.Pairwise.nil
  | cons l ls => exact List.Pairwise.sublist List.filter_sublist (h l List.mem_cons_self)

example : runImpl (fun _ c => c) (init [[1, 3, 5, 8, 9], [3, 5, 9], [0, 3, 8, 9]]) [.next, .adv 4, .next]
    = [some 3, some 9, none] := by decide
example : runImpl (fun _ c => c.next) (init [[1, 3, 5, 8, 9], [3, 5, 9], [0, 3, 8, 9]]) [.next, .adv 4, .next]
    = [some 3, some 9, none] := by decide

end Bleve.ConjSearcher
