import BleveModel.Model.Nested
set_option linter.unusedVariables false
set_option linter.unusedSimpArgs false
/-!
# C20 — Nested-object search respects object boundaries and returns each parent once

"With an array of objects mapped as nested, a conjunction whose conjuncts all address fields of that
array matches a document only if a single array element satisfies all of them, and keeps that
meaning when it is a clause of a larger query; clauses that address different arrays or top-level
fields are combined per parent document, for conjunction, disjunction and boolean
must/should/must-not alike. The same documents mapped without nesting match whenever each clause is
met by some element. Hits are always parent documents, each at most once, and DocCount, Total,
match-all, deletes and updates count and affect parents together with all their nested elements."

`Model/Nested.lean` is the statement as a Lean function (`eval nested q doc`).  `./check C20`
compares real searches on scorch under the nested and the un-nested mapping (after several separate
update / delete batches), DocCount and match-all with it.  Proved here: what the specification
itself guarantees for every document and query.  Two clauses of the statement are known to fail on
the unchanged tree (must_not, and counts ≥ 2 across levels, are not combined per parent): see
KNOWN_FINDINGS.txt; the check reports them under their own categories.
-/
namespace Bleve.Nested

/-- hits are parents, each at most once -/
theorem search_nodup (nested : Bool) (q : Q) (corpus : List Doc) (h : (corpus.map (·.id)).Nodup) :
    (search nested q corpus).Nodup := by
  unfold search
  exact List.Nodup.sublist (List.Sublist.map _ List.filter_sublist) h

theorem search_sub (nested : Bool) (q : Q) (corpus : List Doc) :
    ∀ i ∈ search nested q corpus, i ∈ corpus.map (·.id) := by
  intro i hi
  unfold search at hi
  exact (List.Sublist.map _ List.filter_sublist).subset hi

/-- without nesting a conjunction is met clause by clause -/
theorem unnested_conj (qs : List Q) (d : Doc) : eval false (.conj qs) d = evalAll false qs d := by
  simp [eval]

/-- **Object boundaries.** Under the nested mapping a conjunction whose leaves all address array `a`
    matches only if one single element of `a` satisfies every conjunct. -/
theorem nested_conj_witness (qs : List Q) (a : Name) (d : Doc) (hs : singleArray qs = some a)
    (h : eval true (.conj qs) d = true) : ∃ o ∈ d.elems a, allElem qs o = true := by
  simp only [eval, hs, if_true] at h
  rw [List.any_eq_true] at h
  exact h

/-- ... and conversely one element satisfying all conjuncts is enough -/
theorem nested_conj_of_witness (qs : List Q) (a : Name) (d : Doc) (hs : singleArray qs = some a)
    (o : Obj) (ho : o ∈ d.elems a) (hall : allElem qs o = true) : eval true (.conj qs) d = true := by
  simp only [eval, hs, if_true]
  rw [List.any_eq_true]
  exact ⟨o, ho, hall⟩

/-- a list of term leaves over fields of array `a` -/
def leaves (a : Name) (fts : List (Name × Term)) : List Q := fts.map (fun p => Q.term a p.1 p.2)

theorem allElem_leaves (a : Name) (fts : List (Name × Term)) (o : Obj) :
    allElem (leaves a fts) o = fts.all (fun p => o.has p.1 p.2) := by
  induction fts with
  | nil => rfl
  | cons p rest ih =>
    have ih' : allElem (List.map (fun p => Q.term a p.fst p.snd) rest) o = rest.all (fun p => o.has p.1 p.2) := ih
    simp [leaves, allElem, evalElem, ih']

theorem evalAll_leaves_unnested (a : Name) (ha : a.isEmpty = false) (fts : List (Name × Term)) (d : Doc) :
    evalAll false (leaves a fts) d = fts.all (fun p => (d.elems a).any (fun o => o.has p.1 p.2)) := by
  induction fts with
  | nil => rfl
  | cons p rest ih =>
    simp only [leaves, List.map_cons, evalAll, eval, ha, Bool.false_eq_true, if_false, List.all_cons]
    rw [← ih]; rfl

/-- **Nested is stricter than un-nested**: a same-element match is in particular a match clause by
    clause (so the un-nested mapping returns every document the nested one returns, for
    conjunctions of term leaves over one array). -/
theorem nested_implies_unnested (a : Name) (ha : a.isEmpty = false) (fts : List (Name × Term)) (d : Doc)
    (hs : singleArray (leaves a fts) = some a)
    (h : eval true (.conj (leaves a fts)) d = true) : eval false (.conj (leaves a fts)) d = true := by
  obtain ⟨o, ho, hall⟩ := nested_conj_witness _ a d hs h
  rw [unnested_conj, evalAll_leaves_unnested a ha]
  rw [allElem_leaves] at hall
  rw [List.all_eq_true] at hall ⊢
  intro p hp
  rw [List.any_eq_true]
  exact ⟨o, ho, hall p hp⟩

/-- the two readings differ exactly when the witnesses sit in different elements -/
example :
    let d : Doc := ⟨[1], [], [([101], [[([110], [1]), ([111], [2])], [([110], [3]), ([111], [4])]])]⟩
    let q : Q := .conj [.term [101] [110] [1], .term [101] [111] [4]]
    eval true q d = false ∧ eval false q d = true := by decide

end Bleve.Nested
