import BleveModel.Model.Nested
set_option linter.unusedVariables false
set_option linter.unusedSimpArgs false
/-!
# C20 — Nested-object search respects object boundaries and returns each parent once

"With an array of objects mapped as nested, a conjunction whose conjuncts all address fields of that
array matches a document only if a single array element satisfies all of them, and keeps that
meaning when it is a clause of a larger query; clauses that address different arrays or top-level
fields are combined per parent document, for conjunction, disjunction and boolean
must/should/must-not alike. The same documents mapped without nesting match whenever each clause is
met by some element. Hits are always parent documents, each at most once, and DocCount, Total,
match-all, deletes and updates count and affect parents together with all their nested elements."

`Model/Nested.lean` is the statement as a Lean function (`eval nested doc q context`), for any
nesting depth (a document is its own object plus every array element at any depth).  `./check C20`
compares real searches on scorch under the nested and the un-nested mapping (after several separate
update / delete batches), DocCount and match-all with it.  Proved here: what the specification
itself guarantees for every document and query.  Two clauses of the statement are known to fail on
the unchanged tree (must_not, and counts ≥ 2 across levels, are not combined per parent): see
KNOWN_FINDINGS.txt; the check reports them under their own categories.
-/
namespace Bleve.Nested

/-- hits are parents, each at most once -/
theorem search_nodup (nested : Bool) (q : Q) (corpus : List Doc) (h : (corpus.map (·.id)).Nodup) :
    (search nested q corpus).Nodup := by
  unfold search
  exact (List.Sublist.map _ List.filter_sublist).nodup h

theorem search_sub (nested : Bool) (q : Q) (corpus : List Doc) :
    ∀ i ∈ search nested q corpus, ∃ d ∈ corpus, d.id = i ∧ docMatches nested q d = true := by
  intro i hi
  simp only [search, List.mem_map, List.mem_filter] at hi
  obtain ⟨d, ⟨hd, hm⟩, rfl⟩ := hi
  exact ⟨d, hd, rfl, hm⟩

/-- without nesting a conjunction is its clauses, each on its own -/
theorem unnested_conj (d : Doc) (qs : List Q) (c : Node) :
    eval false d (.conj qs) c = evalAll false d qs c := by
  simp [eval]

/-- **Same element.**  Under the nested mapping a conjunction whose leaves share an array path deeper
than the context holds exactly when ONE object at that path, inside the context, satisfies every
clause. -/
theorem nested_conj_iff (d : Doc) (qs : List Q) (c : Node) (h : c.apath.length < (joinPath qs).length) :
    eval true d (.conj qs) c = true ↔
      ∃ m ∈ d.nodes, m.apath = joinPath qs ∧ below c m = true ∧ evalAll true d qs m = true := by
  simp only [eval, Bool.true_and, decide_eq_true_eq, h, if_true, List.any_eq_true, Bool.and_eq_true, beq_iff_eq]
  constructor
  · rintro ⟨m, hm, ⟨h1, h2⟩, h3⟩; exact ⟨m, hm, h1, h2, h3⟩
  · rintro ⟨m, hm, h1, h2, h3⟩; exact ⟨m, hm, ⟨h1, h2⟩, h3⟩

/-- clauses with no array in common (different arrays, or an array and a top-level field) are
combined per enclosing object: at the top, per parent document -/
theorem nested_conj_per_parent (d : Doc) (qs : List Q) (h : joinPath qs = []) :
    eval true d (.conj qs) root = evalAll true d qs root := by
  simp [eval, h, root]

/-- everything lies below the whole document -/
theorem below_root (n : Node) : below root n = true := by simp [below, root]

/-- a leaf that holds inside some object holds for the document -/
theorem term_mono (nested : Bool) (d : Doc) (p : Path) (f : Name) (t : Term) (c : Node)
    (h : eval nested d (.term p f t) c = true) : eval nested d (.term p f t) root = true := by
  simp only [eval, List.any_eq_true, Bool.and_eq_true, beq_iff_eq] at h ⊢
  obtain ⟨n, hn, ⟨h1, _⟩, h3⟩ := h
  exact ⟨n, hn, ⟨h1, below_root n⟩, h3⟩

def leaves (fts : List (Path × Name × Term)) : List Q := fts.map (fun p => Q.term p.1 p.2.1 p.2.2)

theorem leaves_mono (nested : Bool) (d : Doc) (fts : List (Path × Name × Term)) (c : Node)
    (h : evalAll nested d (leaves fts) c = true) : evalAll false d (leaves fts) root = true := by
  induction fts with
  | nil => rfl
  | cons p rest ih =>
    simp only [leaves, List.map_cons, evalAll, Bool.and_eq_true] at h ⊢
    refine ⟨?_, ih h.2⟩
    have := term_mono nested d p.1 p.2.1 p.2.2 c h.1
    simpa [eval] using this

/-- **Nested is stricter than un-nested**: a conjunction of term leaves (over any arrays, at any
depth) that matches a document under the nested mapping matches it without nesting too. -/
theorem nested_implies_unnested (d : Doc) (fts : List (Path × Name × Term))
    (h : docMatches true (.conj (leaves fts)) d = true) : docMatches false (.conj (leaves fts)) d = true := by
  unfold docMatches at h ⊢
  rw [unnested_conj]
  simp only [eval] at h
  split at h
  · simp only [List.any_eq_true, Bool.and_eq_true] at h
    obtain ⟨m, _, _, hm⟩ := h
    exact leaves_mono true d fts m hm
  · exact leaves_mono true d fts root h

/-- the two readings differ exactly when the witnesses sit in different elements; with two levels,
the inner elements must also sit inside one and the same outer element -/
example :
    let d : Doc := ⟨[1], [⟨[], [], []⟩, ⟨[[101]], [0], [([110], [1]), ([111], [2])]⟩, ⟨[[101]], [1], [([110], [3]), ([111], [4])]⟩]⟩
    let q : Q := .conj [.term [[101]] [110] [1], .term [[101]] [111] [4]]
    docMatches true q d = false ∧ docMatches false q d = true := by decide

example :
    let d : Doc := ⟨[1], [⟨[], [], []⟩, ⟨[[101]], [0], [([110], [1])]⟩, ⟨[[101], [102]], [0, 0], [([120], [7])]⟩,
      ⟨[[101]], [1], [([110], [3])]⟩, ⟨[[101], [102]], [1, 0], [([120], [8])]⟩]⟩
    -- name 1 and tag 8 exist, but in different outer elements
    docMatches true (.conj [.term [[101]] [110] [1], .term [[101], [102]] [120] [8]]) d = false ∧
    docMatches true (.conj [.term [[101]] [110] [3], .term [[101], [102]] [120] [8]]) d = true ∧
    docMatches true (.term [[101], [102]] [120] [7]) d = true := by decide

end Bleve.Nested
