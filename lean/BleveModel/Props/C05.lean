import BleveModel.Props.Snapshot
set_option linter.unusedVariables false
/-!
# C05 — Merging and persisting never change what any search returns

"For a fixed logical content, every request returns the same answer whatever the physical segment
layout: however the history was batched, whether segments are still in memory or on disk, before and
after background merges, in-memory merges by any number of persister workers, forced merges, and
close/reopen. Hit ids, Total, order under any sort, stored fields, term locations and highlights,
facet counts and tf-idf scores are all identical."

Proved (over `Model/Snapshot.lean`, for every history): two runs of the introducer that were given
the same batches but any different merges in between answer every lookup identically, have the same
document count and both keep the one-live-document-per-id invariant — the logical content is a
function of the batches alone.  Every root swap of the real introducer (segment introduction, merge,
persist) is replayed on the model by `./check C05` (structural equality for introductions, equal
live documents for merges and persists), and the same request family is run on seven layouts of the
same history and compared bit for bit, scores included.
Two score deviations of the unchanged tree are known findings (KNOWN_FINDINGS.txt).
-/
namespace Bleve.Snapshot
open Bleve.KV (Bytes)

/-- **Layout independence of the content**: same batches, any merges ⇒ same answer to every lookup. -/
theorem layout_independent (es₁ es₂ : List Event) (id : Bytes) (h₁ : WellFormed es₁) (h₂ : WellFormed es₂)
    (hb : batchesOf es₁ = batchesOf es₂) : lookup (run es₁) id = lookup (run es₂) id := by
  rw [(reachable_refines es₁ id h₁).1, (reachable_refines es₂ id h₂).1, hb]

/-- inserting a merge anywhere in a history changes no lookup -/
theorem merge_anywhere (es₁ es₂ : List Event) (sids : List Nat) (n : Nat) (id : Bytes)
    (h₁ : WellFormed es₁) (h₂ : WellFormed es₂) :
    lookup (run (es₁ ++ [.merge sids n] ++ es₂)) id = lookup (run (es₁ ++ es₂)) id := by
  have wf : ∀ (a b : List Event), WellFormed a → WellFormed b → WellFormed (a ++ b) := by
    intro a
    induction a with
    | nil => intro b _ hb; exact hb
    | cons e rest ih =>
      intro b ha hb
      cases e with
      | batch bb sid => exact ⟨ha.1, ih b ha.2 hb⟩
      | merge s m => exact ih b ha hb
  have bo : ∀ (a b : List Event), batchesOf (a ++ b) = batchesOf a ++ batchesOf b := by
    intro a
    induction a with
    | nil => intro b; rfl
    | cons e rest ih =>
      intro b
      cases e with
      | batch bb sid => simp [batchesOf, ih]
      | merge s m => simp [batchesOf, ih]
  apply layout_independent
  · exact wf _ _ (wf _ _ h₁ (by simp [WellFormed])) h₂
  · exact wf _ _ h₁ h₂
  · rw [bo, bo, bo]; simp [batchesOf]

/-- the number of live documents is a function of the batches alone as well -/
theorem docCount_merge_anywhere (r : Snap) (sids : List Nat) (n : Nat) :
    docCount (mergeSegs r sids n) = docCount r := merge_docCount r sids n

end Bleve.Snapshot
