import BleveModel.Props.Snapshot
set_option linter.unusedVariables false
/-!
# C05 — Merging and persisting never change what any search returns

"For a fixed logical content, every request returns the same answer whatever the physical segment
layout: however the history was batched, whether segments are still in memory or on disk, before and
after background merges, in-memory merges by any number of persister workers, forced merges, and
close/reopen. Hit ids, Total, order under any sort, stored fields, term locations and highlights,
facet counts and tf-idf scores are all identical."

Proved (over `Model/Snapshot.lean`, for every history): two runs of the introducer that were given
the same batches but any different merges in between answer every lookup identically, have the same
document count and both keep the one-live-document-per-id invariant — the logical content is a
function of the batches alone.  Every root swap of the real introducer (segment introduction, merge,
persist) is replayed on the model by `./check C05` (structural equality for introductions, equal
live documents for merges and persists), and the same request family is run on seven layouts of the
same history and compared bit for bit, scores included.
Two score deviations of the unchanged tree are known findings (KNOWN_FINDINGS.txt).
-/
namespace Bleve.Snapshot
open Bleve.KV (Bytes)

/-- **Layout independence of the content**: same batches, any merges ⇒ same answer to every lookup. -/
theorem layout_independent (es₁ es₂ : List Event) (id : Bytes) (h₁ : WellFormed es₁) (h₂ : WellFormed es₂)
    (hb : batchesOf es₁ = batchesOf es₂) : lookup (run es₁) id = lookup (run es₂) id := by
  rw [(reachable_refines es₁ id h₁).1, (reachable_refines es₂ id h₂).1, hb]

/-- inserting a merge anywhere in a history changes no lookup -/
theorem merge_anywhere (es₁ es₂ : List Event) (sids : List Nat) (n : Nat) (id : Bytes)
    (h₁ : WellFormed es₁) (h₂ : WellFormed es₂) :
    lookup (run (es₁ ++ [.merge sids n] ++ es₂)) id = lookup (run (es₁ ++ es₂)) id := by
  have wf : ∀ (a b : List Event), WellFormed a → WellFormed b → WellFormed (a ++ b) := by
    intro a
    induction a with
    | nil => intro b _ hb; exact hb
    | cons e rest ih =>
      intro b ha hb
      cases e with
      | batch bb sid => exact ⟨ha.1, ih b ha.2 hb⟩
      | merge s m => exact ih b ha hb
  have bo : ∀ (a b : List Event), batchesOf (a ++ b) = batchesOf a ++ batchesOf b := by
    intro a
    induction a with
    | nil => intro b; rfl
    | cons e rest ih =>
      intro b
      cases e with
      | batch bb sid => simp [batchesOf, ih]
      | merge s m => simp [batchesOf, ih]
  apply layout_independent
  · exact wf _ _ (wf _ _ h₁ (by simp [WellFormed])) h₂
  · exact wf _ _ h₁ h₂
  · rw [bo, bo, bo]; simp [batchesOf]

/-- the number of live documents is a function of the batches alone as well -/
theorem docCount_merge_anywhere (r : Snap) (sids : List Nat) (n : Nat) :
    docCount (mergeSegs r sids n) = docCount r := merge_docCount r sids n

/-! ## the whole content, not one lookup at a time

`layout_independent` fixes an id; the statements below lift it to the observable content as a whole:
the set of live documents of two layouts of the same batches is the same up to order (so `DocCount`,
every enumeration and every answer computed from the live documents agree), and re-batching the same
operations (one batch cut in two) changes nothing either. -/

/-- two association lists with distinct keys that answer every lookup alike hold the same entries -/
theorem perm_of_lookup_eq (l₁ l₂ : List (Bytes × Bytes)) (h₁ : (l₁.map (·.1)).Nodup) (h₂ : (l₂.map (·.1)).Nodup)
    (h : ∀ k, l₁.lookup k = l₂.lookup k) : l₁.Perm l₂ := by
  have nd : ∀ (l : List (Bytes × Bytes)), (l.map (·.1)).Nodup → l.Nodup := by
    intro l hl
    exact List.Pairwise.of_map (·.1) (fun a b hab e => hab (by rw [e])) hl
  apply (List.perm_ext_iff_of_nodup (nd l₁ h₁) (nd l₂ h₂)).2
  intro ⟨k, v⟩
  constructor
  · intro hm
    have := lookup_some_of_mem l₁ k v h₁ hm
    rw [h k] at this
    exact mem_of_lookup_some l₂ k v this
  · intro hm
    have := lookup_some_of_mem l₂ k v h₂ hm
    rw [← h k] at this
    exact mem_of_lookup_some l₁ k v this

/-- **Layout independence of the whole content**: same batches, any merges ⇒ the live documents of the
    two roots are the same multiset. -/
theorem layout_independent_content (es₁ es₂ : List Event) (h₁ : WellFormed es₁) (h₂ : WellFormed es₂)
    (hb : batchesOf es₁ = batchesOf es₂) : (liveDocs (run es₁)).Perm (liveDocs (run es₂)) :=
  perm_of_lookup_eq _ _ (reachable_refines es₁ [] h₁).2 (reachable_refines es₂ [] h₂).2
    (fun k => layout_independent es₁ es₂ k h₁ h₂ hb)

/-- … hence the same `DocCount` -/
theorem layout_independent_docCount (es₁ es₂ : List Event) (h₁ : WellFormed es₁) (h₂ : WellFormed es₂)
    (hb : batchesOf es₁ = batchesOf es₂) : docCount (run es₁) = docCount (run es₂) :=
  (layout_independent_content es₁ es₂ h₁ h₂ hb).length_eq

/-- **Re-batching**: two histories whose batch lists replay to the same content (whatever the cut
    points) answer every lookup alike and count the same documents. -/
theorem rebatch_independent (es₁ es₂ : List Event) (h₁ : WellFormed es₁) (h₂ : WellFormed es₂)
    (hb : ∀ id, replay (batchesOf es₁) id = replay (batchesOf es₂) id) :
    (∀ id, lookup (run es₁) id = lookup (run es₂) id) ∧ docCount (run es₁) = docCount (run es₂) := by
  have hl : ∀ id, lookup (run es₁) id = lookup (run es₂) id := by
    intro id
    rw [(reachable_refines es₁ id h₁).1, (reachable_refines es₂ id h₂).1, hb id]
  exact ⟨hl, (perm_of_lookup_eq _ _ (reachable_refines es₁ [] h₁).2 (reachable_refines es₂ [] h₂).2 hl).length_eq⟩

/-- cutting one batch with distinct ids in two consecutive batches replays to the same content -/
theorem replayLast_split (b₁ b₂ : Batch) (rest : List Batch) (id : Bytes)
    (hn : ((b₁ ++ b₂).map (·.1)).Nodup) :
    replay.replayLast (b₁ :: b₂ :: rest) id = replay.replayLast ((b₁ ++ b₂) :: rest) id := by
  simp only [replay.replayLast]
  cases replay.replayLast rest id with
  | some v => rfl
  | none =>
    simp only [batchSays, List.lookup_append]
    cases h2 : b₂.lookup id with
    | none => simp
    | some v =>
      cases h1 : b₁.lookup id with
      | none => simp
      | some w =>
        exfalso
        rw [List.map_append, List.nodup_append] at hn
        have m1 : id ∈ b₁.map (·.1) := List.mem_map_of_mem (f := (·.1)) (mem_of_lookup_some b₁ id w h1)
        have m2 : id ∈ b₂.map (·.1) := List.mem_map_of_mem (f := (·.1)) (mem_of_lookup_some b₂ id v h2)
        exact hn.2.2 id m1 id m2 rfl

example : docCount (run [.batch [([1], some [10]), ([2], some [20])] 1, .batch [([1], none)] 2, .merge [1, 2] 3])
    = docCount (run [.batch [([1], some [10]), ([2], some [20])] 7, .batch [([1], none)] 9]) := by decide

end Bleve.Snapshot
