import BleveModel.Props.C10
import BleveModel.Props.C07
set_option linter.unusedSimpArgs false
set_option linter.unusedVariables false
/-!
# C10, second sentence — numeric and date range facets

"numeric and date range facets report for each range the number of values of matching documents
falling in [min, max)".  Proved on `Model/Facet.lean` (`numFacet`, `dateFacet`), for every list of
matching documents, every list of ranges with distinct names and every facet size, and linked to the
values themselves through the round trip of the term encoding (`Numeric.decode_prefixCode_zero`).
-/
namespace Bleve.Facet
open Bleve.TopN

/-! ## range facets (numeric and date): what the counters hold after all matching documents -/

/-- names of the ranges a numeric doc-value term falls into (none for a term of another shift) -/
def hitNum (ranges : List NumRange) (term : Bytes) : List Bytes :=
  match Numeric.shiftOf term, Numeric.decodeInt64 term with
  | some 0, some i64 => (ranges.filter (fun r => r.contains (Numeric.i2f (BitVec.ofInt 64 i64)))).map (·.name)
  | _, _ => []

def hitDate (ranges : List DateRange) (term : Bytes) : List Bytes :=
  match Numeric.shiftOf term, Numeric.decodeInt64 term with
  | some 0, some i64 => (ranges.filter (fun r => r.contains i64)).map (·.name)
  | _, _ => []

/-- the common shape of both builders' `UpdateVisitor` -/
def rangeVisitTerm (hit : Bytes → List Bytes) (st : FState) (term : Bytes) : FState :=
  { st with counts := (hit term).foldl bump st.counts, total := st.total + (hit term).length }

theorem numVisitTerm_eq (ranges : List NumRange) (st : FState) (term : Bytes) :
    numVisitTerm ranges st term = rangeVisitTerm (hitNum ranges) st term := by
  unfold numVisitTerm rangeVisitTerm hitNum
  split
  · rename_i h1 h2
    simp only [h1, h2, List.foldl_map, List.length_map]
  · rename_i h
    split
    · rename_i h1 h2; exact absurd h2 (h _ h1)
    · simp

theorem dateVisitTerm_eq (ranges : List DateRange) (st : FState) (term : Bytes) :
    dateVisitTerm ranges st term = rangeVisitTerm (hitDate ranges) st term := by
  unfold dateVisitTerm rangeVisitTerm hitDate
  split
  · rename_i h1 h2
    simp only [h1, h2, List.foldl_map, List.length_map]
  · rename_i h
    split
    · rename_i h1 h2; exact absurd h2 (h _ h1)
    · simp

theorem rangeVisit_terms (hit : Bytes → List Bytes) (terms : List Bytes) (st : FState) (u : Bytes) :
    countOf (terms.foldl (rangeVisitTerm hit) st).counts u = countOf st.counts u + (terms.flatMap hit).count u ∧
    (terms.foldl (rangeVisitTerm hit) st).total = st.total + (terms.flatMap hit).length ∧
    sumC (terms.foldl (rangeVisitTerm hit) st).counts = sumC st.counts + (terms.flatMap hit).length ∧
    (terms.foldl (rangeVisitTerm hit) st).missing = st.missing := by
  induction terms generalizing st with
  | nil => simp
  | cons t ts ih =>
    simp only [List.foldl_cons, List.flatMap_cons, List.count_append, List.length_append]
    obtain ⟨h1, h2, h3, h4⟩ := ih (rangeVisitTerm hit st t)
    have s1 : countOf (rangeVisitTerm hit st t).counts u = countOf st.counts u + (hit t).count u := by
      simp only [rangeVisitTerm, countOf_foldl_bump]
    have s2 : (rangeVisitTerm hit st t).total = st.total + (hit t).length := rfl
    have s3 : sumC (rangeVisitTerm hit st t).counts = sumC st.counts + (hit t).length := by
      simp only [rangeVisitTerm, sumC_foldl_bump]
    have s4 : (rangeVisitTerm hit st t).missing = st.missing := rfl
    refine ⟨by omega, by omega, by omega, by omega⟩

/-- both builders' per-document step in the common shape -/
def rangeVisitDoc (hit : Bytes → List Bytes) (st : FState) (terms : List Bytes) : FState :=
  let st' := terms.foldl (rangeVisitTerm hit) st
  { st' with missing := if terms.isEmpty then st'.missing + 1 else st'.missing }

theorem numVisitDoc_eq (ranges : List NumRange) (st : FState) (terms : List Bytes) :
    numVisitDoc ranges st terms = rangeVisitDoc (hitNum ranges) st terms := by
  unfold numVisitDoc rangeVisitDoc
  have : numVisitTerm ranges = rangeVisitTerm (hitNum ranges) := by
    funext st t; exact numVisitTerm_eq ranges st t
  rw [this]

theorem dateVisitDoc_eq (ranges : List DateRange) (st : FState) (terms : List Bytes) :
    dateVisitDoc ranges st terms = rangeVisitDoc (hitDate ranges) st terms := by
  unfold dateVisitDoc rangeVisitDoc
  have : dateVisitTerm ranges = rangeVisitTerm (hitDate ranges) := by
    funext st t; exact dateVisitTerm_eq ranges st t
  rw [this]

theorem rangeVisit_docs (hit : Bytes → List Bytes) (docs : List (List Bytes)) (st : FState) (u : Bytes) :
    countOf (docs.foldl (rangeVisitDoc hit) st).counts u
        = countOf st.counts u + (docs.map (fun d => (d.flatMap hit).count u)).sum ∧
    (docs.foldl (rangeVisitDoc hit) st).total = st.total + (docs.map (fun d => (d.flatMap hit).length)).sum ∧
    sumC (docs.foldl (rangeVisitDoc hit) st).counts = sumC st.counts + (docs.map (fun d => (d.flatMap hit).length)).sum ∧
    (docs.foldl (rangeVisitDoc hit) st).missing = st.missing + (docs.filter (·.isEmpty)).length := by
  induction docs generalizing st with
  | nil => simp
  | cons d ds ih =>
    simp only [List.foldl_cons, List.map_cons, List.sum_cons, List.filter_cons]
    obtain ⟨h1, h2, h3, h4⟩ := ih (rangeVisitDoc hit st d)
    obtain ⟨g1, g2, g3, g4⟩ := rangeVisit_terms hit d st u
    rw [h1, h2, h3, h4]
    simp only [rangeVisitDoc]
    rw [g1, g2, g3, g4]
    split <;> simp_all <;> omega


/-! ### from names to ranges -/

theorem count_filter_names {α : Type} (name : α → Bytes) (p : α → Bool) :
    ∀ (l : List α), ((l.map name)).Nodup → ∀ r ∈ l,
    ((l.filter p).map name).count (name r) = if p r then 1 else 0 := by
  intro l
  induction l with
  | nil => intro _ r hr; simp at hr
  | cons a l ih =>
    intro hn r hr
    simp only [List.map_cons, List.nodup_cons] at hn
    rcases List.mem_cons.mp hr with rfl | hr
    · have hnot : ((l.filter p).map name).count (name r) = 0 := by
        apply List.count_eq_zero.mpr
        intro hm
        obtain ⟨x, hx, hxe⟩ := List.mem_map.mp hm
        exact hn.1 (List.mem_map.mpr ⟨x, (List.mem_filter.mp hx).1, hxe⟩)
      by_cases hp : p r
      · simp [List.filter_cons, hp, hnot]
      · simp [List.filter_cons, hp, hnot]
    · have hne : name a ≠ name r := by
        intro he; exact hn.1 (he ▸ List.mem_map.mpr ⟨r, hr, rfl⟩)
      have := ih hn.2 r hr
      by_cases hp : p a
      · simp [List.filter_cons, hp, List.count_cons, hne, this]
      · simp [List.filter_cons, hp, this]

/-! ### numeric ranges -/

/-- the value a doc-value term of a numeric field stands for (only full-precision terms count) -/
def numValOf (t : Bytes) : Option Numeric.W :=
  match Numeric.shiftOf t, Numeric.decodeInt64 t with
  | some 0, some i64 => some (Numeric.i2f (BitVec.ofInt 64 i64))
  | _, _ => none

/-- the values a numeric field of one document holds, read back from its doc-value terms -/
def numValues (terms : List Bytes) : List Numeric.W := terms.filterMap numValOf

theorem hitNum_eq (ranges : List NumRange) (t : Bytes) :
    hitNum ranges t = match numValOf t with
      | some v => (ranges.filter (fun r => r.contains v)).map (·.name)
      | none => [] := by
  unfold hitNum numValOf
  cases hs : Numeric.shiftOf t with
  | none => simp
  | some n =>
    cases hd : Numeric.decodeInt64 t with
    | none => cases n <;> simp
    | some i => cases n <;> simp

theorem hitNum_count (ranges : List NumRange) (hn : (ranges.map (·.name)).Nodup) (r : NumRange)
    (hr : r ∈ ranges) (terms : List Bytes) :
    (terms.flatMap (hitNum ranges)).count r.name = (numValues terms).countP r.contains := by
  induction terms with
  | nil => simp [numValues]
  | cons t ts ih =>
    simp only [List.flatMap_cons, List.count_append, ih, numValues, List.filterMap_cons, hitNum_eq]
    cases hv : numValOf t with
    | none => simp
    | some v =>
      simp only [List.countP_cons]
      rw [count_filter_names (·.name) _ ranges hn r hr]
      split <;> omega

/-- **Numeric range facet, counts.**  After all matching documents the counter of every range is the
number of values of those documents that lie in the range (lower bound inclusive, upper exclusive). -/
theorem num_range_counts (ranges : List NumRange) (hn : (ranges.map (·.name)).Nodup) (r : NumRange)
    (hr : r ∈ ranges) (docs : List (List Bytes)) :
    countOf (docs.foldl (numVisitDoc ranges) {}).counts r.name
      = (docs.map (fun d => (numValues d).countP r.contains)).sum := by
  have e : numVisitDoc ranges = rangeVisitDoc (hitNum ranges) := by
    funext st d; exact numVisitDoc_eq ranges st d
  rw [e, (rangeVisit_docs (hitNum ranges) docs {} r.name).1]
  simp only [countOf, Nat.zero_add]
  congr 1
  apply List.map_congr_left
  intro d _
  exact hitNum_count ranges hn r hr d

/-- **Accounting**: Total is the number of (value, range) hits, the counters add up to it exactly, so
`Other` is exactly what the trimmed list leaves out; Missing counts the matches without the field. -/
theorem num_accounting (size : Nat) (ranges : List NumRange) (docs : List (List Bytes)) :
    sumC (numFacet size ranges docs).listed + (numFacet size ranges docs).other = (numFacet size ranges docs).total ∧
    (numFacet size ranges docs).missing = (docs.filter (·.isEmpty)).length := by
  have e : numVisitDoc ranges = rangeVisitDoc (hitNum ranges) := by
    funext st d; exact numVisitDoc_eq ranges st d
  obtain ⟨_, h2, h3, h4⟩ := rangeVisit_docs (hitNum ranges) docs {} []
  unfold numFacet
  rw [e]
  refine ⟨accounting size _ ?_, ?_⟩
  · rw [h2, h3]; simp [sumC]
  · simp only [result, h4]; simp

theorem numValOf_coarse (t : Bytes) (s : Nat) (hs : Numeric.shiftOf t = some s) (h : 1 ≤ s) :
    numValOf t = none := by
  unfold numValOf
  rw [hs]
  cases s with
  | zero => omega
  | succ n => simp

/-- the doc-value terms `NumericField.Analyze` writes for one value read back as exactly that value -/
theorem numValues_numericTerms (v : Numeric.W) : numValues (numericTerms v) = [v] := by
  have hi := Numeric.toInt_inI64 (Numeric.f2i v)
  have coarse : ∀ (ls : List Nat), (∀ l ∈ ls, 1 ≤ l ∧ l ≤ 15) →
      numValues (ls.filterMap (fun l => Numeric.prefixCode (Numeric.f2i v).toInt (4 * l))) = [] := by
    intro ls
    induction ls with
    | nil => intro _; simp [numValues]
    | cons l ls ih =>
      intro h
      have hl := h l List.mem_cons_self
      have ht : ∃ t, Numeric.prefixCode (Numeric.f2i v).toInt (4 * l) = some t := by
        simp only [Numeric.prefixCode, show ¬ (4 * l > 63) by omega, if_false]; exact ⟨_, rfl⟩
      obtain ⟨t, ht⟩ := ht
      have hs := Numeric.shiftOf_prefixCode _ (4 * l) (by omega) t ht
      have := ih (fun x hx => h x (List.mem_cons_of_mem _ hx))
      simp only [numValues] at this ⊢
      simp only [List.filterMap_cons, ht, numValOf_coarse t (4 * l) hs (by omega), this]
  have hr : List.range 16 = 0 :: (List.range 15).map (· + 1) := by decide
  unfold numericTerms
  rw [hr]
  have ht0 : ∃ t, Numeric.prefixCode (Numeric.f2i v).toInt (4 * 0) = some t := by
    simp [Numeric.prefixCode]
  obtain ⟨t0, ht0⟩ := ht0
  have hdec := Numeric.decode_prefixCode_zero _ hi t0 (by simpa using ht0)
  have hc := coarse ((List.range 15).map (· + 1)) (by
    intro l hl
    obtain ⟨x, hx, rfl⟩ := List.mem_map.mp hl
    have := List.mem_range.mp hx
    omega)
  have hv0 : numValOf t0 = some v := by
    unfold numValOf
    rw [hdec.1, hdec.2]
    simp only []
    rw [BitVec.ofInt_toInt, Numeric.i2f_f2i]
  simp only [numValues] at hc ⊢
  simp only [List.filterMap_cons, ht0, hv0, hc]

theorem numValues_flatMap (vs : List Numeric.W) : numValues (vs.flatMap numericTerms) = vs := by
  induction vs with
  | nil => simp [numValues]
  | cons v vs ih =>
    simp only [List.flatMap_cons]
    have : numValues (numericTerms v ++ vs.flatMap numericTerms)
        = numValues (numericTerms v) ++ numValues (vs.flatMap numericTerms) := by
      simp [numValues, List.filterMap_append]
    rw [this, numValues_numericTerms, ih]
    rfl

/-- **Numeric range facet over the documents' values.**  When every matching document is given by the
values of the faceted field (each indexed as its sixteen prefix-coded terms), the counter of a range
is the number of those values in [min, max). -/
theorem num_range_counts_values (ranges : List NumRange) (hn : (ranges.map (·.name)).Nodup)
    (r : NumRange) (hr : r ∈ ranges) (docs : List (List Numeric.W)) :
    countOf ((docs.map (fun vs => vs.flatMap numericTerms)).foldl (numVisitDoc ranges) {}).counts r.name
      = (docs.map (fun vs => vs.countP r.contains)).sum := by
  rw [num_range_counts ranges hn r hr]
  simp only [List.map_map]
  congr 1
  apply List.map_congr_left
  intro vs _
  simp only [Function.comp]
  congr 1
  exact numValues_flatMap vs

/-! ### date ranges (nanoseconds since the epoch) -/

def dateValOf (t : Bytes) : Option Int :=
  match Numeric.shiftOf t, Numeric.decodeInt64 t with
  | some 0, some i64 => some i64
  | _, _ => none

def dateValues (terms : List Bytes) : List Int := terms.filterMap dateValOf

theorem hitDate_eq (ranges : List DateRange) (t : Bytes) :
    hitDate ranges t = match dateValOf t with
      | some v => (ranges.filter (fun r => r.contains v)).map (·.name)
      | none => [] := by
  unfold hitDate dateValOf
  cases hs : Numeric.shiftOf t with
  | none => simp
  | some n =>
    cases hd : Numeric.decodeInt64 t with
    | none => cases n <;> simp
    | some i => cases n <;> simp

theorem hitDate_count (ranges : List DateRange) (hn : (ranges.map (·.name)).Nodup) (r : DateRange)
    (hr : r ∈ ranges) (terms : List Bytes) :
    (terms.flatMap (hitDate ranges)).count r.name = (dateValues terms).countP r.contains := by
  induction terms with
  | nil => simp [dateValues]
  | cons t ts ih =>
    simp only [List.flatMap_cons, List.count_append, ih, dateValues, List.filterMap_cons, hitDate_eq]
    cases hv : dateValOf t with
    | none => simp
    | some v =>
      simp only [List.countP_cons]
      rw [count_filter_names (·.name) _ ranges hn r hr]
      split <;> omega

/-- **Date range facet, counts**: the counter of a range is the number of date values of matching
documents with start ≤ value < end. -/
theorem date_range_counts (ranges : List DateRange) (hn : (ranges.map (·.name)).Nodup) (r : DateRange)
    (hr : r ∈ ranges) (docs : List (List Bytes)) :
    countOf (docs.foldl (dateVisitDoc ranges) {}).counts r.name
      = (docs.map (fun d => (dateValues d).countP r.contains)).sum := by
  have e : dateVisitDoc ranges = rangeVisitDoc (hitDate ranges) := by
    funext st d; exact dateVisitDoc_eq ranges st d
  rw [e, (rangeVisit_docs (hitDate ranges) docs {} r.name).1]
  simp only [countOf, Nat.zero_add]
  congr 1
  apply List.map_congr_left
  intro d _
  exact hitDate_count ranges hn r hr d

theorem date_accounting (size : Nat) (ranges : List DateRange) (docs : List (List Bytes)) :
    sumC (dateFacet size ranges docs).listed + (dateFacet size ranges docs).other = (dateFacet size ranges docs).total ∧
    (dateFacet size ranges docs).missing = (docs.filter (·.isEmpty)).length := by
  have e : dateVisitDoc ranges = rangeVisitDoc (hitDate ranges) := by
    funext st d; exact dateVisitDoc_eq ranges st d
  obtain ⟨_, h2, h3, h4⟩ := rangeVisit_docs (hitDate ranges) docs {} []
  unfold dateFacet
  rw [e]
  refine ⟨accounting size _ ?_, ?_⟩
  · rw [h2, h3]; simp [sumC]
  · simp only [result, h4]; simp

/-! non-vacuity: values 1.0 and 2.0 and 5.0 in two documents, ranges [1,3) and [2,∞) -/
example : (numFacet 5 [⟨[97], some 0x3ff0000000000000#64, some 0x4008000000000000#64⟩, ⟨[98], some 0x4000000000000000#64, none⟩]
    [numericTerms 0x3ff0000000000000#64 ++ numericTerms 0x4000000000000000#64, numericTerms 0x4014000000000000#64, []]).listed
    = [⟨[97], 2⟩, ⟨[98], 2⟩] := by decide

end Bleve.Facet
