import BleveModel.Model.Query
set_option linter.unusedSimpArgs false
set_option linter.unusedVariables false
/-!
# C08 — Searchers yield ascending ids; Advance lands on the first match at/after target

"For every searcher that a query can build, alone or nested in any composition, successive results
have strictly increasing internal ids, and Advance(id) with a target beyond the last returned id (or
as the very first call) returns the first match whose id is not smaller than the target, never
skipping or repeating a match. Consequently any interleaving of Next and forward Advance calls visits
a subsequence of the Next-only enumeration that contains every match at or after each requested
target."

The contract is `Query.runContract` over the ascending list of matching ids; `./check C08` drives the
real searchers with random forward programs and compares every answer with it.  The theorems below
are the consequences the statement draws from the contract, for every ascending list and every
program.
-/
namespace Bleve.Query

def Asc (l : List Nat) : Prop := l.Pairwise (· < ·)

theorem asc_tail {l : List Nat} (h : Asc l) : Asc l.tail := by
  cases l with
  | nil => exact h
  | cons x xs => exact (List.pairwise_cons.1 h).2

theorem asc_dropWhile {l : List Nat} (h : Asc l) (p : Nat → Bool) : Asc (l.dropWhile p) :=
  List.Pairwise.sublist (List.dropWhile_sublist p) h

theorem dropWhile_head_not (p : Nat → Bool) : ∀ (l : List Nat) (a : Nat) (as : List Nat),
    l.dropWhile p = a :: as → p a = false := by
  intro l
  induction l with
  | nil => intro a as h; simp at h
  | cons x xs ih =>
    intro a as h
    simp only [List.dropWhile_cons] at h
    split at h
    · exact ih a as h
    · rename_i hp
      injection h with h1 _
      subst h1; simpa using hp

theorem mem_takeWhile_p (p : Nat → Bool) : ∀ (l : List Nat) (x : Nat), x ∈ l.takeWhile p → p x = true := by
  intro l
  induction l with
  | nil => intro x h; simp at h
  | cons y ys ih =>
    intro x h
    simp only [List.takeWhile_cons] at h
    split at h
    · rename_i hp
      rcases List.mem_cons.1 h with rfl | h'
      · exact hp
      · exact ih x h'
    · simp at h

theorem dropWhile_nil_all (p : Nat → Bool) : ∀ (l : List Nat), l.dropWhile p = [] → ∀ y ∈ l, p y = true := by
  intro l
  induction l with
  | nil => intro _ y hy; simp at hy
  | cons x xs ih =>
    intro h y hy
    simp only [List.dropWhile_cons] at h
    split at h
    · rename_i hp
      rcases List.mem_cons.1 hy with rfl | hy'
      · exact hp
      · exact ih h y hy'
    · simp at h

/-- the remaining list after any call is a suffix of the list before it -/
theorem contractStep_suffix (l : List Nat) (c : Call) : (contractStep l c).2 <:+ l := by
  cases c with
  | next => exact List.tail_suffix l
  | adv t =>
    simp only [contractStep]
    exact (List.tail_suffix _).trans (List.dropWhile_suffix _)

/-- what a call returns is a match, and every match still pending afterwards is larger -/
theorem contractStep_result (l : List Nat) (hl : Asc l) (c : Call) (x : Nat)
    (hx : (contractStep l c).1 = some x) :
    x ∈ l ∧ ∀ y ∈ (contractStep l c).2, x < y := by
  cases c with
  | next =>
    simp only [contractStep] at hx ⊢
    cases l with
    | nil => simp at hx
    | cons a as =>
      simp only [List.head?_cons, Option.some.injEq] at hx
      subst hx
      exact ⟨List.mem_cons_self, fun y hy => (List.pairwise_cons.1 hl).1 y hy⟩
  | adv t =>
    simp only [contractStep] at hx ⊢
    have hs := asc_dropWhile hl (· < t)
    cases hd : l.dropWhile (· < t) with
    | nil => rw [hd] at hx; simp at hx
    | cons a as =>
      rw [hd] at hx hs
      simp only [List.head?_cons, Option.some.injEq] at hx
      subst hx
      refine ⟨?_, fun y hy => (List.pairwise_cons.1 hs).1 y hy⟩
      have : a ∈ l.dropWhile (· < t) := by rw [hd]; exact List.mem_cons_self
      exact (List.dropWhile_sublist _).subset this

/-- **Advance lands on the first match at or after the target**: the answer is ≥ target and every
    match that was skipped is smaller than the target. -/
theorem advance_lands (l : List Nat) (hl : Asc l) (t x : Nat)
    (hx : (contractStep l (.adv t)).1 = some x) :
    t ≤ x ∧ ∀ y ∈ l, y < x → y < t := by
  simp only [contractStep] at hx
  cases hd : l.dropWhile (· < t) with
  | nil => rw [hd] at hx; simp at hx
  | cons a as =>
    rw [hd] at hx
    simp only [List.head?_cons, Option.some.injEq] at hx
    subst hx
    have hnot := dropWhile_head_not (fun v => decide (v < t)) l a as hd
    have hta : t ≤ a := by simpa using hnot
    refine ⟨hta, ?_⟩
    intro y hy hya
    -- y is in takeWhile ++ dropWhile; it is before `a`, so it is in the takeWhile part
    have hsplit := List.takeWhile_append_dropWhile (p := fun v => decide (v < t)) (l := l)
    rw [← hsplit] at hy hl
    rcases List.mem_append.1 hy with h1 | h2
    · have := mem_takeWhile_p _ _ _ h1
      simpa using this
    · rw [hd] at h2 hl
      have hs := (List.pairwise_append.1 hl).2.1
      rcases List.mem_cons.1 h2 with rfl | h3
      · omega
      · have := (List.pairwise_cons.1 hs).1 y h3
        omega

/-- and when Advance answers "no more", no match at or after the target existed -/
theorem advance_none (l : List Nat) (t : Nat) (hx : (contractStep l (.adv t)).1 = none) :
    ∀ y ∈ l, y < t := by
  simp only [contractStep] at hx
  have hd : l.dropWhile (· < t) = [] := by
    cases h : l.dropWhile (· < t) with
    | nil => rfl
    | cons a as => rw [h] at hx; simp at hx
  intro y hy
  have := dropWhile_nil_all _ l hd y hy
  simpa using this

/-- **Programs.** The answers of any finite program of Next / Advance calls, in order, are strictly
    ascending and form a sublist of the Next-only enumeration. -/
theorem program_subsequence (l : List Nat) (hl : Asc l) (prog : List Call) :
    ((runContract l prog).filterMap id).Sublist l ∧ Asc ((runContract l prog).filterMap id) := by
  induction prog generalizing l with
  | nil => simp [runContract, Asc]
  | cons c cs ih =>
    simp only [runContract]
    have hsuf := contractStep_suffix l c
    have hrest : Asc (contractStep l c).2 := List.Pairwise.sublist hsuf.sublist hl
    have ih' := ih (contractStep l c).2 hrest
    cases ho : (contractStep l c).1 with
    | none =>
      simp only [List.filterMap_cons, id]
      exact ⟨ih'.1.trans hsuf.sublist, ih'.2⟩
    | some x =>
      have hr := contractStep_result l hl c x ho
      simp only [List.filterMap_cons, id]
      refine ⟨?_, ?_⟩
      · -- x :: (answers from the rest) is a sublist of l
        have h2 : ∀ y ∈ (runContract (contractStep l c).2 cs).filterMap id, x < y :=
          fun y hy => hr.2 y (ih'.1.subset hy)
        -- l = front ++ [x] ++ rest-ish; use that x ∈ l and the rest is a suffix after x
        cases c with
        | next =>
          simp only [contractStep] at ho ih' hr
          cases l with
          | nil => simp at ho
          | cons a as =>
            simp only [List.head?_cons, Option.some.injEq] at ho
            subst ho
            exact List.Sublist.cons_cons _ ih'.1
        | adv t =>
          simp only [contractStep] at ho ih' hr
          cases hd : l.dropWhile (· < t) with
          | nil => rw [hd] at ho; simp at ho
          | cons a as =>
            rw [hd] at ho ih'
            simp only [List.head?_cons, Option.some.injEq] at ho
            subst ho
            have : (a :: as).Sublist l := by rw [← hd]; exact List.dropWhile_sublist _
            have e : (contractStep l (Call.adv t)).2 = (a :: as).tail := by simp only [contractStep, hd]
            rw [e]
            exact (List.Sublist.cons_cons _ ih'.1).trans this
      · unfold Asc
        rw [List.pairwise_cons]
        exact ⟨fun y hy => hr.2 y (ih'.1.subset hy), ih'.2⟩

/-- the ascending match list the contract is evaluated on really is ascending when the corpus is
    listed in ascending internal-id order -/
theorem den_asc (q : Q) (corpus : List Doc) (h : (corpus.map (·.iid)).Pairwise (· < ·)) :
    Asc (den q corpus) := by
  unfold den Asc
  have hs : ((corpus.filter (eval q)).map (·.iid)).Sublist (corpus.map (·.iid)) :=
    List.Sublist.map _ List.filter_sublist
  exact List.Pairwise.sublist hs h

example : runContract [2, 5, 9] [.adv 3, .next, .adv 10] = [some 5, some 9, none] := by decide

end Bleve.Query
