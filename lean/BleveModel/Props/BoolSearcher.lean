import BleveModel.Model.BoolSearcher
set_option linter.unusedVariables false
set_option linter.unusedSimpArgs false
/-!
# The boolean searcher keeps the searcher contract (C08) and yields exactly its denotation (C02)

For every choice of what children do outside their contract (`w`), every state reachable from `init`
and every program of `Next` / `Advance` calls, the machine of `Model/BoolSearcher.lean` answers like
the contract machine over `abs st` — the candidates that are not excluded and, when the should clause
is required, matched by it (`run_refines`).  Children are only ever advanced to targets ahead of
their cursors (that is why `w` does not matter); dropping either guard in `Advance` (must-not: the
seeded change C02; should: the defect repaired in 84fa025) makes these proofs fail.
-/
namespace Bleve.BoolSearcher

def Asc (l : List Nat) : Prop := l.Pairwise (· < ·)

/-! ## ascending lists -/

theorem asc_dropWhile_contains : ∀ (l : List Nat) (t d : Nat), Asc l → t ≤ d →
    (l.dropWhile (· < t)).contains d = l.contains d := by
  intro l
  induction l with
  | nil => intro t d _ _; rfl
  | cons x xs ih =>
    intro t d h htd
    have hxs : Asc xs := (List.pairwise_cons.1 h).2
    by_cases hx : x < t
    · have : (List.dropWhile (· < t) (x :: xs)) = List.dropWhile (· < t) xs := by
        simp [List.dropWhile_cons, hx]
      rw [this, ih t d hxs htd]
      have hne : (d == x) = false := by
        have : d ≠ x := by omega
        simpa using this
      rw [List.contains_cons, hne, Bool.false_or]
    · have : (List.dropWhile (· < t) (x :: xs)) = x :: xs := by
        simp [List.dropWhile_cons, hx]
      rw [this]

theorem asc_contains_false_of_lt : ∀ (l : List Nat) (d : Nat), (∀ x ∈ l, d < x) → l.contains d = false := by
  intro l d h
  cases hc : l.contains d
  · rfl
  · have := h d (List.contains_iff_mem.1 hc); omega

theorem asc_head_dropWhile : ∀ (l : List Nat) (t : Nat), Asc l →
    ((l.dropWhile (· < t)).head? == some t) = l.contains t := by
  intro l
  induction l with
  | nil => intro t _; rfl
  | cons x xs ih =>
    intro t h
    have hxs : Asc xs := (List.pairwise_cons.1 h).2
    have hlt := (List.pairwise_cons.1 h).1
    by_cases hx : x < t
    · have : (List.dropWhile (· < t) (x :: xs)) = List.dropWhile (· < t) xs := by
        simp [List.dropWhile_cons, hx]
      rw [this, ih t hxs]
      have hne : (t == x) = false := by
        have : t ≠ x := by omega
        simpa using this
      rw [List.contains_cons, hne, Bool.false_or]
    · have : (List.dropWhile (· < t) (x :: xs)) = x :: xs := by
        simp [List.dropWhile_cons, hx]
      rw [this]
      have hrest : xs.contains t = false := asc_contains_false_of_lt xs t (fun y hy => by have := hlt y hy; omega)
      simp only [List.head?_cons, List.contains_cons, hrest, Bool.or_false]
      by_cases he : x = t
      · subst he; simp
      · have h1 : (some x == some t) = false := by simpa using he
        have h2 : (t == x) = false := by simpa using fun h : t = x => he h.symm
        rw [h1, h2]

theorem asc_dropWhile {l : List Nat} (h : Asc l) (t : Nat) : Asc (l.dropWhile (· < t)) :=
  List.Pairwise.sublist (List.dropWhile_sublist _) h

theorem dropWhile_ge : ∀ (l : List Nat) (t : Nat), ∀ x ∈ l.dropWhile (· < t), Asc l → t ≤ x := by
  intro l
  induction l with
  | nil => intro t x hx; simp at hx
  | cons y ys ih =>
    intro t x hx h
    have hys : Asc ys := (List.pairwise_cons.1 h).2
    by_cases hy : y < t
    · have e : (List.dropWhile (· < t) (y :: ys)) = List.dropWhile (· < t) ys := by
        simp [List.dropWhile_cons, hy]
      rw [e] at hx
      exact ih t x hx hys
    · have e : (List.dropWhile (· < t) (y :: ys)) = y :: ys := by
        simp [List.dropWhile_cons, hy]
      rw [e] at hx
      rcases List.mem_cons.1 hx with rfl | hx'
      · omega
      · have := (List.pairwise_cons.1 h).1 x hx'; omega

theorem dropWhile_id_of_ge : ∀ (l : List Nat) (t : Nat), (∀ x ∈ l, t ≤ x) → l.dropWhile (· < t) = l := by
  intro l t h
  cases l with
  | nil => rfl
  | cons y ys =>
    have : ¬ y < t := by have := h y List.mem_cons_self; omega
    simp [List.dropWhile_cons, this]

/-! ## children -/

def Ch.ok (c : Ch) : Prop := Asc c.all ∧ (c.curr = none → c.rem = [])

theorem Ch.asc_rem (c : Ch) (ha : Asc c.all) : Asc c.rem := by
  unfold Ch.all at ha
  exact List.Pairwise.sublist (List.sublist_append_right _ _) ha

theorem Ch.next_curr (c : Ch) : c.next.curr = c.rem.head? := by
  unfold Ch.next
  cases c.rem <;> rfl

theorem Ch.next_all (c : Ch) : c.next.all = c.rem := by
  unfold Ch.next Ch.all
  cases c.rem <;> simp

theorem Ch.next_ok (c : Ch) (h : c.ok) : c.next.ok := by
  obtain ⟨ha, _⟩ := h
  have hr : Asc c.rem := Ch.asc_rem c ha
  refine ⟨by rw [Ch.next_all]; exact hr, ?_⟩
  unfold Ch.next
  cases c.rem <;> simp

/-- advancing a child whose cursor is behind the target: independent of `w` -/
theorem Ch.adv_behind (w : Weird) (t : Nat) (c : Ch) (hb : ∀ v, c.curr = some v → v < t) :
    c.adv w t = Ch.next { c with rem := c.rem.dropWhile (· < t) } := by
  unfold Ch.adv
  cases hc : c.curr with
  | none => rfl
  | some v =>
    have := hb v hc
    have hn : ¬ t ≤ v := by omega
    simp [hn]

theorem Ch.all_dropWhile_behind (t : Nat) (c : Ch) (hb : ∀ v, c.curr = some v → v < t) :
    c.all.dropWhile (· < t) = c.rem.dropWhile (· < t) := by
  unfold Ch.all
  cases hc : c.curr with
  | none => simp
  | some v =>
    have := hb v hc
    simp [List.dropWhile_cons, this]

theorem Ch.adv_all (w : Weird) (t : Nat) (c : Ch) (hb : ∀ v, c.curr = some v → v < t) :
    (c.adv w t).all = c.all.dropWhile (· < t) := by
  rw [Ch.adv_behind w t c hb, Ch.next_all, Ch.all_dropWhile_behind t c hb]

theorem Ch.adv_ok (w : Weird) (t : Nat) (c : Ch) (h : c.ok) (hb : ∀ v, c.curr = some v → v < t) :
    (c.adv w t).ok := by
  rw [Ch.adv_behind w t c hb]
  apply Ch.next_ok
  obtain ⟨ha, hn⟩ := h
  have hr : Asc c.rem := Ch.asc_rem c ha
  refine ⟨?_, ?_⟩
  · -- curr :: dropWhile rem is still ascending
    unfold Ch.all
    cases hc : c.curr with
    | none => simpa using asc_dropWhile hr t
    | some v =>
      simp only [Option.toList_some, List.singleton_append]
      unfold Ch.all at ha
      rw [hc] at ha
      have ha' : Asc (v :: c.rem) := by simpa using ha
      exact List.Pairwise.sublist (List.Sublist.cons_cons v (List.dropWhile_sublist _)) ha'
  · intro hc
    simp only at hc
    have := hn hc
    simp [this]

theorem Ch.adv_curr (w : Weird) (t : Nat) (c : Ch) (hb : ∀ v, c.curr = some v → v < t) :
    (c.adv w t).curr = (c.all.dropWhile (· < t)).head? := by
  rw [Ch.adv_behind w t c hb, Ch.next_curr, Ch.all_dropWhile_behind t c hb]

/-! ## the state -/

structure Inv (st : St) : Prop where
  must : ∀ m, st.must = some m → m.ok
  should : ∀ s, st.should = some s → s.ok
  mustNot : ∀ n, st.mustNot = some n → n.ok

theorem Ch.all_of_curr_none (c : Ch) (h : c.ok) (hc : c.curr = none) : c.all = [] := by
  unfold Ch.all; rw [hc, h.2 hc]; rfl

theorem Ch.all_of_curr_some (c : Ch) (v : Nat) (hc : c.curr = some v) : c.all = v :: c.rem := by
  unfold Ch.all; rw [hc]; rfl

/-- with the cursor on `v`, membership of anything not above `v` is decided by the cursor alone -/
theorem Ch.contains_le_curr (c : Ch) (h : c.ok) (v d : Nat) (hc : c.curr = some v) (hd : d ≤ v) :
    c.all.contains d = (v == d) := by
  rw [Ch.all_of_curr_some c v hc]
  have ha : Asc (v :: c.rem) := by rw [← Ch.all_of_curr_some c v hc]; exact h.1
  have hrest : c.rem.contains d = false :=
    asc_contains_false_of_lt c.rem d (fun y hy => by have := (List.pairwise_cons.1 ha).1 y hy; omega)
  rw [List.contains_cons, hrest, Bool.or_false]
  by_cases he : v = d
  · subst he; simp
  · have h1 : (v == d) = false := by simpa using he
    have h2 : (d == v) = false := by simpa using fun h : d = v => he h.symm
    rw [h1, h2]

theorem notStep_spec (w : Weird) (st : St) (c : Nat) (hi : Inv st) :
    (notStep w st c).1.must = st.must ∧ (notStep w st c).1.should = st.should ∧
    (notStep w st c).1.min0 = st.min0 ∧ (notStep w st c).1.done = st.done ∧ Inv (notStep w st c).1 ∧
    (notStep w st c).2 = (notAll st).contains c ∧
    ∀ d, c ≤ d → (notAll (notStep w st c).1).contains d = (notAll st).contains d := by
  unfold notStep
  cases hn : st.mustNot with
  | none => simp [notAll, hn, hi]
  | some n =>
    have hok := hi.mustNot n hn
    cases hc : n.curr with
    | none =>
      have : n.all = [] := Ch.all_of_curr_none n hok hc
      simp [notAll, hn, this, hi, hc]
    | some v =>
      by_cases hv : v < c
      · have hb : ∀ v', n.curr = some v' → v' < c := by
          intro v' h'; rw [hc] at h'; injection h' with h'; omega
        simp only [hc, hv, if_true]
        refine ⟨(by first | rfl | trivial), (by first | rfl | trivial), (by first | rfl | trivial), (by first | rfl | trivial), ?_, ?_, ?_⟩
        · exact ⟨hi.must, hi.should, by
            intro n' hn'
            simp only [Option.some.injEq] at hn'
            rw [← hn']; exact Ch.adv_ok w c n hok hb⟩
        · rw [Ch.adv_curr w c n hb]
          simp only [notAll, hn, Option.map_some, Option.getD_some]
          exact asc_head_dropWhile n.all c hok.1
        · intro d hd
          simp only [notAll, hn, Option.map_some, Option.getD_some]
          rw [Ch.adv_all w c n hb]
          exact asc_dropWhile_contains n.all c d hok.1 hd
      · simp only [hc, hv, if_false]
        refine ⟨(by first | rfl | trivial), (by first | rfl | trivial), (by first | rfl | trivial), (by first | rfl | trivial), hi, ?_, fun d _ => (by first | rfl | trivial)⟩
        simp only [notAll, hn, Option.map_some, Option.getD_some]
        rw [Ch.contains_le_curr n hok v c hc (by omega)]

theorem shouldStep_spec (w : Weird) (st : St) (c : Nat) (hi : Inv st) :
    (shouldStep w st c).1.must = st.must ∧ (shouldStep w st c).1.mustNot = st.mustNot ∧
    (shouldStep w st c).1.min0 = st.min0 ∧ (shouldStep w st c).1.done = st.done ∧
    (shouldStep w st c).1.should.isSome = st.should.isSome ∧ Inv (shouldStep w st c).1 ∧
    (shouldStep w st c).2 = (!st.should.isSome || st.min0 || (shouldAll st).contains c) ∧
    (∀ d, c ≤ d → (shouldAll (shouldStep w st c).1).contains d = (shouldAll st).contains d) ∧
    (∀ s, st.should = some s → s.curr = some c → (shouldStep w st c).1 = st) := by
  unfold shouldStep
  cases hs : st.should with
  | none => simp [shouldAll, hs, hi]
  | some s =>
    have hok := hi.should s hs
    cases hc : s.curr with
    | none =>
      have : s.all = [] := Ch.all_of_curr_none s hok hc
      simp [shouldAll, hs, this, hi, hc]
    | some v =>
      by_cases hv : v < c
      · have hb : ∀ v', s.curr = some v' → v' < c := by
          intro v' h'; rw [hc] at h'; injection h' with h'; omega
        simp only [hc, hv, if_true]
        refine ⟨(by first | rfl | trivial), (by first | rfl | trivial), (by first | rfl | trivial), (by first | rfl | trivial), (by first | rfl | trivial), ?_, ?_, ?_, ?_⟩
        · exact ⟨hi.must, by
            intro s' hs'
            simp only [Option.some.injEq] at hs'
            rw [← hs']; exact Ch.adv_ok w c s hok hb, hi.mustNot⟩
        · rw [Ch.adv_curr w c s hb]
          simp only [shouldAll, hs, Option.map_some, Option.getD_some, Option.isSome_some, Bool.not_true,
            Bool.false_or]
          rw [asc_head_dropWhile s.all c hok.1, Bool.or_comm]
        · intro d hd
          simp only [shouldAll, hs, Option.map_some, Option.getD_some]
          rw [Ch.adv_all w c s hb]
          exact asc_dropWhile_contains s.all c d hok.1 hd
        · intro s' hs' hcs'
          injection hs' with hs'
          subst hs'
          rw [hc] at hcs'; injection hcs' with hcs'; omega
      · simp only [hc, hv, if_false]
        refine ⟨(by first | rfl | trivial), (by first | rfl | trivial), (by first | rfl | trivial), (by first | rfl | trivial), (by rw [hs]), hi, ?_, fun d _ => (by first | rfl | trivial), fun _ _ _ => (by first | rfl | trivial)⟩
        simp only [shouldAll, hs, Option.map_some, Option.getD_some, Option.isSome_some, Bool.not_true,
          Bool.false_or]
        rw [Ch.contains_le_curr s hok v c hc (by omega), Bool.or_comm]

theorem Ch.tail_all (c : Ch) (h : c.ok) : c.all.tail = c.next.all := by
  rw [Ch.next_all]
  cases hc : c.curr with
  | none => rw [Ch.all_of_curr_none c h hc, h.2 hc]; rfl
  | some v => rw [Ch.all_of_curr_some c v hc]; rfl

theorem advanceNextMust_spec (st : St) (hi : Inv st) :
    Inv (advanceNextMust st) ∧ candAll (advanceNextMust st) = (candAll st).tail ∧
    notAll (advanceNextMust st) = notAll st ∧
    (st.must.isSome → shouldAll (advanceNextMust st) = shouldAll st) ∧
    (advanceNextMust st).must.isSome = st.must.isSome ∧ (advanceNextMust st).should.isSome = st.should.isSome ∧
    (advanceNextMust st).min0 = st.min0 ∧ (advanceNextMust st).done = st.done := by
  unfold advanceNextMust
  cases hm : st.must with
  | some m =>
    have hok := hi.must m hm
    refine ⟨⟨?_, hi.should, hi.mustNot⟩, ?_, rfl, fun _ => rfl, rfl, rfl, rfl, rfl⟩
    · intro m' hm'
      simp only [Option.some.injEq] at hm'
      rw [← hm']; exact Ch.next_ok m hok
    · simp only [candAll, hm]
      exact (Ch.tail_all m hok).symm
  | none =>
    refine ⟨⟨by intro m h; simp [hm] at h, ?_, hi.mustNot⟩, ?_, rfl, ?_, by simp [hm], ?_, rfl, rfl⟩
    · intro s' hs'
      simp only at hs'
      cases hs : st.should with
      | none => rw [hs] at hs'; simp at hs'
      | some s =>
        rw [hs] at hs'
        simp only [Option.map_some, Option.some.injEq] at hs'
        rw [← hs']; exact Ch.next_ok s (hi.should s hs)
    · simp only [candAll, hm]
      cases hs : st.should with
      | none => rfl
      | some s =>
        simp only [Option.map_some, Option.getD_some]
        exact (Ch.tail_all s (hi.should s hs)).symm
    · intro h; simp [hm] at h
    · cases st.should <;> rfl

/-- the candidates of a state whose candidate cursor is on `c` -/
theorem candAll_of_cur (st : St) (hi : Inv st) (c : Nat) (hc : cur st = some c) :
    ∃ rest, candAll st = c :: rest ∧ Asc (c :: rest) := by
  unfold cur at hc
  unfold candAll
  cases hm : st.must with
  | some m =>
    rw [hm] at hc
    simp only at hc
    exact ⟨m.rem, Ch.all_of_curr_some m c hc, by rw [← Ch.all_of_curr_some m c hc]; exact (hi.must m hm).1⟩
  | none =>
    rw [hm] at hc
    cases hs : st.should with
    | none => rw [hs] at hc; simp at hc
    | some s =>
      rw [hs] at hc
      simp only [Option.bind_some] at hc
      exact ⟨s.rem, by simp [Ch.all_of_curr_some s c hc], by
        rw [← Ch.all_of_curr_some s c hc]; exact (hi.should s hs).1⟩

theorem candAll_of_cur_none (st : St) (hi : Inv st) (hc : cur st = none) : candAll st = [] := by
  unfold cur at hc
  unfold candAll
  cases hm : st.must with
  | some m =>
    rw [hm] at hc
    exact Ch.all_of_curr_none m (hi.must m hm) hc
  | none =>
    rw [hm] at hc
    cases hs : st.should with
    | none => rfl
    | some s =>
      rw [hs] at hc
      simp only [Option.bind_some] at hc
      simp [Ch.all_of_curr_none s (hi.should s hs) hc]

/-- **One round of the loop**: the candidate is returned exactly when it is a match, the candidate
    cursor moves on by one, and what is a match among the later candidates does not change. -/
theorem body_spec (w : Weird) (st : St) (c : Nat) (hi : Inv st) (hc : cur st = some c) :
    Inv (body w st c).2 ∧ candAll (body w st c).2 = (candAll st).tail ∧
    (body w st c).1 = (if okDoc st c then some c else none) ∧
    (∀ d, c < d → okDoc (body w st c).2 d = okDoc st d) ∧ (body w st c).2.done = st.done := by
  obtain ⟨n1, n2, n3, n4, n5, n6, n7⟩ := notStep_spec w st c hi
  unfold body
  generalize hns : notStep w st c = ns at n1 n2 n3 n4 n5 n6 n7
  obtain ⟨st1, ex⟩ := ns
  simp only at n1 n2 n3 n4 n5 n6 n7 ⊢
  by_cases hex : ex = true
  · -- excluded
    simp only [hex, if_true]
    obtain ⟨a1, a2, a3, a4, a5, a6, a7, a8⟩ := advanceNextMust_spec st1 n5
    refine ⟨a1, ?_, ?_, ?_, by rw [a8, n4]⟩
    · rw [a2]; simp only [candAll, n1, n2]
    · have : (notAll st).contains c = true := by rw [← n6]; exact hex
      unfold okDoc
      rw [this]
      simp
    · intro d hd
      simp only [okDoc, a3, a5, a6, a7, n1, n2, n3]
      rw [n7 d (by omega)]
      by_cases hms : st.must.isSome = true
      · rw [a4 (by rw [n1]; exact hms)]
        simp only [shouldAll, n2]
      · simp [hms]
  · have hex' : ex = false := by simpa using hex
    simp only [hex', Bool.false_eq_true, if_false]
    obtain ⟨s1, s2, s3, s4, s5, s6, s7, s8, s9⟩ := shouldStep_spec w st1 c n5
    generalize hss : shouldStep w st1 c = ss at s1 s2 s3 s4 s5 s6 s7 s8 s9
    obtain ⟨st2, pass⟩ := ss
    simp only at s1 s2 s3 s4 s5 s6 s7 s8 s9 ⊢
    obtain ⟨a1, a2, a3, a4, a5, a6, a7, a8⟩ := advanceNextMust_spec st2 s6
    have hcand : candAll st2 = candAll st := by
      cases hm : st.must with
      | some m => simp only [candAll, s1, n1, hm]
      | none =>
        -- the candidate comes from should, whose cursor is on `c`: the should step leaves it alone
        have hcur : cur st1 = some c := by simpa [cur, n1, n2] using hc
        unfold cur at hcur
        rw [n1, hm] at hcur
        cases hs : st1.should with
        | none => rw [hs] at hcur; simp at hcur
        | some s =>
          rw [hs] at hcur
          simp only [Option.bind_some] at hcur
          have := s9 s hs hcur
          rw [this]
          simp only [candAll, n1, n2]
    refine ⟨a1, by rw [a2, hcand], ?_, ?_, by rw [a8, s4, n4]⟩
    · have hnot : (notAll st).contains c = false := by rw [← n6]; exact hex'
      rw [s7]
      simp only [okDoc, hnot, Bool.not_false, Bool.true_and, n2, n3, shouldAll]
      cases hms : st.must.isSome <;> cases hss' : st.should.isSome <;> cases hm0 : st.min0 <;> simp
      · -- no must: the candidate comes from should itself
        have hm : st.must = none := by simpa using hms
        have hcur := hc
        unfold cur at hcur
        rw [hm] at hcur
        cases hs : st.should with
        | none => rw [hs] at hss'; simp at hss'
        | some s =>
          rw [hs] at hcur
          simp only [Option.bind_some] at hcur
          simp only [Option.map_some, Option.getD_some]
          rw [Ch.all_of_curr_some s c hcur]
          simp
    · intro d hd
      simp only [okDoc, a3, a5, a6, a7, s1, s2, s3, s5, n1, n2, n3]
      have e1 : notAll st2 = notAll st1 := by simp only [notAll, s2]
      rw [e1, n7 d (by omega)]
      by_cases hms : st.must.isSome = true
      · rw [a4 (by rw [s1, n1]; exact hms), s8 d (by omega)]
        simp only [shouldAll, n2]
      · simp [hms]

theorem abs_of_cur (st : St) (hi : Inv st) (hd : st.done = false) (c : Nat) (hc : cur st = some c) :
    ∃ rest, candAll st = c :: rest ∧ Asc (c :: rest) ∧
      abs st = (if okDoc st c then [c] else []) ++ rest.filter (okDoc st) := by
  obtain ⟨rest, h1, h2⟩ := candAll_of_cur st hi c hc
  refine ⟨rest, h1, h2, ?_⟩
  unfold abs
  rw [hd, h1]
  simp only [Bool.false_eq_true, if_false, List.filter_cons]
  split <;> simp

/-- **`Next`'s loop** returns the first remaining match and leaves the rest -/
theorem nextLoop_spec (w : Weird) : ∀ (fuel : Nat) (st : St), Inv st → st.done = false →
    (candAll st).length < fuel →
    (nextLoop w fuel st).1 = (abs st).head? ∧ abs (nextLoop w fuel st).2 = (abs st).tail ∧
    Inv (nextLoop w fuel st).2 := by
  intro fuel
  induction fuel with
  | zero => intro st _ _ h; omega
  | succ fuel ih =>
    intro st hi hd hlen
    unfold nextLoop
    cases hc : cur st with
    | none =>
      have : candAll st = [] := candAll_of_cur_none st hi hc
      simp only [abs, hd, this]
      simp only [Bool.false_eq_true, if_false, List.filter_nil, List.head?_nil, List.tail_nil, if_true]
      exact ⟨trivial, trivial, ⟨hi.must, hi.should, hi.mustNot⟩⟩
    | some c =>
      simp only
      obtain ⟨b1, b2, b3, b4, b5⟩ := body_spec w st c hi hc
      obtain ⟨rest, r1, r2, r3⟩ := abs_of_cur st hi hd c hc
      generalize hb : body w st c = bb at b1 b2 b3 b4 b5
      obtain ⟨r, st'⟩ := bb
      simp only at b1 b2 b3 b4 b5 ⊢
      have hrest : ∀ d ∈ rest, c < d := (List.pairwise_cons.1 r2).1
      have habs' : abs st' = rest.filter (okDoc st) := by
        unfold abs
        rw [b5, hd, b2, r1]
        simp only [Bool.false_eq_true, if_false, List.tail_cons]
        apply List.filter_congr
        intro d hdm
        exact b4 d (hrest d hdm)
      by_cases hok : okDoc st c = true
      · rw [hok] at b3 r3
        simp only [if_true] at b3 r3
        rw [b3]
        simp only
        rw [r3]
        exact ⟨rfl, habs', b1⟩
      · have hok' : okDoc st c = false := by simpa using hok
        rw [hok'] at b3 r3
        simp only [Bool.false_eq_true, if_false, List.nil_append] at b3 r3
        rw [b3]
        simp only
        have hl : (candAll st').length < fuel := by
          rw [b2, r1]; rw [r1] at hlen; simp at hlen ⊢; omega
        obtain ⟨i1, i2, i3⟩ := ih st' b1 (by rw [b5, hd]) hl
        rw [r3, ← habs']
        exact ⟨i1, i2, i3⟩

theorem next_spec (w : Weird) (st : St) (hi : Inv st) :
    (next w st).1 = (abs st).head? ∧ abs (next w st).2 = (abs st).tail ∧ Inv (next w st).2 := by
  unfold next
  by_cases hd : st.done = true
  · simp [hd, abs, hi]
  · have hd' : st.done = false := by simpa using hd
    simp only [hd', Bool.false_eq_true, if_false]
    exact nextLoop_spec w _ st hi hd' (by omega)

/-- filtering commutes with skipping to a target on ascending lists -/
theorem filter_dropWhile (p : Nat → Bool) : ∀ (l : List Nat) (t : Nat), Asc l →
    (l.dropWhile (· < t)).filter p = (l.filter p).dropWhile (· < t) := by
  intro l
  induction l with
  | nil => intro t _; rfl
  | cons x xs ih =>
    intro t h
    have hxs : Asc xs := (List.pairwise_cons.1 h).2
    have hlt := (List.pairwise_cons.1 h).1
    by_cases hx : x < t
    · have e : (List.dropWhile (· < t) (x :: xs)) = List.dropWhile (· < t) xs := by
        simp [List.dropWhile_cons, hx]
      rw [e, ih t hxs]
      by_cases hp : p x = true
      · simp [List.filter_cons, hp, List.dropWhile_cons, hx]
      · simp [List.filter_cons, hp]
    · have e : (List.dropWhile (· < t) (x :: xs)) = x :: xs := by
        simp [List.dropWhile_cons, hx]
      rw [e]
      symm
      apply dropWhile_id_of_ge
      intro y hy
      have hy' := (List.mem_filter.1 hy).1
      rcases List.mem_cons.1 hy' with rfl | hy''
      · omega
      · have := hlt y hy''; omega

theorem advBehind_spec (w : Weird) (t : Nat) (c : Ch) (h : c.ok) :
    (advBehind w t c).ok ∧ ∀ d, t ≤ d → (advBehind w t c).all.contains d = c.all.contains d := by
  unfold advBehind
  cases hc : c.curr with
  | none =>
    have hb : ∀ v, c.curr = some v → v < t := by intro v hv; rw [hc] at hv; cases hv
    refine ⟨Ch.adv_ok w t c h hb, ?_⟩
    intro d hd
    rw [Ch.adv_all w t c hb]
    exact asc_dropWhile_contains c.all t d h.1 hd
  | some v =>
    simp only
    by_cases hv : v < t
    · have hb : ∀ v', c.curr = some v' → v' < t := by
        intro v' h'; rw [hc] at h'; injection h' with h'; omega
      simp only [hv, if_true]
      refine ⟨Ch.adv_ok w t c h hb, ?_⟩
      intro d hd
      rw [Ch.adv_all w t c hb]
      exact asc_dropWhile_contains c.all t d h.1 hd
    · simp only [hv, if_false]
      exact ⟨h, fun _ _ => trivial⟩

theorem abs_ge_cur (st : St) (hi : Inv st) (c : Nat) (hc : cur st = some c) : ∀ d ∈ abs st, c ≤ d := by
  intro d hd
  unfold abs at hd
  split at hd
  · simp at hd
  · obtain ⟨rest, h1, h2⟩ := candAll_of_cur st hi c hc
    have hm := (List.mem_filter.1 hd).1
    rw [h1] at hm
    rcases List.mem_cons.1 hm with rfl | hm'
    · exact Nat.le_refl _
    · have := (List.pairwise_cons.1 h2).1 d hm'; omega

theorem candAll_asc (st : St) (hi : Inv st) : Asc (candAll st) := by
  unfold candAll
  cases hm : st.must with
  | some m => exact (hi.must m hm).1
  | none =>
    cases hs : st.should with
    | none => exact List.Pairwise.nil
    | some s => simpa using (hi.should s hs).1

/-- **Repositioning in `Advance`** (taken only when the candidate cursor is behind the target): every
    cursor that is behind moves to the target, the others stay — the remaining matches are those at or
    after the target. -/
theorem reposition_spec (w : Weird) (t : Nat) (st : St) (hi : Inv st) (hd : st.done = false)
    (hb : ∀ c, cur st = some c → c < t) :
    Inv (reposition w t st) ∧ (reposition w t st).done = false ∧
    abs (reposition w t st) = (abs st).dropWhile (· < t) := by
  have hcand : candAll (reposition w t st) = (candAll st).dropWhile (· < t) := by
    unfold reposition candAll
    cases hm : st.must with
    | some m =>
      simp only [Option.map_some]
      apply Ch.adv_all
      intro v hv
      exact hb v (by simp [cur, hm, hv])
    | none =>
      simp only [Option.map_none]
      cases hs : st.should with
      | none => rfl
      | some s =>
        simp only [Option.map_some, Option.getD_some]
        have hbs : ∀ v, s.curr = some v → v < t := by
          intro v hv; exact hb v (by simp [cur, hm, hs, hv])
        have : advBehind w t s = s.adv w t := by
          unfold advBehind
          cases hc : s.curr with
          | none => rfl
          | some v => simp [hbs v hc]
        rw [this]
        exact Ch.adv_all w t s hbs
  have hinv : Inv (reposition w t st) := by
    refine ⟨?_, ?_, ?_⟩
    · intro m' hm'
      unfold reposition at hm'
      simp only at hm'
      cases hm : st.must with
      | none => rw [hm] at hm'; simp at hm'
      | some m =>
        rw [hm] at hm'
        simp only [Option.map_some, Option.some.injEq] at hm'
        rw [← hm']
        exact Ch.adv_ok w t m (hi.must m hm) (fun v hv => hb v (by simp [cur, hm, hv]))
    · intro s' hs'
      unfold reposition at hs'
      simp only at hs'
      cases hs : st.should with
      | none => rw [hs] at hs'; simp at hs'
      | some s =>
        rw [hs] at hs'
        simp only [Option.map_some, Option.some.injEq] at hs'
        rw [← hs']
        exact (advBehind_spec w t s (hi.should s hs)).1
    · intro n' hn'
      unfold reposition at hn'
      simp only at hn'
      cases hn : st.mustNot with
      | none => rw [hn] at hn'; simp at hn'
      | some n =>
        rw [hn] at hn'
        simp only [Option.map_some, Option.some.injEq] at hn'
        rw [← hn']
        exact (advBehind_spec w t n (hi.mustNot n hn)).1
  have hok : ∀ d, t ≤ d → okDoc (reposition w t st) d = okDoc st d := by
    intro d hdt
    have hn : (notAll (reposition w t st)).contains d = (notAll st).contains d := by
      unfold notAll reposition
      simp only
      cases hn : st.mustNot with
      | none => rfl
      | some n => simpa using (advBehind_spec w t n (hi.mustNot n hn)).2 d hdt
    have hs : (shouldAll (reposition w t st)).contains d = (shouldAll st).contains d := by
      unfold shouldAll reposition
      simp only
      cases hs : st.should with
      | none => rfl
      | some s => simpa using (advBehind_spec w t s (hi.should s hs)).2 d hdt
    unfold okDoc
    rw [hn, hs]
    have e1 : (reposition w t st).must.isSome = st.must.isSome := by
      unfold reposition; cases st.must <;> rfl
    have e2 : (reposition w t st).should.isSome = st.should.isSome := by
      unfold reposition; cases st.should <;> rfl
    have e3 : (reposition w t st).min0 = st.min0 := rfl
    rw [e1, e2, e3]
  refine ⟨hinv, hd, ?_⟩
  have hdone : (reposition w t st).done = false := hd
  unfold abs
  rw [hdone, hd, hcand]
  simp only [Bool.false_eq_true, if_false]
  rw [← filter_dropWhile (okDoc st) (candAll st) t (candAll_asc st hi)]
  apply List.filter_congr
  intro d hdm
  exact hok d (dropWhile_ge (candAll st) t d hdm (candAll_asc st hi))

/-- **`Advance`** returns the first remaining match at or after the target and leaves the ones after it -/
theorem advance_spec (w : Weird) (t : Nat) (st : St) (hi : Inv st) :
    (advance w t st).1 = ((abs st).dropWhile (· < t)).head? ∧
    abs (advance w t st).2 = ((abs st).dropWhile (· < t)).tail ∧ Inv (advance w t st).2 := by
  unfold advance
  by_cases hd : st.done = true
  · simp [hd, abs, hi]
  · have hd' : st.done = false := by simpa using hd
    simp only [hd', Bool.false_eq_true, if_false]
    cases hc : cur st with
    | none =>
      simp only
      obtain ⟨r1, r2, r3⟩ := reposition_spec w t st hi hd' (by intro c h; rw [hc] at h; cases h)
      obtain ⟨n1, n2, n3⟩ := next_spec w (reposition w t st) r1
      rw [r3] at n1 n2
      exact ⟨n1, n2, n3⟩
    | some c =>
      simp only
      by_cases hlt : c < t
      · simp only [hlt, if_true]
        obtain ⟨r1, r2, r3⟩ := reposition_spec w t st hi hd'
          (by intro c' h; rw [hc] at h; injection h with h; omega)
        obtain ⟨n1, n2, n3⟩ := next_spec w (reposition w t st) r1
        rw [r3] at n1 n2
        exact ⟨n1, n2, n3⟩
      · simp only [hlt, if_false]
        have hid : (abs st).dropWhile (· < t) = abs st :=
          dropWhile_id_of_ge (abs st) t (fun d hdm => by have := abs_ge_cur st hi c hc d hdm; omega)
        rw [hid]
        exact next_spec w st hi

theorem popList_eq (l : List Nat) : popList l = (l.head?, l.tail) := by
  cases l <;> rfl

/-- **Refinement**: for every behaviour of the children outside their contract, every reachable state
    and every program of `Next` and `Advance` calls, the boolean searcher answers exactly like the
    contract machine over its remaining matches. -/
theorem run_refines (w : Weird) : ∀ (ops : List Op) (st : St), Inv st →
    runImpl w st ops = runSpec (abs st) ops := by
  intro ops
  induction ops with
  | nil => intro st _; rfl
  | cons op ops ih =>
    intro st hi
    cases op with
    | next =>
      obtain ⟨n1, n2, n3⟩ := next_spec w st hi
      simp only [runImpl, runSpec, popList_eq]
      rw [n1, ih _ n3, n2]
    | adv t =>
      obtain ⟨a1, a2, a3⟩ := advance_spec w t st hi
      simp only [runImpl, runSpec, popList_eq]
      rw [a1, ih _ a3, a2]

/-! ## from the query's clauses -/

/-- the documents a boolean query stands for, given the ascending match lists of its clauses -/
def boolDen (must should mustNot : Option (List Nat)) (min0 : Bool) : List Nat :=
  ((must.or should).getD []).filter (fun d =>
    !((mustNot.getD []).contains d) &&
    (if must.isSome && should.isSome && !min0 then (should.getD []).contains d else true))

theorem fresh_next_all (l : List Nat) : (Ch.fresh l).next.all = l := by
  rw [Ch.next_all]; rfl

theorem fresh_next_ok (l : List Nat) (h : Asc l) : (Ch.fresh l).next.ok := by
  refine ⟨by rw [fresh_next_all]; exact h, ?_⟩
  unfold Ch.fresh Ch.next
  cases l <;> simp

def AscOpt : Option (List Nat) → Prop
  | none => True
  | some l => Asc l

theorem init_inv (must should mustNot : Option (List Nat)) (min0 : Bool)
    (hm : AscOpt must) (hs : AscOpt should) (hn : AscOpt mustNot) : Inv (init must should mustNot min0) := by
  refine ⟨?_, ?_, ?_⟩
  · intro m h
    cases must with
    | none => simp [init] at h
    | some l => simp only [init, Option.map_some, Option.some.injEq] at h; rw [← h]; exact fresh_next_ok l hm
  · intro m h
    cases should with
    | none => simp [init] at h
    | some l => simp only [init, Option.map_some, Option.some.injEq] at h; rw [← h]; exact fresh_next_ok l hs
  · intro m h
    cases mustNot with
    | none => simp [init] at h
    | some l => simp only [init, Option.map_some, Option.some.injEq] at h; rw [← h]; exact fresh_next_ok l hn

theorem abs_init (must should mustNot : Option (List Nat)) (min0 : Bool) :
    abs (init must should mustNot min0) = boolDen must should mustNot min0 := by
  unfold abs boolDen init
  simp only [Bool.false_eq_true, if_false]
  have hc : candAll (init must should mustNot min0) = (must.or should).getD [] := by
    unfold candAll init
    cases must with
    | some l => simp [fresh_next_all]
    | none => cases should with
      | none => rfl
      | some l => simp [fresh_next_all]
  unfold init at hc
  rw [hc]
  apply List.filter_congr
  intro d _
  unfold okDoc notAll shouldAll
  cases must <;> cases should <;> cases mustNot <;> simp [fresh_next_all]

/-- **The boolean searcher is correct**: built over clauses whose searchers keep the contract (ascending
    match lists), for every program of `Next` and `Advance` calls and whatever the clause searchers do
    outside their contract, it answers like the contract machine over the query's denotation: candidates
    from must (else should), minus must-not, restricted to should when should is required. -/
theorem bool_searcher_correct (w : Weird) (must should mustNot : Option (List Nat)) (min0 : Bool)
    (hm : AscOpt must) (hs : AscOpt should) (hn : AscOpt mustNot) (ops : List Op) :
    runImpl w (init must should mustNot min0) ops = runSpec (boolDen must should mustNot min0) ops := by
  rw [run_refines w ops _ (init_inv must should mustNot min0 hm hs hn), abs_init]

/-- the denotation is itself ascending: the boolean searcher can be a clause of any other searcher -/
theorem boolDen_asc (must should mustNot : Option (List Nat)) (min0 : Bool)
    (hm : AscOpt must) (hs : AscOpt should) : Asc (boolDen must should mustNot min0) := by
  unfold boolDen
  apply List.Pairwise.sublist List.filter_sublist
  cases must with
  | some l => exact hm
  | none => cases should with
    | none => exact List.Pairwise.nil
    | some l => exact hs

/-! ## non-vacuity, and the two guards -/

/-- must [1,3,5,8], should [3,8,9] required, must-not [5]: entered through Advance 2, then Next -/
example : runImpl (fun _ c => c) (init (some [1, 3, 5, 8]) (some [3, 8, 9]) (some [5]) false) [.adv 2, .next, .next]
    = [some 3, some 8, none] := by decide
/-- the same when a clause searcher, asked to advance to where it already is, moves on instead -/
example : runImpl (fun _ c => c.next) (init (some [1, 3, 5, 8]) (some [3, 8, 9]) (some [5]) false) [.adv 2, .next, .next]
    = [some 3, some 8, none] := by decide

end Bleve.BoolSearcher
