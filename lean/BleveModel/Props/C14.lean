import BleveModel.Model.Files
import BleveModel.Props.C12
import BleveModel.Props.C04
set_option linter.unusedVariables false
set_option linter.unusedSimpArgs false
/-!
# C14 — An online backup is a consistent point-in-time copy

"CopyTo, run while the index is being written, merged and purged, produces a directory that opens as an
index whose contents equal the source after some prefix of the batches submitted, no older than the
batches acknowledged before the copy began and containing no partial batch. The source index is
unaffected and segment files needed by the copy are not removed before the copy ends."

Model.  CopyTo captures the current root (one snapshot: by `Props/Snapshot.lean` the replay of a
prefix of the introduced batches, never part of one), schedules its files for copy — in the model of
`Model/Files.lean` this is a `hold` on those files, released when the copy ends — and writes a
directory whose root.bolt has exactly one record naming the copied files.
Theorems: the written directory satisfies the durable invariant and Open loads exactly the captured
snapshot (`copy_opens`); while the copy is in progress no legal step of persister, merger or purger
removes a file it needs, whatever else happens (`copy_protected`); the source state is a function
argument, so it is unchanged by construction (`source_unaffected`, `copy_release_restores`).  That the captured snapshot covers everything
acknowledged before the copy began is the C04 monitor's `covers_acked`.
Tie (`./check C14`): copies are taken while writers, forced merges and the purger run; each copy is
opened and judged by `History.check` in Lean with the acknowledgements sampled before CopyTo was
called; its root.bolt and directory listing are checked against `copyOf`; the source keeps being
observed by C04-style clients and is compared with the full history at the end.
-/
namespace Bleve.Files
open Bleve.Durable

/-- the directory CopyTo writes for a captured snapshot -/
def copyOf (r : Rec) : D := { bolt := [r], present := r.files, acked := 0 }

/-- **The copy opens as exactly the captured snapshot** and is a well-formed index directory. -/
theorem copy_opens (r : Rec) : Durable.Inv (copyOf r) ∧ recover (copyOf r) = some r := by
  have hi : Durable.Inv (copyOf r) := by
    refine ⟨?_, ?_, ?_⟩
    · intro x hx f hf
      simp only [copyOf, List.mem_singleton] at hx
      subst hx; exact hf
    · simp [copyOf]
    · simp [copyOf, newest]
  exact ⟨hi, by rw [recover_newest _ hi]; rfl⟩

/-- a handle that is not released stays held -/
theorem held_persist : ∀ (evs : List Ev) (s s' : F) (h : Nat) (fs : List Name),
    (h, fs) ∈ s.held → (∀ ev ∈ evs, ev ≠ .release h) → run s evs = some s' → (h, fs) ∈ s'.held := by
  intro evs
  induction evs with
  | nil => intro s s' h fs hm _ hr; simp only [run, Option.some.injEq] at hr; subst hr; exact hm
  | cons ev evs ih =>
    intro s s' h fs hm hne hr
    simp only [run] at hr
    split at hr
    · refine ih (step s ev) s' h fs ?_ (fun e he => hne e (List.mem_cons_of_mem _ he)) hr
      cases ev with
      | dur dev => exact hm
      | hold h' fs' => exact List.mem_cons_of_mem _ hm
      | release h' =>
        simp only [step]
        rw [List.mem_filter]
        refine ⟨hm, ?_⟩
        have : h' ≠ h := by
          intro heq
          exact hne (.release h') List.mem_cons_self (by rw [heq])
        simpa [bne_iff_ne] using fun (e : h = h') => this e.symm
    · cases hr

/-- **Files needed by a copy in progress are not removed**: from the moment the copy is scheduled
    (`hold h fs` accepted) until it ends (`release h`), after any legal trace of persister, merger,
    purger and reader steps, every one of its files still exists. -/
theorem copy_protected (evs : List Ev) (s s' : F) (h : Nat) (fs : List Name) (hi : Inv s)
    (hok : stepOK s (.hold h fs) = true) (hne : ∀ ev ∈ evs, ev ≠ .release h)
    (hrun : run (step s (.hold h fs)) evs = some s') : ∀ f ∈ fs, f ∈ s'.d.present := by
  have hi1 := step_inv s (.hold h fs) hi hok
  have hi' := run_inv evs _ s' hi1 hrun
  have hm : (h, fs) ∈ (step s (.hold h fs)).held := by simp [step]
  have := held_persist evs _ s' h fs hm hne hrun
  intro f hf
  exact hi'.2 (h, fs) this f hf

/-- **The source index is unaffected**: scheduling a copy and ending it change nothing of what is on
    the source's disk — its root.bolt records, its files and its acknowledged epoch are those it
    had, so whatever `recover` answered for the source it still answers. -/
theorem source_unaffected (s : F) (h : Nat) (fs : List Name) :
    (step s (.hold h fs)).d = s.d ∧ (step s (.release h)).d = s.d ∧
    recover (step (step s (.hold h fs)) (.release h)).d = recover s.d := ⟨rfl, rfl, rfl⟩

/-- a copy that has ended leaves no trace in the source's bookkeeping when its handle was fresh:
    the held set is what it was, so the purger regains exactly the freedom it had -/
theorem copy_release_restores (s : F) (h : Nat) (fs : List Name) (hfresh : ∀ p ∈ s.held, p.1 ≠ h) :
    (step (step s (.hold h fs)) (.release h)).held = s.held := by
  simp only [step, List.filter_cons, bne_self_eq_false, Bool.false_eq_true, if_false]
  apply List.filter_eq_self.2
  intro p hp
  simpa [bne_iff_ne] using hfresh p hp

/-! ## non-vacuity -/

example : recover (copyOf ⟨9, ["a.zap", "b.zap"]⟩) = some ⟨9, ["a.zap", "b.zap"]⟩ := by decide
/-- the purger may not touch a file scheduled for copy even when no snapshot names it any more -/
example : (run { d := { present := ["a.zap"] } } [.hold 1 ["a.zap"], .dur (.zapRemove "a.zap")]).isNone = true := by decide
example : ((run { d := { present := ["a.zap"] } } [.hold 1 ["a.zap"], .release 1, .dur (.zapRemove "a.zap")]).map
    (fun s => s.d.present)) = some [] := by decide

end Bleve.Files
