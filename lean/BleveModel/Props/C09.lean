import BleveModel.Model.Alias
import BleveModel.Lemmas.Alias
import BleveModel.Lemmas.Collector
import BleveModel.Props.C06
set_option linter.unusedSimpArgs false
set_option linter.unusedVariables false
/-!
# C09 — Searching an alias over shards equals searching one index with all documents

"If a corpus is partitioned in any way across several indexes with the same mapping, a search
through an alias of those indexes (directly or through nested aliases) returns the same Total, the
same hits in the same order under any score-independent total sort, the same stored fields, and the
same facet counts (when the facet size covers all buckets) as the same request on a single index
holding the whole corpus, for every From/Size page and for SearchAfter/SearchBefore paging."

Model: `Model/Alias.lean` (child request size+from, concatenation, re-sort, skip, trim; facet
merge/fixup).  The hit number is the model's stand-in for document identity: it is the last
tie-break of `SortOrder.Compare`, and under a total sort it never decides.  Tie: `./check C09`
compares alias answers with single-index answers on partitioned corpora, and the model of
`MultiSearch` with the real merge of the members' real answers.
-/
namespace Bleve.Alias
open Bleve.Collector Bleve.TopN

theorem children_are_shardTops (so : List SortSpec) (k : Nat) (shards : List (List Match))
    (hd : ∀ ms ∈ shards, (ms.map (fun m => m.hit)).Nodup) :
    (shards.map (fun ms => (collect so k 0 none ms).hits)).flatten = shardTops (lt so) k shards := by
  unfold shardTops
  congr 1
  apply List.map_congr_left
  intro ms hms
  rw [collector_eq_page so k 0 ms (hd ms hms)]
  simp [page]

/-- **Alias = single index.** For every sort specification, every partition into any number of
    shards (empty ones included), every size and offset: the alias returns exactly the hits a
    single index holding all documents returns. -/
theorem alias_eq_single (so : List SortSpec) (hso : so ≠ []) (size from_ : Nat) (shards : List (List Match))
    (hd : (shards.flatten.map (fun m => m.hit)).Nodup) :
    (aliasSearch so size from_ shards).hits = (collect so size from_ none shards.flatten).hits := by
  have hds : ∀ ms ∈ shards, (ms.map (fun m => m.hit)).Nodup := by
    intro ms hms
    have hsub : ms.Sublist shards.flatten := List.sublist_flatten_of_mem hms
    exact List.Nodup.sublist (hsub.map _) hd
  rw [collector_eq_page so size from_ shards.flatten hd]
  simp only [aliasSearch, multiSearch, childSize, List.map_map]
  have e : (shards.map ((fun c : ChildResult => c.hits) ∘ fun ms =>
      (⟨(collect so (size + from_) 0 none ms).hits, (collect so (size + from_) 0 none ms).total,
        (collect so (size + from_) 0 none ms).maxScore⟩ : ChildResult))).flatten
      = shardTops (lt so) (size + from_) shards := by
    have := children_are_shardTops so (size + from_) shards hds
    rw [← this]; rfl
  rw [e]
  unfold hitsInCurrentPage
  have hne : so.isEmpty = false := by cases so <;> simp_all
  simp only [hne, Bool.false_eq_true, if_false]
  exact page_of_union (lt_ord so) size from_ shards hd

/-- Total is additive: the alias total is the number of all matches. -/
theorem alias_total (so : List SortSpec) (size from_ : Nat) (shards : List (List Match)) :
    (aliasSearch so size from_ shards).total = shards.flatten.length := by
  simp only [aliasSearch, multiSearch, List.map_map]
  induction shards with
  | nil => rfl
  | cons ms rest ih =>
    simp only [List.map_cons, List.sum_cons, List.flatten_cons, List.length_append]
    rw [ih]; rfl

/-! ## nested aliases -/

/-- alias trees (binary nesting; a flat n-ary alias is `alias_eq_single`) -/
inductive ATree where
  | leaf (ms : List Match)
  | node (l r : ATree)

def ATree.docs : ATree → List Match
  | .leaf ms => ms
  | .node l r => l.docs ++ r.docs

/-- what a subtree answers to a request for the first `k` hits -/
def ATree.search (so : List SortSpec) (k : Nat) : ATree → List Match
  | .leaf ms => (collect so k 0 none ms).hits
  | .node l r => hitsInCurrentPage so k 0 (l.search so k ++ r.search so k)

/-- every subtree of an alias tree answers with the first `k` of its documents -/
theorem tree_search_eq (so : List SortSpec) (hso : so ≠ []) (k : Nat) : ∀ (t : ATree),
    (t.docs.map (fun m => m.hit)).Nodup → t.search so k = (isort (lt so) t.docs).take k := by
  intro t
  induction t with
  | leaf ms =>
    intro hd
    simp only [ATree.search, ATree.docs]
    rw [collector_eq_page so k 0 ms hd]; simp [page]
  | node l r ihl ihr =>
    intro hd
    simp only [ATree.docs] at hd
    rw [List.map_append] at hd
    have hl := (List.nodup_append.1 hd).1
    have hr := (List.nodup_append.1 hd).2.1
    simp only [ATree.search, ATree.docs]
    rw [ihl hl, ihr hr]
    unfold hitsInCurrentPage
    have hne : so.isEmpty = false := by cases so <;> simp_all
    simp only [hne, Bool.false_eq_true, if_false, List.drop_zero]
    have hk : KeysNodup (fun m : Match => m.hit) [l.docs, r.docs].flatten := by
      simpa [KeysNodup] using hd
    have := topk_of_union (lt_ord so) k [l.docs, r.docs] hk
    simpa [shardTops] using this

/-- a nested alias returns what a single index with all documents returns -/
theorem alias_tree_eq_single (so : List SortSpec) (hso : so ≠ []) (size from_ : Nat) (t : ATree)
    (hd : (t.docs.map (fun m => m.hit)).Nodup) :
    ((t.search so (size + from_)).drop from_).take size = (collect so size from_ none t.docs).hits := by
  rw [tree_search_eq so hso _ t hd, collector_eq_page so size from_ t.docs hd]
  unfold page
  rw [List.drop_take, Nat.add_sub_cancel, List.take_take, Nat.min_self]

/-! ## non-vacuity -/

example : (aliasSearch [⟨.id, false⟩] 2 1
    [[⟨1, 0, [[100]]⟩, ⟨2, 0, [[103]]⟩], [], [⟨3, 0, [[101]]⟩, ⟨4, 0, [[102]]⟩]]).hits.map (·.hit) = [3, 4] := by
  decide

end Bleve.Alias
