import BleveModel.Model.Durable
import BleveModel.Model.History
import BleveModel.Props.C04
set_option linter.unusedVariables false
set_option linter.unusedSimpArgs false
/-!
# C03 — Acknowledged batches survive a crash; every batch is all-or-nothing

"If the process dies at any instant while a disk-backed index is indexing, persisting, merging or
cleaning up, the index can be opened again and its contents equal the effect of a prefix of the
batches in submission order. That prefix contains every batch whose call had returned before the
crash (default safe-batch mode) or whose persisted callback had fired, and never contains part of a
batch. The same holds after a clean Close, and the reopened index accepts further writes correctly."

Model: `Model/Durable.lean`.  A snapshot of epoch `e` contains exactly the batches introduced at
epochs `≤ e` (Props/Snapshot.lean: every root is the replay of a prefix), so "the recovered prefix
contains every acknowledged batch" is `acked ≤ epoch of the recovered snapshot`.
Theorems: the invariant `Inv` (every file named by a committed snapshot exists complete; epochs in
root.bolt strictly descend; every acknowledged batch is covered by the newest committed snapshot) is
preserved by every step whose side condition `stepOK` holds and by a crash at any point, and under it
Open loads the newest committed snapshot — for every trace and every crash instant.
Tie (`./check C03`): (a) the durable events of the real persister, purger and merger (hooks under
the `verif` tag) are replayed through `stepOK` in Lean; (b) a child process is killed at every named
crash point and at random instants, files no committed snapshot names are garbled, the index is
reopened and what it holds is judged by the C04 monitor `History.check` (a whole-batch prefix that
covers everything acknowledged), then written to again.
**Partial**: fsync/rename/bbolt-commit atomicity are assumptions; the kill runs are validation.
-/
namespace Bleve.Durable

def Inv (d : D) : Prop :=
  (∀ r ∈ d.bolt, ∀ f ∈ r.files, f ∈ d.present) ∧
  d.bolt.Pairwise (fun a b => a.epoch > b.epoch) ∧
  d.acked ≤ newest d

theorem named_iff (d : D) (f : Name) : named d f = true ↔ ∃ r ∈ d.bolt, f ∈ r.files := by
  unfold named
  simp [List.any_eq_true, List.contains_iff_mem]

theorem newest_ge (d : D) (h : d.bolt.Pairwise (fun a b => a.epoch > b.epoch)) :
    ∀ r ∈ d.bolt, r.epoch ≤ newest d := by
  intro r hr
  unfold newest
  cases hb : d.bolt with
  | nil => rw [hb] at hr; simp at hr
  | cons x xs =>
    rw [hb] at hr h
    simp only
    rcases List.mem_cons.1 hr with rfl | hr'
    · exact Nat.le_refl _
    · have := (List.pairwise_cons.1 h).1 r hr'
      omega

/-- **Every protocol step preserves the invariant.** -/
theorem step_inv (d : D) (ev : Ev) (hi : Inv d) (hok : stepOK d ev = true) : Inv (step d ev) := by
  obtain ⟨h1, h2, h3⟩ := hi
  cases ev with
  | writeFile f =>
    refine ⟨?_, h2, h3⟩
    intro r hr g hg
    exact List.mem_cons_of_mem _ (h1 r hr g hg)
  | commit e fs =>
    simp only [stepOK, Bool.and_eq_true, Bool.or_eq_true, decide_eq_true_eq, List.all_eq_true,
      List.contains_iff_mem] at hok
    obtain ⟨hlt, hall⟩ := hok
    simp only [step]
    by_cases hsame : (d.bolt.head? == some ⟨e, fs⟩) = true
    · rw [if_pos hsame]; exact ⟨h1, h2, h3⟩
    · rw [if_neg hsame]
      have hlt' : newest d < e := by
        rcases hlt with h | h
        · exact h
        · exact absurd h hsame
      refine ⟨?_, ?_, ?_⟩
      · intro r hr g hg
        rcases List.mem_cons.1 hr with rfl | hr'
        · exact hall g hg
        · exact h1 r hr' g hg
      · rw [List.pairwise_cons]
        refine ⟨?_, h2⟩
        intro r hr
        have := newest_ge d h2 r hr
        simp only; omega
      · simp only [newest] at *
        omega
  | ack e =>
    simp only [stepOK, decide_eq_true_eq] at hok
    refine ⟨h1, h2, ?_⟩
    simp only [step]
    have : newest { d with acked := max d.acked e } = newest d := rfl
    rw [this]; omega
  | boltRemove e =>
    simp only [stepOK, decide_eq_true_eq] at hok
    refine ⟨?_, ?_, ?_⟩
    · intro r hr g hg
      simp only [step] at hr
      exact h1 r (List.mem_filter.1 hr).1 g hg
    · simp only [step]
      exact List.Pairwise.sublist List.filter_sublist h2
    · simp only [step]
      -- the newest snapshot is never the one removed, so it stays the head
      unfold newest at hok h3 ⊢
      cases hb : d.bolt with
      | nil => rw [hb] at h3; simpa using h3
      | cons x xs =>
        rw [hb] at hok h3
        simp only at hok h3
        have hx : (x.epoch != e) = true := by simpa [bne_iff_ne] using fun h => hok h.symm
        simp only [List.filter_cons, hx, if_true]
        exact h3
  | zapRemove f =>
    simp only [stepOK, Bool.not_eq_true'] at hok
    refine ⟨?_, h2, h3⟩
    intro r hr g hg
    simp only [step]
    rw [List.mem_filter]
    refine ⟨h1 r hr g hg, ?_⟩
    have hne : g ≠ f := by
      intro heq
      subst heq
      have : named d g = true := (named_iff d g).2 ⟨r, hr, hg⟩
      rw [this] at hok; cases hok
    simpa [bne_iff_ne] using hne

/-- **A crash at any point preserves the invariant**: only files no committed snapshot names are lost. -/
theorem crash_inv (keep : Name → Bool) (d : D) (hi : Inv d) : Inv (crash keep d) := by
  obtain ⟨h1, h2, h3⟩ := hi
  refine ⟨?_, h2, h3⟩
  intro r hr g hg
  simp only [crash]
  rw [List.mem_filter]
  refine ⟨h1 r hr g hg, ?_⟩
  have : named d g = true := (named_iff d g).2 ⟨r, hr, hg⟩
  simp [this]

/-- every reachable state satisfies the invariant -/
theorem run_inv : ∀ (evs : List Ev) (d d' : D), Inv d → run d evs = some d' → Inv d' := by
  intro evs
  induction evs with
  | nil => intro d d' hi h; simp only [run, Option.some.injEq] at h; subst h; exact hi
  | cons ev evs ih =>
    intro d d' hi h
    simp only [run] at h
    split at h
    · rename_i hok
      exact ih _ _ (step_inv d ev hi hok) h
    · cases h

/-- under the invariant Open loads the newest committed snapshot -/
theorem recover_newest (d : D) (hi : Inv d) : recover d = d.bolt.head? := by
  obtain ⟨h1, _, _⟩ := hi
  unfold recover
  cases hb : d.bolt with
  | nil => rfl
  | cons x xs =>
    have hl : loadable d x = true := by
      unfold loadable
      rw [List.all_eq_true]
      intro f hf
      rw [List.contains_iff_mem]
      exact h1 x (by rw [hb]; exact List.mem_cons_self) f hf
    simp [List.find?_cons, hl]

/-- **Crash safety**: after any trace of protocol steps and a crash at its end (every prefix of a
    trace is a trace, so: at any instant), with arbitrary loss of unreferenced files, Open loads the
    newest committed snapshot, and that snapshot covers every acknowledged batch. -/
theorem crash_safe (evs : List Ev) (d0 d : D) (keep : Name → Bool) (hi : Inv d0)
    (hrun : run d0 evs = some d) :
    recover (crash keep d) = d.bolt.head? ∧ d.acked ≤ newest d ∧
    (d.acked > 0 → ∃ r, recover (crash keep d) = some r ∧ d.acked ≤ r.epoch) := by
  have hd := run_inv evs d0 d hi hrun
  have hc := crash_inv keep d hd
  have hr := recover_newest (crash keep d) hc
  have hb : (crash keep d).bolt = d.bolt := rfl
  rw [hb] at hr
  refine ⟨hr, hd.2.2, ?_⟩
  intro hpos
  have h3 := hd.2.2
  unfold newest at h3
  cases hbb : d.bolt with
  | nil => rw [hbb] at h3; simp only at h3; omega
  | cons x xs =>
    rw [hbb] at h3
    exact ⟨x, by rw [hr, hbb]; rfl, h3⟩

/-- acknowledgements only grow -/
theorem acked_mono (d : D) (ev : Ev) : d.acked ≤ (step d ev).acked := by
  cases ev with
  | commit e fs => simp only [step]; split <;> exact Nat.le_refl _
  | ack e => simp only [step]; omega
  | writeFile f => exact Nat.le_refl _
  | boltRemove e => exact Nat.le_refl _
  | zapRemove f => exact Nat.le_refl _

/-- the empty index satisfies the invariant -/
theorem inv_init : Inv {} := by
  refine ⟨?_, ?_, ?_⟩
  · intro r hr; simp at hr
  · simp
  · simp [newest]

/-! ## what goes wrong when a side condition is dropped (the monitor's rejections are real) -/

/-- acknowledging before the commit: a crash loses the acknowledged batch -/
example : let d : D := step {} (.ack 1)
    recover (crash (fun _ => true) d) = none ∧ d.acked = 1 := by decide
/-- committing a snapshot whose file is not on disk yet: after a crash Open falls back to older data -/
example : let d : D := step (step (step {} (.writeFile "1.zap")) (.commit 1 ["1.zap"])) (.commit 2 ["2.zap"])
    recover d = some ⟨1, ["1.zap"]⟩ := by decide
/-- removing a file a committed snapshot names: Open no longer loads that snapshot -/
example : let d : D := step (step (step {} (.writeFile "1.zap")) (.commit 1 ["1.zap"])) (.zapRemove "1.zap")
    recover d = none := by decide
/-- a good trace: write, commit, acknowledge, merge into a new file, commit, purge -/
example : (run {} [.writeFile "1.zap", .commit 1 ["1.zap"], .ack 1, .writeFile "2.zap", .commit 2 ["1.zap", "2.zap"],
    .ack 2, .writeFile "3.zap", .commit 4 ["3.zap"], .boltRemove 1, .boltRemove 2, .zapRemove "1.zap",
    .zapRemove "2.zap"]).map (fun d => (recover (crash (fun _ => false) d), d.acked)) = some (some ⟨4, ["3.zap"]⟩, 2) := by
  decide

end Bleve.Durable

namespace Bleve.History

/-- what the auxiliary-document monitor accepts, spelled out for one writer -/
theorem auxOK_single (p a d : Nat) :
    auxOK [p] [a] [d] = true ↔ (a = 0 ∨ a = p) ∧ (p ≤ d ∧ 0 < p → a = 0) := by
  simp [auxOK]
  intro _
  constructor
  · intro h h1 h2
    rcases h with (h | h) | h
    · omega
    · omega
    · exact h
  · intro h
    by_cases h1 : p ≤ d
    · by_cases h2 : 0 < p
      · exact Or.inr (h h1 h2)
      · exact Or.inl (Or.inr (by omega))
    · exact Or.inl (Or.inl (by omega))

example : auxOK [7, 3] [7, 0] [6, 3] = true := by decide
example : auxOK [7, 3] [7, 3] [6, 3] = false := by decide      -- the deletion after batch 3 was acknowledged, the document is back
example : auxOK [7, 3] [6, 0] [0, 0] = false := by decide      -- a version from another batch

end Bleve.History
