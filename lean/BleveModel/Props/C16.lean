import BleveModel.Model.Codec
import BleveModel.Lemmas.Codec
import BleveModel.Gen.MappingTables
set_option linter.unusedVariables false
/-!
# C16 — A mapping survives its JSON form: reopened indexes map documents identically

"For any valid index mapping, serialising it to JSON and parsing it back (which is what happens
between creating an index and every later Open) yields a mapping that validates, serialises to the
same JSON again, and maps every document to the same fields with the same types, options, analysers,
date formats and analysed terms as the original. No option is lost, defaulted differently or applied
to another field."

`Model/Codec.lean` is a table-driven model of a hand-written JSON codec (struct tags on the encoder
side, `case "key"` arms and presets on the decoder side).  `codec_roundtrip` holds for *every* table
that passes the decidable check `TableOK` and every record; the tables of `FieldMapping`,
`DocumentMapping` and `IndexMappingImpl` are regenerated from /repo's source on every run
(`Gen/MappingTables.lean`) and `TableOK` is evaluated on them by the kernel — dropping a `case`,
assigning a key to the wrong field, renaming a tag on one side, or making a field with a non-empty
preset `omitempty` turns one of the three `decide`s false.  `./check C16` additionally round-trips
random mapping trees through the real marshaller / parser and compares JSON and `MapDocument`
output, also through create / close / Open.
-/
namespace Bleve.Codec

/-- the round-trip theorem, for every well-formed table and every record -/
theorem roundtrip (t : Table) (hok : TableOK t = true) (preset r : Rec)
    (hp : ∀ i row, t.rows[i]? = some row → row.presetNonZero = false → preset i = 0)
    (i : Nat) (hi : i < t.rows.length) :
    decodeField t preset (encode t r) i = r i := codec_roundtrip t hok preset r hp i hi

/-- re-encoding the decoded record gives the same JSON object (fixpoint) -/
theorem reencode_fixpoint (t : Table) (hok : TableOK t = true) (preset r : Rec)
    (hp : ∀ i row, t.rows[i]? = some row → row.presetNonZero = false → preset i = 0) :
    encode t (fun i => if i < t.rows.length then decodeField t preset (encode t r) i else r i) = encode t r := by
  have hrec : ∀ i, (fun i => if i < t.rows.length then decodeField t preset (encode t r) i else r i) i = r i := by
    intro i
    by_cases hi : i < t.rows.length
    · simp only [hi, if_true]; exact codec_roundtrip t hok preset r hp i hi
    · simp [hi]
  have : (fun i => if i < t.rows.length then decodeField t preset (encode t r) i else r i) = r := funext hrec
  rw [this]

/-! ## the tables extracted from the source are well formed -/

theorem fieldMapping_table_ok : TableOK Gen.fieldMappingTable = true := by decide
theorem documentMapping_table_ok : TableOK Gen.documentMappingTable = true := by decide
theorem indexMapping_table_ok : TableOK Gen.indexMappingTable = true := by decide

/-! ## non-vacuity: the check does reject broken tables -/

example : TableOK ⟨[⟨"a", true, true⟩], [("a", 0)]⟩ = false := by decide      -- omitempty with a non-empty preset
example : TableOK ⟨[⟨"a", false, false⟩, ⟨"b", true, false⟩], [("a", 0)]⟩ = false := by decide  -- missing arm
example : TableOK ⟨[⟨"a", false, false⟩, ⟨"b", true, false⟩], [("a", 1), ("b", 0)]⟩ = false := by decide  -- crossed
example : decodeField Gen.documentMappingTable (fun i => if i < 2 then 1 else 0)
    (encode Gen.documentMappingTable (fun i => if i == 4 then 7 else 0)) 4 = 7 := by decide

end Bleve.Codec
