import BleveModel.Model.KV
set_option linter.unusedSimpArgs false
set_option linter.unusedVariables false
/-!
# C15 — KV store adapters are ordered maps with atomic batches and snapshot readers

"For each KV store usable under the upsidedown index (boltdb, goleveldb, gtreap, moss, and the
metrics wrapper), any sequence of batches of set, delete and merge operations leaves the store equal
to an ordered map on which the batches were applied atomically in order, with merges combined by the
configured merge operator. A reader sees the contents as of its creation regardless of later writes,
and get, multi-get, prefix and range iteration with seek return exactly the map's entries in byte
order."

Model: `Model/KV.lean` — the ordered map, `execBatch`, and the adapters' iterator logic over an
engine cursor.  Tie: `./check C15` runs the same seeded operation sequences against all five stores
(obtained through the registry) and the model and compares every answer.  Readers are values in the
model (a reader *is* the map it captured), so isolation is by construction there; that the real
readers behave like values is what the tie checks.
-/
namespace Bleve.KV

/-! ## bytewise order -/

theorem bytesLt_irrefl : ∀ a : Bytes, bytesLt a a = false := by
  intro a; induction a with
  | nil => rfl
  | cons x xs ih => simp [bytesLt, ih]

theorem bytesLt_asymm : ∀ a b : Bytes, bytesLt a b = true → bytesLt b a = false := by
  intro a
  induction a with
  | nil => intro b h; cases b <;> simp [bytesLt] at h ⊢
  | cons x xs ih =>
    intro b h
    cases b with
    | nil => simp [bytesLt] at h
    | cons y ys =>
      simp only [bytesLt] at h ⊢
      rcases Nat.lt_trichotomy x y with hxy | hxy | hxy
      · have : ¬ y < x := by omega
        simp [this, hxy]
      · subst hxy; simp only [Nat.lt_irrefl, if_false] at h ⊢; exact ih ys h
      · have : ¬ x < y := by omega
        simp [this, hxy] at h

theorem bytesLt_trans : ∀ a b c : Bytes, bytesLt a b = true → bytesLt b c = true → bytesLt a c = true := by
  intro a
  induction a with
  | nil =>
    intro b c h1 h2
    cases c with
    | nil => cases b <;> simp [bytesLt] at h2
    | cons z zs => rfl
  | cons x xs ih =>
    intro b c h1 h2
    cases b with
    | nil => simp [bytesLt] at h1
    | cons y ys =>
      cases c with
      | nil => simp [bytesLt] at h2
      | cons z zs =>
        simp only [bytesLt] at h1 h2 ⊢
        rcases Nat.lt_trichotomy x y with hxy | hxy | hxy
        · rcases Nat.lt_trichotomy y z with hyz | hyz | hyz
          · have : x < z := by omega
            simp [this]
          · subst hyz; simp [hxy]
          · have h3 : ¬ y < z := by omega
            simp [h3, hyz] at h2
        · subst hxy
          rcases Nat.lt_trichotomy x z with hyz | hyz | hyz
          · simp [hyz]
          · subst hyz
            simp only [Nat.lt_irrefl, if_false] at h1 h2 ⊢
            exact ih ys zs h1 h2
          · have h3 : ¬ x < z := by omega
            simp [h3, hyz] at h2
        · have h3 : ¬ x < y := by omega
          simp [h3, hxy] at h1

theorem bytesLt_total : ∀ a b : Bytes, a ≠ b → bytesLt a b = true ∨ bytesLt b a = true := by
  intro a
  induction a with
  | nil => intro b h; cases b with
    | nil => exact absurd rfl h
    | cons y ys => left; rfl
  | cons x xs ih =>
    intro b h
    cases b with
    | nil => right; rfl
    | cons y ys =>
      simp only [bytesLt]
      rcases Nat.lt_trichotomy x y with hxy | hxy | hxy
      · left; simp [hxy]
      · subst hxy
        have hne : xs ≠ ys := by intro e; apply h; rw [e]
        simp only [Nat.lt_irrefl, if_false]
        exact ih ys hne
      · right; simp [hxy]

/-! ## the store is a map: get / put / delete laws (last write wins) -/

theorem beq_bytes_refl (k : Bytes) : (k == k) = true := by simp

theorem get_put_same (s : Store) (k v : Bytes) : get (put s k v) k = some v := by
  induction s with
  | nil => simp [put, get]
  | cons p rest ih =>
    obtain ⟨k', v'⟩ := p
    simp only [put]
    by_cases h1 : (k == k') = true
    · simp [h1, get]
    · simp only [h1, Bool.false_eq_true, if_false]
      by_cases h2 : bytesLt k k' = true
      · simp [h2, get]
      · have hk : (k' == k) = false := by
          cases hkk : (k' == k)
          · rfl
          · exfalso; apply h1
            have e : k' = k := by simpa using hkk
            rw [e]; simp
        simp [h2, get, hk, ih]

theorem get_put_other (s : Store) (k k2 v : Bytes) (hne : k2 ≠ k) : get (put s k v) k2 = get s k2 := by
  induction s with
  | nil =>
    have : (k == k2) = false := by simp [beq_iff_eq]; exact fun e => hne e.symm
    simp [put, get, this]
  | cons p rest ih =>
    obtain ⟨k', v'⟩ := p
    have hkk2 : (k == k2) = false := by simp [beq_iff_eq]; exact fun e => hne e.symm
    simp only [put]
    by_cases h1 : (k == k') = true
    · have e : k = k' := by simpa [beq_iff_eq] using h1
      subst e
      simp [h1, get, hkk2]
    · simp only [h1, Bool.false_eq_true, if_false]
      by_cases h2 : bytesLt k k' = true
      · simp [h2, get, hkk2]
      · simp only [h2, Bool.false_eq_true, if_false, get]
        by_cases h3 : (k' == k2) = true
        · simp [h3]
        · simp [h3, ih]

theorem get_del_same (s : Store) (k : Bytes) : get (del s k) k = none := by
  induction s with
  | nil => rfl
  | cons p rest ih =>
    obtain ⟨k', v'⟩ := p
    simp only [del, List.filter]
    by_cases h : (k' == k) = true
    · simp only [h, Bool.not_true]; exact ih
    · simp only [h, Bool.not_false, get, Bool.false_eq_true, if_false]; exact ih

theorem get_del_other (s : Store) (k k2 : Bytes) (hne : k2 ≠ k) : get (del s k) k2 = get s k2 := by
  induction s with
  | nil => rfl
  | cons p rest ih =>
    obtain ⟨k', v'⟩ := p
    simp only [del, List.filter]
    by_cases h : (k' == k) = true
    · have e : k' = k := by simpa [beq_iff_eq] using h
      have h2 : (k' == k2) = false := by simp [beq_iff_eq, e]; exact fun e2 => hne e2.symm
      simp only [h, Bool.not_true, get, h2, Bool.false_eq_true, if_false]; exact ih
    · simp only [h, Bool.not_false, get]
      by_cases h3 : (k' == k2) = true
      · simp [h3]
      · simp only [h3, Bool.false_eq_true, if_false]; exact ih

/-! ## the store stays an *ordered* map -/

def SortedKeys (s : Store) : Prop := s.Pairwise (fun a b => bytesLt a.1 b.1 = true)

theorem mem_put (s : Store) (k v : Bytes) (x : Bytes × Bytes) (hx : x ∈ put s k v) :
    x = (k, v) ∨ x ∈ s := by
  induction s with
  | nil => simp [put] at hx; exact Or.inl hx
  | cons p rest ih =>
    obtain ⟨k', v'⟩ := p
    simp only [put] at hx
    split at hx
    · rcases List.mem_cons.1 hx with h | h
      · exact Or.inl h
      · exact Or.inr (List.mem_cons_of_mem _ h)
    · split at hx
      · rcases List.mem_cons.1 hx with h | h
        · exact Or.inl h
        · exact Or.inr h
      · rcases List.mem_cons.1 hx with h | h
        · exact Or.inr (h ▸ List.mem_cons_self)
        · rcases ih h with h | h
          · exact Or.inl h
          · exact Or.inr (List.mem_cons_of_mem _ h)

theorem put_sorted (s : Store) (k v : Bytes) (hs : SortedKeys s) : SortedKeys (put s k v) := by
  induction s with
  | nil => simp [put, SortedKeys]
  | cons p rest ih =>
    obtain ⟨k', v'⟩ := p
    unfold SortedKeys at hs ⊢
    rw [List.pairwise_cons] at hs
    simp only [put]
    by_cases h1 : (k == k') = true
    · have e : k = k' := by simpa [beq_iff_eq] using h1
      subst e
      simp only [h1, if_true]
      rw [List.pairwise_cons]; exact ⟨hs.1, hs.2⟩
    · simp only [h1, Bool.false_eq_true, if_false]
      by_cases h2 : bytesLt k k' = true
      · simp only [h2, if_true]
        rw [List.pairwise_cons]
        refine ⟨?_, List.pairwise_cons.2 hs⟩
        intro y hy
        rcases List.mem_cons.1 hy with rfl | hy
        · exact h2
        · exact bytesLt_trans _ _ _ h2 (hs.1 y hy)
      · simp only [h2, Bool.false_eq_true, if_false]
        have hne : k ≠ k' := by intro e; apply h1; simp [e]
        have hlt : bytesLt k' k = true := by
          rcases bytesLt_total k k' hne with h | h
          · exact absurd h h2
          · exact h
        rw [List.pairwise_cons]
        refine ⟨?_, ih hs.2⟩
        intro y hy
        rcases mem_put rest k v y hy with rfl | hy
        · exact hlt
        · exact hs.1 y hy

theorem del_sorted (s : Store) (k : Bytes) (hs : SortedKeys s) : SortedKeys (del s k) :=
  List.Pairwise.filter _ hs

/-- every batch keeps the store an ordered map, for every operation list -/
theorem execBatch_sorted (s : Store) (ops : List Op) (hs : SortedKeys s) : SortedKeys (execBatch s ops) := by
  unfold execBatch
  have h1 : ∀ (ms : List (Bytes × List Bytes)) (st : Store), SortedKeys st →
      SortedKeys (ms.foldl (fun st p => put st p.1 (fullMerge (get s p.1) p.2)) st) := by
    intro ms
    induction ms with
    | nil => intro st h; exact h
    | cons m ms ih => intro st h; exact ih _ (put_sorted st _ _ h)
  have h2 : ∀ (os : List Op) (st : Store), SortedKeys st →
      SortedKeys (os.foldl (fun st op => match op with
        | .set k v => put st k v
        | .del k => del st k
        | .merge _ _ => st) st) := by
    intro os
    induction os with
    | nil => intro st h; exact h
    | cons o os ih =>
      intro st h
      simp only [List.foldl_cons]
      apply ih
      cases o with
      | set k v => exact put_sorted st k v h
      | del k => exact del_sorted st k h
      | merge k v => exact h
  exact h2 ops _ (h1 _ s hs)

/-! ## the engine cursor: Seek positions at the first entry ≥ key, in key order -/

theorem seekFrom_ge (s : Store) (k : Bytes) (hs : SortedKeys s) :
    ∀ x ∈ seekFrom s k, bytesLt x.1 k = false := by
  induction s with
  | nil => intro x hx; simp [seekFrom] at hx
  | cons p rest ih =>
    unfold SortedKeys at hs
    rw [List.pairwise_cons] at hs
    intro x hx
    simp only [seekFrom, List.dropWhile] at hx
    cases hp : bytesLt p.1 k
    · simp only [hp] at hx
      rcases List.mem_cons.1 hx with rfl | hx
      · exact hp
      · -- later keys are larger than p.1, hence not below k either
        have hlt := hs.1 x hx
        cases hxk : bytesLt x.1 k
        · rfl
        · have := bytesLt_trans _ _ _ hlt hxk
          rw [hp] at this; cases this
    · simp only [hp] at hx
      exact ih hs.2 x hx

theorem seekFrom_sorted (s : Store) (k : Bytes) (hs : SortedKeys s) : SortedKeys (seekFrom s k) := by
  unfold seekFrom SortedKeys
  exact List.Pairwise.sublist (List.dropWhile_sublist _) hs

theorem seekFrom_skips_only_smaller (s : Store) (k : Bytes) (x : Bytes × Bytes) (hx : x ∈ s)
    (hge : bytesLt x.1 k = false) : x ∈ seekFrom s k := by
  induction s with
  | nil => cases hx
  | cons p rest ih =>
    simp only [seekFrom, List.dropWhile]
    cases hp : bytesLt p.1 k
    · simpa using hx
    · simp only
      rcases List.mem_cons.1 hx with rfl | hx'
      · rw [hp] at hge; cases hge
      · exact ih hx'

/-! ## non-vacuity -/

example : get (execBatch [] [.set [97] [1], .merge [98] [2], .del [97], .set [99] []]) [99] = some [] := by decide
example : (prefixIter [([97], [1]), ([97, 255], [2]), ([98], [3])] [97, 255]).current = some ([97, 255], [2]) := by
  decide

end Bleve.KV
