/-
Line-protocol helpers shared by all drivers: whitespace-separated tokens, bytes as hex
("-" = empty), integers in decimal, 64-bit patterns as 16 hex digits.
-/
namespace Bleve.Proto

def hexDigit (c : Char) : Option Nat :=
  if '0' ≤ c ∧ c ≤ '9' then some (c.toNat - '0'.toNat)
  else if 'a' ≤ c ∧ c ≤ 'f' then some (c.toNat - 'a'.toNat + 10)
  else if 'A' ≤ c ∧ c ≤ 'F' then some (c.toNat - 'A'.toNat + 10)
  else none

def parseHexNat (s : String) : Option Nat :=
  if s.isEmpty then none else
  s.toList.foldl (fun acc c => match acc, hexDigit c with
    | some a, some d => some (a * 16 + d)
    | _, _ => none) (some 0)

def parseHexBytesAux : List Char → List Nat → Option (List Nat)
  | [], acc => some acc.reverse
  | [_], _ => none
  | a :: b :: rest, acc =>
    match hexDigit a, hexDigit b with
    | some x, some y => parseHexBytesAux rest ((x * 16 + y) :: acc)
    | _, _ => none

def parseHexBytes (s : String) : Option (List Nat) :=
  if s == "-" then some [] else parseHexBytesAux s.toList []

def hexChar (n : Nat) : Char :=
  if n < 10 then Char.ofNat ('0'.toNat + n) else Char.ofNat ('a'.toNat + n - 10)

def hexByte (b : Nat) : String := String.ofList [hexChar (b / 16 % 16), hexChar (b % 16)]

def hexOfBytes (l : List Nat) : String :=
  if l.isEmpty then "-" else String.join (l.map hexByte)

def hexFixed (digits : Nat) (n : Nat) : String :=
  String.ofList ((List.range digits).reverse.map (fun i => hexChar (n / 16^i % 16)))

def hex16 (n : Nat) : String := hexFixed 16 n

def parseW (s : String) : Option (BitVec 64) := (parseHexNat s).map (BitVec.ofNat 64)

def parseNat (s : String) : Option Nat := s.toNat?
def parseInt (s : String) : Option Int := s.toInt?

def parseBool (s : String) : Option Bool :=
  if s == "true" || s == "1" then some true else if s == "false" || s == "0" then some false else none

def tokens (line : String) : List String :=
  (line.splitOn " ").filter (fun t => !t.isEmpty) |>.map (fun t => (t.replace "\n" "").replace "\r" "") |>.filter (fun t => !t.isEmpty)

def boolStr (b : Bool) : String := if b then "true" else "false"

def joinWith (sep : String) (l : List String) : String := sep.intercalate l

end Bleve.Proto
