import BleveModel.Lemmas.TopN
set_option linter.unusedVariables false
/-! Top-k of a union from the top-k of the parts (the heart of C09). Core Lean only. -/
namespace Bleve.TopN
variable {α κ : Type}

def KeysNodup (key : α → κ) (l : List α) : Prop := (l.map key).Nodup

theorem KeysNodup.perm {key : α → κ} {l₁ l₂ : List α} (h : KeysNodup key l₁) (hp : l₁.Perm l₂) :
    KeysNodup key l₂ := (hp.map key).nodup_iff.1 h

theorem KeysNodup.sublist {key : α → κ} {l₁ l₂ : List α} (h : KeysNodup key l₂) (hs : l₁.Sublist l₂) :
    KeysNodup key l₁ := List.Nodup.sublist (hs.map key) h

theorem KeysNodup.left {key : α → κ} {a b : List α} (h : KeysNodup key (a ++ b)) : KeysNodup key a :=
  h.sublist (List.sublist_append_left a b)

theorem KeysNodup.right {key : α → κ} {a b : List α} (h : KeysNodup key (a ++ b)) : KeysNodup key b :=
  h.sublist (List.sublist_append_right a b)

/-- replacing the left part by a duplicate-free list of its own elements keeps keys distinct -/
theorem KeysNodup.replace_left {key : α → κ} {a a' b : List α} (h : KeysNodup key (a ++ b))
    (ha' : KeysNodup key a') (hsub : ∀ x ∈ a', x ∈ a) : KeysNodup key (a' ++ b) := by
  unfold KeysNodup at *
  rw [List.map_append] at h ⊢
  rw [List.nodup_append] at h ⊢
  refine ⟨ha', h.2.1, ?_⟩
  intro x hx y hy
  rw [List.mem_map] at hx
  obtain ⟨z, hz, rfl⟩ := hx
  exact h.2.2 (key z) (List.mem_map_of_mem (hsub z hz)) y hy

theorem isort_of_sorted {lt : α → α → Bool} {key : α → κ} (h : Ord lt key) (l : List α)
    (hs : Sorted lt l) (hk : KeysNodup key l) : isort lt l = l :=
  sorted_unique h _ _ (isort_sorted h l hk) hs (isort_perm lt l)

theorem isort_append (lt : α → α → Bool) (a b : List α) :
    isort lt (a ++ b) = b.foldl (fun acc d => ins lt d acc) (isort lt a) := by
  simp [isort, List.foldl_append]

/-- structural: the first `k` elements after inserting a batch depend only on the first `k`
    elements before -/
theorem take_foldl_ins (lt : α → α → Bool) (k : Nat) (b : List α) : ∀ (s : List α),
    (b.foldl (fun acc d => ins lt d acc) s).take k =
    (b.foldl (fun acc d => ins lt d acc) (s.take k)).take k := by
  induction b with
  | nil => intro s; simp [List.take_take]
  | cons d ds ih =>
    intro s
    simp only [List.foldl_cons]
    rw [ih (ins lt d s), ih (ins lt d (s.take k)), take_ins lt d s k]

/-- **merge lemma**: the top `k` of `a ++ b` is the top `k` of (top `k` of `a`) `++ b` -/
theorem topk_append_left {lt : α → α → Bool} {key : α → κ} (h : Ord lt key) (k : Nat) (a b : List α)
    (hk : KeysNodup key (a ++ b)) :
    (isort lt (a ++ b)).take k = (isort lt ((isort lt a).take k ++ b)).take k := by
  have hka : KeysNodup key a := hk.left
  have hsa : Sorted lt (isort lt a) := isort_sorted h a hka
  have hT : isort lt ((isort lt a).take k) = (isort lt a).take k :=
    isort_of_sorted h _ (List.Pairwise.take hsa)
      ((hka.perm (isort_perm lt a).symm).sublist (List.take_sublist _ _))
  rw [isort_append, isort_append, hT, take_foldl_ins]

theorem isort_comm {lt : α → α → Bool} {key : α → κ} (h : Ord lt key) (a b : List α)
    (hk : KeysNodup key (a ++ b)) : isort lt (a ++ b) = isort lt (b ++ a) := by
  have hp : (a ++ b).Perm (b ++ a) := List.perm_append_comm
  exact sorted_unique h _ _ (isort_sorted h _ hk) (isort_sorted h _ (hk.perm hp))
    ((isort_perm lt _).trans (hp.trans (isort_perm lt _).symm))

theorem topk_append_right {lt : α → α → Bool} {key : α → κ} (h : Ord lt key) (k : Nat) (a b : List α)
    (hk : KeysNodup key (a ++ b)) :
    (isort lt (a ++ b)).take k = (isort lt (a ++ (isort lt b).take k)).take k := by
  have hk' : KeysNodup key (b ++ a) := hk.perm List.perm_append_comm
  have hkb : KeysNodup key b := hk.right
  have hsub : ∀ x ∈ (isort lt b).take k, x ∈ b := fun x hx =>
    (isort_perm lt b).mem_iff.1 (List.mem_of_mem_take hx)
  have hkT : KeysNodup key ((isort lt b).take k) :=
    (hkb.perm (isort_perm lt b).symm).sublist (List.take_sublist _ _)
  have hk'' : KeysNodup key ((isort lt b).take k ++ a) := hk'.replace_left hkT hsub
  rw [isort_comm h a b hk, topk_append_left h k b a hk', isort_comm h _ a hk'']

/-- per-shard top `k`, concatenated: what the alias receives from its members -/
def shardTops (lt : α → α → Bool) (k : Nat) (shards : List (List α)) : List α :=
  (shards.map (fun l => (isort lt l).take k)).flatten

theorem shardTops_sub (lt : α → α → Bool) (k : Nat) (shards : List (List α)) :
    ∀ x ∈ shardTops lt k shards, x ∈ shards.flatten := by
  induction shards with
  | nil => intro x hx; simp [shardTops] at hx
  | cons l ls ih =>
    intro x hx
    simp only [shardTops, List.map_cons, List.flatten_cons, List.mem_append] at hx ⊢
    rcases hx with hx | hx
    · exact Or.inl ((isort_perm lt l).mem_iff.1 (List.mem_of_mem_take hx))
    · exact Or.inr (ih x hx)

theorem shardTops_nodup {lt : α → α → Bool} {key : α → κ} (k : Nat) (shards : List (List α))
    (hk : KeysNodup key shards.flatten) : KeysNodup key (shardTops lt k shards) := by
  induction shards with
  | nil => simpa [shardTops] using hk
  | cons l ls ih =>
    simp only [List.flatten_cons] at hk
    have hl : KeysNodup key ((isort lt l).take k) :=
      (hk.left.perm (isort_perm lt l).symm).sublist (List.take_sublist _ _)
    have h1 : KeysNodup key ((isort lt l).take k ++ ls.flatten) :=
      hk.replace_left hl (fun x hx => (isort_perm lt l).mem_iff.1 (List.mem_of_mem_take hx))
    have h2 : KeysNodup key (ls.flatten ++ (isort lt l).take k) := h1.perm List.perm_append_comm
    have h3 : KeysNodup key (shardTops lt k ls ++ (isort lt l).take k) :=
      h2.replace_left (ih hk.right) (shardTops_sub lt k ls)
    have : shardTops lt k (l :: ls) = (isort lt l).take k ++ shardTops lt k ls := by
      simp [shardTops]
    rw [this]
    exact h3.perm List.perm_append_comm

/-- **Top-k of a union.** For a strict total order, the first `k` of all documents are the first
    `k` of the concatenated per-shard first-`k` lists — for any number of shards, any sizes
    (including empty shards), any `k`. -/
theorem topk_of_union {lt : α → α → Bool} {key : α → κ} (h : Ord lt key) (k : Nat)
    (shards : List (List α)) (hk : KeysNodup key shards.flatten) :
    (isort lt (shardTops lt k shards)).take k = (isort lt shards.flatten).take k := by
  induction shards with
  | nil => simp [shardTops]
  | cons l ls ih =>
    simp only [List.flatten_cons] at hk ⊢
    have e : shardTops lt k (l :: ls) = (isort lt l).take k ++ shardTops lt k ls := by
      simp [shardTops]
    rw [e]
    have hkl : KeysNodup key ((isort lt l).take k) :=
      (hk.left.perm (isort_perm lt l).symm).sublist (List.take_sublist _ _)
    have hsubl : ∀ x ∈ (isort lt l).take k, x ∈ l := fun x hx =>
      (isort_perm lt l).mem_iff.1 (List.mem_of_mem_take hx)
    -- keys stay distinct in every intermediate list
    have n1 : KeysNodup key ((isort lt l).take k ++ ls.flatten) := hk.replace_left hkl hsubl
    have n2 : KeysNodup key ((isort lt l).take k ++ shardTops lt k ls) :=
      ((n1.perm List.perm_append_comm).replace_left (shardTops_nodup k ls hk.right)
        (shardTops_sub lt k ls)).perm List.perm_append_comm
    have ihr := ih hk.right
    -- right-hand side: replace l by its top k, then the rest by its top k
    rw [topk_append_left h k l ls.flatten hk]
    rw [topk_append_right h k _ ls.flatten n1]
    rw [← ihr]
    rw [← topk_append_right h k _ (shardTops lt k ls) n2]

/-- pages: skipping `from` and keeping `size` of the merged member pages (each `size+from` long)
    is the page of the whole -/
theorem page_of_union {lt : α → α → Bool} {key : α → κ} (h : Ord lt key) (size from_ : Nat)
    (shards : List (List α)) (hk : KeysNodup key shards.flatten) :
    ((isort lt (shardTops lt (size + from_) shards)).drop from_).take size =
    ((isort lt shards.flatten).drop from_).take size := by
  have e := topk_of_union h (size + from_) shards hk
  have t1 : ∀ L : List α, (L.drop from_).take size = (L.take (size + from_)).drop from_ := by
    intro L; rw [List.drop_take]; congr 1; omega
  rw [t1, t1, e]

end Bleve.TopN
