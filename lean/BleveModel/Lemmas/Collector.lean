import BleveModel.Model.Collector
import BleveModel.Lemmas.TopN
set_option linter.unusedVariables false
/-! Order-theoretic facts about `SortOrder.Compare`'s model. Core Lean only. -/
namespace Bleve.Collector
open Bleve.TopN

/-- a three-way comparison that is a total preorder -/
structure IsCmp {α : Type} (c : α → α → Int) : Prop where
  refl : ∀ x, c x x = 0
  anti : ∀ x y, c y x = - c x y
  trans : ∀ x y z, c x y ≤ 0 → c y z ≤ 0 → c x z ≤ 0

theorem IsCmp.strictL {α : Type} {c : α → α → Int} (h : IsCmp c) (x y z : α)
    (h1 : c x y < 0) (h2 : c y z ≤ 0) : c x z < 0 := by
  have a1 := h.anti x z
  have a2 := h.anti x y
  by_cases hc : c x z < 0
  · exact hc
  · have h3 : c z x ≤ 0 := by omega
    have := h.trans y z x h2 h3
    omega

theorem IsCmp.strictR {α : Type} {c : α → α → Int} (h : IsCmp c) (x y z : α)
    (h1 : c x y ≤ 0) (h2 : c y z < 0) : c x z < 0 := by
  have a1 := h.anti x z
  have a2 := h.anti y z
  by_cases hc : c x z < 0
  · exact hc
  · have h3 : c z x ≤ 0 := by omega
    have := h.trans z x y h3 h1
    omega

theorem IsCmp.eq_trans {α : Type} {c : α → α → Int} (h : IsCmp c) (x y z : α)
    (h1 : c x y = 0) (h2 : c y z = 0) : c x z = 0 := by
  have a := h.trans x y z (by omega) (by omega)
  have b1 := h.anti x y
  have b2 := h.anti y z
  have b := h.trans z y x (by omega) (by omega)
  have := h.anti x z
  omega

theorem cmpInt_isCmp : IsCmp cmpInt := by
  refine ⟨?_, ?_, ?_⟩
  · intro x; simp [cmpInt]
  · intro x y; unfold cmpInt; split <;> split <;> (try split) <;> (try split) <;> omega
  · intro x y z; unfold cmpInt; intro h1 h2
    split at h1 <;> split at h2 <;> (try split at h1) <;> (try split at h2) <;> split <;> (try split) <;> omega

theorem cmpBytes_refl : ∀ x, cmpBytes x x = 0 := by
  intro x; induction x with
  | nil => rfl
  | cons a as ih => simp [cmpBytes, ih]

theorem cmpBytes_anti : ∀ x y, cmpBytes y x = - cmpBytes x y := by
  intro x
  induction x with
  | nil => intro y; cases y <;> simp [cmpBytes]
  | cons a as ih =>
    intro y
    cases y with
    | nil => simp [cmpBytes]
    | cons b bs =>
      simp only [cmpBytes]
      rcases Nat.lt_trichotomy a b with h | h | h
      · have h1 : ¬ b < a := by omega
        simp [h, h1]
      · subst h; simp [ih]
      · have h1 : ¬ a < b := by omega
        simp [h, h1]

theorem cmpBytes_range : ∀ x y, -1 ≤ cmpBytes x y ∧ cmpBytes x y ≤ 1 := by
  intro x
  induction x with
  | nil => intro y; cases y <;> simp [cmpBytes]
  | cons a as ih =>
    intro y
    cases y with
    | nil => simp [cmpBytes]
    | cons b bs =>
      simp only [cmpBytes]
      split
      · omega
      · split
        · omega
        · exact ih bs

theorem cmpBytes_trans : ∀ x y z, cmpBytes x y ≤ 0 → cmpBytes y z ≤ 0 → cmpBytes x z ≤ 0 := by
  intro x
  induction x with
  | nil => intro y z _ _; cases z <;> simp [cmpBytes]
  | cons a as ih =>
    intro y z h1 h2
    cases y with
    | nil => simp [cmpBytes] at h1
    | cons b bs =>
      cases z with
      | nil => simp [cmpBytes] at h2
      | cons c cs =>
        simp only [cmpBytes] at h1 h2 ⊢
        rcases Nat.lt_trichotomy a b with hab | hab | hab
        · rcases Nat.lt_trichotomy b c with hbc | hbc | hbc
          · have : a < c := by omega
            simp [this]
          · subst hbc; simp [hab]
          · have h3 : ¬ b < c := by omega
            simp [h3, hbc] at h2
        · subst hab
          rcases Nat.lt_trichotomy a c with hbc | hbc | hbc
          · simp [hbc]
          · subst hbc
            simp only [Nat.lt_irrefl, if_false] at h1 h2 ⊢
            exact ih bs cs h1 h2
          · have h3 : ¬ a < c := by omega
            simp [h3, hbc] at h2
        · have h3 : ¬ a < b := by omega
          simp [h3, hab] at h1

theorem cmpBytes_isCmp : IsCmp cmpBytes := ⟨cmpBytes_refl, cmpBytes_anti, cmpBytes_trans⟩

/-- pulling a comparison back along a function, optionally negated, keeps it a total preorder -/
theorem IsCmp.comap {α β : Type} {c : β → β → Int} (h : IsCmp c) (f : α → β) :
    IsCmp (fun x y => c (f x) (f y)) :=
  ⟨fun x => h.refl _, fun x y => h.anti _ _, fun x y z => h.trans _ _ _⟩

theorem IsCmp.neg {α : Type} {c : α → α → Int} (h : IsCmp c) : IsCmp (fun x y => - c x y) := by
  refine ⟨fun x => by simp [h.refl], fun x y => by rw [h.anti x y], ?_⟩
  intro x y z h1 h2
  have a1 := h.anti x y
  have a2 := h.anti y z
  have a3 := h.anti x z
  have := h.trans z y x (by omega) (by omega)
  omega

theorem compAt_isCmp (s : SortSpec) (i : Nat) : IsCmp (compAt s i) := by
  unfold compAt
  cases hk : s.kind <;> cases hd : s.desc <;> simp only [Bool.false_eq_true, if_true, if_false]
  · exact cmpInt_isCmp.comap (fun m : Match => m.score)
  · exact (cmpInt_isCmp.comap (fun m : Match => m.score)).neg
  · exact cmpBytes_isCmp.comap (fun m : Match => m.keys.getD i [])
  · exact (cmpBytes_isCmp.comap (fun m : Match => m.keys.getD i [])).neg
  · exact cmpBytes_isCmp.comap (fun m : Match => m.keys.getD i [])
  · exact (cmpBytes_isCmp.comap (fun m : Match => m.keys.getD i [])).neg

theorem hitCmp_isCmp : IsCmp hitCmp := by
  unfold hitCmp
  exact cmpInt_isCmp.comap (fun m : Match => (m.hit : Int))

theorem lexCmp_isCmp {α : Type} (cs : List (α → α → Int)) (tie : α → α → Int)
    (hcs : ∀ c ∈ cs, IsCmp c) (ht : IsCmp tie) : IsCmp (lexCmp cs tie) := by
  induction cs with
  | nil => exact ht
  | cons c cs ih =>
    have hc := hcs c List.mem_cons_self
    have ihr := ih (fun c' hc' => hcs c' (List.mem_cons_of_mem _ hc'))
    refine ⟨?_, ?_, ?_⟩
    · intro x; simp [lexCmp, hc.refl, ihr.refl]
    · intro x y
      simp only [lexCmp]
      have := hc.anti x y
      by_cases h0 : c x y = 0
      · have : c y x = 0 := by omega
        simp [h0, this, ihr.anti x y]
      · have h1 : c y x ≠ 0 := by omega
        simp [h0, h1]; omega
    · intro x y z h1 h2
      simp only [lexCmp] at h1 h2 ⊢
      by_cases hxy : c x y = 0
      · by_cases hyz : c y z = 0
        · have hxz := hc.eq_trans x y z hxy hyz
          simp only [hxy, hyz, hxz, ne_eq, not_true_eq_false, if_false] at h1 h2 ⊢
          exact ihr.trans x y z h1 h2
        · simp only [hyz, ne_eq, not_false_eq_true, if_true] at h2
          have hlt : c y z < 0 := by omega
          have := hc.strictR x y z (by omega) hlt
          have hne : c x z ≠ 0 := by omega
          simp only [hne, ne_eq, not_false_eq_true, if_true]; omega
      · simp only [hxy, ne_eq, not_false_eq_true, if_true] at h1
        have hlt : c x y < 0 := by omega
        by_cases hyz : c y z = 0
        · have := hc.strictL x y z hlt (by omega)
          have hne : c x z ≠ 0 := by omega
          simp only [hne, ne_eq, not_false_eq_true, if_true]; omega
        · simp only [hyz, ne_eq, not_false_eq_true, if_true] at h2
          have := hc.strictL x y z hlt h2
          have hne : c x z ≠ 0 := by omega
          simp only [hne, ne_eq, not_false_eq_true, if_true]; omega

theorem lexCmp_zero_tie {α : Type} (cs : List (α → α → Int)) (tie : α → α → Int) (a b : α)
    (h : lexCmp cs tie a b = 0) : tie a b = 0 := by
  induction cs with
  | nil => exact h
  | cons c cs ih =>
    simp only [lexCmp] at h
    split at h
    · rename_i hne; exact absurd h hne
    · exact ih h

theorem cmp_isCmp (so : List SortSpec) : IsCmp (cmp so) := by
  unfold cmp
  apply lexCmp_isCmp _ _ _ hitCmp_isCmp
  intro c hc
  unfold comps at hc
  rw [List.mem_map] at hc
  obtain ⟨p, _, rfl⟩ := hc
  exact compAt_isCmp p.1 p.2

/-- `SortOrder.Compare` is a strict total order on matches with distinct hit numbers, for every
    sort specification. -/
theorem lt_ord (so : List SortSpec) : Ord (lt so) (fun m => m.hit) := by
  have hc := cmp_isCmp so
  refine ⟨?_, ?_, ?_⟩
  · intro a; simp [lt, hc.refl]
  · intro a b c h1 h2
    simp only [lt, decide_eq_true_eq] at h1 h2 ⊢
    exact hc.strictL a b c h1 (by omega)
  · intro a b hne
    simp only [lt, decide_eq_true_eq]
    have ha := hc.anti a b
    by_cases h0 : cmp so a b = 0
    · have ht := lexCmp_zero_tie _ _ _ _ h0
      unfold hitCmp cmpInt at ht
      split at ht
      · omega
      · split at ht
        · omega
        · exfalso; apply hne; omega
    · omega

end Bleve.Collector

namespace Bleve.Collector
open Bleve.TopN

/-- comparison on the sort keys alone (no tie-break) -/
def keyCmp (so : List SortSpec) (a b : Match) : Int := lexCmp (comps so) (fun _ _ => 0) a b

theorem lexCmp_of_key_ne {α : Type} (cs : List (α → α → Int)) (tie : α → α → Int) (a b : α)
    (h : lexCmp cs (fun _ _ => 0) a b ≠ 0) : lexCmp cs tie a b = lexCmp cs (fun _ _ => 0) a b := by
  induction cs with
  | nil => simp [lexCmp] at h
  | cons c cs ih =>
    simp only [lexCmp] at h ⊢
    split
    · rfl
    · rename_i h0
      simp only [h0, if_false] at h
      exact ih h

theorem lexCmp_congr_right {α : Type} (cs : List (α → α → Int)) (tie : α → α → Int) (a b b' : α)
    (hc : ∀ c ∈ cs, c a b = c a b') (ht : tie a b = tie a b') :
    lexCmp cs tie a b = lexCmp cs tie a b' := by
  induction cs with
  | nil => exact ht
  | cons c cs ih =>
    simp only [lexCmp]
    rw [hc c List.mem_cons_self, ih (fun c' hc' => hc c' (List.mem_cons_of_mem _ hc'))]

theorem compAt_hit_irrel (s : SortSpec) (i : Nat) (d h : Match) (n : Nat) :
    compAt s i d { h with hit := n } = compAt s i d h := rfl

/-- filtering a sorted list keeps it the sorted list of the filtered elements -/
theorem isort_filter {κ : Type} {lt : Match → Match → Bool} {key : Match → κ} (ho : Ord lt key)
    (P : Match → Bool) (ms : List Match) (hk : (ms.map key).Nodup) :
    isort lt (ms.filter P) = (isort lt ms).filter P := by
  have hk' : ((ms.filter P).map key).Nodup := by
    have : ((ms.filter P).map key).Sublist (ms.map key) := List.Sublist.map _ List.filter_sublist
    exact this.nodup hk
  apply sorted_unique ho
  · exact isort_sorted ho _ hk'
  · exact List.Pairwise.filter _ (isort_sorted ho ms hk)
  · exact (isort_perm lt _).trans ((isort_perm lt ms).filter P).symm

end Bleve.Collector

namespace Bleve.Collector
open Bleve.TopN

/-- any total-preorder comparison whose zero class is contained in "same key" gives a strict order
    that is total on distinct keys -/
theorem ord_of_isCmp {α κ : Type} (c : α → α → Int) (hc : IsCmp c) (key : α → κ)
    (hz : ∀ a b, c a b = 0 → key a = key b) : Ord (fun a b => decide (c a b < 0)) key := by
  refine ⟨?_, ?_, ?_⟩
  · intro a; simp [hc.refl]
  · intro a b d h1 h2
    simp only [decide_eq_true_eq] at h1 h2 ⊢
    exact hc.strictL a b d h1 (by omega)
  · intro a b hne
    simp only [decide_eq_true_eq]
    have ha := hc.anti a b
    by_cases h0 : c a b = 0
    · exact absurd (hz a b h0) hne
    · omega

end Bleve.Collector
