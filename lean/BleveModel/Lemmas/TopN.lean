import BleveModel.Model.TopN
/-! Proofs about the generic top-N collection model. Core Lean only. -/
namespace Bleve.TopN

variable {α : Type} {κ : Type}

/-- what the proofs need from "sorts before": a strict order that is total on elements with
    different keys (for matches the key is the hit number) -/
structure Ord (lt : α → α → Bool) (key : α → κ) : Prop where
  irrefl : ∀ a, lt a a = false
  trans : ∀ a b c, lt a b = true → lt b c = true → lt a c = true
  total : ∀ a b, key a ≠ key b → lt a b = true ∨ lt b a = true

theorem Ord.asymm {lt : α → α → Bool} {key : α → κ} (h : Ord lt key) (a b : α)
    (hab : lt a b = true) : lt b a = false := by
  cases hba : lt b a
  · rfl
  · have := h.trans a b a hab hba
    rw [h.irrefl] at this; cases this

def Sorted (lt : α → α → Bool) (l : List α) : Prop := l.Pairwise (fun a b => lt a b = true)

/-! ### insertion -/

theorem ins_perm (lt : α → α → Bool) (d : α) (l : List α) : (ins lt d l).Perm (d :: l) := by
  induction l with
  | nil => exact List.Perm.refl _
  | cons x xs ih =>
    simp only [ins]
    split
    · exact List.Perm.refl _
    · exact (List.Perm.cons x ih).trans (List.Perm.swap d x xs)

theorem insRev_perm (lt : α → α → Bool) (d : α) (l : List α) : (insRev lt d l).Perm (d :: l) := by
  induction l with
  | nil => exact List.Perm.refl _
  | cons x xs ih =>
    simp only [insRev]
    split
    · exact (List.Perm.cons x ih).trans (List.Perm.swap d x xs)
    · exact List.Perm.refl _

theorem addBack_perm (lt : α → α → Bool) (d : α) (l : List α) : (addBack lt d l).Perm (d :: l) := by
  unfold addBack
  refine (List.reverse_perm _).trans ((insRev_perm lt d _).trans ?_)
  exact List.Perm.cons d (List.reverse_perm l)

theorem ins_length (lt : α → α → Bool) (d : α) (l : List α) : (ins lt d l).length = l.length + 1 :=
  (ins_perm lt d l).length_eq

theorem mem_ins (lt : α → α → Bool) (d z : α) (l : List α) : z ∈ ins lt d l ↔ z = d ∨ z ∈ l := by
  rw [(ins_perm lt d l).mem_iff]; simp

theorem ins_sorted {lt : α → α → Bool} {key : α → κ} (h : Ord lt key) (d : α) (l : List α)
    (hs : Sorted lt l) (hk : ∀ x ∈ l, key x ≠ key d) : Sorted lt (ins lt d l) := by
  induction l with
  | nil => simp [ins, Sorted]
  | cons x xs ih =>
    unfold Sorted at hs
    rw [List.pairwise_cons] at hs
    simp only [ins]
    split
    · rename_i hdx
      unfold Sorted
      rw [List.pairwise_cons]
      refine ⟨?_, List.pairwise_cons.2 hs⟩
      intro y hy
      rcases List.mem_cons.1 hy with rfl | hy
      · exact hdx
      · exact h.trans _ _ _ hdx (hs.1 y hy)
    · rename_i hdx
      have hxd : lt x d = true := by
        rcases h.total x d (hk x List.mem_cons_self) with h1 | h1
        · exact h1
        · exact absurd h1 hdx
      unfold Sorted
      rw [List.pairwise_cons]
      refine ⟨?_, ih hs.2 (fun y hy => hk y (List.mem_cons_of_mem _ hy))⟩
      intro z hz
      rcases (mem_ins lt d z xs).1 hz with rfl | hz
      · exact hxd
      · exact hs.1 z hz

theorem insRev_sortedRev {lt : α → α → Bool} {key : α → κ} (h : Ord lt key) (d : α) (r : List α)
    (hs : r.Pairwise (fun a b => lt b a = true)) (hk : ∀ x ∈ r, key x ≠ key d) :
    (insRev lt d r).Pairwise (fun a b => lt b a = true) := by
  induction r with
  | nil => simp [insRev]
  | cons x xs ih =>
    rw [List.pairwise_cons] at hs
    simp only [insRev]
    split
    · rename_i hdx
      rw [List.pairwise_cons]
      refine ⟨?_, ih hs.2 (fun y hy => hk y (List.mem_cons_of_mem _ hy))⟩
      intro z hz
      rcases List.mem_cons.1 ((insRev_perm lt d xs).mem_iff.1 hz) with rfl | hz
      · exact hdx
      · exact hs.1 z hz
    · rename_i hdx
      have hxd : lt x d = true := by
        rcases h.total x d (hk x List.mem_cons_self) with h1 | h1
        · exact h1
        · exact absurd h1 hdx
      rw [List.pairwise_cons]
      refine ⟨?_, List.pairwise_cons.2 hs⟩
      intro z hz
      rcases List.mem_cons.1 hz with rfl | hz
      · exact hxd
      · exact h.trans _ _ _ (hs.1 z hz) hxd

theorem sorted_unique {lt : α → α → Bool} {key : α → κ} (h : Ord lt key) (l₁ l₂ : List α)
    (h1 : Sorted lt l₁) (h2 : Sorted lt l₂) (hp : l₁.Perm l₂) : l₁ = l₂ := by
  refine List.Perm.eq_of_pairwise (le := fun a b => lt a b = true) ?_ h1 h2 hp
  intro a b _ _ hab hba
  have := h.asymm a b hab
  rw [hba] at this; cases this

/-- on a sorted store the back-scan insertion of the slice store is ordered insertion -/
theorem addBack_eq_ins {lt : α → α → Bool} {key : α → κ} (h : Ord lt key) (d : α) (l : List α)
    (hs : Sorted lt l) (hk : ∀ x ∈ l, key x ≠ key d) : addBack lt d l = ins lt d l := by
  apply sorted_unique h
  · unfold addBack Sorted
    rw [List.pairwise_reverse]
    apply insRev_sortedRev h
    · rw [List.pairwise_reverse]; exact hs
    · intro x hx; exact hk x (List.mem_reverse.1 hx)
  · exact ins_sorted h d l hs hk
  · exact (addBack_perm lt d l).trans (ins_perm lt d l).symm

theorem take_ins (lt : α → α → Bool) (d : α) : ∀ (l : List α) (n : Nat),
    (ins lt d l).take n = (ins lt d (l.take n)).take n := by
  intro l
  induction l with
  | nil => intro n; simp
  | cons x xs ih =>
    intro n
    cases n with
    | zero => simp
    | succ m =>
      simp only [List.take_succ_cons, ins]
      split
      · simp only [List.take_succ_cons]
        congr 1
        cases m with
        | zero => simp
        | succ j => simp [List.take_take]
      · simp only [List.take_succ_cons]
        rw [ih m]

theorem ins_all_ge (lt : α → α → Bool) (d : α) (l : List α) (h : ∀ x ∈ l, lt d x = false) :
    ins lt d l = l ++ [d] := by
  induction l with
  | nil => rfl
  | cons x xs ih =>
    simp only [ins, h x List.mem_cons_self, Bool.false_eq_true, if_false, List.cons_append]
    rw [ih (fun y hy => h y (List.mem_cons_of_mem _ hy))]

theorem ins_append_lt (lt : α → α → Bool) (d l : α) (hdl : lt d l = true) (s : List α) :
    ins lt d (s ++ [l]) = ins lt d s ++ [l] := by
  induction s with
  | nil => simp [ins, hdl]
  | cons x xs ih =>
    simp only [List.cons_append, ins]
    split
    · rfl
    · rw [ih]; rfl

/-! ### the reference sort -/

theorem foldl_ins_perm (lt : α → α → Bool) (l acc : List α) :
    (l.foldl (fun acc d => ins lt d acc) acc).Perm (acc ++ l) := by
  induction l generalizing acc with
  | nil => simp
  | cons x xs ih =>
    simp only [List.foldl_cons]
    refine (ih (ins lt x acc)).trans ?_
    refine ((ins_perm lt x acc).append_right xs).trans ?_
    simp only [List.cons_append]
    exact (List.perm_middle).symm

theorem isort_perm (lt : α → α → Bool) (l : List α) : (isort lt l).Perm l := by
  have := foldl_ins_perm lt l []
  simpa [isort] using this

theorem foldl_ins_sorted {lt : α → α → Bool} {key : α → κ} (h : Ord lt key) (l acc : List α)
    (hs : Sorted lt acc) (hk : ((acc ++ l).map key).Nodup) :
    Sorted lt (l.foldl (fun acc d => ins lt d acc) acc) := by
  induction l generalizing acc with
  | nil => exact hs
  | cons x xs ih =>
    simp only [List.foldl_cons]
    have hk' : (acc.map key ++ key x :: xs.map key).Nodup := by simpa using hk
    apply ih
    · apply ins_sorted h x acc hs
      intro y hy hxy
      have : key x ∈ acc.map key := by rw [← hxy]; exact List.mem_map_of_mem hy
      have hd := (List.nodup_append.1 hk').2.2 _ this _ List.mem_cons_self
      exact hd rfl
    · have hp : ((ins lt x acc ++ xs).map key).Perm ((acc ++ x :: xs).map key) := by
        apply List.Perm.map
        refine ((ins_perm lt x acc).append_right xs).trans ?_
        simp only [List.cons_append]
        exact (List.perm_middle).symm
      exact (hp.nodup_iff).2 hk

theorem isort_sorted {lt : α → α → Bool} {key : α → κ} (h : Ord lt key) (l : List α)
    (hk : (l.map key).Nodup) : Sorted lt (isort lt l) := by
  unfold isort
  apply foldl_ins_sorted h l [] (by simp [Sorted]) (by simpa using hk)

theorem isort_snoc (lt : α → α → Bool) (p : List α) (d : α) :
    isort lt (p ++ [d]) = ins lt d (isort lt p) := by
  simp [isort, List.foldl_append]

end Bleve.TopN

namespace Bleve.TopN
variable {α : Type} {κ : Type}

theorem getLast?_split (l : List α) (a : α) (h : l.getLast? = some a) : l.dropLast ++ [a] = l := by
  have hne : l ≠ [] := by intro e; rw [e] at h; simp at h
  have := List.dropLast_concat_getLast hne
  rw [List.getLast?_eq_some_getLast hne] at h
  injection h with h
  rw [h] at this; exact this

/-- the collector invariant: store and the best evicted match together are the first `k+1`
    elements of the fully sorted prefix -/
def Inv (k : Nat) (st : St α) (S : List α) : Prop :=
  st.store ++ st.lowest.toList = S.take (k+1) ∧ st.store.length ≤ k ∧
    (st.lowest.isSome = true → st.store.length = k)

theorem handle_inv {lt : α → α → Bool} {key : α → κ} (h : Ord lt key) (k : Nat) (st : St α)
    (p : List α) (d : α) (hk : ((p ++ [d]).map key).Nodup) (hinv : Inv k st (isort lt p)) :
    Inv k (handle lt k st d) (isort lt (p ++ [d])) := by
  obtain ⟨heq, hlen, hsome⟩ := hinv
  have hkp : (p.map key).Nodup := by
    rw [List.map_append] at hk; exact (List.nodup_append.1 hk).1
  have hSs : Sorted lt (isort lt p) := isort_sorted h p hkp
  have hSk : ∀ x ∈ isort lt p, key x ≠ key d := by
    intro x hx hxd
    have hxp : x ∈ p := (isort_perm lt p).mem_iff.1 hx
    rw [List.map_append] at hk
    have := (List.nodup_append.1 hk).2.2 (key x) (List.mem_map_of_mem hxp) (key d) (by simp)
    exact this hxd
  have hTs : Sorted lt (st.store ++ st.lowest.toList) := by rw [heq]; exact List.Pairwise.take hSs
  have hTk : ∀ x ∈ st.store ++ st.lowest.toList, key x ≠ key d := by
    intro x hx; rw [heq] at hx; exact hSk x (List.mem_of_mem_take hx)
  have hstore_s : Sorted lt st.store := (List.pairwise_append.1 hTs).1
  have hstore_k : ∀ x ∈ st.store, key x ≠ key d := fun x hx => hTk x (List.mem_append_left _ hx)
  have hadd : addBack lt d st.store = ins lt d st.store := addBack_eq_ins h d st.store hstore_s hstore_k
  rw [isort_snoc]
  unfold Inv
  rw [take_ins, ← heq]
  unfold handle
  cases hl : st.lowest with
  | some l =>
    have hlenk : st.store.length = k := hsome (by rw [hl]; rfl)
    rw [hl] at hTs hTk
    simp only [Option.toList_some] at hTs hTk ⊢
    have hxl : ∀ x ∈ st.store, lt x l = true := fun x hx =>
      (List.pairwise_append.1 hTs).2.2 x hx l (List.mem_singleton.2 rfl)
    cases hdl : lt d l with
    | false =>
      have hld : lt l d = true := by
        rcases h.total l d (hTk l (by simp)) with h1 | h1
        · exact h1
        · rw [hdl] at h1; cases h1
      have hall : ∀ x ∈ st.store ++ [l], lt d x = false := by
        intro x hx
        rcases List.mem_append.1 hx with hx | hx
        · exact h.asymm x d (h.trans x l d (hxl x hx) hld)
        · rw [List.mem_singleton.1 hx]; exact hdl
      simp only [Bool.not_false, if_true, hl, Option.toList_some, Option.isSome_some]
      refine ⟨?_, hlen, fun _ => hlenk⟩
      rw [ins_all_ge lt d _ hall, List.take_left' (by simp [hlenk])]
    | true =>
      simp only [Bool.not_true, Bool.false_eq_true, if_false, hadd]
      have hlen' : (ins lt d st.store).length = k + 1 := by rw [ins_length, hlenk]
      have hgt : (ins lt d st.store).length > k := by omega
      simp only [hgt, if_true]
      cases hg : (ins lt d st.store).getLast? with
      | none =>
        rw [List.getLast?_eq_none_iff] at hg
        rw [hg] at hlen'; simp at hlen'
      | some removed =>
        have hsplit := getLast?_split _ _ hg
        have hrem : removed ∈ ins lt d st.store := List.mem_of_getLast? hg
        have hrl : lt removed l = true := by
          rcases (mem_ins lt d removed st.store).1 hrem with rfl | hr
          · exact hdl
          · exact hxl removed hr
        simp only [hrl, if_true, Option.toList_some, Option.isSome_some]
        refine ⟨?_, ?_, fun _ => ?_⟩
        · rw [hsplit, ins_append_lt lt d l hdl, List.take_left' hlen']
        · rw [List.length_dropLast]; omega
        · rw [List.length_dropLast]; omega
  | none =>
    rw [hl] at heq
    simp only [Option.toList_none, List.append_nil, hadd] at heq ⊢
    have hlen' : (ins lt d st.store).length = st.store.length + 1 := ins_length lt d st.store
    by_cases hgt : (ins lt d st.store).length > k
    · simp only [hgt, if_true]
      cases hg : (ins lt d st.store).getLast? with
      | none =>
        rw [List.getLast?_eq_none_iff] at hg
        rw [hg] at hlen'; simp at hlen'
      | some removed =>
        have hsplit := getLast?_split _ _ hg
        simp only [Option.toList_some, Option.isSome_some]
        refine ⟨?_, ?_, fun _ => ?_⟩
        · rw [hsplit, List.take_of_length_le (by omega)]
        · rw [List.length_dropLast]; omega
        · rw [List.length_dropLast]; omega
    · simp only [hgt, if_false, Option.toList_none, List.append_nil]
      refine ⟨?_, by omega, fun hc => by cases hc⟩
      rw [List.take_of_length_le (by omega)]

theorem foldl_handle_inv {lt : α → α → Bool} {key : α → κ} (h : Ord lt key) (k : Nat)
    (ms p : List α) (st : St α) (hk : ((p ++ ms).map key).Nodup) (hinv : Inv k st (isort lt p)) :
    Inv k (ms.foldl (handle lt k) st) (isort lt (p ++ ms)) := by
  induction ms generalizing p st with
  | nil => simpa using hinv
  | cons d ds ih =>
    simp only [List.foldl_cons]
    have e : p ++ d :: ds = (p ++ [d]) ++ ds := by simp
    rw [e] at hk ⊢
    apply ih (p ++ [d]) _ hk
    apply handle_inv h k st p d _ hinv
    rw [List.map_append] at hk
    exact (List.nodup_append.1 hk).1

theorem inv_store (k : Nat) (st : St α) (S : List α) (hinv : Inv k st S) : st.store = S.take k := by
  obtain ⟨heq, hlen, hsome⟩ := hinv
  cases hl : st.lowest with
  | none =>
    rw [hl] at heq
    simp only [Option.toList_none, List.append_nil] at heq
    have : (S.take (k+1)).length ≤ k := by rw [← heq]; exact hlen
    rw [List.length_take] at this
    have hS : S.length ≤ k := by omega
    rw [heq, List.take_of_length_le (by omega), List.take_of_length_le hS]
  | some l =>
    have hlenk : st.store.length = k := hsome (by rw [hl]; rfl)
    have := congrArg (List.take k) heq
    rw [List.take_left' hlenk, List.take_take] at this
    rw [this]; congr 1; omega

/-- **Main theorem**: for every match stream whose elements have distinct keys, every size and
    skip, the collector's result is the requested slice of the fully sorted list. -/
theorem collect_eq_page {lt : α → α → Bool} {key : α → κ} (h : Ord lt key) (size skip : Nat)
    (ms : List α) (hk : (ms.map key).Nodup) : collect lt size skip ms = page lt size skip ms := by
  unfold collect page
  have hinv := foldl_handle_inv h (size + skip) ms [] ⟨[], none⟩ (by simpa using hk)
    ⟨by simp [isort], by simp, by intro hc; cases hc⟩
  simp only [List.nil_append] at hinv
  rw [inv_store _ _ _ hinv, List.drop_take]
  congr 1; omega

/-- the specification does not depend on the sorting algorithm: any sorted permutation will do -/
theorem page_eq_of_sorted_perm {lt : α → α → Bool} {key : α → κ} (h : Ord lt key) (size skip : Nat)
    (ms L : List α) (hk : (ms.map key).Nodup) (hp : L.Perm ms) (hs : Sorted lt L) :
    page lt size skip ms = (L.drop skip).take size := by
  unfold page
  rw [sorted_unique h (isort lt ms) L (isort_sorted h ms hk) hs ((isort_perm lt ms).trans hp.symm)]

end Bleve.TopN

namespace Bleve.TopN
theorem inj_of_nodup_map {α κ : Type} (f : α → κ) : ∀ (l : List α), (l.map f).Nodup →
    ∀ a ∈ l, ∀ b ∈ l, f a = f b → a = b := by
  intro l
  induction l with
  | nil => intro _ a ha; cases ha
  | cons x xs ih =>
    intro hn a ha b hb hab
    rw [List.map_cons, List.nodup_cons] at hn
    rcases List.mem_cons.1 ha with rfl | ha'
    · rcases List.mem_cons.1 hb with rfl | hb'
      · rfl
      · exact absurd (hab ▸ List.mem_map_of_mem hb') hn.1
    · rcases List.mem_cons.1 hb with rfl | hb'
      · exact absurd (hab ▸ List.mem_map_of_mem ha') hn.1
      · exact ih hn.2 a ha' b hb' hab
end Bleve.TopN
