import BleveModel.Model.Codec
set_option linter.unusedVariables false
/-! Round-trip proof for table-driven codecs. Core Lean only. -/
namespace Bleve.Codec

theorem lookup_encodeFrom_not_mem (r : Rec) (rows : List Row) (off : Nat) (k : String)
    (h : k ∉ rows.map (·.key)) : lookup (encodeFrom r off rows) k = none := by
  induction rows generalizing off with
  | nil => rfl
  | cons row rest ih =>
    simp only [List.map_cons, List.mem_cons, not_or] at h
    simp only [encodeFrom]
    split
    · exact ih (off + 1) h.2
    · simp only [lookup]
      have : (row.key == k) = false := by
        simp only [beq_eq_false_iff_ne, ne_eq]; exact fun e => h.1 e.symm
      simp [this, ih (off + 1) h.2]

/-- with distinct keys, looking up the key of row `j` in the encoding yields that field's value,
    unless the field was omitted -/
theorem lookup_encodeFrom (r : Rec) : ∀ (rows : List Row) (off j : Nat) (row : Row),
    (rows.map (·.key)).Nodup → rows[j]? = some row →
    lookup (encodeFrom r off rows) row.key =
      if row.omitEmpty && r (off + j) == 0 then none else some (r (off + j)) := by
  intro rows
  induction rows with
  | nil => intro off j row _ h; simp at h
  | cons x rest ih =>
    intro off j row hn hj
    rw [List.map_cons, List.nodup_cons] at hn
    cases j with
    | zero =>
      simp only [List.getElem?_cons_zero, Option.some.injEq] at hj
      subst hj
      simp only [encodeFrom, Nat.add_zero]
      split
      · exact lookup_encodeFrom_not_mem r rest (off + 1) x.key hn.1
      · simp [lookup]
    | succ j' =>
      simp only [List.getElem?_cons_succ] at hj
      have hmem : row.key ∈ rest.map (·.key) := by
        have := List.mem_of_getElem? hj
        exact List.mem_map_of_mem this
      have hne : (x.key == row.key) = false := by
        simp only [beq_eq_false_iff_ne, ne_eq]
        intro e; rw [e] at hn; exact hn.1 hmem
      have e : off + (j' + 1) = (off + 1) + j' := by omega
      simp only [encodeFrom]
      split
      · rw [ih (off + 1) j' row hn.2 hj, e]
      · simp only [lookup, hne, Bool.false_eq_true, if_false]
        rw [ih (off + 1) j' row hn.2 hj, e]

theorem filter_unique_target (arms : List (String × Nat)) (k : String) (i : Nat)
    (hn : (arms.map (·.2)).Nodup) (hm : (k, i) ∈ arms) :
    arms.filter (fun a => a.2 == i) = [(k, i)] := by
  induction arms with
  | nil => cases hm
  | cons a rest ih =>
    rw [List.map_cons, List.nodup_cons] at hn
    rcases List.mem_cons.1 hm with rfl | hm'
    · have hrest : rest.filter (fun a => a.2 == i) = [] := by
        apply List.filter_eq_nil_iff.2
        intro b hb
        simp only [beq_iff_eq]
        intro e
        have hb2 : b.2 ∈ rest.map (·.2) := List.mem_map_of_mem (f := (·.2)) hb
        rw [e] at hb2
        exact hn.1 hb2
      simp [List.filter, hrest]
    · have hne : (a.2 == i) = false := by
        simp only [beq_eq_false_iff_ne, ne_eq]
        intro e
        apply hn.1
        rw [e]
        exact List.mem_map_of_mem (f := (·.2)) hm'
      simp only [List.filter, hne]
      exact ih hn.2 hm'

/-- **Codec round trip.** For every table that passes `TableOK`, every record and every field:
    decoding the encoding gives the field back (presets are the empty value wherever the table says
    so). -/
theorem codec_roundtrip (t : Table) (hok : TableOK t = true) (preset r : Rec)
    (hp : ∀ i row, t.rows[i]? = some row → row.presetNonZero = false → preset i = 0)
    (i : Nat) (hi : i < t.rows.length) :
    decodeField t preset (encode t r) i = r i := by
  unfold TableOK at hok
  simp only [Bool.and_eq_true, decide_eq_true_eq, List.all_eq_true, List.mem_range] at hok
  obtain ⟨⟨⟨hkeys, _⟩, htargets⟩, hall⟩ := hok
  have hrow := hall i hi
  cases hr : t.rows[i]? with
  | none => rw [hr] at hrow; cases hrow
  | some row =>
    rw [hr] at hrow
    simp only [Bool.and_eq_true, Bool.not_eq_true', Bool.and_eq_false_iff] at hrow
    have harm : (row.key, i) ∈ t.arms := by
      have := hrow.1
      exact List.contains_iff_mem.1 this
    unfold decodeField
    rw [filter_unique_target t.arms row.key i htargets harm]
    simp only [List.filterMap_cons, List.filterMap_nil]
    have hl := lookup_encodeFrom r t.rows 0 i row hkeys hr
    simp only [Nat.zero_add] at hl
    unfold encode
    rw [hl]
    by_cases homit : (row.omitEmpty && r i == 0) = true
    · simp only [homit, if_true]
      simp only [Bool.and_eq_true, beq_iff_eq] at homit
      have hpz : row.presetNonZero = false := by
        rcases hrow.2 with h | h
        · rw [homit.1] at h; cases h
        · exact h
      rw [hp i row hr hpz, homit.2]
    · simp [homit]

end Bleve.Codec
