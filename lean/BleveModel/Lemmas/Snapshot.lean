import BleveModel.Model.Snapshot
set_option linter.unusedVariables false
set_option linter.unusedSimpArgs false
/-! Lemmas about the snapshot algebra. Core Lean only. -/
namespace Bleve.Snapshot
open Bleve.KV (Bytes)

/-! ### association lists with distinct keys -/

theorem lookup_some_of_mem {β : Type} : ∀ (l : List (Bytes × β)) (k : Bytes) (b : β),
    (l.map (·.1)).Nodup → (k, b) ∈ l → l.lookup k = some b := by
  intro l
  induction l with
  | nil => intro k b _ h; cases h
  | cons p rest ih =>
    intro k b hn hm
    rw [List.map_cons, List.nodup_cons] at hn
    rw [List.lookup_cons]
    rcases List.mem_cons.1 hm with rfl | hm'
    · simp
    · have hne : (k == p.1) = false := by
        simp only [beq_eq_false_iff_ne, ne_eq]
        intro e
        apply hn.1
        rw [← e]
        exact List.mem_map_of_mem (f := (·.1)) hm'
      simp only [hne]
      exact ih k b hn.2 hm'

theorem mem_of_lookup_some {β : Type} : ∀ (l : List (Bytes × β)) (k : Bytes) (b : β),
    l.lookup k = some b → (k, b) ∈ l := by
  intro l
  induction l with
  | nil => intro k b h; simp at h
  | cons p rest ih =>
    intro k b h
    rw [List.lookup_cons] at h
    by_cases hk : (k == p.1) = true
    · simp only [hk] at h
      have e : k = p.1 := by simpa using hk
      injection h with h
      rw [e, ← h]; exact List.mem_cons_self
    · simp only [hk] at h
      exact List.mem_cons_of_mem _ (ih k b h)

/-- with distinct keys the answer of a lookup does not depend on the order of the entries -/
theorem lookup_perm {β : Type} (l₁ l₂ : List (Bytes × β)) (k : Bytes) (hn : (l₁.map (·.1)).Nodup)
    (hp : l₁.Perm l₂) : l₁.lookup k = l₂.lookup k := by
  have hn2 : (l₂.map (·.1)).Nodup := (hp.map _).nodup_iff.1 hn
  cases h1 : l₁.lookup k with
  | some b =>
    have := mem_of_lookup_some l₁ k b h1
    exact (lookup_some_of_mem l₂ k b hn2 (hp.mem_iff.1 this)).symm
  | none =>
    cases h2 : l₂.lookup k with
    | none => rfl
    | some b =>
      have := mem_of_lookup_some l₂ k b h2
      have := lookup_some_of_mem l₁ k b hn (hp.mem_iff.2 this)
      rw [h1] at this; cases this

theorem lookup_filter_keep {β : Type} (ids : List Bytes) (k : Bytes) (hk : ids.contains k = false) :
    ∀ (l : List (Bytes × β)), (l.filter (fun p => !ids.contains p.1)).lookup k = l.lookup k := by
  intro l
  induction l with
  | nil => rfl
  | cons p rest ih =>
    by_cases hp : ids.contains p.1 = true
    · have hne : (k == p.1) = false := by
        simp only [beq_eq_false_iff_ne, ne_eq]; intro e; rw [e] at hk; rw [hk] at hp; cases hp
      have hf : ¬ ((fun q : Bytes × β => !ids.contains q.1) p = true) := by simp only [hp]; simp
      rw [List.filter_cons_of_neg (p := fun q : Bytes × β => !ids.contains q.1) (a := p) (l := rest) hf, List.lookup_cons, hne]
      exact ih
    · have hp' : ids.contains p.1 = false := by
        cases h : ids.contains p.1
        · rfl
        · exact absurd h hp
      have hf : (fun q : Bytes × β => !ids.contains q.1) p = true := by simp only [hp']; rfl
      rw [List.filter_cons_of_pos (p := fun q : Bytes × β => !ids.contains q.1) (a := p) (l := rest) hf, List.lookup_cons, List.lookup_cons, ih]

theorem lookup_filter_drop {β : Type} (ids : List Bytes) (k : Bytes) (hk : ids.contains k = true) :
    ∀ (l : List (Bytes × β)), (l.filter (fun p => !ids.contains p.1)).lookup k = none := by
  intro l
  rw [List.lookup_eq_none_iff]
  intro p hp
  rw [List.mem_filter] at hp
  simp only [bne_iff_ne, ne_eq]
  intro e
  have := hp.2
  rw [← e, hk] at this
  simp at this

/-! ### obsoleting documents in a segment -/

theorem zipIdx_index_unique {α : Type} (l : List α) (a b : α) (i : Nat)
    (ha : (a, i) ∈ l.zipIdx) (hb : (b, i) ∈ l.zipIdx) : a = b := by
  rw [List.mk_mem_zipIdx_iff_getElem?] at ha hb
  rw [ha] at hb; injection hb

theorem obsolete_live (ids : List Bytes) (s : Seg) :
    (obsolete ids s).live = s.live.filter (fun p => !ids.contains p.1) := by
  unfold Seg.live obsolete
  simp only
  rw [List.filter_map, List.filter_filter]
  congr 1
  apply List.filter_congr
  intro p hp
  simp only [Function.comp]
  -- membership of p.2 in the newly obsoleted numbers
  have hmem : (List.map (·.2) (s.docs.zipIdx.filter (fun q => ids.contains q.1.1 && !s.del.contains q.2))).contains p.2
      = (ids.contains p.1.1 && !s.del.contains p.2) := by
    by_cases hc : (ids.contains p.1.1 && !s.del.contains p.2) = true
    · rw [hc]
      apply List.contains_iff_mem.2
      rw [List.mem_map]
      exact ⟨p, List.mem_filter.2 ⟨hp, hc⟩, rfl⟩
    · have hc' : (ids.contains p.1.1 && !s.del.contains p.2) = false := by simpa using hc
      rw [hc']
      cases hx : (List.map (·.2) (s.docs.zipIdx.filter (fun q => ids.contains q.1.1 && !s.del.contains q.2))).contains p.2
      · rfl
      · exfalso
        have hm := List.contains_iff_mem.1 hx
        rw [List.mem_map] at hm
        obtain ⟨q, hq, he⟩ := hm
        rw [List.mem_filter] at hq
        have hqp : q.1 = p.1 := by
          apply zipIdx_index_unique s.docs q.1 p.1 p.2
          · have : (q.1, p.2) = q := by rw [← he]
            rw [this]; exact hq.1
          · exact hp
        have := hq.2
        rw [hqp, he] at this
        rw [this] at hc'; cases hc'
  rw [List.contains_append, hmem]
  cases h1 : s.del.contains p.2 <;> cases h2 : ids.contains p.1.1 <;> simp

theorem flatMap_drop_empty (l : List Seg) :
    (l.filter (fun s => !s.live.isEmpty)).flatMap Seg.live = l.flatMap Seg.live := by
  induction l with
  | nil => rfl
  | cons s rest ih =>
    rw [List.filter_cons]
    by_cases he : s.live.isEmpty = true
    · have : s.live = [] := List.isEmpty_iff.1 he
      simp [he, List.flatMap_cons, this, ih]
    · simp [he, List.flatMap_cons, ih]

theorem flatMap_obsolete (ids : List Bytes) (r : Snap) :
    (r.map (obsolete ids)).flatMap Seg.live = (liveDocs r).filter (fun p => !ids.contains p.1) := by
  unfold liveDocs
  induction r with
  | nil => rfl
  | cons s rest ih =>
    simp only [List.map_cons, List.flatMap_cons, List.filter_append]
    rw [obsolete_live, ih]

/-- what is live after introducing a batch: the old live documents not mentioned by the batch,
    followed by the batch's documents -/
theorem liveDocs_introduce (r : Snap) (b : Batch) (sid : Nat) :
    liveDocs (introduce r b sid) =
      (liveDocs r).filter (fun p => !(b.map (·.1)).contains p.1) ++ b.newDocs := by
  unfold introduce
  simp only
  split
  · rename_i he
    have : b.newDocs = [] := List.isEmpty_iff.1 he
    rw [this, List.append_nil]
    unfold liveDocs
    rw [flatMap_drop_empty]
    exact flatMap_obsolete _ r
  · have hnew : liveDocs [⟨sid, b.newDocs, []⟩] = b.newDocs := by
      simp [liveDocs, Seg.live, List.filter_eq_self.2, List.zipIdx_map_fst]
    unfold liveDocs at hnew ⊢
    rw [List.flatMap_append, flatMap_drop_empty, flatMap_obsolete, hnew]
    rfl

end Bleve.Snapshot
