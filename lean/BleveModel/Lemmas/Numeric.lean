import BleveModel.Model.Numeric
/-! Helper lemmas for the numeric model (C07). Core Lean only. -/
namespace Bleve.Numeric

/-! ### float ↔ sortable int -/

theorem nat_xor_ones (n y : Nat) (h : y < 2^n) : y ^^^ (2^n - 1) = 2^n - 1 - y := by
  have h1 := BitVec.toNat_not (x := BitVec.ofNat n y)
  rw [← BitVec.xor_allOnes, BitVec.toNat_xor, BitVec.toNat_allOnes, BitVec.toNat_ofNat,
    Nat.mod_eq_of_lt h] at h1
  exact h1

theorem msb_iff (a : W) : a.msb = true ↔ 2^63 ≤ a.toNat := by
  rw [BitVec.msb_eq_decide]; simp

theorem msb_false_iff (a : W) : a.msb = false ↔ a.toNat < 2^63 := by
  rw [BitVec.msb_eq_decide]; simp

theorem xor_signMask_toNat (a : W) (h : a.msb = true) :
    (a ^^^ signMask).toNat = 3 * 2^63 - 1 - a.toNat := by
  have ha := (msb_iff a).1 h
  have hlt := a.isLt
  rw [BitVec.toNat_xor]
  have hd : (a.toNat ^^^ signMask.toNat) / 2^63 = 1 := by
    rw [Nat.xor_div_two_pow]
    have : a.toNat / 2^63 = 1 := by omega
    rw [this]; decide
  have hm : (a.toNat ^^^ signMask.toNat) % 2^63 = 2^63 - 1 - a.toNat % 2^63 := by
    rw [Nat.xor_mod_two_pow]
    have : signMask.toNat % 2^63 = 2^63 - 1 := by decide
    rw [this]
    exact nat_xor_ones 63 _ (Nat.mod_lt _ (by decide))
  omega

theorem xor_signMask_msb (a : W) : (a ^^^ signMask).msb = a.msb := by
  rw [BitVec.msb_xor]; have : signMask.msb = false := by decide
  rw [this]; simp

theorem f2i_msb (a : W) : (f2i a).msb = a.msb := by
  unfold f2i; cases h : a.msb
  · simp [h]
  · simp only [if_true]; rw [xor_signMask_msb, h]

/-- signed value of the sortable int, in closed form -/
theorem f2i_toInt (a : W) :
    (f2i a).toInt = if a.msb then (2:Int)^63 - 1 - (a.toNat : Int) else (a.toNat : Int) := by
  unfold f2i
  cases h : a.msb
  · simp only [Bool.false_eq_true, if_false]; exact BitVec.toInt_eq_toNat_of_msb h
  · simp only [if_true]
    have h2 := xor_signMask_msb a
    rw [h] at h2
    have e := xor_signMask_toNat a h
    have := (msb_iff _).1 h
    have := a.isLt
    rw [BitVec.toInt_eq_toNat_cond]
    split <;> omega

/-! ### range splitting: the block-index cover -/

theorem pow16_succ (lvl : Nat) : (2:Int)^(4*(lvl+1)) = 2^(4*lvl) * 16 := by
  have : 4*(lvl+1) = 4*lvl + 4 := by omega
  rw [this, Int.pow_add]; rfl

theorem div_succ_level (v : Int) (lvl : Nat) : v / 2^(4*(lvl+1)) = v / 2^(4*lvl) / 16 := by
  rw [pow16_succ, Int.ediv_ediv_of_nonneg]
  exact Int.le_of_lt (Int.pow_pos (by decide))

theorem covers_mk (a b : Int) (lvl : Nat) (v : Int) :
    (Rng.mk a b lvl).covers v ↔ a ≤ v / 2^(4*lvl) ∧ v / 2^(4*lvl) ≤ b := Iff.rfl

theorem splitAux_succ (fuel lvl : Nat) (a b : Int) :
    splitAux (fuel+1) lvl a b =
      if (if a % 16 = 0 then a / 16 else a / 16 + 1) > (if b % 16 = 15 then b / 16 else b / 16 - 1)
      then [⟨a, b, lvl⟩]
      else
        (if a % 16 = 0 then [] else [⟨a, a / 16 * 16 + 15, lvl⟩]) ++
        (if b % 16 = 15 then [] else [⟨b / 16 * 16, b, lvl⟩]) ++
        splitAux fuel (lvl+1) (if a % 16 = 0 then a / 16 else a / 16 + 1)
          (if b % 16 = 15 then b / 16 else b / 16 - 1) := by
  by_cases hl : a % 16 = 0 <;> by_cases hu : b % 16 = 15 <;> simp [splitAux, hl, hu]

theorem splitAux_cover (fuel : Nat) : ∀ (lvl : Nat) (a b v : Int), a ≤ b →
    ((∃ r ∈ splitAux fuel lvl a b, r.covers v) ↔ (a ≤ v / 2^(4*lvl) ∧ v / 2^(4*lvl) ≤ b)) := by
  induction fuel with
  | zero =>
    intro lvl a b v _
    simp [splitAux, Rng.covers]
  | succ fuel ih =>
    intro lvl a b v hab
    rw [splitAux_succ]
    by_cases hgt : (if a % 16 = 0 then a / 16 else a / 16 + 1) > (if b % 16 = 15 then b / 16 else b / 16 - 1)
    · rw [if_pos hgt]; simp [Rng.covers]
    · rw [if_neg hgt]
      have ihr := ih (lvl+1) _ _ v (Int.not_lt.mp hgt)
      rw [div_succ_level] at ihr
      simp only [List.mem_append, or_and_right, exists_or]
      rw [ihr]
      by_cases hl : a % 16 = 0 <;> by_cases hu : b % 16 = 15 <;>
        (simp only [hl, hu, ↓reduceIte, List.mem_singleton, List.not_mem_nil, false_and,
          exists_false, exists_eq_left, covers_mk, false_or, or_false] at hgt ⊢
         generalize v / 2^(4*lvl) = x at *
         omega)

/-- every range of a split is non-empty and lies inside [a, b] scaled to its level -/
theorem splitRange_cover (min max v : Int) :
    ((∃ r ∈ splitRange min max, r.covers v) ↔ (min ≤ v ∧ v ≤ max)) := by
  unfold splitRange
  split
  · simp; omega
  · rename_i h
    have := splitAux_cover 15 0 min max v (by omega)
    simpa using this

end Bleve.Numeric

namespace Bleve.Numeric

/-! ### base-128 digit strings: bytewise order is numeric order -/

theorem lt_iff_divmod (m : Nat) (a b : Nat) :
    a < b ↔ a / m < b / m ∨ (a / m = b / m ∧ a % m < b % m) := by
  have ha := Nat.div_add_mod a m
  have hb := Nat.div_add_mod b m
  constructor
  · intro h
    by_cases hq : a / m < b / m
    · exact Or.inl hq
    · have hle : a / m ≤ b / m := Nat.div_le_div_right (Nat.le_of_lt h)
      have heq : a / m = b / m := by omega
      refine Or.inr ⟨heq, ?_⟩
      rw [heq] at ha
      omega
  · intro h
    cases h with
    | inl h => exact Nat.lt_of_div_lt_div h
    | inr h => rw [h.1] at ha; omega

theorem digits_length (k u : Nat) : (digits k u).length = k := by
  induction k generalizing u with
  | zero => rfl
  | succ k ih => simp [digits, ih]

theorem digits_lt (k u : Nat) : ∀ d ∈ digits k u, d < 128 := by
  induction k generalizing u with
  | zero => intro d h; simp [digits] at h
  | succ k ih =>
    intro d h
    simp only [digits, List.mem_cons] at h
    cases h with
    | inl h => rw [h]; exact Nat.mod_lt _ (by decide)
    | inr h => exact ih _ d h

theorem pow128_pos (k : Nat) : 0 < 128^k := Nat.pow_pos (by decide)

theorem div_pow_lt (k u : Nat) (h : u < 128^(k+1)) : u / 128^k < 128 := by
  rw [Nat.div_lt_iff_lt_mul (pow128_pos k)]
  rw [Nat.pow_succ] at h
  rw [Nat.mul_comm]; exact h

/-- order: for values that fit in `k` digits, bytewise `<` on digit strings is `<` on values -/
theorem digits_lt_iff (k : Nat) : ∀ (u w : Nat), u < 128^k → w < 128^k →
    (bytesLt (digits k u) (digits k w) = true ↔ u < w) := by
  induction k with
  | zero => intro u w hu hw; simp [digits, bytesLt]; omega
  | succ k ih =>
    intro u w hu hw
    have h1 := div_pow_lt k u hu
    have h2 := div_pow_lt k w hw
    have ihr := ih (u % 128^k) (w % 128^k) (Nat.mod_lt _ (pow128_pos k)) (Nat.mod_lt _ (pow128_pos k))
    simp only [digits, bytesLt, Nat.mod_eq_of_lt h1, Nat.mod_eq_of_lt h2]
    rw [lt_iff_divmod (128^k) u w]
    rcases Nat.lt_trichotomy (u / 128^k) (w / 128^k) with hlt | heq | hgt
    · simp [hlt]
    · have h3 : ¬ (w / 128^k < w / 128^k) := Nat.lt_irrefl _
      simp only [heq, h3, if_false, ihr, true_and, false_or]
    · have h3 : ¬ (u / 128^k < w / 128^k) := by omega
      simp only [h3, hgt, if_false, if_true, false_or]
      constructor
      · intro h; cases h
      · intro h; omega

theorem digits_inj (k : Nat) : ∀ (u w : Nat), u < 128^k → w < 128^k →
    digits k u = digits k w → u = w := by
  intro u w hu hw h
  have a := (digits_lt_iff k u w hu hw)
  have b := (digits_lt_iff k w u hw hu)
  rw [h] at a
  rw [h] at b
  have irr : ∀ l : List Nat, bytesLt l l = false := by
    intro l; induction l with
    | nil => rfl
    | cons x xs ih => simp [bytesLt, ih]
  rw [irr] at a b
  have h1 : ¬ u < w := fun h => by have := a.2 h; cases this
  have h2 : ¬ w < u := fun h => by have := b.2 h; cases this
  omega

end Bleve.Numeric

namespace Bleve.Numeric

/-! ### prefix coded terms -/

theorem nChars_fits : ∀ s, s < 64 → 2^(64 - s) ≤ 128^(nChars s) := by decide

theorem two63_split (s : Nat) (hs : s ≤ 63) : (2:Int)^63 = 2^(63 - s) * 2^s := by
  rw [← Int.pow_add]; congr 1; omega

/-- the sortable bits shifted right, as an integer: block index plus an offset -/
theorem sortable_shift (v : Int) (s : Nat) (hs : s ≤ 63) (hv : inI64 v = true) :
    ((sortable v / 2^s : Nat) : Int) = v / 2^s + 2^(63 - s) := by
  unfold sortable
  simp only [inI64, Bool.and_eq_true, decide_eq_true_eq] at hv
  have hnn : 0 ≤ v + (2:Int)^63 := by omega
  rw [Int.natCast_ediv, Int.toNat_of_nonneg hnn]
  have : ((2^s : Nat) : Int) = (2:Int)^s := by simp
  rw [this, two63_split s hs, Int.add_mul_ediv_right]
  exact Int.ne_of_gt (Int.pow_pos (by decide))

theorem sortable_shift_lt (v : Int) (s : Nat) (hs : s ≤ 63) (hv : inI64 v = true) :
    sortable v / 2^s < 128^(nChars s) := by
  have h1 : sortable v < 2^64 := by
    unfold sortable
    simp only [inI64, Bool.and_eq_true, decide_eq_true_eq] at hv
    omega
  have h2 : sortable v / 2^s < 2^(64 - s) := by
    rw [Nat.div_lt_iff_lt_mul (Nat.pow_pos (by decide)), ← Nat.pow_add]
    have : 64 - s + s = 64 := by omega
    rw [this]; exact h1
  exact Nat.lt_of_lt_of_le h2 (nChars_fits s (by omega))

/-- C07 order clause at every shift: bytewise order of prefix coded terms is the numeric order of
    the values truncated to that shift. -/
theorem prefixCode_order (v w : Int) (s : Nat) (hs : s ≤ 63)
    (hv : inI64 v = true) (hw : inI64 w = true) :
    ∃ tv tw, prefixCode v s = some tv ∧ prefixCode w s = some tw ∧
      (bytesLt tv tw = true ↔ v / 2^s < w / 2^s) := by
  have hns : ¬ s > 63 := by omega
  refine ⟨(shiftStart + s) :: digits (nChars s) (sortable v / 2^s),
    (shiftStart + s) :: digits (nChars s) (sortable w / 2^s),
    by simp only [prefixCode, hns, if_false], by simp only [prefixCode, hns, if_false], ?_⟩
  have h3 : ¬ (shiftStart + s < shiftStart + s) := Nat.lt_irrefl _
  simp only [bytesLt, h3, if_false]
  rw [digits_lt_iff _ _ _ (sortable_shift_lt v s hs hv) (sortable_shift_lt w s hs hw)]
  have e1 := sortable_shift v s hs hv
  have e2 := sortable_shift w s hs hw
  omega

/-- terms of the split ranges are the prefix codes of the block's values -/
theorem termOf_eq_prefixCode (v : Int) (lvl : Nat) (hl : lvl ≤ 15) (hv : inI64 v = true) :
    prefixCode v (4*lvl) = some (termOf (v / 2^(4*lvl)) lvl) := by
  have hns : ¬ 4*lvl > 63 := by omega
  simp only [prefixCode, hns, if_false, termOf]
  congr 3
  have e1 := sortable_shift v (4*lvl) (by omega) hv
  rw [← e1, Int.toNat_natCast]

end Bleve.Numeric

namespace Bleve.Numeric

/-! ### well-formed ranges: blocks stay inside the int64 lattice of their level -/

def Rng.wf (r : Rng) : Prop :=
  r.lvl ≤ 15 ∧ -(2:Int)^(63 - 4*r.lvl) ≤ r.lo ∧ r.lo ≤ r.hi ∧ r.hi < (2:Int)^(63 - 4*r.lvl)

theorem pow_level_succ (lvl : Nat) (h : lvl + 1 ≤ 15) :
    (2:Int)^(63 - 4*lvl) = 16 * 2^(63 - 4*(lvl+1)) := by
  have : 63 - 4*lvl = 4 + (63 - 4*(lvl+1)) := by omega
  rw [this, Int.pow_add]; rfl

theorem splitAux_wf (fuel : Nat) : ∀ (lvl : Nat) (a b : Int), lvl + fuel ≤ 15 →
    -(2:Int)^(63 - 4*lvl) ≤ a → a ≤ b → b < (2:Int)^(63 - 4*lvl) →
    ∀ r ∈ splitAux fuel lvl a b, r.wf := by
  induction fuel with
  | zero =>
    intro lvl a b hl ha hab hb r hr
    simp only [splitAux, List.mem_singleton] at hr
    subst hr
    exact ⟨by simp; omega, ha, hab, hb⟩
  | succ fuel ih =>
    intro lvl a b hl ha hab hb r hr
    rw [splitAux_succ] at hr
    by_cases hgt : (if a % 16 = 0 then a / 16 else a / 16 + 1) > (if b % 16 = 15 then b / 16 else b / 16 - 1)
    · rw [if_pos hgt, List.mem_singleton] at hr
      subst hr
      exact ⟨by simp; omega, ha, hab, hb⟩
    · rw [if_neg hgt] at hr
      have hp := pow_level_succ lvl (by omega)
      have hpos : (0:Int) < 2^(63 - 4*(lvl+1)) := Int.pow_pos (by decide)
      simp only [List.mem_append] at hr
      rcases hr with (hr | hr) | hr
      · by_cases hl0 : a % 16 = 0
        · simp [hl0] at hr
        · simp only [hl0, if_false, List.mem_singleton] at hr
          subst hr
          refine ⟨by simp; omega, ?_, ?_, ?_⟩ <;> simp only <;> by_cases hu : b % 16 = 15 <;>
            simp only [hl0, hu, if_true, if_false] at hgt <;> omega
      · by_cases hu : b % 16 = 15
        · simp [hu] at hr
        · simp only [hu, if_false, List.mem_singleton] at hr
          subst hr
          refine ⟨by simp; omega, ?_, ?_, ?_⟩ <;> simp only <;> by_cases hl0 : a % 16 = 0 <;>
            simp only [hl0, hu, if_true, if_false] at hgt <;> omega
      · refine ih (lvl+1) _ _ (by omega) ?_ (Int.not_lt.mp hgt) ?_ r hr
        · by_cases hl0 : a % 16 = 0 <;> simp only [hl0, if_true, if_false] <;> omega
        · by_cases hu : b % 16 = 15 <;> simp only [hu, if_true, if_false] <;> omega

theorem splitRange_wf (min max : Int) (hmin : inI64 min = true) (hmax : inI64 max = true) :
    ∀ r ∈ splitRange min max, r.wf := by
  intro r hr
  unfold splitRange at hr
  simp only [inI64, Bool.and_eq_true, decide_eq_true_eq] at hmin hmax
  split at hr
  · simp at hr
  · exact splitAux_wf 15 0 min max (by omega) (by simp; omega) (by omega) (by simp; omega) r hr

theorem level_fits (lvl : Nat) (h : lvl ≤ 15) : 2^(64 - 4*lvl) ≤ 128^(nChars (4*lvl)) :=
  nChars_fits (4*lvl) (by omega)

theorem block_range (v : Int) (lvl : Nat) (hl : lvl ≤ 15) (hv : inI64 v = true) :
    -(2:Int)^(63 - 4*lvl) ≤ v / 2^(4*lvl) ∧ v / 2^(4*lvl) < (2:Int)^(63 - 4*lvl) := by
  have e := sortable_shift v (4*lvl) (by omega) hv
  have h1 : sortable v < 2^64 := by
    unfold sortable
    simp only [inI64, Bool.and_eq_true, decide_eq_true_eq] at hv
    omega
  have h2 : sortable v / 2^(4*lvl) < 2^(64 - 4*lvl) := by
    rw [Nat.div_lt_iff_lt_mul (Nat.pow_pos (by decide)), ← Nat.pow_add]
    have : 64 - 4*lvl + 4*lvl = 64 := by omega
    rw [this]; exact h1
  have hpp : (2:Nat)^(64 - 4*lvl) = 2 * 2^(63 - 4*lvl) := by
    have : 64 - 4*lvl = 1 + (63 - 4*lvl) := by omega
    rw [this, Nat.pow_add]
  have hcast : ((2^(63 - 4*lvl) : Nat) : Int) = (2:Int)^(63 - 4*lvl) := by simp
  generalize sortable v / 2^(4*lvl) = q at *
  generalize (2:Int)^(63 - 4*lvl) = P at *
  generalize (2:Nat)^(63 - 4*lvl) = Q at *
  omega

theorem termOf_inj (x y : Int) (lvl : Nat) (hl : lvl ≤ 15)
    (hx1 : -(2:Int)^(63 - 4*lvl) ≤ x) (hx2 : x < (2:Int)^(63 - 4*lvl))
    (hy1 : -(2:Int)^(63 - 4*lvl) ≤ y) (hy2 : y < (2:Int)^(63 - 4*lvl))
    (h : termOf x lvl = termOf y lvl) : x = y := by
  unfold termOf at h
  injection h with _ h
  have hfit := level_fits lvl hl
  have hpp : (2:Nat)^(64 - 4*lvl) = 2 * 2^(63 - 4*lvl) := by
    have : 64 - 4*lvl = 1 + (63 - 4*lvl) := by omega
    rw [this, Nat.pow_add]
  have hcast : ((2^(63 - 4*lvl) : Nat) : Int) = (2:Int)^(63 - 4*lvl) := by simp
  generalize (2:Int)^(63 - 4*lvl) = P at *
  generalize (2:Nat)^(63 - 4*lvl) = Q at *
  have := digits_inj _ _ _ (by omega) (by omega) h
  omega

end Bleve.Numeric
