/-
Model of bleve's highlighting mechanism:
  search/highlight/fragmenter/simple/simple.go   Fragment
  search/highlight/term_locations.go             Overlaps, MergeOverlapping
  search/highlight/format/{html,plain,ansi}      Format
together with the three functions of unicode/utf8 the fragmenter leans on (DecodeRune,
DecodeLastRune, RuneCount), reduced to what it looks at: "is the rune RuneError" and the size.

Bytes are `Nat`s below 256, a stored value is a `List Nat`.  Go slicing `b[i:j]` panics unless
0 ≤ i ≤ j ≤ cap(b); the model takes cap = len (the harness passes values cut to their length) and
makes every slice expression explicit: `Res.panic` is the result whenever one is out of range, so
"never panics" is a statement about the model and not an artefact of totalised list functions.
-/
namespace Bleve.Highlight

/-! ### unicode/utf8 -/

/-- continuation byte, `locb ≤ b ≤ hicb` -/
def isCont (b : Nat) : Bool := 0x80 ≤ b && b ≤ 0xBF

/-- `utf8.DecodeRune`: (rune == RuneError, size).  The literal U+FFFD (EF BF BD) decodes to
RuneError with size 3, an invalid or short sequence to RuneError with size 1, the empty input to
size 0. -/
def decodeRune : List Nat → Bool × Nat
  | [] => (true, 0)
  | p0 :: rest =>
    if p0 < 0x80 then (false, 1)
    else if p0 < 0xC2 then (true, 1)
    else if p0 < 0xE0 then
      match rest with
      | b1 :: _ => if isCont b1 then (false, 2) else (true, 1)
      | [] => (true, 1)
    else if p0 < 0xF0 then
      let lo := if p0 == 0xE0 then 0xA0 else 0x80
      let hi := if p0 == 0xED then 0x9F else 0xBF
      match rest with
      | b1 :: b2 :: _ =>
        if lo ≤ b1 && b1 ≤ hi then
          if isCont b2 then (p0 == 0xEF && b1 == 0xBF && b2 == 0xBD, 3) else (true, 1)
        else (true, 1)
      | _ => (true, 1)
    else if p0 < 0xF5 then
      let lo := if p0 == 0xF0 then 0x90 else 0x80
      let hi := if p0 == 0xF4 then 0x8F else 0xBF
      match rest with
      | b1 :: b2 :: b3 :: _ =>
        if lo ≤ b1 && b1 ≤ hi then
          if isCont b2 then
            if isCont b3 then (false, 4) else (true, 1)
          else (true, 1)
        else (true, 1)
      | _ => (true, 1)
    else (true, 1)

/-- where `utf8.DecodeLastRune` starts decoding: the nearest rune-start byte among the three bytes
before the last one, else (nothing found) `max 0 (end-4) - 1` clamped at 0 -/
def lastStart (p : List Nat) : Nat :=
  let e := p.length
  if 2 ≤ e && !isCont (p.getD (e - 2) 0) then e - 2
  else if 3 ≤ e && !isCont (p.getD (e - 3) 0) then e - 3
  else if 4 ≤ e && !isCont (p.getD (e - 4) 0) then e - 4
  else if e ≤ 4 then 0 else e - 5

/-- `utf8.DecodeLastRune` -/
def decodeLastRune (p : List Nat) : Bool × Nat :=
  let e := p.length
  if e == 0 then (true, 0)
  else if p.getD (e - 1) 0 < 0x80 then (false, 1)
  else
    let s := lastStart p
    let r := decodeRune (p.drop s)
    if s + r.2 != e then (true, 1) else r

/-- `utf8.RuneCount`, every invalid byte counting as one rune -/
def runeCountF : Nat → List Nat → Nat
  | 0, _ => 0
  | f + 1, p => if p.isEmpty then 0 else 1 + runeCountF f (p.drop (decodeRune p).2)

def runeCount (p : List Nat) : Nat := runeCountF p.length p

/-! ### slices and results -/

inductive Res (α : Type) where
  | ok (a : α)
  | bail            -- `continue OUTER`
  | panic           -- a slice expression out of range
deriving Repr, DecidableEq

/-- `orig[a:b]` -/
def slice (orig : List Nat) (a b : Int) : Option (List Nat) :=
  if 0 ≤ a ∧ a ≤ b ∧ b ≤ orig.length then some ((orig.drop a.toNat).take (b.toNat - a.toNat)) else none

structure Loc where
  start : Int
  stop : Int
  ap : Nat           -- stands for the ArrayPositions value (equal numbers = equal positions)
deriving Repr, DecidableEq

structure Frag where
  start : Nat
  stop : Nat
deriving Repr, DecidableEq

/-! ### the simple fragmenter -/

/-- first loop: grow `end` by up to `k` runes; `none` = a RuneError met -/
def fwd (orig : List Nat) : Nat → Nat → Option (Nat × Nat)
  | 0, e => some (e, 0)
  | k + 1, e =>
    if e < orig.length then
      let r := decodeRune (orig.drop e)
      if r.1 then none else fwd orig k (e + r.2)
    else some (e, k + 1)

/-- second loop: push `start` back by up to `k` runes without crossing `maxbegin` -/
def back (orig : List Nat) (maxbegin : Nat) : Nat → Nat → Res Nat
  | 0, s => .ok s
  | k + 1, s =>
    if 0 < s then
      if orig.length < s then .bail
      else
        let r := decodeLastRune (orig.take s)
        if r.1 then .bail
        else if maxbegin + r.2 ≤ s then back orig maxbegin k (s - r.2)
        else .ok s
    else .ok s

/-- "find the end of the last term in this fragment" over `ot[currTermIndex:]` -/
def minEnd (e : Nat) : List Loc → Int → Int
  | [], m => m
  | l :: ls, m =>
    if l.start < 0 || l.start > l.stop then minEnd e ls m
    else if l.stop > e then m
    else minEnd e ls l.stop

/-- third loop: move both ends back by `offset` runes -/
def center (orig : List Nat) : Nat → Nat → Nat → Res (Nat × Nat)
  | 0, s, e => .ok (s, e)
  | k + 1, s, e =>
    if orig.length < s then .panic
    else
      let r := decodeLastRune (orig.take s)
      if r.1 then .bail
      else if orig.length < e then .panic
      else
        let r2 := decodeLastRune (orig.take e)
        if r2.1 then .bail
        else center orig k (s - r.2) (e - r2.2)

/-- one round of the OUTER loop for an anchor location that passed the guard -/
def fragOne (orig : List Nat) (size : Nat) (maxbegin : Nat) (tl : Loc) (rest : List Loc) : Res Frag :=
  match fwd orig size tl.start.toNat with
  | none => .bail
  | some (e, k) =>
    match back orig maxbegin k tl.start.toNat with
    | .bail => .bail
    | .panic => .panic
    | .ok s =>
      let m := minEnd e (tl :: rest) e
      match slice orig m e with
      | none => .panic
      | some tailBytes =>
        match (if maxbegin ≤ s then (slice orig maxbegin s).map runeCount else some 0) with
        | none => .panic
        | some roomStart =>
          let room := runeCount tailBytes
          let room := if roomStart < room then roomStart else room
          match center orig (room / 2) s e with
          | .bail => .bail
          | .panic => .panic
          | .ok (s', e') => .ok ⟨s', e'⟩

def fragLoop (orig : List Nat) (size : Nat) : List Loc → Nat → Res (List Frag)
  | [], _ => .ok []
  | tl :: rest, mb =>
    if tl.start < 0 || tl.start > tl.stop || tl.stop > orig.length then fragLoop orig size rest mb
    else
      match fragOne orig size mb tl rest with
      | .panic => .panic
      | .bail => fragLoop orig size rest mb
      | .ok f =>
        match fragLoop orig size rest tl.stop.toNat with
        | .ok fs => .ok (f :: fs)
        | r => r

/-- no term locations: one fragment from the beginning, stopping at the first RuneError -/
def fwdStop (orig : List Nat) : Nat → Nat → Nat
  | 0, e => e
  | k + 1, e =>
    if e < orig.length then
      let r := decodeRune (orig.drop e)
      if r.1 then e else fwdStop orig k (e + r.2)
    else e

/-- `Fragmenter.Fragment`; `size` is the fragment size (an int in Go: a negative one runs no loop) -/
def fragment (orig : List Nat) (size : Int) (ot : List Loc) : Res (List Frag) :=
  if ot.isEmpty then .ok [⟨0, fwdStop orig size.toNat 0⟩]
  else fragLoop orig size.toNat ot 0

/-! ### term locations -/

def overlaps (a b : Loc) : Bool :=
  a.ap == b.ap && ((b.start ≥ a.start && b.start < a.stop) || (a.start ≥ b.start && a.start < b.stop))

/-- `MergeOverlapping` on a list without nil entries: `lastTl` is the first entry for good (the
code never moves it on), entries overlapping it are merged into it and replaced by nil -/
def mergeTail (l0 : Loc) : List Loc → Loc × List (Option Loc)
  | [] => (l0, [])
  | tl :: ts =>
    if overlaps l0 tl then
      let r := mergeTail { l0 with stop := if tl.stop > l0.stop then tl.stop else l0.stop } ts
      (r.1, none :: r.2)
    else
      let r := mergeTail l0 ts
      (r.1, some tl :: r.2)

def mergeOverlapping : List Loc → List (Option Loc)
  | [] => []
  | l0 :: ts => let r := mergeTail l0 ts; some r.1 :: r.2

/-! ### formatters -/

structure Piece where
  marked : Bool
  start : Int
  stop : Int
deriving Repr, DecidableEq

/-- the loop of `Format`: the pieces it slices out of `f.Orig`, in order -/
def formatGo (fstop : Int) (fap : Nat) : List (Option Loc) → Int → List Piece
  | [], curr => [⟨false, curr, fstop⟩]
  | none :: ls, curr => formatGo fstop fap ls curr
  | some tl :: ls, curr =>
    if tl.ap != fap then formatGo fstop fap ls curr
    else if tl.start < curr || tl.start > tl.stop then formatGo fstop fap ls curr
    else if tl.stop > fstop then [⟨false, curr, fstop⟩]
    else ⟨false, curr, tl.start⟩ :: ⟨true, tl.start, tl.stop⟩ :: formatGo fstop fap ls tl.stop

def format (f : Frag) (fap : Nat) (ls : List (Option Loc)) : List Piece := formatGo f.stop fap ls f.start

/-- `html.EscapeString` -/
def escapeByte (b : Nat) : List Nat :=
  if b == 38 then [38, 97, 109, 112, 59]             -- &amp;
  else if b == 39 then [38, 35, 51, 57, 59]          -- &#39;
  else if b == 60 then [38, 108, 116, 59]            -- &lt;
  else if b == 62 then [38, 103, 116, 59]            -- &gt;
  else if b == 34 then [38, 35, 51, 52, 59]          -- &#34;
  else [b]

def escape (bs : List Nat) : List Nat := bs.flatMap escapeByte

/-- the string `Format` returns: pieces sliced out of the value, marked ones wrapped -/
def render (orig : List Nat) (esc : Bool) (before after : List Nat) : List Piece → Option (List Nat)
  | [] => some []
  | p :: ps =>
    match slice orig p.start p.stop, render orig esc before after ps with
    | some bs, some rest =>
      let t := if esc then escape bs else bs
      some ((if p.marked then before ++ t ++ after else t) ++ rest)
    | _, _ => none

/-- the text of the pieces with the markup left out -/
def plainOf (orig : List Nat) : List Piece → Option (List Nat)
  | [] => some []
  | p :: ps =>
    match slice orig p.start p.stop, plainOf orig ps with
    | some bs, some rest => some (bs ++ rest)
    | _, _ => none

end Bleve.Highlight

namespace Bleve.Highlight

/-! ### what a formatted fragment must look like (the end-to-end clause of C19, executable)

`fragmentOK stored locs frag`: with the separator, the `<mark>` markup and the HTML escaping removed,
`frag` is a contiguous piece of `stored`, placed so that every marked span is a union of term
locations (every byte of it lies in a location that itself lies inside the span). -/

/-- `html.UnescapeString` restricted to what `html.EscapeString` produces -/
def unescapeHtml : List Nat → List Nat
  | 38 :: 97 :: 109 :: 112 :: 59 :: r => 38 :: unescapeHtml r
  | 38 :: 35 :: 51 :: 57 :: 59 :: r => 39 :: unescapeHtml r
  | 38 :: 108 :: 116 :: 59 :: r => 60 :: unescapeHtml r
  | 38 :: 103 :: 116 :: 59 :: r => 62 :: unescapeHtml r
  | 38 :: 35 :: 51 :: 52 :: 59 :: r => 34 :: unescapeHtml r
  | b :: r => b :: unescapeHtml r
  | [] => []

def markOpen : List Nat := [60, 109, 97, 114, 107, 62]          -- <mark>
def markClose : List Nat := [60, 47, 109, 97, 114, 107, 62]     -- </mark>
def ellipsis : List Nat := [0xe2, 0x80, 0xa6]                    -- the default separator

def stripPrefix (p l : List Nat) : Option (List Nat) :=
  if p.isPrefixOf l then some (l.drop p.length) else none

/-- split escaped text at the markup: pieces (marked?, escaped bytes); `none` = unbalanced markup -/
def splitMarks : Nat → List Nat → Bool → List Nat → Option (List (Bool × List Nat))
  | 0, _, _, _ => none
  | fuel + 1, l, inMark, acc =>
    match l with
    | [] => if inMark then none else some [(false, acc.reverse)]
    | b :: r =>
      if !inMark then
        match stripPrefix markOpen l with
        | some rest => (splitMarks fuel rest true []).map ((false, acc.reverse) :: ·)
        | none => splitMarks fuel r false (b :: acc)
      else
        match stripPrefix markClose l with
        | some rest => (splitMarks fuel rest false []).map ((true, acc.reverse) :: ·)
        | none => splitMarks fuel r true (b :: acc)

/-- does `p` occur in `l` at offset `o` -/
def occursAt (p l : List Nat) (o : Nat) : Bool := p.isPrefixOf (l.drop o)

/-- a marked span is a union of locations lying inside it -/
def spanOK (locs : List Loc) (a b : Nat) : Bool :=
  (List.range (b - a)).all (fun i =>
    locs.any (fun l => decide ((a : Int) ≤ l.start) && decide (l.stop ≤ (b : Int)) &&
      decide (l.start ≤ ((a + i : Nat) : Int)) && decide (((a + i : Nat) : Int) < l.stop)))

def fragmentOK (stored : List Nat) (locs : List Loc) (frag : List Nat) : String :=
  let frag := match stripPrefix ellipsis frag with | some r => r | none => frag
  let frag := if ellipsis.isPrefixOf (frag.reverse.take 3).reverse && frag.length ≥ 3 then frag.take (frag.length - 3) else frag
  match splitMarks (frag.length + 2) frag false [] with
  | none => "BAD-MARKUP"
  | some pieces =>
    let pieces := pieces.map (fun p => (p.1, unescapeHtml p.2))
    let plain := pieces.flatMap (·.2)
    -- marked spans as offsets into the plain text
    let spans := (pieces.foldl (fun (st : Nat × List (Nat × Nat)) p =>
      (st.1 + p.2.length, if p.1 then st.2 ++ [(st.1, st.1 + p.2.length)] else st.2)) (0, [])).2
    let offsets := (List.range (stored.length + 1 - plain.length)).filter (occursAt plain stored)
    if plain.length > stored.length || offsets.isEmpty then "NOT-A-PIECE-OF-THE-VALUE"
    else if offsets.any (fun o => spans.all (fun s => spanOK locs (o + s.1) (o + s.2))) then "ok"
    else "MARK-NOT-AT-TERM-LOCATIONS"

end Bleve.Highlight
