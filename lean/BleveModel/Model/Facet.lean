import BleveModel.Model.TopN
import BleveModel.Model.Numeric
import BleveModel.Model.Collector
/-
Model of bleve's facet builders (search/facet/facet_builder_{terms,numeric,datetime}.go,
search/facets_builder.go) and of how the collector feeds them: `visitFieldTerms` is called for
every match before the bounded store decides whether to keep it.
-/
namespace Bleve.Facet
open Bleve.Collector (cmpBytes)

abbrev Bytes := List Nat

structure Bucket where
  name : Bytes
  count : Nat
deriving Repr, DecidableEq

/-- `TermFacets.Less` / `NumericRangeFacets.Less` / `DateRangeFacets.Less`:
    count descending, then name ascending -/
def bucketLt (a b : Bucket) : Bool :=
  if a.count == b.count then decide (cmpBytes a.name b.name < 0) else decide (a.count > b.count)

/-- `termsCount[name]++` on an association list -/
def bump (counts : List Bucket) (name : Bytes) : List Bucket :=
  match counts with
  | [] => [⟨name, 1⟩]
  | b :: rest => if b.name == name then ⟨b.name, b.count + 1⟩ :: rest else b :: bump rest name

structure FState where
  counts : List Bucket := []
  total : Nat := 0
  missing : Nat := 0
deriving Repr

structure FacetResult where
  total : Nat
  missing : Nat
  other : Nat
  listed : List Bucket
deriving Repr

def sumCounts (l : List Bucket) : Nat := l.foldl (fun a b => a + b.count) 0

/-- `Result()`: sort, trim to `size`, `Other = total − listed` -/
def result (size : Nat) (st : FState) : FacetResult :=
  let listed := (TopN.isort bucketLt st.counts).take size
  { total := st.total, missing := st.missing, other := st.total - sumCounts listed, listed := listed }

/-! ## terms facet -/

structure TermsSpec where
  size : Nat
  pfx : Bytes                      -- empty = no prefix filter
  accept : Option (List Bytes)     -- regexp filter given extensionally: the accepted terms

def hasPrefix : Bytes → Bytes → Bool
  | _, [] => true
  | [], _ :: _ => false
  | a :: as, p :: ps => a == p && hasPrefix as ps

def TermsSpec.accepts (s : TermsSpec) (t : Bytes) : Bool :=
  (s.pfx.isEmpty || hasPrefix t s.pfx) &&
  (match s.accept with | none => true | some l => l.contains t)

/-- StartDoc; UpdateVisitor for every term; EndDoc -/
def termsVisitDoc (s : TermsSpec) (st : FState) (terms : List Bytes) : FState :=
  let acc := terms.filter s.accepts
  { counts := acc.foldl bump st.counts,
    total := st.total + terms.length,
    missing := if acc.isEmpty then st.missing + 1 else st.missing }

def termsFacet (s : TermsSpec) (docs : List (List Bytes)) : FacetResult :=
  result s.size (docs.foldl (termsVisitDoc s) {})

/-! ## numeric range facet -/

structure NumRange where
  name : Bytes
  min : Option Numeric.W          -- float bits
  max : Option Numeric.W

def floatGe (a b : Numeric.W) : Bool :=
  !Numeric.isNaN a && !Numeric.isNaN b && !Numeric.floatLt a b

def NumRange.contains (r : NumRange) (v : Numeric.W) : Bool :=
  (match r.min with | none => true | some m => floatGe v m) &&
  (match r.max with | none => true | some m => Numeric.floatLt v m)

/-- one doc-value term of a numeric field: only shift-0 terms are decoded and tested -/
def numVisitTerm (ranges : List NumRange) (st : FState) (term : Bytes) : FState :=
  match Numeric.shiftOf term, Numeric.decodeInt64 term with
  | some 0, some i64 =>
    let f := Numeric.i2f (BitVec.ofInt 64 i64)
    let hit := ranges.filter (fun r => r.contains f)
    { st with counts := hit.foldl (fun c r => bump c r.name) st.counts, total := st.total + hit.length }
  | _, _ => st

def numVisitDoc (ranges : List NumRange) (st : FState) (terms : List Bytes) : FState :=
  let st' := terms.foldl (numVisitTerm ranges) st
  { st' with missing := if terms.isEmpty then st'.missing + 1 else st'.missing }

def numFacet (size : Nat) (ranges : List NumRange) (docs : List (List Bytes)) : FacetResult :=
  result size (docs.foldl (numVisitDoc ranges) {})

/-- all sixteen prefix-coded terms of a numeric value, as `NumericField.Analyze` indexes them -/
def numericTerms (v : Numeric.W) : List Bytes :=
  (List.range 16).filterMap (fun l => Numeric.prefixCode (Numeric.f2i v).toInt (4 * l))

/-! ## date range facet (nanoseconds) -/

structure DateRange where
  name : Bytes
  start : Option Int
  stop : Option Int

def DateRange.contains (r : DateRange) (ns : Int) : Bool :=
  (match r.start with | none => true | some s => decide (s ≤ ns)) &&
  (match r.stop with | none => true | some e => decide (ns < e))

def dateVisitTerm (ranges : List DateRange) (st : FState) (term : Bytes) : FState :=
  match Numeric.shiftOf term, Numeric.decodeInt64 term with
  | some 0, some i64 =>
    let hit := ranges.filter (fun r => r.contains i64)
    { st with counts := hit.foldl (fun c r => bump c r.name) st.counts, total := st.total + hit.length }
  | _, _ => st

def dateVisitDoc (ranges : List DateRange) (st : FState) (terms : List Bytes) : FState :=
  let st' := terms.foldl (dateVisitTerm ranges) st
  { st' with missing := if terms.isEmpty then st'.missing + 1 else st'.missing }

def dateFacet (size : Nat) (ranges : List DateRange) (docs : List (List Bytes)) : FacetResult :=
  result size (docs.foldl (dateVisitDoc ranges) {})

def dateTerms (ns : Int) : List Bytes :=
  (List.range 16).filterMap (fun l => Numeric.prefixCode ns (4 * l))

end Bleve.Facet
