/-
Reader-consistency monitor (C04, C14): W writers; writer w's n-th batch sets every one of its K
documents and its internal key to the sequence number n, makes exactly `n % 3` of its two
extra documents present (indexing those, deleting the others), so that the document count moves
with every batch, and writes n into slot `n % 6` of a ring of six documents, so that every batch
leaves a document that stays live for the next five batches (segments keep live documents and
background merges really rewrite them).  An observation made through one reader
lists, per writer, the sequence number seen in each of the writer's documents (0 = absent) and in
its internal key, together with the number of batches of each writer that had been acknowledged
when the read began.
-/
namespace Bleve.History

structure Obs where
  client : Nat
  acked : List Nat              -- per writer: batches acknowledged before the read began
  docs : List (List Nat)        -- per writer: sequence number seen in each of its documents
  ints : List Nat               -- per writer: sequence number seen in its internal key
  count : Nat                   -- DocCount reported by the same reader
deriving Repr

/-- ring slot `s` after `p` batches: the latest batch number `≤ p` congruent to `s` modulo 6 (0 = none yet) -/
def ring (p s : Nat) : Nat := if p < s then 0 else p - (p - s) % 6

/-- the state of writer `w`'s documents after its first `p` batches: every fixed document carries
    `p`; extra document `j` carries `p` when `j < p % 3` and is absent otherwise; then the six ring slots -/
def docsAfter (k p : Nat) : List Nat :=
  List.replicate k p ++ [if 0 < p % 3 then p else 0, if 1 < p % 3 then p else 0] ++
    (List.range 6).map (ring p)

/-- number of documents present after the prefix vector `ps`: the documents that carry a sequence number -/
def countAfter (ks ps : List Nat) : Nat :=
  ((ks.zip ps).map (fun kp => ((docsAfter kp.1 kp.2).filter (fun d => d != 0)).length)).sum

/-- **Specification**: the observation is the index content after some prefix of every writer's
    batches (`ps`), no older than what had been acknowledged and than what this client saw before -/
def Consistent (ks : List Nat) (prev : List Nat) (o : Obs) : Prop :=
  ∃ ps : List Nat, ps.length = ks.length ∧
    o.docs = (ks.zip ps).map (fun kp => docsAfter kp.1 kp.2) ∧
    o.ints = ps ∧
    o.count = countAfter ks ps ∧
    (∀ i, o.acked.getD i 0 ≤ ps.getD i 0) ∧
    (∀ i, prev.getD i 0 ≤ ps.getD i 0)

def allLe : List Nat → List Nat → Bool
  | [], _ => true
  | a :: as, [] => a == 0 && allLe as []
  | a :: as, b :: bs => decide (a ≤ b) && allLe as bs

/-- the executable monitor -/
def check (ks : List Nat) (prev : List Nat) (o : Obs) : Bool :=
  o.ints.length == ks.length &&
  o.docs == (ks.zip o.ints).map (fun kp => docsAfter kp.1 kp.2) &&
  o.count == countAfter ks o.ints &&
  allLe o.acked o.ints && allLe prev o.ints

/-- An auxiliary document per writer (C03): batch `n` writes `n` into it, and a separate batch that
    holds nothing but its deletion may follow.  Seen together with the writer's batch number `p`, the
    document either carries `p` or is absent; and it must be absent when the deletion that followed
    batch `p` (or a later one) had been acknowledged before the read began. -/
def auxOK (ints aux ackedDel : List Nat) : Bool :=
  aux.length == ints.length &&
  ((ints.zip (aux.zip (ackedDel ++ List.replicate ints.length 0))).all
    (fun t => (t.2.1 == 0 || t.2.1 == t.1) && (if t.1 ≤ t.2.2 ∧ 0 < t.1 then t.2.1 == 0 else true)))

/-- A document that every writer rewrites in each of its batches (C04): it carries the writer and the
    batch number of whoever wrote it last.  Seen together with the writers' batch numbers, it is absent
    exactly when no batch has been applied, and otherwise names the latest batch of the writer it names
    (a copy from an earlier batch of that writer was overwritten by that writer itself). -/
def sharedOK (ints : List Nat) (present : Bool) (w n : Nat) : Bool :=
  if ints.all (· == 0) then !present
  else present && decide (0 < n) && (ints.getD w 0 == n)

end Bleve.History
