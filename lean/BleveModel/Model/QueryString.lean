/-
Model of bleve's query-string syntax:
  search/query/query_string_lex.go   the hand-written lexer (a state machine over runes)
  search/query/query_string.y        the goyacc grammar, as the token patterns it accepts
  search/query/query_string_parser.go  parseQuerySyntax: any lexer or grammar error fails the whole parse

A rune is its code point plus the two Unicode classes the lexer asks for (`unicode.IsDigit`,
`unicode.IsSpace`); texts are lists of code points.  Every step of `run` consumes exactly one rune, so
the lexer's termination is structural: a state that hands a rune back (`consumed = false`) is always
followed by `startState`, which always consumes.
-/
namespace Bleve.QueryString

structure R where
  cp : Nat
  digit : Bool
  space : Bool
deriving Repr, DecidableEq

abbrev Text := List Nat

inductive Mode | start | phrase | op | boost | tilde | numOrStr | str
deriving Repr, DecidableEq

structure LS where
  mode : Mode := .start
  buf : Text := []
  esc : Bool := false
  dot : Bool := false
deriving Repr, DecidableEq

inductive TT | STRING | PHRASE | PLUS | MINUS | COLON | BOOST | NUMBER | GREATER | LESS | EQUAL | TILDE | NONE
deriving Repr, DecidableEq

structure Tok where
  ty : TT
  text : Text
deriving Repr, DecidableEq

/-- `reservedChars = "+-=&|><!(){}[]^\"~*?:\\/ "` -/
def reserved : List Nat := [43, 45, 61, 38, 124, 62, 60, 33, 40, 41, 123, 125, 91, 93, 94, 34, 126, 42, 63, 58, 92, 47, 32]

/-- `unescape(string(next))`: a reserved character stands for itself, anything else keeps its backslash -/
def unesc (c : Nat) : Text := if reserved.contains c then [c] else [92, c]

/-- `l.reset()` and back to `startState` -/
def fresh : LS := {}

def opTok (buf : Text) : Tok :=
  if buf == [43] then ⟨.PLUS, []⟩ else if buf == [45] then ⟨.MINUS, []⟩ else if buf == [58] then ⟨.COLON, []⟩
  else if buf == [62] then ⟨.GREATER, []⟩ else if buf == [60] then ⟨.LESS, []⟩ else if buf == [61] then ⟨.EQUAL, []⟩
  else ⟨.NONE, []⟩

/-- `startState` on a rune (never at end of input): always consumes, never emits -/
def startStep (s : LS) (r : R) : LS :=
  if s.esc then { s with esc := false, buf := s.buf ++ unesc r.cp, mode := .str }
  else if r.cp == 34 then { s with mode := .phrase }
  else if r.cp == 43 || r.cp == 45 || r.cp == 58 || r.cp == 62 || r.cp == 60 || r.cp == 61 then
    { s with buf := s.buf ++ [r.cp], mode := .op }
  else if r.cp == 94 then { s with mode := .boost }
  else if r.cp == 126 then { s with mode := .tilde }
  else if r.cp == 92 then { s with esc := true, mode := .start }
  else if r.digit then { s with buf := s.buf ++ [r.cp], mode := .numOrStr }
  else if !r.space then { s with buf := s.buf ++ [r.cp], mode := .str }
  else fresh

/-- the shared tail of the phrase, boost, tilde and string states: escape handling and accumulation -/
def accum (s : LS) (c : Nat) : LS :=
  if !s.esc && c == 92 then { s with esc := true }
  else if s.esc then { s with esc := false, buf := s.buf ++ unesc c }
  else { s with buf := s.buf ++ [c] }

/-- terminators of a number or string that are handed back to `startState` -/
def handsBack (c : Nat) : Bool := c == 58 || c == 94 || c == 126

/-- one rune through the machine: the new state and the token emitted on the way, if any -/
def step (s : LS) (r : R) : LS × Option Tok :=
  match s.mode with
  | .start => (startStep s r, none)
  | .op => (startStep fresh r, some (opTok s.buf))
  | .phrase =>
    if !s.esc && r.cp == 34 then (fresh, some ⟨.PHRASE, s.buf⟩) else (accum s r.cp, none)
  | .boost =>
    if !s.esc && r.cp == 32 then (fresh, some ⟨.BOOST, if s.buf.isEmpty then [49] else s.buf⟩)
    else (accum s r.cp, none)
  | .tilde =>
    if !s.esc && r.cp == 32 then (fresh, some ⟨.TILDE, if s.buf.isEmpty then [49] else s.buf⟩)
    else (accum s r.cp, none)
  | .numOrStr =>
    if !s.esc && (r.cp == 32 || handsBack r.cp) then
      (if handsBack r.cp then startStep fresh r else fresh, some ⟨.NUMBER, s.buf⟩)
    else if !s.esc && r.cp == 92 then ({ s with esc := true }, none)
    else if s.esc then ({ s with esc := false, buf := s.buf ++ unesc r.cp, mode := .str }, none)
    else if !s.dot && r.cp == 46 then ({ s with dot := true, buf := s.buf ++ [46] }, none)
    else if r.digit then ({ s with buf := s.buf ++ [r.cp] }, none)
    else ({ s with buf := s.buf ++ [r.cp], mode := .str }, none)
  | .str =>
    if !s.esc && (r.cp == 32 || handsBack r.cp) then
      (if handsBack r.cp then startStep fresh r else fresh, some ⟨.STRING, s.buf⟩)
    else (accum s r.cp, none)

/-- end of input: the last token, or the lexer's one error -/
def finish (s : LS) : Except String (Option Tok) :=
  match s.mode with
  | .start => .ok none
  | .phrase => .error "unterminated quote"
  | .op => .ok (some (opTok s.buf))
  | .boost => .ok (some ⟨.BOOST, if s.buf.isEmpty then [49] else s.buf⟩)
  | .tilde => .ok (some ⟨.TILDE, if s.buf.isEmpty then [49] else s.buf⟩)
  | .numOrStr => .ok (some ⟨.NUMBER, s.buf⟩)
  | .str => .ok (some ⟨.STRING, s.buf⟩)

def optL {α : Type} : Option α → List α
  | none => []
  | some a => [a]

/-- the token stream of an input, and whether the lexer ended in its error -/
def run : LS → List R → List Tok × Bool
  | s, [] => match finish s with
    | .ok t => (optL t, false)
    | .error _ => ([], true)
  | s, r :: rs =>
    let (s', t) := step s r
    let (ts, e) := run s' rs
    (optL t ++ ts, e)

def lex (input : List R) : List Tok × Bool := run fresh input

/-! ### the grammar -/

inductive Occur | should | must | mustNot
deriving Repr, DecidableEq

inductive Cmp | gt | ge | lt | le
deriving Repr, DecidableEq

inductive Base
  | str (field : Option Text) (s : Text)
  | fuzzy (field : Option Text) (s : Text) (fz : Text)
  | num (field : Option Text) (n : Text)
  | phrase (field : Option Text) (p : Text)
  | cmp (field : Text) (op : Cmp) (n : Text)
  | cmpDate (field : Text) (op : Cmp) (p : Text)
deriving Repr, DecidableEq

structure Part where
  occ : Occur
  base : Base
  boost : Option Text
deriving Repr, DecidableEq

/-- `posOrNegNumber` -/
def posNeg : List Tok → Option (Text × List Tok)
  | ⟨.NUMBER, n⟩ :: rest => some (n, rest)
  | ⟨.MINUS, _⟩ :: ⟨.NUMBER, n⟩ :: rest => some (45 :: n, rest)
  | _ => none

/-- what may follow `fieldName tCOLON` -/
def fielded (f : Text) : List Tok → Option (Base × List Tok)
  | ⟨.STRING, s⟩ :: ⟨.TILDE, z⟩ :: rest => some (.fuzzy (some f) s z, rest)
  | ⟨.STRING, s⟩ :: rest => some (.str (some f) s, rest)
  | ⟨.PHRASE, p⟩ :: rest => some (.phrase (some f) p, rest)
  | ⟨.GREATER, _⟩ :: ⟨.EQUAL, _⟩ :: ⟨.PHRASE, p⟩ :: rest => some (.cmpDate f .ge p, rest)
  | ⟨.GREATER, _⟩ :: ⟨.EQUAL, _⟩ :: rest => (posNeg rest).map (fun (n, r) => (.cmp f .ge n, r))
  | ⟨.GREATER, _⟩ :: ⟨.PHRASE, p⟩ :: rest => some (.cmpDate f .gt p, rest)
  | ⟨.GREATER, _⟩ :: rest => (posNeg rest).map (fun (n, r) => (.cmp f .gt n, r))
  | ⟨.LESS, _⟩ :: ⟨.EQUAL, _⟩ :: ⟨.PHRASE, p⟩ :: rest => some (.cmpDate f .le p, rest)
  | ⟨.LESS, _⟩ :: ⟨.EQUAL, _⟩ :: rest => (posNeg rest).map (fun (n, r) => (.cmp f .le n, r))
  | ⟨.LESS, _⟩ :: ⟨.PHRASE, p⟩ :: rest => some (.cmpDate f .lt p, rest)
  | ⟨.LESS, _⟩ :: rest => (posNeg rest).map (fun (n, r) => (.cmp f .lt n, r))
  | toks => (posNeg toks).map (fun (n, r) => (.num (some f) n, r))

/-- `searchBase` -/
def base : List Tok → Option (Base × List Tok)
  | ⟨.STRING, s⟩ :: ⟨.COLON, _⟩ :: rest => fielded s rest
  | ⟨.PHRASE, p⟩ :: ⟨.COLON, _⟩ :: rest => fielded p rest
  | ⟨.STRING, s⟩ :: ⟨.TILDE, z⟩ :: rest => some (.fuzzy none s z, rest)
  | ⟨.STRING, s⟩ :: rest => some (.str none s, rest)
  | ⟨.NUMBER, n⟩ :: rest => some (.num none n, rest)
  | ⟨.PHRASE, p⟩ :: rest => some (.phrase none p, rest)
  | _ => none

/-- `searchPart`: prefix, base, suffix; the tokens left over -/
def part (toks : List Tok) : Option (Part × List Tok) :=
  let (occ, toks) := match toks with
    | ⟨.PLUS, _⟩ :: rest => (Occur.must, rest)
    | ⟨.MINUS, _⟩ :: rest => (Occur.mustNot, rest)
    | _ => (Occur.should, toks)
  match base toks with
  | none => none
  | some (b, rest) =>
    match rest with
    | ⟨.BOOST, x⟩ :: rest' => some (⟨occ, b, some x⟩, rest')
    | _ => some (⟨occ, b, none⟩, rest)

/-- `searchParts` with fuel (every part takes at least one token): one part or more -/
def partsF : Nat → List Tok → Option (List Part)
  | 0, _ => none
  | fuel + 1, toks =>
    match part toks with
    | none => none
    | some (p, []) => some [p]
    | some (p, rest) => (partsF fuel rest).map (p :: ·)

def parts (toks : List Tok) : Option (List Part) := partsF (toks.length + 1) toks

/-! ### what the grammar's actions build -/

/-- simple decimals: `-?D+(.D*)?` or `-?.D+` over ASCII digits; result (negative, integer digits, fraction digits) -/
def isAsciiDigit (c : Nat) : Bool := 48 ≤ c && c ≤ 57

def splitDec (t : Text) : Option (Bool × Text × Text) :=
  let (neg, t) := match t with
    | 45 :: r => (true, r)
    | _ => (false, t)
  let ip := t.takeWhile isAsciiDigit
  let rest := t.dropWhile isAsciiDigit
  match rest with
  | [] => if ip.isEmpty then none else some (neg, ip, [])
  | 46 :: fr => if fr.all isAsciiDigit && !(ip.isEmpty && fr.isEmpty) then some (neg, ip, fr) else none
  | _ => none

def stripLeadingZeros : Text → Text
  | 48 :: r => if r.isEmpty then [48] else stripLeadingZeros r
  | t => t

def stripTrailingZeros (t : Text) : Text := (t.reverse.dropWhile (· == 48)).reverse

/-- `strconv.FormatFloat(v, 'f', -1, 64)` of a simple decimal with at most 15 significant digits -/
def canonDec (t : Text) : Option Text :=
  match splitDec t with
  | none => none
  | some (neg, ip, fr) =>
    let ip := stripLeadingZeros (if ip.isEmpty then [48] else ip)
    let fr := stripTrailingZeros fr
    let body := if fr.isEmpty then ip else ip ++ [46] ++ fr
    some (if neg then 45 :: body else body)

/-- `int(f)` of a simple decimal: truncation towards zero -/
def truncDec (t : Text) : Option Text :=
  match splitDec t with
  | none => none
  | some (neg, ip, _) =>
    let ip := stripLeadingZeros (if ip.isEmpty then [48] else ip)
    some (if neg && ip != [48] then 45 :: ip else ip)

/-- texts `strconv.ParseFloat` certainly rejects: a character no float syntax uses -/
def floatChar (c : Nat) : Bool :=
  isAsciiDigit c || (65 ≤ c && c ≤ 90) || (97 ≤ c && c ≤ 122) || c == 43 || c == 45 || c == 46 || c == 95

inductive FloatClass | simple | invalid | undecided
deriving Repr, DecidableEq

def classify (t : Text) : FloatClass :=
  if (splitDec t).isSome && t.length ≤ 15 then .simple
  else if t.isEmpty || !(t.all floatChar) then .invalid
  else .undecided

inductive Kind | match_ | regexp | wildcard
deriving Repr, DecidableEq

/-- `/…/` is a regular expression (the slashes cut off), `*` or `?` make a wildcard, else a match query;
`none`: the text "/" alone, whose slicing `str[1:0]` panics inside the parser (recovered: a parse error) -/
def strKind (s : Text) : Option (Kind × Text) :=
  if s.head? == some 47 && s.getLast? == some 47 then
    if s.length < 2 then none else some (.regexp, (s.drop 1).take (s.length - 2))
  else if s.any (fun c => c == 42 || c == 63) then some (.wildcard, s)
  else some (.match_, s)

end Bleve.QueryString
