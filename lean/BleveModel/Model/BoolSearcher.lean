/-
Operational model of `search/searcher/search_boolean.go` (C08, C02): the boolean searcher as a state
machine over its three child searchers (must, should, must-not).  A child is known only through its
contract: it holds the ascending list of matches it has not passed yet; `Next` yields the first of
them; `Advance t` yields the first that is not smaller than `t` — provided the child's cursor is
behind `t`.  What a child does when asked to advance to a target that its cursor has already
reached is *not* part of the contract (term searchers re-seek, composite searchers move on); the
model leaves it open as the parameter `w`, and the theorems hold for every `w`: the boolean
searcher never depends on it.
-/
namespace Bleve.BoolSearcher

/-- a child searcher: the match its cursor is on (what its last call returned) and the matches after it -/
structure Ch where
  curr : Option Nat
  rem : List Nat
deriving Repr, DecidableEq

def Ch.all (c : Ch) : List Nat := c.curr.toList ++ c.rem

def Ch.next (c : Ch) : Ch := match c.rem with
  | [] => { curr := none, rem := [] }
  | x :: xs => { curr := some x, rem := xs }

/-- behaviour outside the contract: asked to advance to a target the cursor has already reached -/
abbrev Weird := Nat → Ch → Ch

def Ch.adv (w : Weird) (t : Nat) (c : Ch) : Ch := match c.curr with
  | some v => if t ≤ v then w t c else Ch.next { c with rem := c.rem.dropWhile (· < t) }
  | none => Ch.next { c with rem := c.rem.dropWhile (· < t) }

/-- a freshly built child over its ascending match list: nothing returned yet -/
def Ch.fresh (l : List Nat) : Ch := { curr := none, rem := l }

structure St where
  must : Option Ch          -- `none`: the query has no must clause
  should : Option Ch
  mustNot : Option Ch
  min0 : Bool               -- `shouldSearcher.Min() == 0`: the should clause is optional
  done : Bool := false
deriving Repr

/-- `currentID`: the candidate, taken from must if there is a must searcher, else from should.  The Go
    field is recomputed by this formula after every change of the cursor it is taken from. -/
def cur (st : St) : Option Nat := match st.must with
  | some m => m.curr
  | none => st.should.bind (·.curr)

/-- `initSearchers`: every child is moved to its first match -/
def init (must should mustNot : Option (List Nat)) (min0 : Bool) : St :=
  { must := must.map (fun l => (Ch.fresh l).next), should := should.map (fun l => (Ch.fresh l).next),
    mustNot := mustNot.map (fun l => (Ch.fresh l).next), min0 := min0 }

def advanceNextMust (st : St) : St := match st.must with
  | some m => { st with must := some m.next }
  | none => { st with should := st.should.map Ch.next }

/-- the must-not part of one round of the loop in `Next`: the new state and whether the candidate is excluded -/
def notStep (w : Weird) (st : St) (c : Nat) : St × Bool := match st.mustNot with
  | some n => match n.curr with
    | some v =>
      if v < c then
        let n' := n.adv w c
        ({ st with mustNot := some n' }, n'.curr == some c)
      else (st, v == c)
    | none => (st, false)
  | none => (st, false)

/-- the should part of one round: the new state and whether the should clause lets the candidate pass
    (it matches the candidate, or it is optional) -/
def shouldStep (w : Weird) (st : St) (c : Nat) : St × Bool := match st.should with
  | some s => match s.curr with
    | some v =>
      if v < c then
        let s' := s.adv w c
        ({ st with should := some s' }, s'.curr == some c || st.min0)
      else (st, v == c || st.min0)
    | none => (st, st.min0)
  | none => (st, true)

/-- one round of the loop in `Next` for candidate `c`: `some c` when it is a match, and the state after
    `advanceNextMust` (every branch of the Go loop ends with it) -/
def body (w : Weird) (st : St) (c : Nat) : Option Nat × St :=
  let (st1, excluded) := notStep w st c
  if excluded then (none, advanceNextMust st1)
  else
    let (st2, pass) := shouldStep w st1 c
    (if pass then some c else none, advanceNextMust st2)

def nextLoop (w : Weird) : Nat → St → Option Nat × St
  | 0, st => (none, { st with done := true })
  | fuel + 1, st => match cur st with
    | none => (none, { st with done := true })
    | some c => match body w st c with
      | (some r, st') => (some r, st')
      | (none, st') => nextLoop w fuel st'

/-- the candidates not yet passed -/
def candAll (st : St) : List Nat := match st.must with
  | some m => m.all
  | none => (st.should.map Ch.all).getD []

def next (w : Weird) (st : St) : Option Nat × St :=
  if st.done then (none, st) else nextLoop w ((candAll st).length + 1) st

/-- a cursor that is not tracked by `currentID` is moved only when it is behind the target -/
def advBehind (w : Weird) (t : Nat) (c : Ch) : Ch := match c.curr with
  | some v => if v < t then c.adv w t else c
  | none => c.adv w t

def reposition (w : Weird) (t : Nat) (st : St) : St :=
  { st with must := st.must.map (Ch.adv w t), should := st.should.map (advBehind w t),
            mustNot := st.mustNot.map (advBehind w t) }

def advance (w : Weird) (t : Nat) (st : St) : Option Nat × St :=
  if st.done then (none, st)
  else
    let st' := match cur st with
      | some c => if c < t then reposition w t st else st
      | none => reposition w t st
    next w st'

/-! ## what the searcher stands for -/

def notAll (st : St) : List Nat := (st.mustNot.map Ch.all).getD []
def shouldAll (st : St) : List Nat := (st.should.map Ch.all).getD []

/-- is candidate `d` a match: not excluded, and — when there is a must clause and the should clause is
    required — also matched by should -/
def okDoc (st : St) (d : Nat) : Bool :=
  !(notAll st).contains d &&
  (if st.must.isSome && st.should.isSome && !st.min0 then (shouldAll st).contains d else true)

/-- the matches the searcher has not passed yet -/
def abs (st : St) : List Nat := if st.done then [] else (candAll st).filter (okDoc st)

/-- the contract every searcher is held to, as a machine over the list of remaining matches -/
def popList : List Nat → Option Nat × List Nat
  | [] => (none, [])
  | x :: xs => (some x, xs)

inductive Op where
  | next
  | adv (t : Nat)
deriving Repr

def runImpl (w : Weird) : St → List Op → List (Option Nat)
  | _, [] => []
  | st, .next :: ops => let (r, st') := next w st; r :: runImpl w st' ops
  | st, .adv t :: ops => let (r, st') := advance w t st; r :: runImpl w st' ops

def runSpec : List Nat → List Op → List (Option Nat)
  | _, [] => []
  | l, .next :: ops => let (r, l') := popList l; r :: runSpec l' ops
  | l, .adv t :: ops => let (r, l') := popList (l.dropWhile (· < t)); r :: runSpec l' ops

end Bleve.BoolSearcher
