import BleveModel.Model.KV
/-
The abstract content of an index (specification side of C01, C03, C04, C05, C13, C14): a map from
document id to the latest stored document and a map of internal keys, changed by
Index / Delete / SetInternal / DeleteInternal, alone or grouped in batches.
A document is represented by its canonical stored-field rendering (a byte string).
-/
namespace Bleve.IndexSpec
open Bleve.KV

inductive Op
  | index (id doc : Bytes)
  | delete (id : Bytes)
  | setInternal (k v : Bytes)
  | deleteInternal (k : Bytes)
deriving Repr

structure Spec where
  docs : Store := []
  ints : Store := []
deriving Repr

def applyOp (s : Spec) : Op → Spec
  | .index id doc => { s with docs := put s.docs id doc }
  | .delete id => { s with docs := del s.docs id }
  | .setInternal k v => { s with ints := put s.ints k v }
  | .deleteInternal k => { s with ints := del s.ints k }

/-- sequential replay -/
def applyOps (s : Spec) (ops : List Op) : Spec := ops.foldl applyOp s

/-- a batch is replayed in call order: the last operation on an id / internal key wins and all of it
    becomes visible together (the model has no intermediate state to observe) -/
def applyBatch (s : Spec) (batch : List Op) : Spec := applyOps s batch

def applyBatches (s : Spec) (batches : List (List Op)) : Spec := batches.foldl applyBatch s

def Spec.docCount (s : Spec) : Nat := s.docs.length
def Spec.document (s : Spec) (id : Bytes) : Option Bytes := get s.docs id
def Spec.liveIds (s : Spec) : List Bytes := s.docs.map (·.1)
def Spec.getInternal (s : Spec) (k : Bytes) : Option Bytes := get s.ints k

/-- the last operation on document `id` in an operation list, if any -/
def lastDocOp (id : Bytes) : List Op → Option (Option Bytes)
  | [] => none
  | op :: rest =>
    match lastDocOp id rest with
    | some r => some r
    | none => match op with
      | .index i d => if i == id then some (some d) else none
      | .delete i => if i == id then some none else none
      | _ => none

end Bleve.IndexSpec
