/-
Model of the phrase matcher of search/searcher/search_phrase.go: `findPhrasePaths`, the recursive
search for a chain of term locations (one per phrase part) whose positions follow each other, with
alternatives per part (multi-phrase), empty parts as "any one word" placeholders, array positions and
a slop budget.  Location identity (the Go code compares pointers to skip a location already on the
path) is the pair (term, index into that term's location list).
-/
namespace Bleve.Phrase

abbrev Term := List Nat

structure Loc where
  pos : Nat            -- 1-based position of the word in its field value
  ap : Nat             -- stands for the ArrayPositions value (equal numbers = equal positions)
deriving Repr, DecidableEq

/-- the term location map of one document and field -/
abbrev TLM := List (Term × List Loc)

def locsOf (tlm : TLM) (t : Term) : List Loc := ((tlm.find? (fun p => p.1 == t)).map (·.2)).getD []

structure Part where
  term : Term
  idx : Nat            -- which of the term's locations
  loc : Loc
deriving Repr, DecidableEq

abbrev Path := List Part

/-- `editDistance(prevPos+1, loc.Pos)` -/
def dist (prevPos pos : Nat) : Nat := if prevPos + 1 ≥ pos then prevPos + 1 - pos else pos - (prevPos + 1)

def isPlaceholder (car : List Term) : Bool := car.isEmpty || car == [[]]

/-- one candidate location of one alternative: taken if the array positions agree, the slop budget
allows its distance from the previous part and it is not on the path already -/
def admits (prevPos ap : Nat) (p : Path) (slop : Int) (t : Term) (i : Nat) (l : Loc) : Option Int :=
  if prevPos != 0 && l.ap != ap then none
  else
    let d : Int := if prevPos != 0 then dist prevPos l.pos else 0
    if prevPos == 0 || slop - d ≥ 0 then
      if p.any (fun x => x.term == t && x.idx == i) then none else some (slop - d)
    else none

/-- `findPhrasePaths`: the paths found, in the order the Go code appends them -/
def findPaths (tlm : TLM) : List (List Term) → Nat → Nat → Path → Int → List Path
  | [], _, _, p, _ => [p]
  | car :: cdr, prevPos, ap, p, slop =>
    if isPlaceholder car then findPaths tlm cdr (if prevPos == 0 then 0 else prevPos + 1) ap p slop
    else
      car.flatMap (fun t =>
        (locsOf tlm t).zipIdx.flatMap (fun li =>
          match admits prevPos ap p slop t li.2 li.1 with
          | some slop' => findPaths tlm cdr li.1.pos li.1.ap (p ++ [⟨t, li.2, li.1⟩]) slop'
          | none => []))

/-- the entry point as the phrase searcher calls it -/
def phrasePaths (tlm : TLM) (phrase : List (List Term)) (slop : Int) : List Path :=
  findPaths tlm phrase 0 0 [] slop

end Bleve.Phrase
