import BleveModel.Model.BoolSearcher
import BleveModel.Model.ConjSearcher
/-
Operational model of `search/searcher/search_disjunction_slice.go` (C08, C02): the disjunction searcher
(up to `DisjunctionHeapTakeover` clauses) as a state machine over its clause searchers.  `matching` is
not kept as state: the Go code recomputes it (`updateMatches`) after every change of the cursors, so it
is a function of them — the clauses whose cursor is on the smallest cursor value.
`search_disjunction_heap.go` (more than ten clauses) keeps the cursors in a `container/heap` instead of
scanning a slice; with the heap taken as a priority queue that yields a smallest cursor (its
implementation is trusted) it is the same machine: `matching` is the group of clauses popped with the
smallest cursor value, `Next` moves that group on, `Advance` moves on exactly the clauses whose cursor
is behind the target.  The order in which equal cursors are popped only affects the order in which
scores are summed (the C05 finding on heap disjunctions).
-/
namespace Bleve.DisjSearcher
open Bleve.BoolSearcher (Ch Weird Op)

structure St where
  chs : List Ch      -- `searchers` with their `currs`
  min : Nat          -- `s.min`
deriving Repr

def optMin : Option Nat → Option Nat → Option Nat
  | none, x => x
  | some a, none => some a
  | some a, some b => some (Nat.min a b)

/-- `updateMatches`: the smallest cursor (the document `matching` is about) -/
def minCur : List Ch → Option Nat
  | [] => none
  | c :: cs => optMin c.curr (minCur cs)

/-- `len(s.matching)` -/
def matchingCount (chs : List Ch) (m : Nat) : Nat := (chs.filter (fun c => c.curr == some m)).length

/-- `Next` on all the matching searchers -/
def stepMatching (chs : List Ch) (m : Nat) : List Ch :=
  chs.map (fun c => if c.curr == some m then c.next else c)

/-- the loop of `Next` -/
def nextLoop : Nat → St → Option Nat × St
  | 0, st => (none, st)
  | fuel + 1, st => match minCur st.chs with
    | none => (none, st)
    | some m =>
      let st' := { st with chs := stepMatching st.chs m }
      if st.min ≤ matchingCount st.chs m then (some m, st') else nextLoop fuel st'

def next (st : St) : Option Nat × St := nextLoop (Bleve.ConjSearcher.size st.chs + 1) st

def advance (w : Weird) (t : Nat) (st : St) : Option Nat × St :=
  next { st with chs := st.chs.map (Bleve.BoolSearcher.advBehind w t) }

def init (clauses : List (List Nat)) (min : Nat) : St :=
  { chs := clauses.map (fun l => (Ch.fresh l).next), min := min }

def runImpl (w : Weird) : St → List Op → List (Option Nat)
  | _, [] => []
  | st, .next :: ops => let (r, st') := next st; r :: runImpl w st' ops
  | st, .adv t :: ops => let (r, st') := advance w t st; r :: runImpl w st' ops

/-! ## what the searcher stands for -/

/-- insert into an ascending list, keeping it ascending and free of repetitions -/
def insertAsc (x : Nat) : List Nat → List Nat
  | [] => [x]
  | y :: ys => if x < y then x :: y :: ys else if x = y then y :: ys else y :: insertAsc x ys

/-- every value of the given lists once, ascending -/
def unionAsc (ls : List (List Nat)) : List Nat := ls.flatten.foldr insertAsc []

/-- in how many of the lists does `d` occur -/
def cnt (ls : List (List Nat)) (d : Nat) : Nat := (ls.filter (fun l => l.contains d)).length

/-- the documents a disjunction with minimum `min` stands for, given the ascending match lists of its
    clauses: those matched by at least `max 1 min` clauses -/
def disjDen (ls : List (List Nat)) (min : Nat) : List Nat :=
  (unionAsc ls).filter (fun d => decide (max 1 min ≤ cnt ls d))

def abs (st : St) : List Nat := disjDen (st.chs.map Ch.all) st.min

end Bleve.DisjSearcher
