/-
Lifecycle of an open index (C11): the reader/writer lock and `open` flag of `indexImpl`.  Every API
call enters under the read lock and proceeds only when the index is open; Close takes the write
lock, which is granted only when no call is inside, and clears the flag.
-/
namespace Bleve.Lifecycle

structure L where
  isOpen : Bool := true
  inflight : Nat := 0
deriving Repr, DecidableEq

inductive Ev where
  | enter      -- a call takes the read lock and looks at the flag
  | leave      -- a call that proceeded returns
  | close      -- Close asks for the write lock
deriving Repr, DecidableEq

inductive Out where
  | proceed | closedErr | left | closed | blocked
deriving Repr, DecidableEq

def step (s : L) : Ev → L × Out
  | .enter => if s.isOpen then ({ s with inflight := s.inflight + 1 }, .proceed) else (s, .closedErr)
  | .leave => ({ s with inflight := s.inflight - 1 }, .left)
  | .close =>
    if !s.isOpen then (s, .closedErr)                  -- closing twice: the closed-index error
    else if s.inflight = 0 then ({ s with isOpen := false }, .closed)
    else (s, .blocked)                                  -- the write lock waits for the calls inside

def run (s : L) : List Ev → L × List Out
  | [] => (s, [])
  | ev :: evs => let (s', o) := step s ev; let (s'', os) := run s' evs; (s'', o :: os)

/-- result of a real call as the harness classifies it; `refused` stands for calls that cannot
    report the closed-index error at all (no error result, or a refusal that is decided before the
    index is looked at) -/
inductive Res where
  | ok | closed | ctx | refused | bad
deriving Repr, DecidableEq

/-- the monitor over a real history: a call is given by the global sequence numbers taken before it
    started and after it returned; `cs`/`ce` are those of the first Close that succeeded -/
def verdict (close : Option (Nat × Nat)) (st en : Nat) (r : Res) : Bool :=
  r != .bad &&
  match close with
  | none => r != .closed
  | some (cs, ce) =>
    (if st > ce then r == .closed || r == .refused else true) &&     -- started after Close returned: rejected
    (if en < cs then r != .closed else true)        -- returned before Close was called: not rejected

end Bleve.Lifecycle
