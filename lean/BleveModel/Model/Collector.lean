import BleveModel.Model.TopN
import BleveModel.Model.Numeric
/-
Model of bleve's result collection: sort keys, comparison, top-N store, search-after.

Mirrors: search/sort.go (SortOrder.Compare, CompareScoreDescending, SortField.Value,
filterTermsByType, filterTermsByMode, Reverse), search/collector/topn.go
(MakeTopNDocumentMatchHandler, basicPrepare, createSearchAfterDocument),
search/collector/slice.go, heap.go (the heap store is modelled extensionally as the same sorted
store: container/heap is trusted to be a priority queue for a strict total order).
-/
namespace Bleve.Collector
open Bleve.TopN

inductive SType | auto | str | num | date
deriving Repr, DecidableEq
inductive SMode | dflt | min | max
deriving Repr, DecidableEq
inductive SortKind
  | score
  | id
  | field (ty : SType) (mode : SMode) (missingFirst : Bool)
deriving Repr, DecidableEq

structure SortSpec where
  kind : SortKind
  desc : Bool
deriving Repr, DecidableEq

/-- `strings.Repeat(string(utf8.MaxRune), 3)` -/
def highTerm : List Nat := [0xf4, 0x8f, 0xbf, 0xbf, 0xf4, 0x8f, 0xbf, 0xbf, 0xf4, 0x8f, 0xbf, 0xbf]
def lowTerm : List Nat := [0x00]

/-- three-way bytewise comparison of Go strings / byte slices: -1, 0, 1 -/
def cmpBytes : List Nat → List Nat → Int
  | [], [] => 0
  | [], _ :: _ => -1
  | _ :: _, [] => 1
  | a :: as, b :: bs => if a < b then -1 else if a > b then 1 else cmpBytes as bs

def cmpInt (a b : Int) : Int := if a < b then -1 else if a > b then 1 else 0

def isShift0 (t : List Nat) : Bool := Numeric.validTerm t == some 0
def isValidPC (t : List Nat) : Bool := (Numeric.validTerm t).isSome

/-- `SortField.filterTermsByType` -/
def filterByType (ty : SType) (terms : List (List Nat)) : List (List Nat) :=
  match ty with
  | .auto =>
    let z := terms.filter isShift0
    if terms.all isValidPC && !z.isEmpty then z else terms
  | .str => terms
  | .num | .date => terms.filter isShift0

def minBytes : List (List Nat) → List Nat
  | [] => []
  | [x] => x
  | x :: xs => let m := minBytes xs; if cmpBytes x m ≤ 0 then x else m
def maxBytes : List (List Nat) → List Nat
  | [] => []
  | [x] => x
  | x :: xs => let m := maxBytes xs; if cmpBytes x m ≥ 0 then x else m

/-- `SortField.filterTermsByMode` including the missing-value sentinels -/
def filterByMode (mode : SMode) (missingFirst desc : Bool) (terms : List (List Nat)) : List Nat :=
  match terms with
  | [] =>
    if !missingFirst then (if desc then lowTerm else highTerm)
    else (if desc then highTerm else lowTerm)
  | [t] => t
  | t :: _ =>
    match mode with
    | .dflt => t
    | .min => minBytes terms
    | .max => maxBytes terms

/-- the sort key string of one sort spec for a document: `SearchSort.Value` -/
def sortValue (s : SortSpec) (id : List Nat) (fieldTerms : List (List Nat)) : List Nat :=
  match s.kind with
  | .score => [0x5f, 0x73, 0x63, 0x6f, 0x72, 0x65]       -- "_score"
  | .id => id
  | .field ty mode mf => filterByMode mode mf s.desc (filterByType ty fieldTerms)

/-- `SortField.Reverse` / `SortDocID.Reverse` / `SortScore.Reverse` -/
def SortSpec.reverse (s : SortSpec) : SortSpec :=
  match s.kind with
  | .field ty mode mf => ⟨.field ty mode (!mf), !s.desc⟩
  | k => ⟨k, !s.desc⟩

/-- a prepared match: hit number (arrival order, from 1), score, one key per sort spec -/
structure Match where
  hit : Nat
  score : Int
  keys : List (List Nat)
deriving Repr, DecidableEq

/-- one sort component of `SortOrder.Compare` (index `i` of the sort order) -/
def compAt (s : SortSpec) (i : Nat) (a b : Match) : Int :=
  let c := match s.kind with
    | .score => cmpInt a.score b.score
    | _ => cmpBytes (a.keys.getD i []) (b.keys.getD i [])
  if s.desc then -c else c

def hitCmp (a b : Match) : Int := cmpInt a.hit b.hit

/-- lexicographic combination: first non-zero component decides, then the tie-break -/
def lexCmp {α : Type} : List (α → α → Int) → (α → α → Int) → α → α → Int
  | [], tie, a, b => tie a b
  | c :: cs, tie, a, b => if c a b ≠ 0 then c a b else lexCmp cs tie a b

def comps (so : List SortSpec) : List (Match → Match → Int) :=
  so.zipIdx.map (fun p => compAt p.1 p.2)

/-- `SortOrder.Compare` (and `CompareScoreDescending` for `[score desc]`) -/
def cmp (so : List SortSpec) (a b : Match) : Int := lexCmp (comps so) hitCmp a b

def lt (so : List SortSpec) (a b : Match) : Bool := decide (cmp so a b < 0)

structure Result where
  hits : List Match
  total : Nat
  maxScore : Int
deriving Repr

/-- the search-after filter of the handler: the sentinel takes the hit number of the candidate -/
def afterKeep (so : List SortSpec) (after : Option Match) (d : Match) : Bool :=
  match after with
  | none => true
  | some a => decide (cmp so d { a with hit := d.hit } > 0)

/-- `TopNCollector.Collect` over an already prepared stream (hit numbers assigned in arrival order) -/
def collect (so : List SortSpec) (size skip : Nat) (after : Option Match) (ms : List Match) : Result :=
  { hits := TopN.collect (lt so) size skip (ms.filter (afterKeep so after)),
    total := ms.length,
    maxScore := ms.foldl (fun m d => if d.score > m then d.score else m) 0 }

/-- `SearchBefore` as index_impl.go executes it: reverse every sort key, run as search-after with
    `From` ignored, then re-sort the page with the original order -/
def searchBefore (so : List SortSpec) (size : Nat) (before : Match) (ms : List Match) : Result :=
  let r := collect (so.map SortSpec.reverse) size 0 (some before) ms
  { r with hits := TopN.isort (lt so) r.hits }

/-- raw stream element before preparation -/
structure Raw where
  score : Int
  id : List Nat
  fields : List (List (List Nat))      -- per sort spec: the doc-value terms of that spec's field
deriving Repr

def prepare (so : List SortSpec) (raws : List Raw) : List Match :=
  raws.zipIdx.map (fun p =>
    { hit := p.2 + 1, score := p.1.score,
      keys := so.zipIdx.map (fun q => sortValue q.1 p.1.id (p.1.fields.getD q.2 [])) })

end Bleve.Collector
