/-
Model of bleve's character-class tokenizer (analysis/tokenizer/character/character.go), the base
of the `letter` and `whitespace` tokenizers.  The input is given as the sequence utf8.DecodeRune
produces: (byte size, kind) with kind 1 = token rune, 0 = separator rune, 2 = RuneError (an invalid
byte, a literal U+FFFD, or the end), at which the Go loop stops.
-/
namespace Bleve.Text

structure Tok where
  start : Nat
  stop : Nat
  pos : Nat
deriving Repr, DecidableEq

/-- the loop of `CharacterTokenizer.Tokenize` with its variables offset, start, end, count -/
def go : List (Nat × Nat) → Nat → Nat → Nat → Nat → List Tok → List Tok
  | [], _, s, e, c, acc => if e > s then acc ++ [⟨s, e, c + 1⟩] else acc
  | (sz, k) :: rest, o, s, e, c, acc =>
    if k == 2 then (if e > s then acc ++ [⟨s, e, c + 1⟩] else acc)
    else if k == 1 then go rest (o + sz) s (o + sz) c acc
    else if e > s then go rest (o + sz) (o + sz) (o + sz) (c + 1) (acc ++ [⟨s, e, c + 1⟩])
    else go rest (o + sz) (o + sz) (o + sz) c acc

def charTokenize (runes : List (Nat × Nat)) : List Tok := go runes 0 0 0 0 []

def totalBytes (runes : List (Nat × Nat)) : Nat := (runes.map (·.1)).sum

end Bleve.Text
