/-
Model of the upsidedown KV store adapters (index/upsidedown/store/{boltdb,goleveldb,gtreap,moss,metrics}):
an ordered map of byte strings, batches (accumulated merges first, then sets/deletes in call
order), snapshot readers, and the adapters' iterator logic (Seek clamping to the iterator's start
and prefix, validity against prefix / end) over an engine cursor.
Core Lean only.
-/
namespace Bleve.KV

abbrev Bytes := List Nat

def bytesLt : Bytes → Bytes → Bool
  | _, [] => false
  | [], _ :: _ => true
  | a :: as, b :: bs => if a < b then true else if a > b then false else bytesLt as bs

def hasPrefix : Bytes → Bytes → Bool
  | _, [] => true
  | [], _ :: _ => false
  | a :: as, p :: ps => a == p && hasPrefix as ps

/-- the store: association list sorted by key, no duplicate keys -/
abbrev Store := List (Bytes × Bytes)

def get (s : Store) (k : Bytes) : Option Bytes :=
  match s with
  | [] => none
  | (k', v) :: rest => if k' == k then some v else get rest k

def put (s : Store) (k v : Bytes) : Store :=
  match s with
  | [] => [(k, v)]
  | (k', v') :: rest =>
    if k == k' then (k, v) :: rest
    else if bytesLt k k' then (k, v) :: (k', v') :: rest
    else (k', v') :: put rest k v

def del (s : Store) (k : Bytes) : Store := s.filter (fun p => !(p.1 == k))

inductive Op
  | set (k v : Bytes)
  | del (k : Bytes)
  | merge (k v : Bytes)
deriving Repr

/-- the test merge operator used by the correspondence: FullMerge appends the operands to the
    existing value (absent = empty), PartialMerge concatenates -/
def fullMerge (existing : Option Bytes) (operands : List Bytes) : Bytes :=
  (existing.getD []) ++ operands.flatten

/-- merge operands per key, in first-appearance order of keys -/
def collectMerges (ops : List Op) : List (Bytes × List Bytes) :=
  ops.foldl (fun acc op => match op with
    | .merge k v =>
      if acc.any (fun p => p.1 == k) then acc.map (fun p => if p.1 == k then (p.1, p.2 ++ [v]) else p)
      else acc ++ [(k, [v])]
    | _ => acc) []

/-- `ExecuteBatch`: merges against the pre-batch values first, then sets and deletes in call order -/
def execBatch (s : Store) (ops : List Op) : Store :=
  let s1 := (collectMerges ops).foldl (fun st p => put st p.1 (fullMerge (get s p.1) p.2)) s
  ops.foldl (fun st op => match op with
    | .set k v => put st k v
    | .del k => del st k
    | .merge _ _ => st) s1

/-! ## iterators -/

/-- engine cursor: `Seek(k)` positions at the first entry with key ≥ k -/
def seekFrom (s : Store) (k : Bytes) : Store := s.dropWhile (fun p => bytesLt p.1 k)

structure Iter where
  pfx : Option Bytes       -- prefix iterator
  start : Option Bytes     -- range iterator
  stop : Option Bytes
  rest : Store             -- cursor: current entry is the head
  valid : Bool
deriving Repr

def Iter.updateValid (it : Iter) : Iter :=
  match it.rest with
  | [] => { it with valid := false }
  | (k, _) :: _ =>
    match it.pfx with
    | some p => { it with valid := hasPrefix k p }
    | none => match it.stop with
      | some e => { it with valid := bytesLt k e }
      | none => { it with valid := true }

/-- the adapters' `Seek`: clamp to start, clamp to / reject against the prefix, then engine seek -/
def Iter.seek (snapshot : Store) (it : Iter) (k : Bytes) : Iter :=
  let k1 := match it.start with
    | some st => if bytesLt k st then st else k
    | none => k
  match it.pfx with
  | some p =>
    if !hasPrefix k1 p then
      if bytesLt k1 p then ({ it with rest := seekFrom snapshot p }).updateValid
      else { it with valid := false }
    else ({ it with rest := seekFrom snapshot k1 }).updateValid
  | none => ({ it with rest := seekFrom snapshot k1 }).updateValid

def Iter.next (it : Iter) : Iter := ({ it with rest := it.rest.drop 1 }).updateValid

def prefixIter (snapshot : Store) (p : Bytes) : Iter :=
  Iter.seek snapshot ⟨some p, none, none, [], false⟩ p

def rangeIter (snapshot : Store) (start stop : Option Bytes) : Iter :=
  Iter.seek snapshot ⟨none, start, stop, [], false⟩ (start.getD [])

def Iter.current (it : Iter) : Option (Bytes × Bytes) :=
  if it.valid then it.rest.head? else none

/-! ## extensional specification of iteration -/

/-- entries an iterator may ever return -/
def visible (pfx start stop : Option Bytes) (s : Store) : Store :=
  s.filter (fun p =>
    (match pfx with | some q => hasPrefix p.1 q | none => true) &&
    (match start with | some st => !bytesLt p.1 st | none => true) &&
    (match stop with | some e => bytesLt p.1 e | none => true))

/-- what `Seek(k)` followed by any number of `Next` must enumerate -/
def specFrom (pfx start stop : Option Bytes) (s : Store) (k : Bytes) : Store :=
  (visible pfx start stop s).dropWhile (fun p => bytesLt p.1 k)

end Bleve.KV
