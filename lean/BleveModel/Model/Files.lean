import BleveModel.Model.Durable
/-
File retention (C12): the durable state of `Model/Durable.lean` together with the files held by open
readers.  A reader captures the segment files of the snapshot it was opened on and keeps needing them
until it is closed.
-/
namespace Bleve.Files
open Bleve.Durable

structure F where
  d : D := {}
  held : List (Nat × List Name) := []      -- open reader handle ↦ the segment files it uses
deriving Repr, Inhabited

inductive Ev where
  | dur (ev : Durable.Ev)
  | hold (h : Nat) (files : List Name)     -- a reader is opened on the current state
  | release (h : Nat)                      -- ... and closed
deriving Repr

def heldFile (s : F) (f : Name) : Bool := s.held.any (fun p => p.2.contains f)

/-- a file is needed when a committed snapshot names it or an open reader uses it -/
def needed (s : F) (f : Name) : Bool := named s.d f || heldFile s f

def stepOK (s : F) : Ev → Bool
  | .dur (.zapRemove f) => !needed s f
  | .dur ev => Durable.stepOK s.d ev
  | .hold _ fs => fs.all (fun f => s.d.present.contains f)    -- the files of the current state exist
  | .release _ => true

def step (s : F) : Ev → F
  | .dur ev => { s with d := Durable.step s.d ev }
  | .hold h fs => { s with held := (h, fs) :: s.held }
  | .release h => { s with held := s.held.filter (fun p => p.1 != h) }

def run : F → List Ev → Option F
  | s, [] => some s
  | s, ev :: evs => if stepOK s ev then run (step s ev) evs else none

/-- the purger run to its fixpoint: every file that is not needed is removed -/
def purgeAll (s : F) : F :=
  { s with d := { s.d with present := s.d.present.filter (fun f => needed s f) } }

end Bleve.Files
