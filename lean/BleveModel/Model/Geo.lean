/-
Model of bleve's Morton (Z-order) point encoding (numeric/bin.go Interleave / Deinterleave,
geo/geo.go MortonHash): bit 2i of the hash is bit i of the scaled longitude, bit 2i+1 is bit i of
the scaled latitude.  The model is the bit recursion; that the magic-mask code computes the same
function is checked by I/O equality on every run.
-/
namespace Bleve.Geo

/-- interleave the low `n` bits of `a` (even positions) and `b` (odd positions) -/
def interleave : Nat → Nat → Nat → Nat
  | 0, _, _ => 0
  | n+1, a, b => a % 2 + 2 * (b % 2) + 4 * interleave n (a / 2) (b / 2)

/-- collect the even-position bits of the low `2n` bits of `h` -/
def deinterleave : Nat → Nat → Nat
  | 0, _ => 0
  | n+1, h => h % 2 + 2 * deinterleave n (h / 4)

/-- `numeric.Interleave(v1, v2)` for 32-bit inputs -/
def interleave64 (v1 v2 : Nat) : Nat := interleave 32 v1 v2
/-- `numeric.Deinterleave(b)` -/
def deinterleave64 (b : Nat) : Nat := deinterleave 32 b

/-- the Morton cell of a hash at a given number of leading bit pairs dropped (`shift` low bits) -/
def cellOf (hash shift : Nat) : Nat := hash / 2 ^ shift

end Bleve.Geo
