import BleveModel.Model.Collector
import BleveModel.Model.Facet
/-
Model of searching through an index alias (index_alias_impl.go MultiSearch, hitsInCurrentPage;
search_no_knn.go copySearchRequest; search.go SearchResult.Merge; search/facets_builder.go
FacetResult.Merge / Fixup).
-/
namespace Bleve.Alias
open Bleve.Collector Bleve.TopN Bleve.Facet

/-- `copySearchRequest`: every member is asked for the first `size + from` hits -/
def childSize (size from_ : Nat) : Nat := size + from_

/-- `hitsInCurrentPage`: sort the concatenated hits with the request's order, skip `from`, keep `size`.
    A `size` of 0 keeps nothing, as on a single index. -/
def hitsInCurrentPage (so : List SortSpec) (size from_ : Nat) (hits : List Match) : List Match :=
  let sorted := if so.isEmpty then hits else isort (lt so) hits
  (sorted.drop from_).take size

structure ChildResult where
  hits : List Match
  total : Nat
  maxScore : Int

/-- `MultiSearch` over already computed member results -/
def multiSearch (so : List SortSpec) (size from_ : Nat) (children : List ChildResult) : Result :=
  { hits := hitsInCurrentPage so size from_ (children.map (·.hits)).flatten,
    total := (children.map (·.total)).sum,
    maxScore := children.foldl (fun m c => if c.maxScore > m then c.maxScore else m) 0 }

/-- the alias answer for shards given as match lists: each member collects its own first
    `size+from`, the alias merges -/
def aliasSearch (so : List SortSpec) (size from_ : Nat) (shards : List (List Match)) : Result :=
  multiSearch so size from_
    (shards.map (fun ms => let r := collect so (childSize size from_) 0 none ms; ⟨r.hits, r.total, r.maxScore⟩))

/-! ## facets -/

/-- `TermFacets.Add` / `NumericRangeFacets.Add`: add to the bucket of the same name or append -/
def addBucket (l : List Bucket) (b : Bucket) : List Bucket :=
  match l with
  | [] => [b]
  | x :: rest => if x.name == b.name then ⟨x.name, x.count + b.count⟩ :: rest else x :: addBucket rest b

/-- `FacetResult.Merge` -/
def mergeFacet (a b : FacetResult) : FacetResult :=
  { total := a.total + b.total, missing := a.missing + b.missing, other := a.other + b.other,
    listed := b.listed.foldl addBucket a.listed }

/-- `FacetResult.Fixup(size)`: sort, move everything beyond `size` to Other -/
def fixup (size : Nat) (f : FacetResult) : FacetResult :=
  let sorted := isort bucketLt f.listed
  { f with listed := sorted.take size, other := f.other + sumCounts (sorted.drop size) }

def mergeFacets (size : Nat) (children : List FacetResult) : Option FacetResult :=
  match children with
  | [] => none
  | c :: cs => some (fixup size (cs.foldl mergeFacet c))

end Bleve.Alias
