/-
Specification of nested-object search (C20), for any nesting depth.

A document is its own object plus every element of every array of objects inside it, at any depth,
each with the path of arrays leading to it and its index at each of them.  A leaf addresses a field
of the objects at one array path (`[]` = the document itself).  Under the nested mapping a
conjunction is met inside ONE object at the deepest array path all its leaves share (the join path),
when that path is deeper than where the conjunction is being evaluated; everything else combines per
enclosing object — per parent document at the top.  Without nesting every clause looks at all objects
of its path.
-/
namespace Bleve.Nested

abbrev Term := List Nat
abbrev Name := List Nat
abbrev Path := List Name

structure Node where
  apath : Path                       -- arrays leading to this object
  idx : List Nat                     -- element index at each of them
  fields : List (Name × Term)
deriving Repr

structure Doc where
  id : List Nat
  nodes : List Node                  -- the document's own object (path []) and every array element
deriving Repr

inductive Q where
  | term (path : Path) (field : Name) (t : Term)
  | conj (qs : List Q)
  | disj (min : Nat) (qs : List Q)
  | bool (must should mustNot : List Q) (minShould : Nat)

def Node.has (n : Node) (f : Name) (t : Term) : Bool := n.fields.contains (f, t)

/-- `n` is the object `c` or lies inside it -/
def below (c n : Node) : Bool := c.apath.isPrefixOf n.apath && c.idx.isPrefixOf n.idx

/-- the whole document as a context: everything lies below it -/
def root : Node := ⟨[], [], []⟩

mutual
  def pathsOf : Q → List Path
    | .term p _ _ => [p]
    | .conj qs => pathsOfList qs
    | .disj _ qs => pathsOfList qs
    | .bool m s n _ => pathsOfList m ++ pathsOfList s ++ pathsOfList n
  def pathsOfList : List Q → List Path
    | [] => []
    | q :: qs => pathsOf q ++ pathsOfList qs
end

/-- longest common prefix -/
def lcp : Path → Path → Path
  | a :: as, b :: bs => if a == b then a :: lcp as bs else []
  | _, _ => []

/-- the deepest array path all leaves of the clauses share -/
def joinPath (qs : List Q) : Path :=
  match pathsOfList qs with
  | [] => []
  | p :: ps => ps.foldl lcp p

mutual
  /-- does query `q` hold in context object `c` of document `d` -/
  def eval (nested : Bool) (d : Doc) : Q → Node → Bool
    | .term p f t, c => d.nodes.any (fun n => n.apath == p && below c n && n.has f t)
    | .conj qs, c =>
      if nested && decide (c.apath.length < (joinPath qs).length) then
        d.nodes.any (fun m => m.apath == joinPath qs && below c m && evalAll nested d qs m)
      else evalAll nested d qs c
    | .disj min qs, c => decide (countTrue nested d qs c ≥ max 1 min)
    | .bool m s n ms, c =>
      (if nested && decide (c.apath.length < (joinPath m).length) then
        d.nodes.any (fun x => x.apath == joinPath m && below c x && evalAll nested d m x)
       else evalAll nested d m c) &&
      (if s.isEmpty then true
       else if m.isEmpty then decide (countTrue nested d s c ≥ max 1 ms)
       else (ms == 0 || decide (countTrue nested d s c ≥ ms))) &&
      (countTrue nested d n c == 0) && !(m.isEmpty && s.isEmpty && n.isEmpty)
  def evalAll (nested : Bool) (d : Doc) : List Q → Node → Bool
    | [], _ => true
    | q :: qs, c => eval nested d q c && evalAll nested d qs c
  def countTrue (nested : Bool) (d : Doc) : List Q → Node → Nat
    | [], _ => 0
    | q :: qs, c => (if eval nested d q c then 1 else 0) + countTrue nested d qs c
end

/-- does the parent document match -/
def docMatches (nested : Bool) (q : Q) (d : Doc) : Bool := eval nested d q root

/-- the parents a search returns, each once, in corpus order -/
def search (nested : Bool) (q : Q) (corpus : List Doc) : List (List Nat) :=
  (corpus.filter (docMatches nested q)).map (·.id)

end Bleve.Nested
