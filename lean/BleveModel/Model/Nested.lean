/-
Specification of nested-object search (C20): documents with top-level fields and named arrays of
objects; a conjunction all of whose leaves address one nested array must be satisfied by a single
element of that array, everything else combines per parent document.
-/
namespace Bleve.Nested

abbrev Term := List Nat
abbrev Name := List Nat

/-- an object: its (field, term) pairs -/
abbrev Obj := List (Name × Term)

structure Doc where
  id : List Nat
  top : Obj
  arrays : List (Name × List Obj)
deriving Repr

/-- a leaf addresses a top-level field (`arr = []`) or a field of the elements of array `arr` -/
inductive Q where
  | term (arr : Name) (field : Name) (t : Term)
  | conj (qs : List Q)
  | disj (min : Nat) (qs : List Q)
  | bool (must should mustNot : List Q) (minShould : Nat)

def Obj.has (o : Obj) (f : Name) (t : Term) : Bool := o.contains (f, t)

def Doc.elems (d : Doc) (arr : Name) : List Obj :=
  ((d.arrays.find? (fun p => p.1 == arr)).map (·.2)).getD []

mutual
  /-- the arrays the leaves of a query address (`[]` = top level) -/
  def arraysOf : Q → List Name
    | .term a _ _ => [a]
    | .conj qs => arraysOfList qs
    | .disj _ qs => arraysOfList qs
    | .bool m s n _ => arraysOfList m ++ arraysOfList s ++ arraysOfList n
  def arraysOfList : List Q → List Name
    | [] => []
    | q :: qs => arraysOf q ++ arraysOfList qs
end

/-- all leaves address one and the same nested array -/
def singleArray (qs : List Q) : Option Name :=
  match (arraysOfList qs).eraseDups with
  | [a] => if a.isEmpty then none else some a
  | _ => none

mutual
  /-- evaluation inside one element of the array all leaves address -/
  def evalElem : Q → Obj → Bool
    | .term _ f t, o => o.has f t
    | .conj qs, o => allElem qs o
    | .disj min qs, o => decide (countElem qs o ≥ max 1 min)
    | .bool m s n ms, o =>
      allElem m o &&
      (if s.isEmpty then true
       else if m.isEmpty then decide (countElem s o ≥ max 1 ms) else (ms == 0 || decide (countElem s o ≥ ms))) &&
      (countElem n o == 0) && !(m.isEmpty && s.isEmpty && n.isEmpty)
  def allElem : List Q → Obj → Bool
    | [], _ => true
    | q :: qs, o => evalElem q o && allElem qs o
  def countElem : List Q → Obj → Nat
    | [], _ => 0
    | q :: qs, o => (if evalElem q o then 1 else 0) + countElem qs o
end

mutual
  /-- does the parent document match; `nested` = the arrays are mapped as nested -/
  def eval (nested : Bool) : Q → Doc → Bool
    | .term a f t, d => if a.isEmpty then d.top.has f t else (d.elems a).any (fun o => o.has f t)
    | .conj qs, d =>
      match (if nested then singleArray qs else none) with
      | some a => (d.elems a).any (fun o => allElem qs o)
      | none => evalAll nested qs d
    | .disj min qs, d => decide (countTrue nested qs d ≥ max 1 min)
    | .bool m s n ms, d =>
      (match (if nested then singleArray m else none) with
        | some a => (d.elems a).any (fun o => allElem m o)
        | none => evalAll nested m d) &&
      (if s.isEmpty then true
       else if m.isEmpty then decide (countTrue nested s d ≥ max 1 ms) else (ms == 0 || decide (countTrue nested s d ≥ ms))) &&
      (countTrue nested n d == 0) && !(m.isEmpty && s.isEmpty && n.isEmpty)
  def evalAll (nested : Bool) : List Q → Doc → Bool
    | [], _ => true
    | q :: qs, d => eval nested q d && evalAll nested qs d
  def countTrue (nested : Bool) : List Q → Doc → Nat
    | [], _ => 0
    | q :: qs, d => (if eval nested q d then 1 else 0) + countTrue nested qs d
end

/-- the parents a search returns, each once, in corpus order -/
def search (nested : Bool) (q : Q) (corpus : List Doc) : List (List Nat) :=
  (corpus.filter (eval nested q)).map (·.id)

end Bleve.Nested
