/-
Durable state of an on-disk scorch index (C03, C12): the snapshots recorded in root.bolt (epoch and
the segment files it names), the set of segment files that exist complete on disk, and the highest
epoch an acknowledged batch depends on.  Events are the steps of persister, purger and merger that
change what is on disk; `stepOK` is the protocol's side condition for each of them; `crash` lets every
file no committed snapshot names vanish or turn to garbage; `recover` is what Open loads.
-/
namespace Bleve.Durable

abbrev Name := String

structure Rec where
  epoch : Nat
  files : List Name
deriving Repr, DecidableEq, Inhabited

structure D where
  bolt : List Rec := []          -- newest first
  present : List Name := []      -- segment files that exist, complete
  acked : Nat := 0               -- highest epoch an acknowledged batch was introduced at
deriving Repr, Inhabited

inductive Ev where
  | writeFile (f : Name)                  -- a segment file is written and synced (persister or merger)
  | commit (e : Nat) (files : List Name)  -- one root.bolt transaction recording snapshot `e` commits
  | ack (e : Nat)                         -- a batch introduced at epoch `e` is acknowledged
  | boltRemove (e : Nat)                  -- the purger deletes snapshot `e` from root.bolt
  | zapRemove (f : Name)                  -- the purger deletes a segment file
deriving Repr

def named (d : D) (f : Name) : Bool := d.bolt.any (fun r => r.files.contains f)

def newest (d : D) : Nat := match d.bolt with
  | [] => 0
  | r :: _ => r.epoch

/-- the side condition of each step -/
def stepOK (d : D) : Ev → Bool
  | .writeFile f => !named d f
  | .commit e fs => (decide (newest d < e) || d.bolt.head? == some ⟨e, fs⟩) && fs.all (fun f => d.present.contains f)
  | .ack e => decide (e ≤ newest d)
  | .boltRemove e => decide (e ≠ newest d)
  | .zapRemove f => !named d f

def step (d : D) : Ev → D
  | .writeFile f => { d with present := f :: d.present }
  | .commit e fs =>
    -- after a reopen the loaded snapshot is recorded once more under its own epoch: no change
    if d.bolt.head? == some ⟨e, fs⟩ then d else { d with bolt := ⟨e, fs⟩ :: d.bolt }
  | .ack e => { d with acked := max d.acked e }
  | .boltRemove e => { d with bolt := d.bolt.filter (fun r => r.epoch != e) }
  | .zapRemove f => { d with present := d.present.filter (fun g => g != f) }

/-- run a trace, stopping at the first step whose side condition fails -/
def run : D → List Ev → Option D
  | d, [] => some d
  | d, ev :: evs => if stepOK d ev then run (step d ev) evs else none

/-- a crash: files named by a committed snapshot survive; any other file survives only if `keep` says
    so (it may be missing, truncated or garbage otherwise) -/
def crash (keep : Name → Bool) (d : D) : D :=
  { d with present := d.present.filter (fun f => named d f || keep f) }

def loadable (d : D) (r : Rec) : Bool := r.files.all (fun f => d.present.contains f)

/-- Open: the newest snapshot all of whose files can be loaded -/
def recover (d : D) : Option Rec := d.bolt.find? (loadable d)

end Bleve.Durable
