import BleveModel.Model.KV
/-
Model of scorch's snapshot algebra (index/scorch/introducer.go, snapshot_index.go,
snapshot_segment.go): a root snapshot is an ordered list of immutable segments, each with a set of
obsoleted local document numbers.  A batch is introduced by obsoleting, in every existing segment,
the live documents whose id the batch mentions, dropping segments left without live documents, and
appending one new segment holding the batch's documents; a merge replaces some segments by one
segment holding their live documents.
A document is (id, content); its local number is its index in the segment.
-/
namespace Bleve.Snapshot
open Bleve.KV (Bytes)

structure Seg where
  sid : Nat
  docs : List (Bytes × Bytes)
  del : List Nat
deriving Repr

abbrev Snap := List Seg

/-- the live documents of a segment, in local-number order -/
def Seg.live (s : Seg) : List (Bytes × Bytes) :=
  (s.docs.zipIdx.filter (fun p => !s.del.contains p.2)).map (·.1)

def liveDocs (r : Snap) : List (Bytes × Bytes) := r.flatMap Seg.live

/-- `Document(id)` / the `_id` term lookup: the content of the live document with that id -/
def lookup (r : Snap) (id : Bytes) : Option Bytes := (liveDocs r).lookup id

def docCount (r : Snap) : Nat := (liveDocs r).length

/-- every id has at most one live document over all segments -/
def Inv (r : Snap) : Prop := ((liveDocs r).map (·.1)).Nodup

/-- obsolete, in one segment, the live documents whose id is in `ids`
    (`DocNumbers(ids)` minus the already deleted ones, OR-ed into the deleted set) -/
def obsolete (ids : List Bytes) (s : Seg) : Seg :=
  { s with del := s.del ++ (s.docs.zipIdx.filter (fun p => ids.contains p.1.1 && !s.del.contains p.2)).map (·.2) }

/-- a batch as the Go map it is: one entry per id, `none` = delete -/
abbrev Batch := List (Bytes × Option Bytes)

def Batch.newDocs (b : Batch) : List (Bytes × Bytes) := b.filterMap (fun p => p.2.map (fun c => (p.1, c)))

/-- `introduceSegment` -/
def introduce (r : Snap) (b : Batch) (sid : Nat) : Snap :=
  let olds := (r.map (obsolete (b.map (·.1)))).filter (fun s => !s.live.isEmpty)
  if b.newDocs.isEmpty then olds else olds ++ [⟨sid, b.newDocs, []⟩]

/-- `introduceMerge` for one task: the segments with the given ids are replaced by one segment
    holding their live documents (in segment, then number order), placed at the end -/
def mergeSegs (r : Snap) (sids : List Nat) (newSid : Nat) : Snap :=
  let chosen := r.filter (fun s => sids.contains s.sid)
  let rest := r.filter (fun s => !sids.contains s.sid)
  let merged := liveDocs chosen
  if merged.isEmpty then rest else rest ++ [⟨newSid, merged, []⟩]

end Bleve.Snapshot
