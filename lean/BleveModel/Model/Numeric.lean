/-
Model of bleve's order-preserving number encoding and numeric range splitting.

Mirrors (by hand; tied to the source by the C07 correspondence run on every check):
  numeric/float.go                      Float64ToInt64, Int64ToFloat64
  numeric/prefix_coded.go               NewPrefixCodedInt64Prealloc, Shift, Int64, ValidPrefixCodedTermBytes
  search/searcher/search_numeric_range.go
       NewNumericRangeSearcher (bound adjustment), splitInt64Range, newRange,
       termRange.Enumerate, incrementBytes

Core Lean only (no Mathlib) so that the driver links as an executable.
-/
namespace Bleve.Numeric

abbrev W := BitVec 64

def signMask : W := 0x7fffffffffffffff#64

/-- `numeric.Float64ToInt64` on the bit pattern of the float. -/
def f2i (b : W) : W := if b.msb then b ^^^ signMask else b

/-- `numeric.Int64ToFloat64`, result as a bit pattern. -/
def i2f (i : W) : W := if i.msb then i ^^^ signMask else i

/-- IEEE-754 total order on bit patterns (sign-magnitude). -/
def ieeeTotalLt (a b : W) : Prop :=
  match a.msb, b.msb with
  | true,  false => True
  | false, true  => False
  | false, false => a.toNat < b.toNat
  | true,  true  => b.toNat < a.toNat

instance (a b : W) : Decidable (ieeeTotalLt a b) := by
  unfold ieeeTotalLt; cases a.msb <;> cases b.msb <;> exact inferInstance

/-- exponent all ones and mantissa non-zero -/
def isNaN (a : W) : Bool := decide (a.toNat % 2^63 > 0x7ff0000000000000)
def isZero (a : W) : Bool := decide (a.toNat % 2^63 = 0)

/-- Go's `<` on float64 (IEEE partial order): false when a NaN is involved, `-0 < +0` false. -/
def floatLt (a b : W) : Bool :=
  !isNaN a && !isNaN b && !(isZero a && isZero b) && decide (ieeeTotalLt a b)

/-! ## prefix coding -/

def shiftStart : Nat := 0x20

def nChars (shift : Nat) : Nat := (63 - shift) / 7 + 1

/-- `k` big-endian base-128 digits of `u` (higher digits dropped, as the Go loop does). -/
def digits : Nat → Nat → List Nat
  | 0, _ => []
  | k+1, u => (u / 128^k % 128) :: digits k (u % 128^k)

/-- bytes.Compare(a, b) < 0 -/
def bytesLt : List Nat → List Nat → Bool
  | _, [] => false
  | [], _ :: _ => true
  | a :: as, b :: bs => if a < b then true else if a > b then false else bytesLt as bs

def inI64 (v : Int) : Bool := decide (-9223372036854775808 ≤ v) && decide (v < 9223372036854775808)

/-- sortable bits: `uint64(in) ^ 0x8000000000000000` for an int64 `v` is `v + 2^63`. -/
def sortable (v : Int) : Nat := (v + (2:Int)^63).toNat

/-- `numeric.NewPrefixCodedInt64(v, shift)`; `none` is the error return (shift > 63). -/
def prefixCode (v : Int) (shift : Nat) : Option (List Nat) :=
  if shift > 63 then none
  else some ((shiftStart + shift) :: digits (nChars shift) (sortable v / 2^shift))

/-- `PrefixCoded.Shift()`: byte arithmetic wraps, shift 63 is rejected. -/
def shiftOf (t : List Nat) : Option Nat :=
  match t with
  | [] => none
  | h :: _ =>
    let sh := (h + 256 - shiftStart) % 256
    if sh < 63 then some sh else none

def toI64 (u : Nat) : Int := if u % 2^64 ≥ 2^63 then ((u % 2^64 : Nat) : Int) - (2:Int)^64 else ((u % 2^64 : Nat) : Int)

/-- `PrefixCoded.Int64()` with int64 wrap-around made explicit. -/
def decodeInt64 (t : List Nat) : Option Int :=
  match shiftOf t with
  | none => none
  | some sh =>
    let acc := (t.drop 1).foldl (fun a b => ((a * 128) % 2^64) ||| b) 0
    some (toI64 ((((acc * 2^sh) % 2^64) ^^^ 2^63)))

/-- `numeric.ValidPrefixCodedTermBytes` -/
def validTerm (t : List Nat) : Option Nat :=
  match t with
  | [] => none
  | h :: _ =>
    if h < shiftStart ∨ h > shiftStart + 63 then none
    else
      let sh := h - shiftStart
      if t.length ≠ nChars sh + 1 then none else some sh

/-! ## range splitting (arithmetic reading, see DESIGN.md C07)

A range at level `lvl` (shift `4*lvl`) is a pair of *block indices* `lo ≤ hi`, i.e. values shifted
right by the level's shift. -/

structure Rng where
  lo : Int
  hi : Int
  lvl : Nat
deriving Repr, DecidableEq

def precisionStep : Nat := 4

def splitAux : Nat → Nat → Int → Int → List Rng
  | 0, lvl, a, b => [⟨a, b, lvl⟩]
  | fuel+1, lvl, a, b =>
    let hasLower := a % 16 ≠ 0
    let hasUpper := b % 16 ≠ 15
    let a' := if hasLower then a / 16 + 1 else a / 16
    let b' := if hasUpper then b / 16 - 1 else b / 16
    if a' > b' then [⟨a, b, lvl⟩]
    else
      (if hasLower then [⟨a, a / 16 * 16 + 15, lvl⟩] else []) ++
      (if hasUpper then [⟨b / 16 * 16, b, lvl⟩] else []) ++
      splitAux fuel (lvl+1) a' b'

/-- `splitInt64Range(min, max, 4)` -/
def splitRange (min max : Int) : List Rng :=
  if min > max then [] else splitAux 15 0 min max

/-- prefix-coded term of block index `x` at level `lvl` -/
def termOf (x : Int) (lvl : Nat) : List Nat :=
  (shiftStart + 4*lvl) :: digits (nChars (4*lvl)) ((x + (2:Int)^(63 - 4*lvl)).toNat)

/-- start and end term of a range (`newRange`) -/
def Rng.startTerm (r : Rng) : List Nat := termOf r.lo r.lvl
def Rng.endTerm (r : Rng) : List Nat := termOf r.hi r.lvl

/-- value `v` (int64) is covered by range `r`: its term at the range's shift lies between the ends -/
def Rng.covers (r : Rng) (v : Int) : Prop := r.lo ≤ v / 2^(4*r.lvl) ∧ v / 2^(4*r.lvl) ≤ r.hi

instance (r : Rng) (v : Int) : Decidable (r.covers v) := by unfold Rng.covers; exact inferInstance

/-- extensional enumeration: the valid terms between the two ends -/
def Rng.enumerate (r : Rng) : List (List Nat) :=
  (List.range (r.hi - r.lo + 1).toNat).map (fun (i : Nat) => termOf (r.lo + (i : Int)) r.lvl)

/-! ### the literal walk -/

/-- `incrementBytes`: base-256 increment with carry, length preserved (wraps on all-0xff). -/
def incrementBytes (t : List Nat) : List Nat :=
  (t.foldr (fun b (acc : List Nat × Bool) =>
      if acc.2 then (((b + 1) % 256) :: acc.1, decide ((b + 1) % 256 = 0)) else (b :: acc.1, false))
    ([], true)).1

def base256 (t : List Nat) : Nat := t.foldl (fun a b => a * 256 + b) 0

def base128 (t : List Nat) : Nat := t.foldl (fun a b => a * 128 + b) 0

/-- the carry loop of `termRange.Enumerate` on the reversed term without its last byte:
    `for i := len-2; i > 0 && next[i] > 0x7f; i-- { next[i] = 0; next[i-1]++ }` -/
def carryRev : List Nat → List Nat
  | [] => []
  | [b] => [b]
  | d :: p :: rest => if d > 0x7f then 0 :: carryRev (((p + 1) % 256) :: rest) else d :: p :: rest

/-- successor used by the enumeration walk: base-256 increment, then 7-bit carry in all digits
    but the last -/
def nextTerm (t : List Nat) : List Nat :=
  match (incrementBytes t).reverse with
  | [] => []
  | last :: pre => (carryRev pre).reverse ++ [last]

/-- position of a term in the walk order: shift byte and middle digits weigh 128, the last byte 256 -/
def mixedVal (t : List Nat) : Nat :=
  match t.reverse with
  | [] => 0
  | last :: pre => base128 pre.reverse * 256 + last

/-- number of `filter` calls `termRange.Enumerate` makes between two terms (0 if start > end) -/
def walkSteps (s e : List Nat) : Nat := mixedVal e + 1 - mixedVal s

def Rng.walkSteps (r : Rng) : Nat := Numeric.walkSteps r.startTerm r.endTerm

/-- bytes.Compare(a, b) <= 0 -/
def bytesLe : List Nat → List Nat → Bool
  | [], _ => true
  | _ :: _, [] => false
  | a :: as, b :: bs => if a < b then true else if a > b then false else bytesLe as bs

/-- literal `termRange.Enumerate(nil)`, fuel-bounded -/
def walk : Nat → List Nat → List Nat → List (List Nat)
  | 0, _, _ => []
  | fuel+1, cur, e => if bytesLe cur e then cur :: walk fuel (nextTerm cur) e else []

/-! ## NewNumericRangeSearcher bound adjustment -/

def maxI64 : Int := 9223372036854775807
def minI64 : Int := -9223372036854775808

def negInfBits : W := 0xfff0000000000000#64
def posInfBits : W := 0x7ff0000000000000#64

/-- bounds as optional float bit patterns and optional inclusive flags → inclusive int64 interval -/
def adjustBounds (min max : Option W) (incMin incMax : Option Bool) : Int × Int :=
  let mn := (f2i (min.getD negInfBits)).toInt
  let mx := (f2i (max.getD posInfBits)).toInt
  let im := incMin.getD true
  let iM := incMax.getD false
  let mn' := if !im && mn ≠ maxI64 then mn + 1 else mn
  let mx' := if !iM && mx ≠ minI64 then mx - 1 else mx
  (mn', mx')

/-- does a document value (float bits) match the numeric range query, per the model of the code:
    one of its 16 indexed terms is enumerated by one of the split ranges -/
def rangeMatches (min max : Option W) (incMin incMax : Option Bool) (docVal : W) : Bool :=
  (splitRange (adjustBounds min max incMin incMax).1 (adjustBounds min max incMin incMax).2).any
    (fun r => decide (r.covers (f2i docVal).toInt))

end Bleve.Numeric
