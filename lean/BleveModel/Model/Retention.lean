/-
Model of scorch's rollback machinery (index/scorch/rollback.go: RollbackPoints, Rollback;
index/scorch/persister.go: getLiveSnapshots with sampling interval 0, getTimeSeriesSnapshots,
getProtectedSnapshots, removeOldBoltSnapshots).  Timestamps are natural numbers (nanoseconds).
The persisted store is the list of epochs in root.bolt, newest first, each with the content it
recorded (an opaque value here: the index-content specification state, or a sequence number).
-/
namespace Bleve.Retention

structure Snap where
  epoch : Nat
  ts : Nat
deriving Repr, DecidableEq, Inhabited

/-- one iteration of the loop of `getTimeSeriesSnapshots` at index `i` with the current `ptr` -/
def tsStep (arr : Array Snap) (interval i ptr : Nat) (acc : List Snap) : Nat × List Snap :=
  let si := arr[i]!
  let sp := arr[ptr]!
  if si.ts ≥ sp.ts + interval then
    let idx := if si.ts > sp.ts + interval then i + 1 else i
    let c := arr[idx]!
    if acc.any (fun s => s.epoch == c.epoch) then (ptr, acc) else (idx, acc ++ [c])
  else (ptr, acc)

/-- the loop `for i := ptr-1; i >= 0 && numProtected < maxDataPoints; i--` -/
def tsGo (arr : Array Snap) (maxPts interval : Nat) : Nat → Nat → Nat → List Snap → List Snap
  | 0, _, _, acc => acc
  | fuel+1, i, ptr, acc =>
    if acc.length ≥ maxPts then acc else
    let r := tsStep arr interval i ptr acc
    if i == 0 then r.2 else tsGo arr maxPts interval fuel (i - 1) r.1 r.2

/-- `getTimeSeriesSnapshots(maxDataPoints, interval, snapshots)`; `snapshots` newest first.
    Returns the protected snapshots in the order they were added. -/
def timeSeries (maxPts interval : Nat) (snaps : List Snap) : List Snap :=
  if interval == 0 || snaps.isEmpty || maxPts == 0 then [] else
  let arr := snaps.toArray
  let last := arr.size - 1
  if last == 0 then [arr[0]!] else tsGo arr maxPts interval last (last - 1) last [arr[last]!]

/-- `getProtectedSnapshots(liveSnapshots)`; `live` newest first, non-empty -/
def protectedSnaps (keep interval : Nat) (live : List Snap) : List Snap :=
  let ts := timeSeries (keep - 1) interval live
  let withLatest := match live.head? with
    | some l => if ts.any (fun s => s.epoch == l.epoch) then ts else ts ++ [l]
    | none => ts
  (live.drop 1).foldl (fun acc s =>
    if acc.length < keep && !(acc.any (fun x => x.epoch == s.epoch)) then acc ++ [s] else acc) withLatest

/-- `getLiveSnapshots` when no sampling interval is configured: the newest `keep` -/
def liveNoInterval (keep : Nat) (persisted : List Snap) : List Snap := persisted.take keep

/-! ## the persisted store and rollback -/

/-- root.bolt's snapshot bucket: epochs, newest first, with the content each recorded -/
abbrev Bolt (γ : Type) := List (Nat × γ)

def epochs {γ : Type} (b : Bolt γ) : List Nat := b.map (·.1)

/-- `RollbackPoints`: every persisted epoch, newest first, with its content -/
def rollbackPoints {γ : Type} (b : Bolt γ) : List (Nat × γ) := b

/-- `Rollback(path, to)`: delete every epoch newer than the target in one transaction; an error when
    the target is not persisted -/
def rollback {γ : Type} (b : Bolt γ) (target : Nat) : Option (Bolt γ) :=
  if (epochs b).contains target then some (b.dropWhile (fun p => p.1 != target)) else none

/-- what opening the index loads: the newest persisted epoch -/
def recover {γ : Type} (b : Bolt γ) : Option (Nat × γ) := b.head?

/-- `removeOldBoltSnapshots`: epochs that are eligible for removal and not protected go away -/
def purge {γ : Type} (b : Bolt γ) (eligible protectedE : List Nat) : Bolt γ :=
  b.filter (fun p => !(eligible.contains p.1 && !protectedE.contains p.1))

end Bleve.Retention
