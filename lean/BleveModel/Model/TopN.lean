/-
Generic model of bleve's top-N collection (search/collector/topn.go, slice.go, heap.go):
a fold over the match stream with a bounded store and the `lowestMatchOutsideResults` shortcut.
Generic in the element type and the "sorts before" test, so that the same definitions serve the
collector (C06), the alias merge (C09) and the facet independence argument (C10).
Core Lean only.
-/
namespace Bleve.TopN

variable {α : Type}

/-- `collectStoreSlice.add`: scan from the end while `compare(doc, slice[i-1]) < 0`, insert there.
    Works on the *reversed* store. -/
def insRev (lt : α → α → Bool) (d : α) : List α → List α
  | [] => [d]
  | x :: xs => if lt d x then x :: insRev lt d xs else d :: x :: xs

def addBack (lt : α → α → Bool) (d : α) (store : List α) : List α :=
  (insRev lt d store.reverse).reverse

/-- front-scan ordered insertion (specification-side) -/
def ins (lt : α → α → Bool) (d : α) : List α → List α
  | [] => [d]
  | x :: xs => if lt d x then d :: x :: xs else x :: ins lt d xs

/-- insertion sort: the reference "fully sorted match list" -/
def isort (lt : α → α → Bool) (l : List α) : List α := l.foldl (fun acc d => ins lt d acc) []

structure St (α : Type) where
  store : List α            -- best first
  lowest : Option α         -- lowestMatchOutsideResults

/-- `AddNotExceedingSize` + the bookkeeping of `MakeTopNDocumentMatchHandler` for one match that
    passed the search-after filter; `k = size + skip`. -/
def handle (lt : α → α → Bool) (k : Nat) (st : St α) (d : α) : St α :=
  match st.lowest with
  | some l =>
    if !lt d l then st                       -- cmp(d, lowest) >= 0: cannot be in the result set
    else
      let s' := addBack lt d st.store
      if s'.length > k then
        match s'.getLast? with
        | some removed => ⟨s'.dropLast, some (if lt removed l then removed else l)⟩
        | none => ⟨s', some l⟩
      else ⟨s', some l⟩
  | none =>
    let s' := addBack lt d st.store
    if s'.length > k then
      match s'.getLast? with
      | some removed => ⟨s'.dropLast, some removed⟩
      | none => ⟨s', none⟩
    else ⟨s', none⟩

/-- the whole collection without search-after: fold, then `Final(skip)` -/
def collect (lt : α → α → Bool) (size skip : Nat) (ms : List α) : List α :=
  ((ms.foldl (handle lt (size + skip)) ⟨[], none⟩).store).drop skip

/-- the specification: positions skip .. skip+size of the fully sorted list -/
def page (lt : α → α → Bool) (size skip : Nat) (ms : List α) : List α :=
  ((isort lt ms).drop skip).take size

end Bleve.TopN
