/-
Table-driven model of bleve's hand-written JSON codecs (mapping/{field,document,index}.go and the
query types): a record type is described by its encoder rows (struct fields with `json:"key"` /
`omitempty` tags, in declaration order) and its decoder arms (`case "key": … &recv.Field` of the
hand-written UnmarshalJSON, which first assigns presets and then visits the keys of a JSON object —
a Go map, so every key at most once, in no particular order).
Field values are abstract: `0` stands for the field's zero / empty value.
-/
namespace Bleve.Codec

structure Row where
  key : String
  omitEmpty : Bool
  presetNonZero : Bool      -- the decoder presets this field to something other than its empty value
deriving Repr, DecidableEq

structure Table where
  rows : List Row                 -- encoder side, field i = rows[i]
  arms : List (String × Nat)      -- decoder side: key ↦ index of the field it assigns
deriving Repr

abbrev Rec := Nat → Nat           -- field index ↦ value (0 = empty)

/-- `json.Marshal` of the struct: omitted when `omitempty` and empty -/
def encodeFrom (r : Rec) : Nat → List Row → List (String × Nat)
  | _, [] => []
  | i, row :: rest =>
    if row.omitEmpty && r i == 0 then encodeFrom r (i + 1) rest
    else (row.key, r i) :: encodeFrom r (i + 1) rest

def encode (t : Table) (r : Rec) : List (String × Nat) := encodeFrom r 0 t.rows

def lookup (kvs : List (String × Nat)) (k : String) : Option Nat :=
  match kvs with
  | [] => none
  | (k', v) :: rest => if k' == k then some v else lookup rest k

/-- the value the decoder leaves in field `i`: the value of a present key whose arm assigns field
    `i`, otherwise the preset (`preset i`, which is 0 unless the row says the preset is non-empty) -/
def decodeField (t : Table) (preset : Rec) (kvs : List (String × Nat)) (i : Nat) : Nat :=
  match (t.arms.filter (fun a => a.2 == i)).filterMap (fun a => lookup kvs a.1) with
  | v :: _ => v
  | [] => preset i

def rowKeys (t : Table) : List String := t.rows.map (·.key)

/-- decidable well-formedness of a codec table -/
def TableOK (t : Table) : Bool :=
  (rowKeys t).Nodup &&
  (t.arms.map (·.1)).Nodup &&
  (t.arms.map (·.2)).Nodup &&
  ((List.range t.rows.length).all (fun i =>
    match t.rows[i]? with
    | some row => t.arms.contains (row.key, i) && !(row.omitEmpty && row.presetNonZero)
    | none => false))

end Bleve.Codec
