import BleveModel.Model.BoolSearcher
/-
Operational model of `search/searcher/search_conjunction.go` (C08, C02): the conjunction searcher as a
state machine over its clause searchers.  Clause searchers are known through their contract only (see
`Model/BoolSearcher.lean`); what they do when asked to advance to a target their cursor has already
reached is the parameter `w`.
-/
namespace Bleve.ConjSearcher
open Bleve.BoolSearcher (Ch Weird Op)

structure St where
  chs : List Ch          -- `searchers` with their `currs`
  maxIdx : Nat := 0      -- `maxIDIdx`
deriving Repr

def currAt (chs : List Ch) (i : Nat) : Option Nat := (chs[i]?).bind (·.curr)

/-- `advanceChild(i, t)` -/
def advAt (w : Weird) (t i : Nat) (chs : List Ch) : List Ch :=
  chs.mapIdx (fun x c => if x = i then c.adv w t else c)

/-- `for x := 0; x < i; x++ { advanceChild(x, t) }` -/
def advPrefix (w : Weird) (t i : Nat) (chs : List Ch) : List Ch :=
  chs.mapIdx (fun x c => if x < i then c.adv w t else c)

inductive Inner where
  | matched (chs : List Ch)                  -- every cursor is on `maxID`
  | exhausted (chs : List Ch)                -- some clause has no match left
  | restart (chs : List Ch) (maxIdx : Nat)   -- `continue OUTER` with a new, larger maximum
deriving Repr

/-- the inner loop `for i < len(currs)` of `Next`, for the current maximum `maxID` held by clause `maxIdx` -/
def inner (w : Weird) (maxID maxIdx : Nat) : Nat → Nat → List Ch → Inner
  | 0, _, chs => .exhausted chs
  | fuel + 1, i, chs =>
    if chs.length ≤ i then .matched chs
    else match currAt chs i with
      | none => .exhausted chs
      | some v =>
        if i = maxIdx then inner w maxID maxIdx fuel (i + 1) chs
        else if v = maxID then inner w maxID maxIdx fuel (i + 1) chs
        else if maxID < v then .restart (advPrefix w v i chs) i
        else inner w maxID maxIdx fuel i (advAt w maxID i chs)     -- `i` is examined again

def size (chs : List Ch) : Nat := (chs.map (fun c => c.all.length)).sum

/-- the loop `OUTER` of `Next` -/
def nextLoop (w : Weird) : Nat → St → Option Nat × St
  | 0, st => (none, st)
  | fuel + 1, st =>
    if st.chs.length ≤ st.maxIdx then (none, st)
    else match currAt st.chs st.maxIdx with
      | none => (none, st)
      | some maxID =>
        match inner w maxID st.maxIdx (st.chs.length + size st.chs + 1) 0 st.chs with
        | .matched chs => (some maxID, { st with chs := chs.map Ch.next })
        | .exhausted chs => (none, { st with chs := chs })
        | .restart chs mi => nextLoop w fuel { chs := chs, maxIdx := mi }

def next (w : Weird) (st : St) : Option Nat × St :=
  nextLoop w (2 * size st.chs + 2) st

/-- `Advance`: every clause whose cursor is behind the target (or exhausted) is advanced, then `Next` -/
def advance (w : Weird) (t : Nat) (st : St) : Option Nat × St :=
  next w { st with chs := st.chs.map (Bleve.BoolSearcher.advBehind w t) }

/-- `initSearchers`: every clause is moved to its first match -/
def init (clauses : List (List Nat)) : St :=
  { chs := clauses.map (fun l => (Ch.fresh l).next), maxIdx := 0 }

/-! ## what the searcher stands for -/

def isCommon (chs : List Ch) (d : Nat) : Bool := chs.all (fun c => c.all.contains d)

/-- the matches not passed yet: what every clause still has -/
def common (chs : List Ch) : List Nat := match chs with
  | [] => []
  | c :: _ => c.all.filter (isCommon chs)

def runImpl (w : Weird) : St → List Op → List (Option Nat)
  | _, [] => []
  | st, .next :: ops => let (r, st') := next w st; r :: runImpl w st' ops
  | st, .adv t :: ops => let (r, st') := advance w t st; r :: runImpl w st' ops

/-- the documents a conjunction stands for, given the ascending match lists of its clauses -/
def conjDen : List (List Nat) → List Nat
  | [] => []
  | l :: ls => l.filter (fun d => ls.all (fun m => m.contains d))

end Bleve.ConjSearcher
