import BleveModel.Model.Numeric
import BleveModel.Model.Collector
/-
The documented meaning of bleve's query family, evaluated over the analysed field values of a
document (the specification side of C02 / C08), and the searcher contract (Next / forward Advance
over the ascending list of matching internal ids).
-/
namespace Bleve.Query
open Bleve.Collector (cmpBytes)

abbrev Term := List Nat     -- bytes of an analysed term

/-- one element of a (possibly multi-valued) text field: its analysed terms, positions 1,2,… -/
abbrev Elem := List Term

structure Doc where
  iid : Nat                              -- internal id (ascending enumeration order)
  ext : List Nat                         -- external id
  texts : List (List Nat × List Elem)    -- field name ↦ elements
  nums : List (List Nat × List Numeric.W)  -- field name ↦ float bit patterns
deriving Repr

def Doc.elems (d : Doc) (f : List Nat) : List Elem :=
  ((d.texts.find? (fun p => p.1 == f)).map (·.2)).getD []

def Doc.terms (d : Doc) (f : List Nat) : List Term := (d.elems f).flatten

def Doc.numVals (d : Doc) (f : List Nat) : List Numeric.W :=
  ((d.nums.find? (fun p => p.1 == f)).map (·.2)).getD []

def isPrefixOf : Term → Term → Bool
  | [], _ => true
  | _ :: _, [] => false
  | a :: as, b :: bs => a == b && isPrefixOf as bs

/-- consecutive occurrence of `ts` in one element (a term given as `[]` is a position placeholder
    matching any token, as bleve's phrase searcher allows) -/
def phraseAt : List Term → Elem → Bool
  | [], _ => true
  | _ :: _, [] => false
  | t :: ts, w :: ws => (t.isEmpty || t == w) && phraseAt ts ws

def phraseIn : List Term → Elem → Bool
  | ts, [] => ts.isEmpty
  | ts, w :: ws => phraseAt ts (w :: ws) || phraseIn ts ws

inductive Q where
  | term (f : List Nat) (t : Term)
  | phrase (f : List Nat) (ts : List Term)
  | pfx (f : List Nat) (p : Term)
  | anyOf (f : List Nat) (ts : List Term)         -- wildcard / regexp / fuzzy, extensionally
  | termRange (f : List Nat) (lo hi : Option Term) (incLo incHi : Bool)
  | numRange (f : List Nat) (mn mx : Option Numeric.W) (incMin incMax : Option Bool)
  | docIds (ids : List (List Nat))
  | all
  | none
  | conj (qs : List Q)
  | disj (min : Nat) (qs : List Q)
  | bool (must should mustNot filter : Option Q)    -- must: a conj, should: a disj, mustNot: a disj

def inTermRange (lo hi : Option Term) (incLo incHi : Bool) (t : Term) : Bool :=
  (match lo with
    | some l => if incLo then decide (cmpBytes l t ≤ 0) else decide (cmpBytes l t < 0)
    | Option.none => true) &&
  (match hi with
    | some h => if incHi then decide (cmpBytes t h ≤ 0) else decide (cmpBytes t h < 0)
    | Option.none => true)

mutual
  /-- does the document satisfy the query -/
  def eval : Q → Doc → Bool
    | .term f t, d => (d.terms f).contains t
    | .phrase f ts, d => !ts.isEmpty && (d.elems f).any (phraseIn ts)
    | .pfx f p, d => (d.terms f).any (isPrefixOf p)
    | .anyOf f ts, d => (d.terms f).any (fun t => ts.contains t)
    | .termRange f lo hi il ih, d => (d.terms f).any (inTermRange lo hi il ih)
    | .numRange f mn mx il ih, d => (d.numVals f).any (Numeric.rangeMatches mn mx il ih)
    | .docIds ids, d => ids.contains d.ext
    | .all, _ => true
    | .none, _ => false
    | .conj qs, d => evalAll qs d
    | .disj min qs, d => decide (countTrue qs d ≥ max 1 min)
    | .bool must should mustNot filter, d =>
      (match must with | some m => eval m d | Option.none => true) &&
      (match should with
        | some (.disj min qs) =>
          if must.isSome then (min == 0 || decide (countTrue qs d ≥ min))
          else decide (countTrue qs d ≥ max 1 min)
        | some s => if must.isSome then true else eval s d
        | Option.none => true) &&
      (match mustNot with | some n => !eval n d | Option.none => true) &&
      (match filter with | some f => eval f d | Option.none => true) &&
      (must.isSome || should.isSome || mustNot.isSome || filter.isSome)
  def evalAll : List Q → Doc → Bool
    | [], _ => true
    | q :: qs, d => eval q d && evalAll qs d
  def countTrue : List Q → Doc → Nat
    | [], _ => 0
    | q :: qs, d => (if eval q d then 1 else 0) + countTrue qs d
end

/-- the matching internal ids, ascending (documents are given in ascending internal-id order) -/
def den (q : Q) (corpus : List Doc) : List Nat := (corpus.filter (eval q)).map (·.iid)

/-! ## the searcher contract -/

inductive Call where
  | next
  | adv (target : Nat)

/-- what a lawful searcher over the ascending match list `l` answers to a call, and what remains -/
def contractStep (l : List Nat) : Call → Option Nat × List Nat
  | .next => (l.head?, l.tail)
  | .adv t => let l' := l.dropWhile (· < t); (l'.head?, l'.tail)

def runContract : List Nat → List Call → List (Option Nat)
  | _, [] => []
  | l, c :: cs => let (o, l') := contractStep l c; o :: runContract l' cs

/-! ## what a boolean query hands to its searcher -/

/-- `shouldSearcher.Min() == 0` for the searcher of a should clause -/
def shouldMin0 : Q → Bool
  | .disj mn _ => mn == 0
  | _ => true

/-- the clause match lists and the "should is optional" flag handed to the boolean searcher; a query
    with only must-not clauses gets a match-all must clause, as `BooleanQuery.Searcher` does -/
def boolParts (m s n : Option Q) (docs : List Doc) :
    Option (List Nat) × Option (List Nat) × Option (List Nat) × Bool :=
  ((match m, s with
    | Option.none, Option.none => some (docs.map (·.iid))
    | _, _ => m.map (fun x => den x docs)),
   s.map (fun x => den x docs), n.map (fun x => den x docs),
   (match s with
    | some x => shouldMin0 x
    | Option.none => true))

end Bleve.Query
