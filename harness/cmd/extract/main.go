// Command extract is the (deliberately small) translator: it reads /repo's Go source with go/ast
// and writes facts the Lean models depend on into lean/BleveModel/Gen/*.lean, so that the
// theorems are re-checked against what the source says now.
package main

import (
	"flag"
	"fmt"
	"go/ast"
	"go/parser"
	"go/token"
	"os"
	"path/filepath"
	"sort"
	"strings"
)

type gen struct {
	repo  string
	fset  *token.FileSet
	files map[string]*ast.File
	errs  []string
}

func (g *gen) file(rel string) *ast.File {
	if f, ok := g.files[rel]; ok {
		return f
	}
	f, err := parser.ParseFile(g.fset, filepath.Join(g.repo, rel), nil, parser.ParseComments)
	if err != nil {
		g.errs = append(g.errs, err.Error())
		return nil
	}
	g.files[rel] = f
	return f
}

func (g *gen) fail(format string, a ...interface{}) {
	g.errs = append(g.errs, fmt.Sprintf(format, a...))
}

// constant value (as source text) of a package-level const or var
func (g *gen) constText(rel, name string) string {
	f := g.file(rel)
	if f == nil {
		return ""
	}
	for _, d := range f.Decls {
		gd, ok := d.(*ast.GenDecl)
		if !ok {
			continue
		}
		for _, s := range gd.Specs {
			vs, ok := s.(*ast.ValueSpec)
			if !ok {
				continue
			}
			for i, n := range vs.Names {
				if n.Name == name && i < len(vs.Values) {
					return g.src(vs.Values[i])
				}
			}
		}
	}
	g.fail("%s: constant %s not found", rel, name)
	return ""
}

func (g *gen) src(n ast.Node) string {
	var sb strings.Builder
	start := g.fset.Position(n.Pos())
	end := g.fset.Position(n.End())
	b, err := os.ReadFile(start.Filename)
	if err != nil {
		return ""
	}
	sb.Write(b[start.Offset:end.Offset])
	return sb.String()
}

func (g *gen) funcDecl(rel, recv, name string) *ast.FuncDecl {
	f := g.file(rel)
	if f == nil {
		return nil
	}
	for _, d := range f.Decls {
		fd, ok := d.(*ast.FuncDecl)
		if !ok || fd.Name.Name != name {
			continue
		}
		if recv == "" && fd.Recv == nil {
			return fd
		}
		if recv != "" && fd.Recv != nil && len(fd.Recv.List) == 1 {
			t := g.src(fd.Recv.List[0].Type)
			if strings.TrimPrefix(t, "*") == recv {
				return fd
			}
		}
	}
	g.fail("%s: func %s.%s not found", rel, recv, name)
	return nil
}

func leanNat(goLit string) string {
	s := strings.TrimSpace(goLit)
	s = strings.ReplaceAll(s, "_", "")
	return s // decimal and 0x literals are valid Lean too
}

func main() {
	repo := flag.String("repo", "/repo", "repository root")
	out := flag.String("out", "", "output directory for Gen/*.lean")
	flag.Parse()
	g := &gen{repo: *repo, fset: token.NewFileSet(), files: map[string]*ast.File{}}
	must := func(err error) {
		if err != nil {
			fmt.Fprintln(os.Stderr, err)
			os.Exit(1)
		}
	}
	must(os.MkdirAll(*out, 0o755))

	outputs := map[string]string{}
	outputs["Consts.lean"] = genConsts(g)
	outputs["MappingTables.lean"] = genMappingTables(g)
	outputs["QueryDispatch.lean"] = genDispatch(g)

	if len(g.errs) > 0 {
		sort.Strings(g.errs)
		for _, e := range g.errs {
			fmt.Fprintln(os.Stderr, "extract:", e)
		}
		os.Exit(1)
	}
	for name, body := range outputs {
		must(os.WriteFile(filepath.Join(*out, name), []byte(body), 0o644))
	}
}
