package main

import (
	"fmt"
	"os"
	"os/exec"
	"path/filepath"
	"sort"
	"strings"
	"time"

	"github.com/blevesearch/bleve/v2"
	"github.com/blevesearch/bleve/v2/index/scorch"
)

func init() { props["c13"] = runC13 }

func fmtEpochSet(m map[uint64]time.Time) string {
	es := make([]uint64, 0, len(m))
	for e := range m {
		es = append(es, e)
	}
	sort.Slice(es, func(i, j int) bool { return es[i] < es[j] })
	if len(es) == 0 {
		return "-"
	}
	ps := make([]string, len(es))
	for i, e := range es {
		ps[i] = fmt.Sprint(e)
	}
	return strings.Join(ps, ",")
}

func copyDir(src, dst string) error {
	return exec.Command("cp", "-r", src, dst).Run()
}

func runC13(t *Trace, r *Rng, tier string, _ []string) {
	nRet, nHist := 1500, 64
	if tier == "thorough" {
		nRet, nHist = 100000, 120
	}
	base := time.Unix(1_700_000_000, 0)
	// --- retention arithmetic
	for i := 0; i < nRet; i++ {
		n := r.Intn(9)
		snaps := make([]scorch.VerifSnapshot, n)
		epoch := uint64(100 + r.Intn(50))
		ts := int64(1000 + r.Intn(1000))
		unit := int64(1 + r.Intn(4))
		var sb strings.Builder
		for k := 0; k < n; k++ { // newest first: epochs and timestamps descend
			snaps[k] = scorch.VerifSnapshot{Epoch: epoch, TimeStamp: base.Add(time.Duration(ts))}
			fmt.Fprintf(&sb, " %d %d", epoch, ts)
			epoch -= uint64(1 + r.Intn(3))
			ts -= unit * int64(r.Intn(4)) // gaps are multiples of the unit, sometimes zero
		}
		interval := unit * int64(r.Intn(4))
		maxPts := r.Intn(6)
		t.Emit("timeseries", n > 1, fmt.Sprintf("ts %d %d %d%s", maxPts, interval, n, sb.String()),
			fmtEpochSet(scorch.VerifTimeSeriesSnapshots(maxPts, time.Duration(interval), snaps)))
		if n > 0 {
			keep := 1 + r.Intn(5)
			t.Emit("protected", n > 1, fmt.Sprintf("prot %d %d %d%s", keep, interval, n, sb.String()),
				fmtEpochSet(scorch.VerifProtectedSnapshots(keep, time.Duration(interval), snaps)))
		}
	}

	// --- end-to-end rollback
	tmpRoot, err := os.MkdirTemp("", "verif-c13-")
	must(err)
	defer os.RemoveAll(tmpRoot)
	pointsSeen, pointsRolled := 0, 0
	midReopens, deleteAlls, smallGroups := 0, 0, 0
	for h := 0; h < nHist; h++ {
		keep := []int{1, 2, 3, 5, 5}[r.Intn(5)]
		unsafe := r.Chance(60)
		idSpace, keySpace := r.Range(4, 9), 2
		dir := filepath.Join(tmpRoot, fmt.Sprintf("h%d", h))
		kv := map[string]interface{}{
			"numSnapshotsToKeep":     keep,
			"unsafe_batch":           unsafe,
			"scorchMergePlanOptions": map[string]interface{}{"maxSegmentsPerTier": 2, "segmentsPerMergeTask": 2, "floorSegmentSize": 1},
		}
		if unsafe && r.Chance(50) {
			// several flush groups per persister round: a group is closed as soon as it holds two segments,
			// and the persister naps so that segments pile up in memory
			kv["scorchPersisterOptions"] = map[string]interface{}{"NumPersisterWorkers": 1 + r.Intn(2), "MaxSizeInMemoryMergePerWorker": 1,
				"PersisterNapTimeMSec": 30, "PersisterNapUnderNumFiles": 1000}
			smallGroups++
		}
		idx, err := bleve.NewUsing(dir, bleve.NewIndexMapping(), scorch.Name, scorch.Name, kv)
		must(err)
		nBatches := r.Range(3, 12)
		var batches [][]c01Op
		reopenAt := -1
		sinceOpen := 0
		if r.Chance(60) { // the index is closed and opened again somewhere inside the history
			reopenAt = r.Range(2, 2+nBatches/2)
		}
		for b := 1; b <= nBatches; b++ {
			if b == reopenAt {
				if unsafe {
					time.Sleep(300 * time.Millisecond)
				}
				must(idx.Close())
				if r.Bool() {
					idx, err = bleve.OpenUsing(dir, kv)
				} else {
					idx, err = bleve.Open(dir) // the configuration comes back from index_meta.json (numbers as float64)
				}
				must(err)
				midReopens++
				sinceOpen = 0
			}
			sinceOpen++
			ops := c01GenOps(r, r.Range(1, 5), idSpace, keySpace)
			if r.Chance(15) { // a batch that only deletes, and deletes everything: the newest segments die
				ops = ops[:0]
				for i := 0; i <= idSpace; i++ {
					ops = append(ops, c01Op{kind: 'd', key: fmt.Sprintf("doc%d", i)})
				}
				deleteAlls++
			}
			ops = append(ops, c01Op{kind: 's', key: "seq", val: fmt.Sprint(b)})
			batches = append(batches, ops)
			bt := idx.NewBatch()
			for _, o := range ops {
				switch o.kind {
				case 'i':
					must(bt.Index(o.key, o.doc))
				case 'd':
					bt.Delete(o.key)
				case 's':
					bt.SetInternal([]byte(o.key), []byte(o.val))
				default:
					bt.DeleteInternal([]byte(o.key))
				}
			}
			must(idx.Batch(bt))
			if unsafe && r.Chance(25) {
				time.Sleep(time.Duration(r.Intn(20)) * time.Millisecond)
			}
		}
		if unsafe {
			time.Sleep(300 * time.Millisecond)
		}
		must(idx.Close())
		store := filepath.Join(dir, "store")
		points, err := scorch.RollbackPoints(store)
		if err != nil {
			t.Emit("rb/points-err", true, "count", "ERR")
			continue
		}
		cat := fmt.Sprintf("rb/keep%d", keep)
		if unsafe {
			cat += "-unsafe"
		}
		// with safe batches every batch since the last open is persisted under its own epoch: the configured
		// number of rollback points is on offer as soon as that many batches were written
		if !unsafe {
			t.Emit(cat+"/points-offered", true, fmt.Sprintf("offered %d %d %d", len(points), keep, sinceOpen), "ok")
		}
		for pi, p := range points {
			pointsSeen++
			seqB := p.GetInternal([]byte("seq"))
			var seq int
			fmt.Sscanf(string(seqB), "%d", &seq)
			if len(seqB) == 0 {
				seq = 0 // the state persisted at creation, before the first batch
			} else if seq < 1 || seq > nBatches {
				t.Emit(cat+"/bad-seq", true, "count", fmt.Sprintf("BAD-SEQ %q", seqB))
				continue
			}
			if pi == 0 && !unsafe && seq != nBatches {
				// in safe mode every batch is persisted before its call returns
				t.Emit(cat+"/latest-missing", true, "count", fmt.Sprintf("LATEST seq=%d of %d", seq, nBatches))
			}
			cp := filepath.Join(tmpRoot, fmt.Sprintf("h%d-p%d", h, pi))
			must(copyDir(dir, cp))
			if err := scorch.Rollback(filepath.Join(cp, "store"), p); err != nil {
				t.Emit(cat+"/rollback-err", true, "count", "ERR "+err.Error())
				os.RemoveAll(cp)
				continue
			}
			ridx, err := bleve.Open(cp)
			if err != nil {
				t.Emit(cat+"/open-err", true, "count", "ERR "+strings.ReplaceAll(err.Error(), "\n", " "))
				os.RemoveAll(cp)
				continue
			}
			pointsRolled++
			// replay the first `seq` batches in the model, then compare every observable
			t.Emit(cat+"/reset", false, "reset", "ok")
			for b := 0; b < seq; b++ {
				var sb strings.Builder
				sb.WriteString("batch")
				for _, o := range batches[b] {
					sb.WriteString(" " + o.tok())
				}
				t.Emit(cat+"/replay", false, sb.String(), "ok")
			}
			v, _ := ridx.GetInternal([]byte("seq"))
			t.Emit(cat+"/seq", true, "int "+hs("seq"), fmtVal(v))
			// a rolled-back index whose files were damaged makes the segment code panic: that is an answer too
			panicked := func() (p bool) {
				defer func() {
					if x := recover(); x != nil {
						t.Emit(cat+"/panic", true, "count", "panic-reading-the-rolled-back-index:"+strings.ReplaceAll(oneLine(fmt.Sprint(x)), " ", "_"))
						p = true
					}
				}()
				c01Observe(t, cat, ridx, idSpace, keySpace, r)
				return false
			}()
			if panicked {
				func() {
					defer func() { _ = recover() }()
					ridx.Close()
				}()
				os.RemoveAll(cp)
				continue
			}
			// the rolled-back index accepts new writes
			extra := c01GenOps(r, 3, idSpace, keySpace)
			bt := ridx.NewBatch()
			var sb strings.Builder
			sb.WriteString("batch")
			for _, o := range extra {
				sb.WriteString(" " + o.tok())
				switch o.kind {
				case 'i':
					must(bt.Index(o.key, o.doc))
				case 'd':
					bt.Delete(o.key)
				case 's':
					bt.SetInternal([]byte(o.key), []byte(o.val))
				default:
					bt.DeleteInternal([]byte(o.key))
				}
			}
			res := "ok"
			if err := ridx.Batch(bt); err != nil {
				res = "ERR"
			}
			t.Emit(cat+"/write-after", true, sb.String(), res)
			c01Observe(t, cat+"/after-write", ridx, idSpace, keySpace, r)
			ridx.Close()
			os.RemoveAll(cp)
		}
		os.RemoveAll(dir)
	}
	t.Set("rollback_points_listed", pointsSeen)
	t.Set("rollback_points_rolled_back_and_reopened", pointsRolled)
	t.Set("histories_with_close_and_reopen_inside", midReopens)
	t.Set("delete_everything_batches", deleteAlls)
	t.Set("histories_with_small_flush_groups", smallGroups)
}
