package main

import (
	"fmt"
	"os"
	"strconv"
	"strings"
	"time"
)

// Watchdogs that do not mistake a starved machine for a hang.
//
// A wall-clock limit alone raises false alarms when the machine is busy (several checks side by
// side, a race-detector build): the call is slow, not stuck.  A call counts as stuck only when, after
// the wall-clock minimum has passed, the process either did nothing at all for that long (blocked:
// a deadlock) or was given plenty of processor time and still did not finish (spinning: an endless
// loop).  Both are read from /proc/<pid>/stat; if that cannot be read the limit is the wall clock.

// procCPU returns the user+system time a process has used so far.
func procCPU(pid int) (time.Duration, bool) {
	data, err := os.ReadFile(fmt.Sprintf("/proc/%d/stat", pid))
	if err != nil {
		return 0, false
	}
	s := string(data)
	i := strings.LastIndexByte(s, ')') // the command name may hold spaces and parentheses
	if i < 0 {
		return 0, false
	}
	f := strings.Fields(s[i+1:])
	if len(f) < 13 {
		return 0, false
	}
	ut, err1 := strconv.ParseUint(f[11], 10, 64) // field 14 of the line
	st, err2 := strconv.ParseUint(f[12], 10, 64) // field 15
	if err1 != nil || err2 != nil {
		return 0, false
	}
	return time.Duration(ut+st) * (time.Second / 100), true
}

// stuckWatch reports, each time it is asked, whether the watched process must be given up on.
type stuckWatch struct {
	pid       int
	minWall   time.Duration
	cpuBudget time.Duration
	start     time.Time
	cpu0      time.Duration
	samples   []cpuSample
}

type cpuSample struct {
	t time.Time
	c time.Duration
}

func newStuckWatch(pid int, minWall, cpuBudget time.Duration) *stuckWatch {
	w := &stuckWatch{pid: pid, minWall: minWall, cpuBudget: cpuBudget, start: time.Now()}
	w.cpu0, _ = procCPU(pid)
	w.samples = []cpuSample{{w.start, w.cpu0}}
	return w
}

func (w *stuckWatch) stuck() bool {
	now := time.Now()
	if now.Sub(w.start) < w.minWall {
		return false
	}
	c, ok := procCPU(w.pid)
	if !ok {
		return true // no reading: plain wall-clock limit
	}
	w.samples = append(w.samples, cpuSample{now, c})
	// keep one sample at least minWall old
	for len(w.samples) > 2 && now.Sub(w.samples[1].t) >= w.minWall {
		w.samples = w.samples[1:]
	}
	if c-w.cpu0 >= w.cpuBudget {
		return true // had the processor for long enough
	}
	old := w.samples[0]
	if now.Sub(old.t) >= w.minWall && c-old.c < w.minWall/50 {
		return true // did nothing for the whole window: blocked
	}
	return false
}

// waitDone waits for done; false = the call in this process is stuck (see above).
// cpuBudget is the processor time the whole process may use meanwhile.
func waitDone(done <-chan struct{}, minWall, cpuBudget time.Duration) bool {
	w := newStuckWatch(os.Getpid(), minWall, cpuBudget)
	tk := time.NewTicker(250 * time.Millisecond)
	defer tk.Stop()
	for {
		select {
		case <-done:
			return true
		case <-tk.C:
			if w.stuck() {
				select {
				case <-done:
					return true
				default:
				}
				return false
			}
		}
	}
}

// waitChild waits for a child process; ok=false = it is stuck.
func waitChild(done <-chan error, pid int, minWall, cpuBudget time.Duration) (err error, ok bool) {
	w := newStuckWatch(pid, minWall, cpuBudget)
	tk := time.NewTicker(250 * time.Millisecond)
	defer tk.Stop()
	for {
		select {
		case err := <-done:
			return err, true
		case <-tk.C:
			if w.stuck() {
				return nil, false
			}
		}
	}
}

// waitVal waits for a value on ch; ok=false = the producing call in this process is stuck.
func waitVal[T any](ch <-chan T, minWall, cpuBudget time.Duration) (v T, ok bool) {
	cpu0, _ := procCPU(os.Getpid())
	start := time.Now()
	select {
	case v = <-ch:
		return v, true
	case <-time.After(minWall):
	}
	w := &stuckWatch{pid: os.Getpid(), minWall: minWall, cpuBudget: cpuBudget, start: start, cpu0: cpu0, samples: []cpuSample{{start, cpu0}}}
	tk := time.NewTicker(250 * time.Millisecond)
	defer tk.Stop()
	for {
		select {
		case v = <-ch:
			return v, true
		case <-tk.C:
			if w.stuck() {
				return v, false
			}
		}
	}
}
