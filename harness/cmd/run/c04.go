package main

import (
	"context"
	"fmt"
	"os"
	"path/filepath"
	"strings"
	"sync"
	"sync/atomic"
	"time"

	"github.com/blevesearch/bleve/v2"
	"github.com/blevesearch/bleve/v2/index/scorch"
	"github.com/blevesearch/bleve/v2/index/upsidedown"
	"github.com/blevesearch/bleve/v2/index/upsidedown/store/boltdb"
	"github.com/blevesearch/bleve/v2/index/upsidedown/store/gtreap"
	index "github.com/blevesearch/bleve_index_api"
)

func init() { props["c04"] = runC04 }

type c04Obs struct {
	client int
	line   string
}

// one observation through one reader: per writer the seq in each document and in the internal key, plus DocCount
func c04Observe(rd index.IndexReader, W, K int) (docs [][]int, ints []int, count uint64, err error) {
	docs = make([][]int, W)
	ints = make([]int, W)
	for w := 0; w < W; w++ {
		docs[w] = make([]int, K+8)
		for k := 0; k < K+8; k++ {
			id := c04DocID(w, k, K)
			d, e := rd.Document(id)
			if e != nil {
				return nil, nil, 0, e
			}
			if d != nil {
				d.VisitFields(func(f index.Field) {
					if f.Name() == "seq" {
						if nf, ok := f.(index.NumericField); ok {
							v, _ := nf.Number()
							docs[w][k] = int(v)
						}
					}
				})
			}
		}
		v, e := rd.GetInternal([]byte(fmt.Sprintf("w%d", w)))
		if e != nil {
			return nil, nil, 0, e
		}
		if v != nil {
			fmt.Sscanf(string(v), "%d", &ints[w])
		}
	}
	count, err = rd.DocCount()
	return
}

// the doc values of a field without persisted doc values, read through this reader, against what the same reader
// returns as the stored value of the same documents
func c04DocValuesConsistent(rd index.IndexReader) string {
	dvr, err := rd.DocValueReader([]string{"grade"})
	if err != nil {
		return "ok"
	}
	it, err := rd.DocIDReaderAll()
	if err != nil {
		return "ok"
	}
	defer it.Close()
	for {
		id, err := it.Next()
		if err != nil || id == nil {
			return "ok"
		}
		ext, _ := rd.ExternalID(id)
		d, err := rd.Document(ext)
		if err != nil || d == nil {
			continue
		}
		stored := ""
		d.VisitFields(func(f index.Field) {
			if f.Name() == "grade" {
				stored = string(f.Value())
			}
		})
		var terms []string
		if err := dvr.VisitDocValues(id, func(field string, term []byte) {
			if field == "grade" {
				terms = append(terms, string(term))
			}
		}); err != nil {
			continue
		}
		got := strings.Join(terms, "+")
		if got != stored {
			return fmt.Sprintf("DOCVALUE-%q-STORED-%q-doc-%s", got, stored, ext)
		}
	}
}

// everything else a reader can be asked: the id listing, a dictionary and a posting list
func c04Extra(rd index.IndexReader) string {
	var sb strings.Builder
	if it, err := rd.DocIDReaderAll(); err == nil {
		for {
			id, err := it.Next()
			if err != nil || id == nil {
				break
			}
			ext, _ := rd.ExternalID(id)
			sb.WriteString(ext + ",")
		}
		it.Close()
	}
	if fd, err := rd.FieldDict("pad"); err == nil {
		for {
			e, err := fd.Next()
			if err != nil || e == nil {
				break
			}
			fmt.Fprintf(&sb, "%s=%d,", e.Term, e.Count)
		}
		fd.Close()
	}
	if tfr, err := rd.TermFieldReader(context.Background(), []byte("x"), "pad", true, false, false); err == nil {
		n := 0
		for {
			d, err := tfr.Next(nil)
			if err != nil || d == nil {
				break
			}
			n += int(d.Freq)
		}
		fmt.Fprintf(&sb, "freq=%d", n)
		tfr.Close()
	}
	return sb.String()
}

// document k of writer w: K fixed documents, two extras, six ring slots
func c04DocID(w, k, K int) string {
	switch {
	case k < K:
		return fmt.Sprintf("w%d-%d", w, k)
	case k < K+2:
		return fmt.Sprintf("w%d-x%d", w, k-K)
	}
	return fmt.Sprintf("w%d-r%d", w, k-K-2)
}

// the n-th batch of writer w
func c04FillBatch(b *bleve.Batch, w, n, K int) {
	for k := 0; k < K; k++ {
		_ = b.Index(c04DocID(w, k, K), map[string]interface{}{"seq": float64(n), "pad": strings.Repeat("x ", n%7), "grade": fmt.Sprintf("g%d", n%5)})
	}
	for j := 0; j < 2; j++ {
		if j < n%3 {
			_ = b.Index(c04DocID(w, K+j, K), map[string]interface{}{"seq": float64(n)})
		} else {
			b.Delete(c04DocID(w, K+j, K))
		}
	}
	_ = b.Index(c04DocID(w, K+2+n%6, K), map[string]interface{}{"seq": float64(n), "pad": "ring", "grade": fmt.Sprintf("r%d", n%4)})
	b.SetInternal([]byte(fmt.Sprintf("w%d", w)), []byte(fmt.Sprint(n)))
}

// the document every writer rewrites, read through the same reader
func c04Shared(rd index.IndexReader) (present bool, w, n int) {
	d, err := rd.Document("shared")
	if err != nil || d == nil {
		return false, 0, 0
	}
	d.VisitFields(func(f index.Field) {
		if nf, ok := f.(index.NumericField); ok {
			v, _ := nf.Number()
			switch f.Name() {
			case "seq":
				n = int(v)
			case "wr":
				w = int(v)
			}
		}
	})
	return true, w, n
}

func c04SharedLine(ints []int, present bool, w, n int) string {
	ps := make([]string, len(ints))
	for i, x := range ints {
		ps[i] = fmt.Sprint(x)
	}
	p := 0
	if present {
		p = 1
	}
	return fmt.Sprintf("shared %s %d %d %d", strings.Join(ps, ","), p, w, n)
}

func c04Line(client int, acked []int, docs [][]int, ints []int, count uint64) string {
	j := func(xs []int) string {
		ps := make([]string, len(xs))
		for i, x := range xs {
			ps[i] = fmt.Sprint(x)
		}
		if len(ps) == 0 {
			return "-"
		}
		return strings.Join(ps, ",")
	}
	ds := make([]string, len(docs))
	for i, d := range docs {
		ds[i] = j(d)
	}
	return fmt.Sprintf("obs %d %s %s %s %d", client, j(acked), strings.Join(ds, ";"), j(ints), count)
}

func runC04(t *Trace, r *Rng, tier string, _ []string) {
	rounds, dur := 5, 800*time.Millisecond
	if tier == "thorough" {
		rounds, dur = 40, 3*time.Second
	}
	tmpRoot, err := os.MkdirTemp("", "verif-c04-")
	must(err)
	defer os.RemoveAll(tmpRoot)
	type cfg struct {
		name, indexType, kv string
		disk                bool
		conf                map[string]interface{}
	}
	small := map[string]interface{}{"maxSegmentsPerTier": 2, "segmentsPerMergeTask": 2, "floorSegmentSize": 1}
	cfgs := []cfg{
		{"scorch-disk", scorch.Name, scorch.Name, true, map[string]interface{}{"scorchMergePlanOptions": small}},
		{"scorch-disk-unsafe-3workers", scorch.Name, scorch.Name, true, map[string]interface{}{"scorchMergePlanOptions": small, "unsafe_batch": true,
			"scorchPersisterOptions": map[string]interface{}{"NumPersisterWorkers": 3, "MaxSizeInMemoryMergePerWorker": 1 << 20}}},
		{"scorch-mem", scorch.Name, scorch.Name, false, nil},
		{"upsidedown-gtreap", upsidedown.Name, gtreap.Name, false, nil},
		{"upsidedown-boltdb", upsidedown.Name, boltdb.Name, true, nil},
	}
	totalObs := 0
	for round := 0; round < rounds; round++ {
		c := cfgs[round%len(cfgs)]
		W, K := 2+r.Intn(2), 2+r.Intn(2)
		path := ""
		if c.disk {
			path = filepath.Join(tmpRoot, fmt.Sprintf("r%d", round))
		}
		im := bleve.NewIndexMapping()
		gf := bleve.NewTextFieldMapping() // sorted and faceted on without doc values: scorch un-inverts it per segment, once, for all readers
		gf.Analyzer = "keyword"
		gf.DocValues = false
		gf.Store = true
		im.DefaultMapping.AddFieldMappingsAt("grade", gf)
		idx, err := bleve.NewUsing(path, im, c.indexType, c.kv, c.conf)
		must(err)
		ks := make([]string, W)
		for i := range ks {
			ks[i] = fmt.Sprint(K)
		}
		t.Emit(c.name+"/reset", false, "reset "+strings.Join(ks, " "), "ok")
		acked := make([]int64, W)
		stop := make(chan struct{})
		var wg sync.WaitGroup
		var mu sync.Mutex
		var obs, sobs []c04Obs
		var shr []string
		var dvLines []string
		var handleLines []string
		// writers
		for w := 0; w < W; w++ {
			wg.Add(1)
			go func(w int) {
				defer wg.Done()
				n := 0
				for {
					select {
					case <-stop:
						return
					default:
					}
					n++
					b := idx.NewBatch()
					c04FillBatch(b, w, n, K)
					// one document that every writer rewrites: concurrent batches meet on the same id
					_ = b.Index("shared", map[string]interface{}{"seq": float64(n), "wr": float64(w)})
					if err := idx.Batch(b); err != nil {
						return
					}
					atomic.StoreInt64(&acked[w], int64(n))
					if n%5 == 0 {
						time.Sleep(time.Millisecond)
					}
				}
			}(w)
		}
		adv, err := idx.Advanced()
		must(err)
		// readers: each observation through one reader handle
		for cl := 0; cl < 3; cl++ {
			wg.Add(1)
			go func(cl int) {
				defer wg.Done()
				for {
					select {
					case <-stop:
						return
					default:
					}
					ack := make([]int, W)
					for w := range ack {
						ack[w] = int(atomic.LoadInt64(&acked[w]))
					}
					rd, err := adv.Reader()
					if err != nil {
						return
					}
					docs, ints, count, err := c04Observe(rd, W, K)
					present, sw, sn := c04Shared(rd)
					rd.Close()
					if err != nil {
						continue
					}
					if present { // the history monitor counts the writers' own documents
						count--
					}
					mu.Lock()
					obs = append(obs, c04Obs{cl, c04Line(cl, ack, docs, ints, count)})
					shr = append(shr, c04SharedLine(ints, present, sw, sn))
					mu.Unlock()
					time.Sleep(time.Duration(200+cl*150) * time.Microsecond)
				}
			}(cl)
		}
		// a client that observes through top-level searches (one search = one reader)
		wg.Add(1)
		go func() {
			defer wg.Done()
			for {
				select {
				case <-stop:
					return
				default:
				}
				ack := make([]int, W)
				for w := range ack {
					ack[w] = int(atomic.LoadInt64(&acked[w]))
				}
				req := bleve.NewSearchRequestOptions(bleve.NewMatchAllQuery(), 1000, 0, false)
				req.Fields = []string{"seq"}
				req.SortBy([]string{"grade", "_id"}) // the newest snapshot is usually the first to ask for the un-inverted field
				res, err := idx.Search(req)
				if err != nil {
					continue
				}
				docs := make([][]int, W)
				ints := make([]int, W)
				for w := range docs {
					docs[w] = make([]int, K+8)
				}
				sharedHits := 0
				for _, h := range res.Hits {
					var w, k int
					if n, _ := fmt.Sscanf(h.ID, "w%d-x%d", &w, &k); n == 2 {
						k += K
					} else if n, _ := fmt.Sscanf(h.ID, "w%d-r%d", &w, &k); n == 2 {
						k += K + 2
					} else {
						fmt.Sscanf(h.ID, "w%d-%d", &w, &k)
					}
					if h.ID == "shared" {
						sharedHits++
						continue
					}
					if v, ok := h.Fields["seq"].(float64); ok && w < W && k < K+8 {
						docs[w][k] = int(v)
					}
				}
				for w := range ints {
					ints[w] = docs[w][0]
				}
				mu.Lock()
				total := res.Total
				if sharedHits > 0 { // exactly one copy is taken off: a second live copy shows in the count
					total--
				}
				sobs = append(sobs, c04Obs{9, c04Line(9, ack, docs, ints, total)})
				mu.Unlock()
				time.Sleep(300 * time.Microsecond)
			}
		}()
		// one long-lived reader, re-read throughout
		wg.Add(1)
		go func() {
			defer wg.Done()
			time.Sleep(dur / 6)
			rd, err := adv.Reader()
			if err != nil {
				return
			}
			defer rd.Close()
			for i := 0; ; i++ {
				select {
				case <-stop:
					return
				default:
				}
				if i == 0 {
					time.Sleep(40 * time.Millisecond) // newer snapshots are searched (and sorted) meanwhile
				}
				dvc := c04DocValuesConsistent(rd)
				mu.Lock()
				dvLines = append(dvLines, dvc)
				mu.Unlock()
				docs, ints, count, err := c04Observe(rd, W, K)
				if err == nil {
					mu.Lock()
					handleLines = append(handleLines, fmt.Sprintf("handle %d %s", round, hs(c04Line(0, nil, docs, ints, count)+c04Extra(rd))))
					mu.Unlock()
				}
				time.Sleep(5 * time.Millisecond)
			}
		}()
		// readers held for a short while each, first used only after newer snapshots have been searched and sorted:
		// what such a reader is told about a field must agree with the documents it returns
		wg.Add(1)
		go func() {
			defer wg.Done()
			for {
				select {
				case <-stop:
					return
				default:
				}
				rd, err := adv.Reader()
				if err != nil {
					return
				}
				time.Sleep(35 * time.Millisecond)
				dvc := c04DocValuesConsistent(rd)
				rd.Close()
				mu.Lock()
				dvLines = append(dvLines, dvc)
				mu.Unlock()
			}
		}()
		// forced merges meanwhile
		if c.indexType == scorch.Name && c.disk {
			wg.Add(1)
			go func() {
				defer wg.Done()
				sc, ok := adv.(*scorch.Scorch)
				for ok {
					select {
					case <-stop:
						return
					case <-time.After(120 * time.Millisecond):
						ctx, cancel := context.WithTimeout(context.Background(), time.Second)
						_ = sc.ForceMerge(ctx, nil)
						cancel()
					}
				}
			}()
		}
		time.Sleep(dur)
		close(stop)
		wg.Wait()
		idx.Close()
		limit := 1500
		if len(obs) > limit {
			obs = obs[:limit]
		}
		for _, o := range obs {
			t.Emit(c.name+"/obs", true, o.line, "ok")
		}
		if len(sobs) > 800 {
			sobs = sobs[:800]
		}
		for _, o := range sobs {
			t.Emit(c.name+"/search-obs", true, o.line, "ok")
		}
		if len(shr) > limit {
			shr = shr[:limit]
		}
		for _, l := range shr {
			t.Emit(c.name+"/shared-doc", true, l, "ok")
		}
		if len(handleLines) > 400 {
			handleLines = handleLines[:400]
		}
		for _, l := range handleLines {
			t.Emit(c.name+"/handle", true, l, "ok")
		}
		if len(dvLines) > 60 {
			dvLines = dvLines[:60]
		}
		for _, l := range dvLines {
			t.Emit(c.name+"/handle-docvalues", true, "echo ok", l)
		}
		totalObs += len(obs)
		if path != "" {
			os.RemoveAll(path)
		}
	}
	t.Set("observations", totalObs)
	scen := 30
	if tier == "thorough" {
		scen = 300
	}
	c04Scripted(t, r, tmpRoot, scen)
}
