package main

import (
	"context"
	"fmt"
	"strings"
	"time"

	"github.com/blevesearch/bleve/v2/numeric"
	"github.com/blevesearch/bleve/v2/search"
	"github.com/blevesearch/bleve/v2/search/collector"
	index "github.com/blevesearch/bleve_index_api"
)

func init() { props["c06"] = runC06 }

// ---- stub searcher / reader feeding synthetic match streams into the real TopNCollector ----

type rawMatch struct {
	score  int
	id     string
	fields [][][]byte // per sort spec position: doc-value terms of that spec's field
}

type stubSearcher struct {
	ms  []rawMatch
	pos int
}

func (s *stubSearcher) Next(ctx *search.SearchContext) (*search.DocumentMatch, error) {
	if s.pos >= len(s.ms) {
		return nil, nil
	}
	dm := ctx.DocumentMatchPool.Get()
	dm.IndexInternalID = index.NewIndexInternalID(dm.IndexInternalID, uint64(s.pos))
	dm.Score = float64(s.ms[s.pos].score)
	s.pos++
	return dm, nil
}
func (s *stubSearcher) Advance(ctx *search.SearchContext, ID index.IndexInternalID) (*search.DocumentMatch, error) {
	return nil, fmt.Errorf("not used")
}
func (s *stubSearcher) Close() error               { return nil }
func (s *stubSearcher) Weight() float64            { return 1 }
func (s *stubSearcher) SetQueryNorm(float64)       {}
func (s *stubSearcher) Count() uint64              { return uint64(len(s.ms)) }
func (s *stubSearcher) Min() int                   { return 0 }
func (s *stubSearcher) Size() int                  { return 0 }
func (s *stubSearcher) DocumentMatchPoolSize() int { return 0 }

type stubReader struct {
	index.IndexReader
	ms []rawMatch
}

func idNum(id index.IndexInternalID) int {
	n := 0
	for _, b := range id {
		n = n<<8 | int(b)
	}
	return n
}

func (r *stubReader) ExternalID(id index.IndexInternalID) (string, error) {
	return r.ms[idNum(id)].id, nil
}
func (r *stubReader) DocValueReader(fields []string) (index.DocValueReader, error) {
	return &stubDVR{r: r, fields: fields}, nil
}

type stubDVR struct {
	r      *stubReader
	fields []string
}

func (d *stubDVR) VisitDocValues(id index.IndexInternalID, visitor index.DocValueVisitor) error {
	m := d.r.ms[idNum(id)]
	for _, f := range d.fields {
		var pos int
		fmt.Sscanf(f, "f%d", &pos)
		if pos < len(m.fields) {
			for _, t := range m.fields[pos] {
				visitor(f, t)
			}
		}
	}
	return nil
}
func (d *stubDVR) BytesRead() uint64 { return 0 }

type sortSpecG struct {
	kind    byte // S I F
	ty      byte // a s n d
	mode    byte // 0 m M
	missing byte // l f
	desc    bool
}

func (s sortSpecG) token() string {
	d := "+"
	if s.desc {
		d = "-"
	}
	if s.kind == 'F' {
		return fmt.Sprintf("F%c%c%c%s", s.ty, s.mode, s.missing, d)
	}
	return fmt.Sprintf("%c%s", s.kind, d)
}

func (s sortSpecG) build(pos int) search.SearchSort {
	switch s.kind {
	case 'S':
		return &search.SortScore{Desc: s.desc}
	case 'I':
		return &search.SortDocID{Desc: s.desc}
	}
	sf := &search.SortField{Field: fmt.Sprintf("f%d", pos), Desc: s.desc}
	switch s.ty {
	case 's':
		sf.Type = search.SortFieldAsString
	case 'n':
		sf.Type = search.SortFieldAsNumber
	case 'd':
		sf.Type = search.SortFieldAsDate
	}
	switch s.mode {
	case 'm':
		sf.Mode = search.SortFieldMin
	case 'M':
		sf.Mode = search.SortFieldMax
	}
	if s.missing == 'f' {
		sf.Missing = search.SortFieldMissingFirst
	}
	return sf
}

func genSortOrder(r *Rng, total bool) []sortSpecG {
	n := 1 + r.Intn(3)
	if r.Chance(25) {
		n = 1
	}
	specs := make([]sortSpecG, 0, n+1)
	for i := 0; i < n; i++ {
		var s sortSpecG
		switch r.Intn(6) {
		case 0:
			s.kind = 'S'
		case 1:
			s.kind = 'I'
		default:
			s.kind = 'F'
			s.ty = "asnd"[r.Intn(4)]
			s.mode = "0mM"[r.Intn(3)]
			s.missing = "lf"[r.Intn(2)]
		}
		s.desc = r.Bool()
		specs = append(specs, s)
	}
	if total {
		specs = append(specs, sortSpecG{kind: 'I', desc: r.Bool()})
	}
	return specs
}

func genTerms(r *Rng, s sortSpecG) [][]byte {
	if s.kind != 'F' {
		return nil
	}
	n := 0
	switch r.Intn(6) {
	case 0:
		n = 0
	case 1, 2, 3:
		n = 1
	default:
		n = 2 + r.Intn(2)
	}
	var out [][]byte
	numeric_ := s.ty == 'n' || s.ty == 'd' || (s.ty == 'a' && r.Chance(50))
	for i := 0; i < n; i++ {
		if numeric_ {
			v := int64(r.Intn(7) - 3)
			if s.ty == 'd' {
				v = time.Date(2020, 1, 1+r.Intn(4), 0, 0, 0, r.Intn(3), time.UTC).UnixNano()
			} else {
				v = numeric.Float64ToInt64(float64(v) / 2)
			}
			// a numeric field contributes all its precision-step terms to the doc values
			for shift := uint(0); shift < 64; shift += 4 {
				if shift > 0 && r.Chance(70) {
					continue
				}
				out = append(out, numeric.MustNewPrefixCodedInt64(v, shift))
			}
		} else {
			words := []string{"a", "b", "ab", "", "zz", "\xf4\x8f\xbf\xbf\xf4\x8f\xbf\xbf\xf4\x8f\xbf\xbf\x01", "\x00", "m"}
			out = append(out, []byte(words[r.Intn(len(words))]))
		}
	}
	if r.Chance(30) {
		r2 := out
		for i := range r2 {
			j := r.Intn(i + 1)
			r2[i], r2[j] = r2[j], r2[i]
		}
	}
	return out
}

func termsToken(ts [][]byte) string {
	if len(ts) == 0 {
		return "-"
	}
	parts := make([]string, len(ts))
	for i, t := range ts {
		if len(t) == 0 {
			parts[i] = "e"
		} else {
			parts[i] = hx(t)
		}
	}
	return strings.Join(parts, ",")
}

type collOut struct {
	hits     []*search.DocumentMatch
	total    uint64
	maxScore float64
}

func runCollector(specs []sortSpecG, size, skip int, after []string, ms []rawMatch) (collOut, error) {
	so := make(search.SortOrder, len(specs))
	for i, s := range specs {
		so[i] = s.build(i)
	}
	var c *collector.TopNCollector
	if after != nil {
		c = collector.NewTopNCollectorAfter(size, so, after)
	} else {
		c = collector.NewTopNCollector(size, skip, so)
	}
	rd := &stubReader{ms: ms}
	err := c.Collect(context.Background(), &stubSearcher{ms: ms}, rd)
	if err != nil {
		return collOut{}, err
	}
	return collOut{hits: c.Results(), total: c.Total(), maxScore: c.MaxScore()}, nil
}

func fmtCollOut(o collOut) string {
	hs := make([]string, len(o.hits))
	for i, h := range o.hits {
		hs[i] = fmt.Sprint(h.HitNumber)
	}
	h := strings.Join(hs, ",")
	if h == "" {
		h = "-"
	}
	return fmt.Sprintf("%d %d %s", o.total, int64(o.maxScore), h)
}

func collOp(specs []sortSpecG, size, skip int, afterTok string, ms []rawMatch) string {
	var sb strings.Builder
	fmt.Fprintf(&sb, "coll %d %d %d", size, skip, len(specs))
	for _, s := range specs {
		sb.WriteString(" " + s.token())
	}
	sb.WriteString(" " + afterTok)
	fmt.Fprintf(&sb, " %d", len(ms))
	for _, m := range ms {
		fmt.Fprintf(&sb, " %d %s", m.score, hx([]byte(m.id)))
		for i := range specs {
			var ts [][]byte
			if i < len(m.fields) {
				ts = m.fields[i]
			}
			sb.WriteString(" " + termsToken(ts))
		}
	}
	return sb.String()
}

func runC06(t *Trace, r *Rng, tier string, _ []string) {
	nStreams := 700
	maxLen := 60
	if tier == "thorough" {
		nStreams, maxLen = 20000, 400
	}
	tiesSeen, heapRuns, sliceRuns, capRuns, afterRuns := 0, 0, 0, 0, 0
	for si := 0; si < nStreams; si++ {
		total := r.Chance(50)
		specs := genSortOrder(r, total)
		n := r.Intn(maxLen + 1)
		if r.Chance(5) {
			n = 0
		}
		if tier == "thorough" && r.Chance(2) {
			n = 1000 + r.Intn(600) // straddle PreAllocSizeSkipCap
		}
		ms := make([]rawMatch, n)
		scoreSpace := 1 + r.Intn(5)
		for i := range ms {
			ms[i].score = r.Intn(scoreSpace)
			if total {
				ms[i].id = fmt.Sprintf("d%04d", i*7919%10007)
			} else {
				ms[i].id = fmt.Sprintf("d%d", r.Intn(n/2+1))
			}
			ms[i].fields = make([][][]byte, len(specs))
			for j, s := range specs {
				ms[i].fields[j] = genTerms(r, s)
			}
		}
		// sizes and skips straddling the slice/heap switch (size+skip > 10) and the prealloc cap
		var size, skip int
		switch r.Intn(5) {
		case 0:
			size, skip = r.Intn(6), r.Intn(6)
		case 1:
			size, skip = 5+r.Intn(4), 2+r.Intn(5)
		case 2:
			size, skip = r.Intn(n+3), r.Intn(n+3)
		case 3:
			size, skip = 0, r.Intn(4)
		default:
			size, skip = 10+r.Intn(30), r.Intn(30)
		}
		if tier == "thorough" && r.Chance(3) {
			size, skip = 990+r.Intn(20), r.Intn(20)
			capRuns++
		}
		if size+skip > 10 {
			heapRuns++
		} else {
			sliceRuns++
		}
		out, err := runCollector(specs, size, skip, nil, ms)
		if err != nil {
			t.Emit("coll-err", true, collOp(specs, size, skip, "-", ms), "ERR")
			continue
		}
		t.Emit("coll", n > size, collOp(specs, size, skip, "-", ms), fmtCollOut(out))

		// search-after from a hit of a full run (the hit's own Sort / decoded values, as a client would pass them)
		if n > 0 && r.Chance(60) {
			full, err := runCollector(specs, n, 0, nil, ms)
			if err != nil || len(full.hits) == 0 {
				continue
			}
			h := full.hits[r.Intn(len(full.hits))]
			after := make([]string, len(specs))
			keyToks := make([]string, len(specs))
			for i, s := range specs {
				switch {
				case s.kind == 'S':
					after[i] = fmt.Sprint(int64(h.Score))
					keyToks[i] = hx([]byte(after[i]))
				case s.kind == 'F' && (s.ty == 'n' || s.ty == 'd'):
					after[i] = h.DecodedSort[i]
					keyToks[i] = hx([]byte(h.Sort[i]))
				default:
					after[i] = h.Sort[i]
					keyToks[i] = hx([]byte(h.Sort[i]))
				}
			}
			// a numeric/date key that is a missing-value sentinel has no decoded form a client could send
			ok := true
			for i, s := range specs {
				if s.kind == 'F' && (s.ty == 'n' || s.ty == 'd') {
					if v, _ := numeric.ValidPrefixCodedTermBytes([]byte(h.Sort[i])); !v {
						ok = false
					}
				}
			}
			if !ok {
				continue
			}
			asz := r.Intn(n + 2)
			aout, err := runCollector(specs, asz, 0, after, ms)
			afterTok := fmt.Sprintf("A %d %s", int64(h.Score), strings.Join(keyToks, " "))
			if err != nil {
				t.Emit("after-err", true, collOp(specs, asz, 0, afterTok, ms), "ERR")
				continue
			}
			afterRuns++
			t.Emit("after", true, collOp(specs, asz, 0, afterTok, ms), fmtCollOut(aout))
		}
		// tie statistics
		seen := map[string]bool{}
		for _, m := range ms {
			k := fmt.Sprint(m.score, m.id)
			if seen[k] {
				tiesSeen++
				break
			}
			seen[k] = true
		}
	}
	t.Set("streams_with_equal_score_and_id", tiesSeen)
	t.Set("heap_store_runs", heapRuns)
	t.Set("slice_store_runs", sliceRuns)
	t.Set("prealloc_cap_runs", capRuns)
	t.Set("search_after_runs", afterRuns)
	runC06E2E(t, r, tier)
}
