package main

import (
	"context"
	"fmt"
	index "github.com/blevesearch/bleve_index_api"
	"io"
	"os"
	"path/filepath"
	"strings"
	"sync"
	"sync/atomic"
	"time"

	"github.com/blevesearch/bleve/v2"
	"github.com/blevesearch/bleve/v2/index/scorch"
)

// Scripted schedules for C14: the persister of the source is parked at its progress / purge events
// and let through one step at a time, every copy is parked right after it has pinned its snapshot,
// so that the order of batches, persist rounds, purges, copy starts and copy ends is chosen by the
// script instead of by the scheduler.

type c14Gate struct {
	src    atomic.Value // the source *scorch.Scorch: copies inherit the event callback through index_meta.json
	tokens chan struct{}
	open   int32
	parked int32
}

func (g *c14Gate) onEvent(e scorch.Event) bool {
	if src, _ := g.src.Load().(*scorch.Scorch); src == nil || e.Scorch != src {
		return true
	}
	if e.Kind == scorch.EventKindPersisterProgress || e.Kind == scorch.EventKindPurgerCheck {
		if atomic.LoadInt32(&g.open) == 0 {
			atomic.AddInt32(&g.parked, 1)
			<-g.tokens
			atomic.AddInt32(&g.parked, -1)
		}
	}
	return true
}

// let the persister take n steps
func (g *c14Gate) step(n int) {
	for i := 0; i < n; i++ {
		select {
		case g.tokens <- struct{}{}:
		default:
		}
	}
	time.Sleep(4 * time.Millisecond)
}

func (g *c14Gate) openAll() {
	atomic.StoreInt32(&g.open, 1)
	for i := 0; i < 64; i++ {
		select {
		case g.tokens <- struct{}{}:
		default:
		}
	}
}

// a destination whose first GetWriter waits until the script lets the copy go on
type c14GatedDir struct {
	bleve.FileSystemDirectory
	once    sync.Once
	pinned  chan struct{}
	release chan struct{}
}

func (d *c14GatedDir) GetWriter(p string) (io.WriteCloser, error) {
	d.once.Do(func() {
		close(d.pinned)
		<-d.release
	})
	return d.FileSystemDirectory.GetWriter(p)
}

type c14Copy struct {
	dir    *c14GatedDir
	dst    string
	atPin  int // batches done when the copy pinned its snapshot
	done   chan error
	number int
	// documents of the offline builder still in the source when the copy pinned its snapshot
	builderDocs int
}

var c14GateSeq int32

func c14Scripted(t *Trace, r *Rng, root string, scenarios int) {
	for sc := 0; sc < scenarios; sc++ {
		name := fmt.Sprintf("verif-c14-%d", atomic.AddInt32(&c14GateSeq, 1))
		gate := &c14Gate{tokens: make(chan struct{}, 256), open: 1} // open until the index exists (New waits for a persist)
		scorch.RegistryEventCallbacks[name] = gate.onEvent
		dir := filepath.Join(root, fmt.Sprintf("scr%d", sc))
		conf := map[string]interface{}{"unsafe_batch": true, "eventCallbackName": name, "numSnapshotsToKeep": 1,
			"scorchMergePlanOptions": map[string]interface{}{"maxSegmentsPerTier": 2, "segmentsPerMergeTask": 2, "floorSegmentSize": 1}}
		// every fourth source starts life in the offline builder: its first segment file is not named after its
		// segment id, and it holds documents outside the writer's id space until a script step deletes them
		fromBuilder := sc%4 == 3
		const nBuilderDocs = 8
		builderDocsGone := !fromBuilder
		var idx bleve.Index
		var err error
		if fromBuilder {
			bld, berr := bleve.NewBuilder(dir, bleve.NewIndexMapping(), map[string]interface{}{"buildPathPrefix": root})
			must(berr)
			for i := 0; i < nBuilderDocs; i++ {
				must(bld.Index(fmt.Sprintf("b%d", i), map[string]interface{}{"seq": float64(-1), "pad": "built"}))
			}
			must(bld.Close())
			idx, err = bleve.OpenUsing(dir, conf)
		} else {
			idx, err = bleve.NewUsing(dir, bleve.NewIndexMapping(), scorch.Name, scorch.Name, conf)
		}
		if err != nil { // New waits for the mapping to be persisted: let the persister through
			must(err)
		}
		countBuilderDocs := func(rd index.IndexReader) int {
			nb := 0
			for i := 0; i < nBuilderDocs; i++ {
				if d, err := rd.Document(fmt.Sprintf("b%d", i)); err == nil && d != nil {
					nb++
				}
			}
			return nb
		}
		if adv, err := idx.Advanced(); err == nil {
			if s, ok := adv.(*scorch.Scorch); ok {
				gate.src.Store(s)
			}
		}
		atomic.StoreInt32(&gate.open, 0)
		K := 2
		t.Emit("scripted/reset", false, fmt.Sprintf("reset %d", K), "ok")
		n := 0
		var parkedCopies []*c14Copy
		var script []string
		copyNo := 0
		finish := func(c *c14Copy) {
			close(c.dir.release)
			var cerr error
			if e, ok := waitVal(c.done, 20*time.Second, 80*time.Second); ok {
				cerr = e
			} else {
				cerr = fmt.Errorf("copy did not finish")
			}
			sline := strings.Join(script, ",")
			if cerr != nil {
				t.Emit("scripted/copy-call", true, "echo ok", "copy-failed:"+oneLine(cerr.Error())+" schedule="+sline)
				return
			}
			t.Emit("scripted/copy-call", true, "echo ok", "ok")
			recs, err := readRootBolt(c.dst)
			line := "copydir"
			if err != nil {
				line += " unreadable"
			}
			for _, rc := range recs {
				line += fmt.Sprintf(" %d:%s", rc.epoch, strings.Join(rc.files, ","))
			}
			line += " | " + strings.Join(c12ListZap(c.dst), " ")
			t.Emit("scripted/copy-dir", true, line, "ok")
			cidx, err := bleve.Open(c.dst)
			if err != nil {
				t.Emit("scripted/copy-open", true, "echo ok", "open-failed:"+oneLine(err.Error())+" schedule="+sline)
				return
			}
			cadv, _ := cidx.Advanced()
			rd, err := cadv.Reader()
			must(err)
			docs, ints, count, err := c04Observe(rd, 1, K)
			nb := 0
			if fromBuilder {
				nb = countBuilderDocs(rd)
				count -= uint64(nb)
			}
			rd.Close()
			if fromBuilder {
				t.Emit("scripted/copy-builder-docs", true, fmt.Sprintf("echo %d", c.builderDocs), fmt.Sprint(nb))
			}
			if err != nil {
				t.Emit("scripted/copy-open", true, "echo ok", "read-failed:"+oneLine(err.Error()))
			} else {
				// the copy is the source exactly as it was when the copy pinned its snapshot
				t.Emit("scripted/copy-content", true, c04Line(100+c.number, []int{c.atPin}, docs, ints, count), "ok")
				exact := "ok"
				if ints[0] != c.atPin {
					exact = fmt.Sprintf("copy pinned after batch %d holds batch %d; schedule=%s", c.atPin, ints[0], sline)
				}
				t.Emit("scripted/copy-is-the-pinned-moment", true, "echo ok", exact)
			}
			cidx.Close()
			os.RemoveAll(c.dst)
		}
		steps := 24 + r.Intn(30)
		for st := 0; st < steps; st++ {
			x := r.Intn(100)
			switch {
			case fromBuilder && !builderDocsGone && x < 12:
				// every document of the builder's segment goes: the segment leaves the root
				b := idx.NewBatch()
				for i := 0; i < nBuilderDocs; i++ {
					b.Delete(fmt.Sprintf("b%d", i))
				}
				must(idx.Batch(b))
				builderDocsGone = true
				script = append(script, "D")
			case x < 45:
				n++
				b := idx.NewBatch()
				c04FillBatch(b, 0, n, K)
				must(idx.Batch(b))
				script = append(script, "B")
			case x < 72:
				gate.step(1 + r.Intn(3))
				script = append(script, "P")
			case x < 84:
				if len(parkedCopies) >= 3 {
					continue
				}
				copyNo++
				dst := filepath.Join(root, fmt.Sprintf("scr%d-copy%d", sc, copyNo))
				gd := &c14GatedDir{FileSystemDirectory: bleve.FileSystemDirectory(dst), pinned: make(chan struct{}), release: make(chan struct{})}
				c := &c14Copy{dir: gd, dst: dst, atPin: n, done: make(chan error, 1), number: copyNo}
				if !builderDocsGone {
					c.builderDocs = nBuilderDocs
				}
				ic := idx.(bleve.IndexCopyable)
				go func() { c.done <- ic.CopyTo(gd) }()
				reached := make(chan struct{}, 1)
				go func() {
					select {
					case <-gd.pinned:
					case err := <-c.done: // failed before it asked for a file
						c.done <- err
					}
					reached <- struct{}{}
				}()
				_, _ = waitVal(reached, 10*time.Second, 40*time.Second)
				parkedCopies = append(parkedCopies, c)
				script = append(script, "C+")
			case x < 96:
				if len(parkedCopies) == 0 {
					continue
				}
				k := 0
				if r.Chance(30) {
					k = r.Intn(len(parkedCopies))
				}
				c := parkedCopies[k]
				parkedCopies = append(parkedCopies[:k], parkedCopies[k+1:]...)
				script = append(script, fmt.Sprintf("C-%d", c.number))
				finish(c)
			default:
				if adv, err := idx.Advanced(); err == nil {
					if s, ok := adv.(*scorch.Scorch); ok {
						go func() {
							ctx, cancel := context.WithTimeout(context.Background(), 150*time.Millisecond)
							defer cancel()
							_ = s.ForceMerge(ctx, nil)
						}()
					}
				}
				script = append(script, "M")
			}
		}
		for _, c := range parkedCopies {
			script = append(script, fmt.Sprintf("C-%d", c.number))
			finish(c)
		}
		gate.openAll()
		// the source is unaffected: it holds everything
		adv, _ := idx.Advanced()
		rd, err := adv.Reader()
		must(err)
		docs, ints, count, err := c04Observe(rd, 1, K)
		if fromBuilder {
			count -= uint64(countBuilderDocs(rd))
		}
		rd.Close()
		must(err)
		t.Emit("scripted/source-final", true, c04Line(1, []int{n}, docs, ints, count), "ok")
		must(idx.Close())
		delete(scorch.RegistryEventCallbacks, name)
		os.RemoveAll(dir)
		t.Add("scripted-steps", len(script))
	}
}
