package main

import (
	"fmt"
	"os"
	"sort"
	"strings"
	"time"

	"github.com/blevesearch/bleve/v2"
	"github.com/blevesearch/bleve/v2/mapping"
	"github.com/blevesearch/bleve/v2/search"
	"github.com/blevesearch/bleve/v2/search/query"
)

func init() { props["c09"] = runC09 }

func c09Mapping() mapping.IndexMapping {
	m := bleve.NewIndexMapping()
	dm := bleve.NewDocumentMapping()
	kw := bleve.NewTextFieldMapping()
	kw.Analyzer = "keyword"
	kw.Store = true
	dm.AddFieldMappingsAt("tags", kw)
	nf := bleve.NewNumericFieldMapping()
	nf.Store = true
	dm.AddFieldMappingsAt("price", nf)
	dm.AddFieldMappingsAt("when", bleve.NewDateTimeFieldMapping())
	body := bleve.NewTextFieldMapping()
	body.Analyzer = "standard"
	dm.AddFieldMappingsAt("body", body)
	m.DefaultMapping = dm
	return m
}

func canonFields(f map[string]interface{}) string {
	if len(f) == 0 {
		return "_"
	}
	ks := make([]string, 0, len(f))
	for k := range f {
		ks = append(ks, k)
	}
	sort.Strings(ks)
	var sb strings.Builder
	for _, k := range ks {
		fmt.Fprintf(&sb, "%s=%s;", k, hx([]byte(fmt.Sprint(f[k]))))
	}
	return sb.String()
}

// canonical, score-free rendering of a result: total, hits (id, sort keys, stored fields), facets
func canonResult(sr *bleve.SearchResult, facetNames []string) string {
	var sb strings.Builder
	fmt.Fprintf(&sb, "T%d", sr.Total)
	for _, h := range sr.Hits {
		ks := make([]string, len(h.Sort))
		for i, k := range h.Sort {
			ks[i] = hx([]byte(k))
		}
		fmt.Fprintf(&sb, "|%s/%s/%s", h.ID, strings.Join(ks, "."), canonFields(h.Fields))
	}
	for _, fn := range facetNames {
		fr, ok := sr.Facets[fn]
		if !ok {
			fmt.Fprintf(&sb, "|F:%s:absent", fn)
			continue
		}
		fmt.Fprintf(&sb, "|F:%s:%s", fn, strings.ReplaceAll(fmtFacet(fr), " ", "_"))
	}
	return sb.String()
}

type aliasNode struct {
	leaf int // shard index, or -1
	kids []*aliasNode
}

func buildAliasTree(r *Rng, shards []int) *aliasNode {
	if len(shards) == 1 && r.Chance(70) {
		return &aliasNode{leaf: shards[0]}
	}
	n := &aliasNode{leaf: -1}
	if len(shards) <= 2 || r.Chance(50) { // flat
		for _, s := range shards {
			n.kids = append(n.kids, &aliasNode{leaf: s})
		}
		return n
	}
	cut := 1 + r.Intn(len(shards)-1)
	n.kids = append(n.kids, buildAliasTree(r, shards[:cut]), buildAliasTree(r, shards[cut:]))
	return n
}

func (n *aliasNode) build(shards []bleve.Index) bleve.Index {
	if n.leaf >= 0 {
		return shards[n.leaf]
	}
	var members []bleve.Index
	for _, k := range n.kids {
		members = append(members, k.build(shards))
	}
	return bleve.NewIndexAlias(members...)
}

func (n *aliasNode) depth() int {
	if n.leaf >= 0 {
		return 0
	}
	d := 0
	for _, k := range n.kids {
		if kd := k.depth(); kd > d {
			d = kd
		}
	}
	return d + 1
}

func runC09(t *Trace, r *Rng, tier string, _ []string) {
	nCorp, nReq := 6, 30
	if tier == "thorough" {
		nCorp, nReq = 80, 60
	}
	base := time.Date(2021, 3, 4, 5, 6, 7, 0, time.UTC)
	nested, emptyShards, size0 := 0, 0, 0
	for ci := 0; ci < nCorp; ci++ {
		nDocs := r.Range(3, 36)
		docs := make([]c10Doc, nDocs)
		for i := range docs {
			docs[i] = genC10Doc(r, i, base)
		}
		nSh := 1 + r.Intn(5)
		engines := make([]string, nSh)
		shards := make([]bleve.Index, nSh)
		for s := range shards {
			engines[s] = []string{"scorch", "upsidedown"}[r.Intn(2)]
			shards[s] = newIndexWith(engines[s], c09Mapping())
		}
		single := newIndexWith([]string{"scorch", "upsidedown"}[ci%2], c09Mapping())
		counts := make([]int, nSh)
		skew := r.Chance(40)
		for _, d := range docs {
			s := r.Intn(nSh)
			if skew && r.Chance(70) {
				s = 0
			}
			counts[s]++
			must(shards[s].Index(d.id, d.asMap()))
			must(single.Index(d.id, d.asMap()))
		}
		for _, c := range counts {
			if c == 0 {
				emptyShards++
			}
		}
		idxs := make([]int, nSh)
		for i := range idxs {
			idxs[i] = i
		}
		tree := buildAliasTree(r, idxs)
		if tree.leaf >= 0 {
			tree = &aliasNode{leaf: -1, kids: []*aliasNode{tree}}
		}
		if tree.depth() > 1 {
			nested++
		}
		alias := tree.build(shards)
		flatAlias := bleve.NewIndexAlias(shards...)
		cat := fmt.Sprintf("shards%d-depth%d", nSh, tree.depth())

		for qi := 0; qi < nReq; qi++ {
			var q query.Query
			switch r.Intn(3) {
			case 0:
				q = bleve.NewMatchAllQuery()
			case 1:
				tq := bleve.NewTermQuery(c10Words[r.Intn(len(c10Words))])
				tq.SetField("body")
				q = tq
			default:
				a := bleve.NewTermQuery(c10Words[r.Intn(len(c10Words))])
				a.SetField("body")
				b := bleve.NewTermQuery(c10Tags[r.Intn(len(c10Tags))])
				b.SetField("tags")
				q = bleve.NewDisjunctionQuery(a, b)
			}
			// total, score-independent sort
			var specs []sortSpecG
			var so search.SortOrder
			nk := r.Intn(3)
			for k := 0; k < nk; k++ {
				fname := []string{"tags", "price", "when"}[r.Intn(3)]
				s := sortSpecG{kind: 'F', ty: 'a', mode: "mM"[r.Intn(2)], missing: "lf"[r.Intn(2)], desc: r.Bool()}
				sf := s.build(0).(*search.SortField)
				sf.Field = fname
				specs = append(specs, s)
				so = append(so, sf)
			}
			idSpec := sortSpecG{kind: 'I', desc: r.Bool()}
			specs = append(specs, idSpec)
			so = append(so, &search.SortDocID{Desc: idSpec.desc})

			size, from := r.Intn(nDocs+2), r.Intn(nDocs/2+2)
			if r.Chance(12) {
				size = 0
				size0++
			}
			mk := func(size, from int) *bleve.SearchRequest {
				req := bleve.NewSearchRequestOptions(q, size, from, false)
				req.SortByCustom(so.Copy())
				req.Fields = []string{"tags", "price"}
				return req
			}
			var facetNames []string
			var facetSizes []int
			addFacets := func(req *bleve.SearchRequest) {
				if len(facetNames) == 0 {
					return
				}
				for i, fn := range facetNames {
					switch fn {
					case "ftags":
						req.AddFacet(fn, bleve.NewFacetRequest("tags", facetSizes[i]))
					case "fprice":
						f := bleve.NewFacetRequest("price", facetSizes[i])
						lo, mid, hi := 5.0, 10.0, 15.0
						f.AddNumericRange("low", nil, &lo)
						f.AddNumericRange("mid", &lo, &hi)
						f.AddNumericRange("midhi", &mid, nil)
						// cumulative tiers: two ranges open below and two open above
						f.AddNumericRange("lt-mid", nil, &mid)
						f.AddNumericRange("ge-hi", &hi, nil)
						req.AddFacet(fn, f)
					case "fwhen":
						f := bleve.NewFacetRequest("when", facetSizes[i])
						f.AddDateTimeRange("early", time.Time{}, base.Add(4*time.Hour))
						f.AddDateTimeRange("late", base.Add(4*time.Hour), time.Time{})
						f.AddDateTimeRange("very-early", time.Time{}, base.Add(2*time.Hour))
						f.AddDateTimeRange("very-late", base.Add(5*time.Hour), time.Time{})
						req.AddFacet(fn, f)
					}
				}
			}
			if r.Chance(50) {
				for _, fn := range []string{"ftags", "fprice", "fwhen"} {
					if r.Chance(50) {
						facetNames = append(facetNames, fn)
						facetSizes = append(facetSizes, len(c10Tags)+1+r.Intn(3)) // covers all buckets
					}
				}
			}
			mode := r.Intn(4)
			var req *bleve.SearchRequest
			switch mode {
			case 0, 1:
				req = mk(size, from)
			default:
				full, err := single.Search(mk(nDocs+2, 0))
				if err != nil || len(full.Hits) == 0 {
					req = mk(size, from)
					mode = 0
					break
				}
				h := full.Hits[r.Intn(len(full.Hits))]
				keys := make([]string, len(h.Sort))
				copy(keys, h.Sort)
				req = mk(size, 0)
				if mode == 2 {
					req.SearchAfter = keys
				} else {
					req.SearchBefore = keys
				}
			}
			addFacets(req)
			clone := func() *bleve.SearchRequest {
				c := mk(req.Size, req.From)
				c.SearchAfter, c.SearchBefore = req.SearchAfter, req.SearchBefore
				addFacets(c)
				return c
			}
			sres, err1 := single.Search(clone())
			ares, err2 := alias.Search(clone())
			kind := []string{"page", "page", "after", "before"}[mode]
			if err1 != nil || err2 != nil {
				t.Emit(cat+"/"+kind+"-err", true, "echo ERR", fmt.Sprint("ERR ", err1 != nil, err2 != nil))
				continue
			}
			if os.Getenv("C09_DEBUG") != "" && canonResult(sres, facetNames) != canonResult(ares, facetNames) && mode >= 2 {
				fmt.Fprintf(os.Stderr, "DEBUG mode=%d size=%d from=%d depth=%d engines=%v counts=%v after=%q before=%q\n", mode, req.Size, req.From, tree.depth(), engines, counts, req.SearchAfter, req.SearchBefore)
				for _, sp := range specs {
					fmt.Fprintf(os.Stderr, "  spec %s\n", sp.token())
				}
				for _, d := range docs {
					fmt.Fprintf(os.Stderr, "  doc %s tags=%v price=%v when=%v body=%q\n", d.id, d.tags, d.price, d.when, d.body)
				}
				for si, sh := range shards {
					r2, _ := sh.Search(clone())
					fmt.Fprintf(os.Stderr, "  shard %d: %s\n", si, canonResult(r2, facetNames))
				}
				fmt.Fprintf(os.Stderr, "  single: %s\n  alias: %s\n", canonResult(sres, facetNames), canonResult(ares, facetNames))
			}
			nontrivial := len(sres.Hits) > 0 && nSh > 1
			t.Emit(cat+"/"+kind, nontrivial, "echo "+canonResult(sres, facetNames), canonResult(ares, facetNames))

			// the merge itself: members' answers to the child request -> model of MultiSearch vs the flat alias
			if mode <= 1 {
				var sb strings.Builder
				fmt.Fprintf(&sb, "amerge %d %d %d", req.Size, req.From, len(specs))
				for _, s := range specs {
					sb.WriteString(" " + s.token())
				}
				fmt.Fprintf(&sb, " %d", nSh)
				okAll := true
				childFacets := map[string][]*search.FacetResult{}
				for _, sh := range shards {
					creq := mk(req.Size+req.From, 0)
					addFacets(creq)
					cres, err := sh.Search(creq)
					if err != nil {
						okAll = false
						break
					}
					fmt.Fprintf(&sb, " %d 0 %d", cres.Total, len(cres.Hits))
					for _, h := range cres.Hits {
						fmt.Fprintf(&sb, " 0 %s", hx([]byte(h.ID)))
						for _, k := range h.Sort {
							sb.WriteString(" " + hx([]byte(k)))
						}
					}
					for _, fn := range facetNames {
						if fr, ok := cres.Facets[fn]; ok {
							childFacets[fn] = append(childFacets[fn], fr)
						}
					}
				}
				if okAll {
					fres, err := flatAlias.Search(clone())
					if err == nil {
						ids := make([]string, len(fres.Hits))
						for i, h := range fres.Hits {
							ids[i] = hx([]byte(h.ID))
						}
						l := strings.Join(ids, ",")
						if l == "" {
							l = "-"
						}
						t.Emit(cat+"/amerge", nSh > 1, sb.String(), fmt.Sprintf("%d %s", fres.Total, l))
						for i, fn := range facetNames {
							cf := childFacets[fn]
							if len(cf) != nSh {
								continue
							}
							var fb strings.Builder
							fmt.Fprintf(&fb, "fmerge %d %d", facetSizes[i], len(cf))
							for _, f := range cf {
								fb.WriteString(" " + fmtFacet(f))
							}
							if fr, ok := fres.Facets[fn]; ok {
								t.Emit(cat+"/fmerge", nSh > 1, fb.String(), fmtFacet(fr))
							}
						}
					}
				}
			}
		}
		single.Close()
		for _, s := range shards {
			s.Close()
		}
	}
	t.Set("nested_alias_corpora", nested)
	t.Set("empty_shards", emptyShards)
	t.Set("size0_requests", size0)
}
