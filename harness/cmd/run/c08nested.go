package main

import (
	"context"
	"fmt"
	"strings"

	"github.com/blevesearch/bleve/v2"
	"github.com/blevesearch/bleve/v2/index/scorch"
	"github.com/blevesearch/bleve/v2/search"
)

// ---- searchers over a nested mapping: Next / Advance programs against the searcher's own Next-only run ----
//
// The nested conjunction searcher also yields the ids of array elements, which no document-level model
// speaks about; the contract does not need one: any program of Next and forward Advance calls must visit
// the subsequence of the Next-only enumeration the contract machine prescribes (Lean: runContract), and
// that enumeration must be strictly ascending.

func c08Nested(t *Trace, r *Rng, nIdx, nQ int) {
	for ix := 0; ix < nIdx; ix++ {
		idx, err := bleve.NewUsing("", c20Mapping(true), scorch.Name, scorch.Name, nil)
		must(err)
		nDocs := r.Range(5, 16)
		batch := idx.NewBatch()
		for i := 0; i < nDocs; i++ {
			d := genNDoc(r, i)
			must(batch.Index(d.id, d.asMap()))
			if r.Chance(35) {
				must(idx.Batch(batch))
				batch = idx.NewBatch()
			}
		}
		must(idx.Batch(batch))
		for k := 0; k < nDocs/3; k++ {
			id := fmt.Sprintf("p%03d", r.Intn(nDocs))
			if r.Bool() {
				must(idx.Index(id, genNDoc(r, 0).asMap()))
			} else {
				must(idx.Delete(id))
			}
		}
		adv, err := idx.Advanced()
		must(err)
		reader, err := adv.Reader()
		must(err)
		ctx := context.WithValue(context.Background(), search.NestedSearchKey, true)
		for qi := 0; qi < nQ; qi++ {
			q := genNQuery(r, 2, "*")
			if q.mustNo {
				continue
			}
			mk := func() search.Searcher {
				s, err := q.q.Searcher(ctx, reader, idx.Mapping(), search.SearcherOptions{})
				if err != nil {
					return nil
				}
				return s
			}
			s := mk()
			if s == nil {
				continue
			}
			sctx := &search.SearchContext{DocumentMatchPool: search.NewDocumentMatchPool(s.DocumentMatchPoolSize()+8, 0)}
			var enum []uint64
			for len(enum) < 500 {
				dm, err := guardedCall(func() (*search.DocumentMatch, error) { return s.Next(sctx) })
				if err != nil || dm == nil {
					break
				}
				enum = append(enum, iidOf("scorch", dm.IndexInternalID))
				sctx.DocumentMatchPool.Put(dm)
			}
			_ = s.Close()
			ids := make([]string, len(enum))
			maxID := uint64(0)
			for i, v := range enum {
				ids[i] = fmt.Sprint(v)
				if v > maxID {
					maxID = v
				}
			}
			idTok := "-"
			if len(ids) > 0 {
				idTok = strings.Join(ids, ",")
			}
			// a program on a fresh searcher
			s2 := mk()
			if s2 == nil {
				continue
			}
			sctx2 := &search.SearchContext{DocumentMatchPool: search.NewDocumentMatchPool(s2.DocumentMatchPoolSize()+8, 0)}
			var calls, outs []string
			last := int64(-1)
			n := r.Range(1, 10)
			for c := 0; c < n; c++ {
				var dm *search.DocumentMatch
				var err error
				if r.Chance(50) {
					calls = append(calls, "N")
					dm, err = guardedCall(func() (*search.DocumentMatch, error) { return s2.Next(sctx2) })
				} else {
					lo := uint64(last + 1)
					tg := lo + uint64(r.Intn(int(maxID)+3))
					if len(enum) > 0 && r.Chance(50) { // exactly on a match of the enumeration
						cand := enum[r.Intn(len(enum))]
						if cand >= lo {
							tg = cand
						}
					}
					calls = append(calls, fmt.Sprintf("A %d", tg))
					target := mkIID("scorch", tg)
					dm, err = guardedCall(func() (*search.DocumentMatch, error) { return s2.Advance(sctx2, target) })
				}
				if err == errHang {
					outs = append(outs, "HANG")
					break
				}
				if err != nil {
					outs = append(outs, "ERR")
					break
				}
				if dm == nil {
					outs = append(outs, "nil")
					break
				}
				v := iidOf("scorch", dm.IndexInternalID)
				outs = append(outs, fmt.Sprint(v))
				last = int64(v)
				sctx2.DocumentMatchPool.Put(dm)
			}
			_ = s2.Close()
			t.Emit("prog-nested/scorch", len(enum) > 0, "progl "+idTok+" | "+strings.Join(calls[:len(outs)], " "), strings.Join(outs, ","))
		}
		reader.Close()
		idx.Close()
	}
}
