package main

import (
	"context"
	"fmt"
	"os"
	"path/filepath"
	"sort"
	"strings"
	"sync"
	"time"

	"github.com/blevesearch/bleve/v2"
	"github.com/blevesearch/bleve/v2/index/scorch"
)

func init() { props["c12"] = runC12 }

func c12Stat(dir string, files []string) string {
	sort.Strings(files)
	var sb strings.Builder
	for _, f := range files {
		ok := 0
		if st, err := os.Stat(filepath.Join(dir, "store", f)); err == nil && st.Size() > 0 {
			ok = 1
		}
		fmt.Fprintf(&sb, " %s:%d", f, ok)
	}
	return sb.String()
}

func c12ListZap(dir string) []string {
	ents, _ := os.ReadDir(filepath.Join(dir, "store"))
	var rv []string
	for _, e := range ents {
		if filepath.Ext(e.Name()) == ".zap" {
			rv = append(rv, e.Name())
		}
	}
	sort.Strings(rv)
	return rv
}

func c12OpenFDs(dir string) int {
	ents, err := os.ReadDir("/proc/self/fd")
	if err != nil {
		return 0
	}
	n := 0
	for _, e := range ents {
		if tgt, err := os.Readlink("/proc/self/fd/" + e.Name()); err == nil && strings.HasPrefix(tgt, dir) {
			n++
		}
	}
	return n
}

// memory mappings of files under dir (also of files removed meanwhile)
func c12OpenMaps(dir string) int {
	data, err := os.ReadFile("/proc/self/maps")
	if err != nil {
		return 0
	}
	n := 0
	for _, l := range strings.Split(string(data), "\n") {
		if strings.Contains(l, dir) {
			n++
		}
	}
	return n
}

func runC12(t *Trace, r *Rng, tier string, _ []string) {
	workloads, dur := 4, 700*time.Millisecond
	if tier == "thorough" {
		workloads, dur = 30, 2*time.Second
	}
	root, err := os.MkdirTemp("", "verif-c12-")
	must(err)
	defer os.RemoveAll(root)
	for wl := 0; wl < workloads; wl++ {
		dir := filepath.Join(root, fmt.Sprintf("w%d", wl))
		ci := r.Intn(12)
		keep := 1 + ci%3
		conf := c03Config(ci, wl%4 == 3)
		cat := "retention"
		t.Add(fmt.Sprintf("workloads:numSnapshotsToKeep=%d", keep), 1)
		t.Add(fmt.Sprintf("workloads:conf%d", ci%4), 1)
		var mu sync.Mutex
		var evs []string
		logEv := func(s string) {
			mu.Lock()
			evs = append(evs, s)
			mu.Unlock()
		}
		logEv("boot")
		scorch.VerifSetDurableHook(func(s *scorch.Scorch, kind string, epoch uint64, names []string) {
			switch kind {
			case "bolt-commit":
				logEv(fmt.Sprintf("commit %d%s", epoch, c12Stat(dir, names)))
			case "bolt-remove":
				logEv(fmt.Sprintf("boltrm %d", epoch))
			case "zap-remove":
				logEv("zaprm " + names[0])
			}
		})
		idx, err := bleve.NewUsing(dir, bleve.NewIndexMapping(), scorch.Name, scorch.Name, conf)
		must(err)
		adv, _ := idx.Advanced()
		W, K := 2, 2
		stop := make(chan struct{})
		stopReaders := make(chan struct{})
		var wg, rwg sync.WaitGroup
		for w := 0; w < W; w++ {
			wg.Add(1)
			go func(w int) {
				defer wg.Done()
				rr := NewRng(uint64(wl*10 + w))
				for n := 1; ; n++ {
					select {
					case <-stop:
						return
					default:
					}
					b := idx.NewBatch()
					c04FillBatch(b, w, n, K)
					if err := idx.Batch(b); err != nil {
						return
					}
					if rr.Chance(30) {
						time.Sleep(time.Duration(rr.Intn(3)) * time.Millisecond)
					}
				}
			}(w)
		}
		// two more writers that rewrite one and the same small set of documents: a segment can lose its last
		// live document to the other writer before the persister has introduced its file
		for w := 0; w < 2; w++ {
			wg.Add(1)
			go func(w int) {
				defer wg.Done()
				for n := 1; ; n++ {
					select {
					case <-stop:
						return
					default:
					}
					b := idx.NewBatch()
					for k := 0; k < 6; k++ {
						_ = b.Index(fmt.Sprintf("churn-%d", k), map[string]interface{}{"seq": float64(n), "wr": float64(w)})
					}
					if err := idx.Batch(b); err != nil {
						return
					}
				}
			}(w)
		}
		// readers held for a while: their files must exist when opened and as long as they are held
		for h := 0; h < 3; h++ {
			rwg.Add(1)
			go func(h int) {
				defer rwg.Done()
				rr := NewRng(uint64(wl*100 + h))
				for gen := 0; ; gen++ {
					select {
					case <-stopReaders:
						return
					default:
					}
					rd, err := adv.Reader()
					if err != nil {
						return
					}
					id := h*100000 + gen
					files := scorch.VerifSnapshotFiles(rd)
					logEv(fmt.Sprintf("hold %d%s", id, c12Stat(dir, files)))
					hold := time.Duration(1+rr.Intn(60)) * time.Millisecond
					for el := time.Duration(0); el < hold; el += 5 * time.Millisecond {
						time.Sleep(5 * time.Millisecond)
						logEv(fmt.Sprintf("restat %d%s", id, c12Stat(dir, files)))
					}
					// the held reader still answers
					if _, err := rd.DocCount(); err != nil {
						logEv(fmt.Sprintf("echo reader-error-%v", oneLine(err.Error())))
					}
					rd.Close()
					logEv(fmt.Sprintf("release %d", id))
				}
			}(h)
		}
		if sc, ok := adv.(*scorch.Scorch); ok {
			wg.Add(1)
			go func() {
				defer wg.Done()
				for {
					select {
					case <-stop:
						return
					case <-time.After(150 * time.Millisecond):
						ctx, cancel := context.WithTimeout(context.Background(), time.Second)
						_ = sc.ForceMerge(ctx, nil)
						cancel()
					}
				}
			}()
		}
		time.Sleep(dur)
		close(stopReaders)
		rwg.Wait()
		time.Sleep(dur / 4) // writers go on for a while after the last reader is closed
		close(stop)
		wg.Wait()
		// quiescence: nothing is written any more; wait until the directory stops changing
		// settled = the persister has caught up with the root, and neither the directory nor the persister's and
		// merger's loop counters have moved for a second (a merge still under way changes no file until it ends)
		var listing []string
		stable := 0
		sig := ""
		for i := 0; i < 400 && stable < 20; i++ {
			time.Sleep(50 * time.Millisecond)
			l := c12ListZap(dir)
			cur := strings.Join(l, " ")
			caughtUp := true
			if sc, ok := adv.(*scorch.Scorch); ok {
				if sm := sc.StatsMap(); sm != nil {
					cur += fmt.Sprintf(" | %v %v %v %v %v %v", sm["CurRootEpoch"], sm["LastPersistedEpoch"], sm["LastMergedEpoch"],
						sm["TotPersistLoopWait"], sm["TotFileMergeLoopBeg"], sm["TotFileMergeLoopEnd"])
					caughtUp = fmt.Sprint(sm["CurRootEpoch"]) == fmt.Sprint(sm["LastPersistedEpoch"])
				}
			}
			if cur == sig && caughtUp {
				stable++
			} else {
				stable = 0
			}
			sig = cur
			listing = l
		}
		scorch.VerifSetDurableHook(nil)
		mu.Lock()
		all := evs
		mu.Unlock()
		for _, l := range all {
			kind := strings.SplitN(l, " ", 2)[0]
			expect := "ok"
			if kind == "echo" {
				expect = "ok"
			}
			t.Emit(cat+"/event-"+kind, kind != "boot", l, expect)
		}
		t.Emit(cat+"/quiescent-dir", true, "dir", strings.Join(append([]string{"files"}, listing...), " "))
		must(idx.Close())
		recs, err := readRootBolt(dir)
		must(err)
		ep := []string{"epochs"}
		for _, rc := range recs {
			ep = append(ep, fmt.Sprint(rc.epoch))
		}
		t.Emit(cat+"/bolt-epochs", true, "epochs", strings.Join(ep, " "))
		// a snapshot whose last reference (a reader, the merger's plan) is dropped after the persister's final clean-up
		// round stays recorded until the next round, which at quiescence never comes: numSnapshotsToKeep is reached
		// only up to such stragglers. The property asks that files do not accumulate, not for the exact number.
		within := "ok"
		if len(recs) > keep+2 || len(recs) == 0 {
			within = fmt.Sprintf("%d-snapshots-kept-with-numSnapshotsToKeep-%d", len(recs), keep)
		}
		t.Emit(cat+"/retention-bound", true, "echo ok", within)
		t.Emit(cat+"/fds-after-close", true, "echo 0", fmt.Sprint(c12OpenFDs(dir)))
		t.Emit(cat+"/maps-after-close", true, "echo 0", fmt.Sprint(c12OpenMaps(dir)))
		// and the directory opens
		if idx2, err := bleve.Open(dir); err != nil {
			t.Emit(cat+"/reopen", true, "echo ok", "open-failed:"+oneLine(err.Error()))
		} else {
			t.Emit(cat+"/reopen", true, "echo ok", "ok")
			idx2.Close()
		}
		os.RemoveAll(dir)
	}
	// files scheduled for an online copy: scripted schedules of overlapping copies, persist rounds and
	// purges (the explorer of C14); here only the file side is judged — every copy must find its files
	scen := 40
	if tier == "thorough" {
		scen = 80
	}
	c14Scripted(t, r, root, scen)
	// Close arriving at chosen points of the persister's and merger's work
	nClose := 9
	if tier == "thorough" {
		nClose = 45
	}
	c12CloseAtPoints(t, r, nClose)
}
