package main

import (
	"fmt"
	"math"
	"strings"
	"time"

	"github.com/blevesearch/bleve/v2"
	"github.com/blevesearch/bleve/v2/index/scorch"
	"github.com/blevesearch/bleve/v2/numeric"
	"github.com/blevesearch/bleve/v2/search/query"
	"github.com/blevesearch/bleve/v2/search/searcher"
)

func init() { props["c07"] = runC07 }

const c07WalkCap = 1 << 16 // filter calls allowed for one query's term enumeration before it is reported

// boundary float bit patterns
func c07BoundaryBits() []uint64 {
	b := []uint64{
		0, 1 << 63, // +0 -0
		1, 1<<63 | 1, // smallest subnormals
		0x000fffffffffffff, 0x800fffffffffffff, // largest subnormals
		0x0010000000000000, 0x8010000000000000, // smallest normals
		0x3ff0000000000000, 0xbff0000000000000, // +-1
		0x3fefffffffffffff, 0x3ff0000000000001,
		0xbfefffffffffffff, 0xbff0000000000001,
		0x7fefffffffffffff, 0xffefffffffffffff, // max finite
		0x7ff0000000000000, 0xfff0000000000000, // inf
		0x7ff0000000000001, 0x7ff8000000000000, 0x7fffffffffffffff, // NaNs
		0xfff0000000000001, 0xfff8000000000000, 0xffffffffffffffff,
		0x4000000000000000, 0x4014000000000000,
	}
	// every 4-bit precision-step boundary k*16^j +- 1 on the int64 side
	for j := 0; j < 16; j++ {
		for _, k := range []int64{1, 7, 8, 15, -1, -8} {
			v := k << (4 * uint(j))
			for _, d := range []int64{-1, 0, 1} {
				b = append(b, math.Float64bits(numeric.Int64ToFloat64(v+d)))
			}
		}
	}
	return b
}

func c07RandBits(r *Rng, bnd []uint64) uint64 {
	switch r.Intn(6) {
	case 0:
		return bnd[r.Intn(len(bnd))]
	case 1:
		return r.U64()
	case 2: // small integers and fractions
		return math.Float64bits(float64(r.Intn(2001)-1000) / float64([]int{1, 2, 4, 10, 3}[r.Intn(5)]))
	case 3: // neighbour of a boundary value
		return bnd[r.Intn(len(bnd))] + uint64(r.Intn(5)) - 2
	case 4: // random exponent, sparse mantissa
		return uint64(r.Intn(2))<<63 | uint64(r.Intn(2047))<<52 | (uint64(1)<<uint(r.Intn(52)))*uint64(r.Intn(2))
	default:
		return math.Float64bits(math.Ldexp(float64(r.Intn(1<<20))-float64(1<<19), r.Intn(200)-100))
	}
}

func c07RandI64(r *Rng) int64 {
	switch r.Intn(6) {
	case 0:
		return int64(r.U64())
	case 1: // near the ends
		return math.MinInt64 + int64(r.U64()>>(uint(r.Intn(60))+4))
	case 2:
		return math.MaxInt64 - int64(r.U64()>>(uint(r.Intn(60))+4))
	case 3: // near a precision boundary
		return (int64(r.Intn(33)-16) << (4 * uint(r.Intn(16)))) + int64(r.Intn(5)) - 2
	case 4:
		return int64(r.Intn(4001) - 2000)
	default:
		return int64(r.U64()) >> uint(r.Intn(64))
	}
}

func fmtRanges(rs [][2][]byte) string {
	parts := make([]string, len(rs))
	for i, r := range rs {
		parts[i] = hx(r[0]) + ":" + hx(r[1])
	}
	return fmt.Sprintf("%d %s", len(rs), strings.Join(parts, ","))
}

type walkAbort struct{}

// countWalk counts the filter calls the real termRange.Enumerate makes over all split ranges,
// aborting (by panic from the filter) once cap is exceeded.
func countWalk(a, b int64, cap int) (n int, over bool) {
	defer func() {
		if e := recover(); e != nil {
			if _, ok := e.(walkAbort); ok {
				over = true
				return
			}
			panic(e)
		}
	}()
	for _, rg := range searcher.VerifSplitInt64Range(a, b, 4) {
		searcher.VerifEnumerateRange(rg[0], rg[1], func([]byte) bool {
			n++
			if n > cap {
				panic(walkAbort{})
			}
			return false
		})
	}
	return n, false
}

func optBits(p *float64) string {
	if p == nil {
		return "nil"
	}
	return hx16(math.Float64bits(*p))
}
func optBool(p *bool) string {
	if p == nil {
		return "nil"
	}
	if *p {
		return "true"
	}
	return "false"
}

// adjusted int64 bounds exactly as NewNumericRangeSearcher computes them (used only to pre-check the walk)
func c07Adj(min, max *float64, im, iM *bool) (int64, int64) {
	mn, mx := math.Inf(-1), math.Inf(1)
	if min != nil {
		mn = *min
	}
	if max != nil {
		mx = *max
	}
	a, b := numeric.Float64ToInt64(mn), numeric.Float64ToInt64(mx)
	if im != nil && !*im && a != math.MaxInt64 {
		a++
	}
	if (iM == nil || !*iM) && b != math.MinInt64 {
		b--
	}
	return a, b
}

func searchIDs(idx bleve.Index, q query.Query, n int, timeout time.Duration) (map[string]bool, string) {
	type res struct {
		ids map[string]bool
		err string
	}
	ch := make(chan res, 1)
	go func() {
		defer func() {
			if e := recover(); e != nil {
				ch <- res{nil, fmt.Sprintf("PANIC")}
			}
		}()
		req := bleve.NewSearchRequestOptions(q, n+10, 0, false)
		sr, err := idx.Search(req)
		if err != nil {
			ch <- res{nil, "ERR"}
			return
		}
		ids := map[string]bool{}
		for _, h := range sr.Hits {
			if ids[h.ID] {
				ch <- res{nil, "DUP"}
				return
			}
			ids[h.ID] = true
		}
		if int(sr.Total) != len(ids) {
			ch <- res{nil, "TOTAL"}
			return
		}
		ch <- res{ids, ""}
	}()
	r, ok := waitVal(ch, timeout, 4*timeout)
	if !ok {
		return nil, "TIMEOUT"
	}
	return r.ids, r.err
}

func newMemIndex(engine string) bleve.Index {
	m := bleve.NewIndexMapping()
	var idx bleve.Index
	var err error
	if engine == "scorch" {
		idx, err = bleve.NewUsing("", m, scorch.Name, scorch.Name, nil)
	} else {
		idx, err = bleve.NewMemOnly(m)
	}
	must(err)
	return idx
}

func runC07(t *Trace, r *Rng, tier string, _ []string) {
	nVals, nRanges, nIdx := 6000, 3000, 6
	if tier == "thorough" {
		nVals, nRanges, nIdx = 600000, 300000, 60
	}
	bnd := c07BoundaryBits()

	// --- float <-> int64 and Go's < on float64
	for i := 0; i < nVals; i++ {
		var u uint64
		if i < len(bnd) {
			u = bnd[i]
		} else {
			u = c07RandBits(r, bnd)
		}
		f := math.Float64frombits(u)
		t.Emit("f2i", true, "f2i "+hx16(u), hx16(uint64(numeric.Float64ToInt64(f))))
		t.Emit("i2f", true, "i2f "+hx16(u), hx16(math.Float64bits(numeric.Int64ToFloat64(int64(u)))))
		var w uint64
		switch r.Intn(3) {
		case 0:
			w = c07RandBits(r, bnd)
		case 1:
			w = u + uint64(r.Intn(3)) - 1
		default:
			w = u ^ (1 << 63)
		}
		g := math.Float64frombits(w)
		t.Emit("flt", true, "flt "+hx16(u)+" "+hx16(w), fmt.Sprint(f < g))
	}

	// --- prefix coding
	for i := 0; i < nVals; i++ {
		v := c07RandI64(r)
		var shift uint
		switch r.Intn(4) {
		case 0:
			shift = uint(r.Intn(72))
		default:
			shift = uint(4 * r.Intn(16))
		}
		pc, err := numeric.NewPrefixCodedInt64(v, shift)
		if err != nil {
			t.Emit("pc-err", true, fmt.Sprintf("pc %d %d", v, shift), "err")
			continue
		}
		t.Emit("pc", true, fmt.Sprintf("pc %d %d", v, shift), hx(pc))
		term := []byte(pc)
		if r.Chance(25) { // damage the term
			term = append([]byte{}, term...)
			switch r.Intn(4) {
			case 0:
				term[r.Intn(len(term))] = byte(r.Intn(256))
			case 1:
				term = term[:r.Intn(len(term))]
			case 2:
				term = append(term, byte(r.Intn(256)))
			default:
				term[0] = byte(r.Intn(256))
			}
		}
		p := numeric.PrefixCoded(term)
		if s, err := p.Shift(); err != nil {
			t.Emit("shift-err", true, "shift "+hx(term), "err")
		} else {
			t.Emit("shift", true, "shift "+hx(term), fmt.Sprint(s))
		}
		if d, err := p.Int64(); err != nil {
			t.Emit("dec-err", true, "dec "+hx(term), "err")
		} else {
			t.Emit("dec", true, "dec "+hx(term), fmt.Sprint(d))
		}
		ok, s := numeric.ValidPrefixCodedTermBytes(term)
		t.Emit("valid", true, "valid "+hx(term), fmt.Sprintf("%v %d", ok, s))
		inc := searcher.VerifIncrementBytes(term)
		t.Emit("inc", true, "inc "+hx(term), hx(inc))
	}
	for _, tail := range [][]byte{{0xff}, {0xff, 0xff}, {0x00, 0xff}, {0x7f, 0xff, 0xff}, {}} {
		t.Emit("inc", true, "inc "+hx(tail), hx(searcher.VerifIncrementBytes(tail)))
	}

	// --- range splitting and the enumeration walk
	overCap := 0
	for i := 0; i < nRanges; i++ {
		a := c07RandI64(r)
		var b int64
		switch r.Intn(5) {
		case 0:
			b = c07RandI64(r)
		case 1: // narrow
			b = a + int64(r.Intn(64))
		case 2: // narrow around a 16^j boundary
			j := uint(4 * r.Intn(16))
			c := int64(r.Intn(33)-16) << j
			a = c - int64(r.Intn(40))
			b = c + int64(r.Intn(40))
		case 3:
			b = a + int64(r.U64()>>uint(r.Intn(64)))
		default: // float neighbourhoods: a few ulps around a round value
			f := []float64{1, 2, 0.5, 10, 100, 1e9, -1, -2, 1024, 0.1}[r.Intn(10)]
			a = numeric.Float64ToInt64(f) - int64(r.Intn(1<<uint(r.Intn(30))+1))
			b = numeric.Float64ToInt64(f) + int64(r.Intn(1<<uint(r.Intn(30))+1))
		}
		rs := searcher.VerifSplitInt64Range(a, b, 4)
		t.Emit("split", a <= b, fmt.Sprintf("split %d %d", a, b), fmtRanges(rs))
		if a <= b {
			n, over := countWalk(a, b, c07WalkCap)
			ans := fmt.Sprint(n)
			if over {
				ans = "over"
				overCap++
			}
			t.Emit("steps", true, fmt.Sprintf("steps %d %d %d", a, b, c07WalkCap), ans)
		}
	}
	t.Set("walks_over_cap", overCap)

	// --- bound adjustment and end-to-end range queries on real indexes
	for ix := 0; ix < nIdx; ix++ {
		engine := []string{"scorch", "upsidedown"}[ix%2]
		idx := newMemIndex(engine)
		nDocs := r.Range(8, 40)
		vals := make([]uint64, nDocs)
		batch := idx.NewBatch()
		for d := 0; d < nDocs; d++ {
			var u uint64
			for {
				u = c07RandBits(r, bnd)
				if d < 2 && r.Chance(70) { // most indexes hold both infinities
					u = []uint64{0x7ff0000000000000, 0xfff0000000000000}[d]
				}
				f := math.Float64frombits(u)
				if !math.IsNaN(f) && u != 1<<63 { // NaN and -0 are outside the property
					break
				}
			}
			vals[d] = u
			must(batch.Index(fmt.Sprintf("d%03d", d), map[string]interface{}{"n": math.Float64frombits(u)}))
			if r.Chance(30) {
				must(idx.Batch(batch))
				batch = idx.NewBatch()
			}
		}
		must(idx.Batch(batch))
		valToks := make([]string, nDocs)
		for d := range vals {
			valToks[d] = hx16(vals[d])
		}
		nq := 60
		if tier == "thorough" {
			nq = 200
		}
		for qi := 0; qi < nq; qi++ {
			var minP, maxP *float64
			var imP, iMP *bool
			pick := func() *float64 {
				if r.Chance(12) {
					return nil
				}
				var u uint64
				if r.Chance(15) { // the extremes: infinities and the largest finite values
					u = []uint64{0x7ff0000000000000, 0xfff0000000000000, 0x7fefffffffffffff, 0xffefffffffffffff}[r.Intn(4)]
				} else if r.Chance(50) {
					u = vals[r.Intn(nDocs)] + uint64(r.Intn(3)) - 1
				} else {
					u = c07RandBits(r, bnd)
				}
				f := math.Float64frombits(u)
				if math.IsNaN(f) {
					f = 0
				}
				return &f
			}
			minP, maxP = pick(), pick()
			if minP != nil && maxP != nil && *minP > *maxP && r.Chance(80) {
				minP, maxP = maxP, minP
			}
			if r.Chance(70) {
				b := r.Bool()
				imP = &b
			}
			if r.Chance(70) {
				b := r.Bool()
				iMP = &b
			}
			if minP == nil && maxP == nil {
				continue // rejected by Validate
			}
			a, b := c07Adj(minP, maxP, imP, iMP)
			op := fmt.Sprintf("nrq %s %s %s %s %s", optBits(minP), optBits(maxP), optBool(imP), optBool(iMP), strings.Join(valToks, " "))
			if a <= b {
				if _, over := countWalk(a, b, 1<<22); over {
					t.Emit("nrq-"+engine, true, op, "WALK-OVER-BUDGET")
					continue
				}
			}
			q := bleve.NewNumericRangeInclusiveQuery(minP, maxP, imP, iMP)
			q.SetField("n")
			ids, e := searchIDs(idx, q, nDocs, 30*time.Second)
			if e != "" {
				t.Emit("nrq-"+engine, true, op, e)
				continue
			}
			var sb strings.Builder
			any, all := false, true
			for d := 0; d < nDocs; d++ {
				if ids[fmt.Sprintf("d%03d", d)] {
					sb.WriteByte('1')
					any = true
				} else {
					sb.WriteByte('0')
					all = false
				}
			}
			t.Emit("nrq-"+engine, any && !all, op, sb.String())
		}
		idx.Close()
	}

	// --- date ranges at nanosecond resolution
	for ix := 0; ix < nIdx; ix++ {
		engine := []string{"scorch", "upsidedown"}[ix%2]
		idx := newMemIndex(engine)
		nDocs := r.Range(8, 30)
		base := time.Date(1990+r.Intn(60), time.Month(1+r.Intn(12)), 1+r.Intn(28), r.Intn(24), r.Intn(60), r.Intn(60), 0, time.UTC).UnixNano()
		// every third index lives at the far end of the representable range (2262): nanosecond counts there
		// have the bit patterns of NaNs and infinities once they travel as float64
		lateEdge := ix%3 == 2
		const maxNs = int64(9223329599000000000) // 2262-04-11T11:59:59Z, query.MaxRFC3339CompatibleTime
		if lateEdge {
			base = maxNs - int64(35+r.Intn(20))*24*3600*1_000_000_000 - int64(r.Intn(1_000_000_000))
		}
		ns := make([]int64, nDocs)
		batch := idx.NewBatch()
		for d := 0; d < nDocs; d++ {
			switch r.Intn(3) {
			case 0:
				ns[d] = base + int64(r.Intn(7)) - 3
			case 1:
				ns[d] = base + int64(r.Intn(2_000_000_000)) - 1_000_000_000
			default:
				ns[d] = base + (int64(r.Intn(2000))-1000)*3600*1_000_000_000
			}
			if lateEdge && r.Chance(15) {
				ns[d] = 0x7FF0000000000000 + int64(r.Intn(5)) - 2 // around the bit pattern of +Inf
			}
			if ns[d] > maxNs-10 || (lateEdge && ns[d] < 0) { // past the last representable instant (or wrapped around int64)
				ns[d] = maxNs - 10 - int64(r.Intn(1000))
			}
			must(batch.Index(fmt.Sprintf("d%03d", d), map[string]interface{}{"t": time.Unix(0, ns[d]).UTC()}))
		}
		must(idx.Batch(batch))
		toks := make([]string, nDocs)
		for d := range ns {
			toks[d] = fmt.Sprint(ns[d])
		}
		for qi := 0; qi < 40; qi++ {
			s := ns[r.Intn(nDocs)] + int64(r.Intn(5)) - 2
			e := ns[r.Intn(nDocs)] + int64(r.Intn(5)) - 2
			if s > e && r.Chance(80) {
				s, e = e, s
			}
			var imP, iMP *bool
			if r.Chance(70) {
				b := r.Bool()
				imP = &b
			}
			if r.Chance(70) {
				b := r.Bool()
				iMP = &b
			}
			var st, en time.Time
			ss, es := "nil", "nil"
			if !r.Chance(10) {
				st = time.Unix(0, s).UTC()
				ss = fmt.Sprint(s)
			}
			if !r.Chance(10) {
				en = time.Unix(0, e).UTC()
				es = fmt.Sprint(e)
			}
			if st.IsZero() && en.IsZero() {
				continue
			}
			op := fmt.Sprintf("drq %s %s %s %s %s", ss, es, optBool(imP), optBool(iMP), strings.Join(toks, " "))
			q := bleve.NewDateRangeInclusiveQuery(st, en, imP, iMP)
			q.SetField("t")
			// pre-check the walk
			mnf, mxf := numeric.Int64ToFloat64(math.MinInt64), numeric.Int64ToFloat64(math.MaxInt64)
			if !st.IsZero() {
				mnf = numeric.Int64ToFloat64(s)
			}
			if !en.IsZero() {
				mxf = numeric.Int64ToFloat64(e)
			}
			a, b := c07Adj(&mnf, &mxf, imP, iMP)
			if a <= b {
				if _, over := countWalk(a, b, 1<<22); over {
					t.Emit("drq-"+engine, true, op, "WALK-OVER-BUDGET")
					continue
				}
			}
			ids, er := searchIDs(idx, q, nDocs, 30*time.Second)
			if er != "" {
				t.Emit("drq-"+engine, true, op, er)
				continue
			}
			var sb strings.Builder
			any, all := false, true
			for d := 0; d < nDocs; d++ {
				if ids[fmt.Sprintf("d%03d", d)] {
					sb.WriteByte('1')
					any = true
				} else {
					sb.WriteByte('0')
					all = false
				}
			}
			t.Emit("drq-"+engine, any && !all, op, sb.String())
		}
		idx.Close()
	}
}
