package main

import (
	"fmt"
	"strings"

	"github.com/blevesearch/bleve/v2/search"
	"github.com/blevesearch/bleve/v2/search/searcher"
)

// ---- the phrase matcher (findPhrasePaths) against its Lean model (Model/Phrase.lean) ----

func c02PhrasePaths(t *Trace, r *Rng, n int) {
	vocab := []string{"a", "b", "c", "d"}
	for it := 0; it < n; it++ {
		// a field value: one or two array elements of words; positions count on across elements as the
		// analyzer numbers them (here simply 1, 2, 3 ... per element, with the element as array position)
		tlm := search.TermLocationMap{}
		var order []string
		nEl := 1
		if r.Chance(25) {
			nEl = 2
		}
		for el := 0; el < nEl; el++ {
			nw := r.Intn(9)
			for p := 1; p <= nw; p++ {
				w := vocab[r.Intn(len(vocab))]
				if r.Chance(12) {
					p += r.Intn(2) // a gap, as a removed stop word leaves one
				}
				var ap search.ArrayPositions
				if nEl > 1 {
					ap = search.ArrayPositions{uint64(el)}
				}
				if _, ok := tlm[w]; !ok {
					order = append(order, w)
				}
				tlm[w] = append(tlm[w], &search.Location{Pos: uint64(p), ArrayPositions: ap})
			}
		}
		// the phrase: 1-4 parts, alternatives and placeholders now and then
		var phrase [][]string
		np := 1 + r.Intn(4)
		exact := true
		for k := 0; k < np; k++ {
			switch c := r.Intn(100); {
			case c < 10:
				phrase = append(phrase, []string{""})
				exact = false
			case c < 14:
				phrase = append(phrase, []string{})
				exact = false
			case c < 30:
				phrase = append(phrase, []string{vocab[r.Intn(len(vocab))], vocab[r.Intn(len(vocab))]})
				exact = false
			default:
				phrase = append(phrase, []string{vocab[r.Intn(len(vocab))]})
			}
		}
		slop := 0
		if r.Chance(35) {
			slop = 1 + r.Intn(3)
			exact = false
		}
		// op line: slop, phrase, tlm
		var sb strings.Builder
		fmt.Fprintf(&sb, "phrase %d %d", slop, len(phrase))
		for _, alts := range phrase {
			fmt.Fprintf(&sb, " %d", len(alts))
			for _, a := range alts {
				sb.WriteString(" " + hs(a))
			}
		}
		fmt.Fprintf(&sb, " %d", len(order))
		for _, w := range order {
			fmt.Fprintf(&sb, " %s %d", hs(w), len(tlm[w]))
			for _, l := range tlm[w] {
				ap := 0
				if len(l.ArrayPositions) > 0 {
					ap = int(l.ArrayPositions[0]) + 1
				}
				fmt.Fprintf(&sb, " %d:%d", l.Pos, ap)
			}
		}
		res := func() (res string) {
			defer func() {
				if e := recover(); e != nil {
					res = "PANIC"
				}
			}()
			paths := searcher.VerifFindPhrasePaths(phrase, tlm, slop)
			ps := make([]string, len(paths))
			for i, p := range paths {
				parts := make([]string, len(p))
				for j, part := range p {
					idx := -1
					for k, l := range tlm[part.Term] {
						if l == part.Loc {
							idx = k
						}
					}
					parts[j] = fmt.Sprintf("%s:%d", hs(part.Term), idx)
				}
				ps[i] = strings.Join(parts, ",")
			}
			if len(ps) == 0 {
				return "-"
			}
			return strings.Join(ps, ";")
		}()
		cat := "phrase-paths/general"
		if exact {
			cat = "phrase-paths/exact"
		}
		t.Emit(cat, res != "-", sb.String(), res)
	}
}
