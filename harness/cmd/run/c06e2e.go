package main

import (
	"fmt"
	"strings"
	"time"

	"github.com/blevesearch/bleve/v2"
	"github.com/blevesearch/bleve/v2/mapping"
	"github.com/blevesearch/bleve/v2/numeric"
	"github.com/blevesearch/bleve/v2/search"
)

// End-to-end part of C06: Index.Search with Sort / From / Size / SearchAfter / SearchBefore on real
// indexes, under total score-independent sorts (a trailing _id key), compared with the model.

type e2eField struct {
	name  string
	kind  byte // k keyword, n numeric, t datetime
	multi bool
}

type e2eDoc struct {
	id   string
	vals map[string][]interface{} // field -> values
}

func e2eMapping(fields []e2eField) mapping.IndexMapping {
	m := bleve.NewIndexMapping()
	dm := bleve.NewDocumentMapping()
	for _, f := range fields {
		switch f.kind {
		case 'k':
			fm := bleve.NewTextFieldMapping()
			fm.Analyzer = "keyword"
			dm.AddFieldMappingsAt(f.name, fm)
		case 'n':
			dm.AddFieldMappingsAt(f.name, bleve.NewNumericFieldMapping())
		case 't':
			dm.AddFieldMappingsAt(f.name, bleve.NewDateTimeFieldMapping())
		}
	}
	m.DefaultMapping = dm
	return m
}

func (d e2eDoc) asMap() map[string]interface{} {
	mp := map[string]interface{}{}
	for f, vs := range d.vals {
		if len(vs) == 1 {
			mp[f] = vs[0]
		} else if len(vs) > 1 {
			mp[f] = vs
		}
	}
	return mp
}

// doc-value terms of a field of a document, as the index holds them
func (d e2eDoc) terms(f e2eField) [][]byte {
	var out [][]byte
	seen := map[string]bool{}
	for _, v := range d.vals[f.name] {
		switch x := v.(type) {
		case string:
			if !seen[x] {
				seen[x] = true
				out = append(out, []byte(x))
			}
		case float64:
			i64 := numeric.Float64ToInt64(x)
			for shift := uint(0); shift < 64; shift += 4 {
				out = append(out, numeric.MustNewPrefixCodedInt64(i64, shift))
			}
		case time.Time:
			for shift := uint(0); shift < 64; shift += 4 {
				out = append(out, numeric.MustNewPrefixCodedInt64(x.UnixNano(), shift))
			}
		}
	}
	return out
}

func runC06E2E(t *Trace, r *Rng, tier string) {
	nIdx, nReq := 6, 25
	if tier == "thorough" {
		nIdx, nReq = 80, 60
	}
	base := time.Date(2019, 5, 6, 7, 8, 9, 0, time.UTC)
	beforeRuns, afterRuns, pageRuns := 0, 0, 0
	for ix := 0; ix < nIdx; ix++ {
		engine := []string{"scorch", "upsidedown"}[ix%2]
		fields := []e2eField{
			{"k0", 'k', r.Bool()}, {"k1", 'k', r.Bool()}, {"n0", 'n', r.Bool()}, {"t0", 't', false},
		}
		idx := newIndexWith(engine, e2eMapping(fields))
		nDocs := r.Range(4, 30)
		docs := make([]e2eDoc, nDocs)
		// besides plain words: strings that happen to look like prefix-coded numeric terms (first byte 0x20..0x5f and
		// the matching length) with shift > 0: the auto sort type inspects exactly that. (A shift-0 lookalike is left out:
		// sorted "as date" it would have to be given back to SearchAfter as a date string, which it is not.)
		words := []string{"a", "b", "ab", "c", "zz", "m", "20240105", "Boston", "6543210", "20231231"}
		batch := idx.NewBatch()
		for i := range docs {
			d := e2eDoc{id: fmt.Sprintf("d%03d", i), vals: map[string][]interface{}{}}
			for _, f := range fields {
				n := []int{0, 1, 1, 1}[r.Intn(4)]
				if f.multi {
					n = []int{0, 1, 2, 3}[r.Intn(4)]
				}
				for j := 0; j < n; j++ {
					switch f.kind {
					case 'k':
						d.vals[f.name] = append(d.vals[f.name], words[r.Intn(len(words))])
					case 'n':
						d.vals[f.name] = append(d.vals[f.name], float64(r.Intn(9)-4)/2)
					case 't':
						d.vals[f.name] = append(d.vals[f.name], base.Add(time.Duration(r.Intn(6))*time.Hour+time.Duration(r.Intn(3))))
					}
				}
			}
			docs[i] = d
			must(batch.Index(d.id, d.asMap()))
			if r.Chance(25) {
				must(idx.Batch(batch))
				batch = idx.NewBatch()
			}
		}
		must(idx.Batch(batch))

		for qi := 0; qi < nReq; qi++ {
			// sort specification over the index's fields, made total by a trailing _id
			nk := 1 + r.Intn(2)
			var specs []sortSpecG
			var specFields []e2eField
			var sortOrder search.SortOrder
			for k := 0; k < nk; k++ {
				f := fields[r.Intn(len(fields))]
				s := sortSpecG{kind: 'F', ty: "asnd"[r.Intn(4)], mode: '0', missing: "lf"[r.Intn(2)], desc: r.Bool()}
				// "first value" mode is only well defined when the document has a single candidate term:
				// multi-valued fields, and numeric/date fields read as strings (16 terms per value, visited
				// in an engine-specific order), are sorted with min/max mode only
				if f.multi || (f.kind != 'k' && s.ty == 's') {
					s.mode = "mM"[r.Intn(2)]
				} else if r.Chance(30) {
					s.mode = "mM"[r.Intn(2)]
				}
				sf := s.build(0).(*search.SortField)
				sf.Field = f.name
				specs = append(specs, s)
				specFields = append(specFields, f)
				sortOrder = append(sortOrder, sf)
			}
			idSpec := sortSpecG{kind: 'I', desc: r.Bool()}
			specs = append(specs, idSpec)
			specFields = append(specFields, e2eField{})
			sortOrder = append(sortOrder, &search.SortDocID{Desc: idSpec.desc})

			ms := make([]rawMatch, nDocs)
			for i, d := range docs {
				ms[i] = rawMatch{score: 0, id: d.id, fields: make([][][]byte, len(specs))}
				for j := range specs {
					if specs[j].kind == 'F' {
						ms[i].fields[j] = d.terms(specFields[j])
					}
				}
			}
			mkReq := func(size, from int) *bleve.SearchRequest {
				req := bleve.NewSearchRequestOptions(bleve.NewMatchAllQuery(), size, from, false)
				req.SortByCustom(sortOrder.Copy())
				return req
			}
			full, err := idx.Search(mkReq(nDocs+3, 0))
			if err != nil || len(full.Hits) != nDocs {
				t.Emit("e2e-err/"+engine, true, "e2e-full", fmt.Sprint("ERR ", err))
				continue
			}
			fmtHits := func(sr *bleve.SearchResult) string {
				ids := make([]string, len(sr.Hits))
				for i, h := range sr.Hits {
					ids[i] = hx([]byte(h.ID))
				}
				l := strings.Join(ids, ",")
				if l == "" {
					l = "-"
				}
				return fmt.Sprintf("%d %s", sr.Total, l)
			}
			op := func(mode string, size, from int, afterTok string) string {
				s := collOp(specs, size, from, afterTok, ms)
				return "e2e " + mode + strings.TrimPrefix(s, "coll")
			}
			switch r.Intn(3) {
			case 0: // From/Size page
				size, from := r.Intn(nDocs+2), r.Intn(nDocs+2)
				sr, err := idx.Search(mkReq(size, from))
				if err != nil {
					t.Emit("e2e-page/"+engine, true, op("p", size, from, "-"), "ERR")
					continue
				}
				pageRuns++
				t.Emit("e2e-page/"+engine, true, op("p", size, from, "-"), fmtHits(sr))
			default: // search after / before from a hit of the full ordering
				h := full.Hits[r.Intn(len(full.Hits))]
				keys := make([]string, len(specs))
				keyToks := make([]string, len(specs))
				ok := true
				for i, s := range specs {
					if s.kind == 'F' && (s.ty == 'n' || s.ty == 'd') {
						if v, _ := numeric.ValidPrefixCodedTermBytes([]byte(h.Sort[i])); !v {
							ok = false // a missing-value sentinel has no decoded form a client could send
						}
						keys[i] = h.DecodedSort[i]
					} else {
						keys[i] = h.Sort[i]
					}
					keyToks[i] = hx([]byte(h.Sort[i]))
				}
				if !ok {
					continue
				}
				size := r.Intn(nDocs + 2)
				afterTok := "A 0 " + strings.Join(keyToks, " ")
				req := mkReq(size, 0) // From must be 0 with SearchAfter/SearchBefore (SearchRequest.Validate)
				if r.Bool() {
					req.SearchAfter = keys
					sr, err := idx.Search(req)
					if err != nil {
						t.Emit("e2e-after/"+engine, true, op("p", size, 0, afterTok), "ERR")
						continue
					}
					afterRuns++
					t.Emit("e2e-after/"+engine, true, op("p", size, 0, afterTok), fmtHits(sr))
				} else {
					req.SearchBefore = keys
					sr, err := idx.Search(req)
					if err != nil {
						t.Emit("e2e-before/"+engine, true, op("b", size, 0, afterTok), "ERR")
						continue
					}
					beforeRuns++
					t.Emit("e2e-before/"+engine, true, op("b", size, 0, afterTok), fmtHits(sr))
				}
			}
		}
		idx.Close()
	}
	t.Set("e2e_page_runs", pageRuns)
	t.Set("e2e_search_after_runs", afterRuns)
	t.Set("e2e_search_before_runs", beforeRuns)
}
