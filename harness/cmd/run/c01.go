package main

import (
	"context"
	"fmt"
	"os"
	"path/filepath"
	"sort"
	"strings"
	"sync/atomic"
	"time"

	"github.com/blevesearch/bleve/v2"
	"github.com/blevesearch/bleve/v2/index/scorch"
	"github.com/blevesearch/bleve/v2/index/upsidedown"
	"github.com/blevesearch/bleve/v2/index/upsidedown/store/boltdb"
	"github.com/blevesearch/bleve/v2/index/upsidedown/store/goleveldb"
	"github.com/blevesearch/bleve/v2/index/upsidedown/store/gtreap"
	"github.com/blevesearch/bleve/v2/index/upsidedown/store/moss"
	index "github.com/blevesearch/bleve_index_api"
)

func init() { props["c01"] = runC01 }

type c01Op struct {
	kind byte // i d s x
	key  string
	val  string // canonical doc / internal value
	doc  map[string]interface{}
}

type c01Config struct {
	name      string
	indexType string
	kvstore   string
	kvconfig  map[string]interface{}
	disk      bool
}

// A merge that has written its output is parked just before it is introduced until the next batch of
// the history has been applied (or 150 ms have passed): batches land in the window between the start
// of a merge and its introduction on purpose, not only when the scheduler happens to put them there.
type c01Gate struct {
	pending int32
	release chan struct{}
	parked  int32
}

var c01MergeGate = &c01Gate{release: make(chan struct{}, 1)}

func init() {
	scorch.RegistryEventCallbacks["verif-c01-merge-gate"] = func(e scorch.Event) bool {
		if e.Kind == scorch.EventKindMergeTaskIntroductionStart {
			atomic.StoreInt32(&c01MergeGate.pending, 1)
			select {
			case <-c01MergeGate.release:
				atomic.AddInt32(&c01MergeGate.parked, 1)
			case <-time.After(150 * time.Millisecond):
			}
			atomic.StoreInt32(&c01MergeGate.pending, 0)
		}
		return true
	}
}

// called after every batch of the history
func (g *c01Gate) batchApplied() {
	if atomic.LoadInt32(&g.pending) == 1 {
		select {
		case g.release <- struct{}{}:
		default:
		}
	}
}

func c01Configs() []c01Config {
	cfgs := []c01Config{
		{"scorch-disk", scorch.Name, scorch.Name, nil, true},
		{"scorch-disk-gated-merges", scorch.Name, scorch.Name, map[string]interface{}{"eventCallbackName": "verif-c01-merge-gate"}, true},
		{"scorch-mem", scorch.Name, scorch.Name, nil, false},
		{"upsidedown-boltdb", upsidedown.Name, boltdb.Name, nil, true},
		{"upsidedown-goleveldb", upsidedown.Name, goleveldb.Name, map[string]interface{}{"create_if_missing": true}, true},
		{"upsidedown-gtreap", upsidedown.Name, gtreap.Name, nil, false},
		{"upsidedown-moss", upsidedown.Name, moss.Name, nil, false},
	}
	for v := 11; v <= 17; v++ {
		cfgs = append(cfgs, c01Config{fmt.Sprintf("scorch-zap%d", v), scorch.Name, scorch.Name,
			map[string]interface{}{"forceSegmentType": "zap", "forceSegmentVersion": v}, true})
	}
	return cfgs
}

func (c c01Config) open(dir string) (bleve.Index, error) {
	path := ""
	if c.disk {
		path = filepath.Join(dir, "idx")
	}
	kv := map[string]interface{}{}
	for k, v := range c.kvconfig {
		kv[k] = v
	}
	if c.indexType == scorch.Name { // small merge plan so that background merges happen during short histories
		kv["scorchMergePlanOptions"] = map[string]interface{}{"maxSegmentsPerTier": 2, "segmentsPerMergeTask": 2, "floorSegmentSize": 1}
	}
	return bleve.NewUsing(path, bleve.NewIndexMapping(), c.indexType, c.kvstore, kv)
}

func c01CanonDoc(d index.Document) string {
	if d == nil {
		return "nil"
	}
	var parts []string
	d.VisitFields(func(f index.Field) {
		switch tf := f.(type) {
		case index.TextField:
			parts = append(parts, f.Name()+"="+tf.Text())
		case index.NumericField:
			n, _ := tf.Number()
			parts = append(parts, fmt.Sprintf("%s=%v", f.Name(), n))
		default:
			parts = append(parts, f.Name()+"=?"+string(f.Value()))
		}
	})
	sort.Strings(parts)
	return hx([]byte(strings.Join(parts, ";")))
}

func c01GenOps(r *Rng, n, idSpace, keySpace int) []c01Op {
	words := []string{"ab", "cd", "ef", "gh"}
	ops := make([]c01Op, 0, n)
	for i := 0; i < n; i++ {
		switch c := r.Intn(100); {
		case c < 50:
			id := fmt.Sprintf("doc%d", r.Intn(idSpace))
			doc := map[string]interface{}{"f0": words[r.Intn(4)]}
			parts := []string{"f0=" + doc["f0"].(string)}
			if r.Bool() {
				doc["f1"] = words[r.Intn(4)] + " " + words[r.Intn(4)]
				parts = append(parts, "f1="+doc["f1"].(string))
			}
			if r.Bool() {
				v := float64(r.Intn(7)) / 2
				doc["n"] = v
				parts = append(parts, fmt.Sprintf("n=%v", v))
			}
			sort.Strings(parts)
			ops = append(ops, c01Op{kind: 'i', key: id, val: strings.Join(parts, ";"), doc: doc})
		case c < 75:
			ops = append(ops, c01Op{kind: 'd', key: fmt.Sprintf("doc%d", r.Intn(idSpace+1))}) // may be absent
		case c < 90:
			ops = append(ops, c01Op{kind: 's', key: fmt.Sprintf("k%d", r.Intn(keySpace)), val: fmt.Sprintf("v%d", r.Intn(50))})
		default:
			ops = append(ops, c01Op{kind: 'x', key: fmt.Sprintf("k%d", r.Intn(keySpace))})
		}
	}
	return ops
}

func (o c01Op) tok() string {
	switch o.kind {
	case 'i':
		return fmt.Sprintf("i %s %s", hs(o.key), hs(o.val))
	case 'd':
		return "d " + hs(o.key)
	case 's':
		return fmt.Sprintf("s %s %s", hs(o.key), hs(o.val))
	default:
		return "x " + hs(o.key)
	}
}

func c01Observe(t *Trace, cat string, idx bleve.Index, idSpace, keySpace int, r *Rng) {
	cnt, err := idx.DocCount()
	if err != nil {
		t.Emit(cat+"/count", true, "count", "ERR")
	} else {
		t.Emit(cat+"/count", true, "count", fmt.Sprint(cnt))
	}
	for i := 0; i <= idSpace; i++ {
		id := fmt.Sprintf("doc%d", i)
		d, err := idx.Document(id)
		if err != nil {
			t.Emit(cat+"/doc", true, "doc "+hs(id), "ERR")
			continue
		}
		t.Emit(cat+"/doc", true, "doc "+hs(id), c01CanonDoc(d))
	}
	req := bleve.NewSearchRequestOptions(bleve.NewMatchAllQuery(), idSpace+10, 0, false)
	sr, err := idx.Search(req)
	if err != nil {
		t.Emit(cat+"/ids", true, "ids", "ERR")
	} else {
		ids := make([]string, len(sr.Hits))
		for i, h := range sr.Hits {
			ids[i] = h.ID
		}
		sort.Strings(ids)
		hexes := make([]string, len(ids))
		for i, id := range ids {
			hexes[i] = hs(id)
		}
		l := strings.Join(hexes, ",")
		if l == "" {
			l = "-"
		}
		if int(sr.Total) != len(ids) {
			l = fmt.Sprintf("TOTAL=%d %s", sr.Total, l)
		}
		t.Emit(cat+"/ids", true, "ids", l)
	}
	var sel []string
	for i := 0; i <= idSpace; i++ {
		if r.Chance(40) {
			sel = append(sel, fmt.Sprintf("doc%d", i))
		}
	}
	if len(sel) > 0 {
		sr, err := idx.Search(bleve.NewSearchRequestOptions(bleve.NewDocIDQuery(sel), idSpace+10, 0, false))
		toks := make([]string, len(sel))
		for i, s := range sel {
			toks[i] = hs(s)
		}
		if err != nil {
			t.Emit(cat+"/docids", true, "docids "+strings.Join(toks, " "), "ERR")
		} else {
			ids := make([]string, len(sr.Hits))
			for i, h := range sr.Hits {
				ids[i] = h.ID
			}
			sort.Strings(ids)
			hexes := make([]string, len(ids))
			for i, id := range ids {
				hexes[i] = hs(id)
			}
			l := strings.Join(hexes, ",")
			if l == "" {
				l = "-"
			}
			t.Emit(cat+"/docids", true, "docids "+strings.Join(toks, " "), l)
		}
	}
	for k := 0; k < keySpace; k++ {
		key := fmt.Sprintf("k%d", k)
		v, err := idx.GetInternal([]byte(key))
		res := "nil"
		if err != nil {
			res = "ERR"
		} else if v != nil {
			res = hx(v)
		}
		t.Emit(cat+"/int", true, "int "+hs(key), res)
	}
}

func runC01(t *Trace, r *Rng, tier string, _ []string) {
	nHist, maxOps := 9, 40
	if tier == "thorough" {
		nHist, maxOps = 60, 150
	}
	cfgs := c01Configs()
	tmpRoot, err := os.MkdirTemp("", "verif-c01-")
	must(err)
	defer os.RemoveAll(tmpRoot)
	reopens, forceMerges, emptyBatches, multiOpIds, injected := 0, 0, 0, 0, 0
	for h := 0; h < nHist; h++ {
		idSpace, keySpace := r.Range(4, 12), 3
		ops := c01GenOps(r, r.Range(10, maxOps), idSpace, keySpace)
		use := cfgs
		if tier != "thorough" { // quick: the six base configurations plus two segment versions per history
			use = append(append([]c01Config{}, cfgs[:7]...), cfgs[7+(h*2)%7], cfgs[7+(h*2+1)%7])
		}
		// the gated-merge configuration gets further partitions of the same history: each is another
		// placement of batches relative to merges
		for rep := 0; rep < 5; rep++ {
			use = append(use, cfgs[1])
		}
		for ui, cfg := range use {
			dir := filepath.Join(tmpRoot, fmt.Sprintf("%s-%d-%d", cfg.name, h, ui))
			must(os.MkdirAll(dir, 0o755))
			idx, err := cfg.open(dir)
			if err != nil {
				t.Note(fmt.Sprintf("cannot open %s: %v", cfg.name, err))
				continue
			}
			t.Emit(cfg.name+"/reset", false, "reset", "ok")
			rr := r.Fork() // the partition into batches differs per configuration
			pos := 0
			var lastMulti []string
			for pos < len(ops) {
				n := rr.Intn(7) // 0 = empty batch
				if pos+n > len(ops) {
					n = len(ops) - pos
				}
				var chunk []c01Op
				if cfg.name == "scorch-disk-gated-merges" && len(lastMulti) > 0 && rr.Chance(60) {
					// give a merge of the segments just written the time to reach its introduction
					for w := 0; w < 30 && atomic.LoadInt32(&c01MergeGate.pending) == 0; w++ {
						time.Sleep(time.Millisecond)
					}
				}
				if cfg.name == "scorch-disk-gated-merges" && atomic.LoadInt32(&c01MergeGate.pending) == 1 && len(lastMulti) > 0 && rr.Chance(75) {
					// a merge is parked before its introduction: touch one document of the latest multi-document
					// batch now (its segment had no deletions when the merge began, its other documents stay live)
					id := lastMulti[rr.Intn(len(lastMulti))]
					if rr.Chance(60) {
						chunk = []c01Op{{kind: 'd', key: id}}
					} else {
						o := c01GenOps(rr, 1, idSpace, keySpace)[0]
						for o.kind != 'i' {
							o = c01GenOps(rr, 1, idSpace, keySpace)[0]
						}
						o.key = id
						chunk = []c01Op{o}
					}
					n = 1
					injected++
				} else {
					chunk = ops[pos : pos+n]
					pos += n
				}
				if ni := func() int {
					c := 0
					for _, o := range chunk {
						if o.kind == 'i' {
							c++
						}
					}
					return c
				}(); ni >= 2 {
					if cfg.name == "scorch-disk-gated-merges" && atomic.LoadInt32(&c01MergeGate.pending) == 1 {
						// a merge planned before this batch is let through first: the next one to park will
						// have this batch's segment among its inputs
						c01MergeGate.batchApplied()
						for w := 0; w < 50 && atomic.LoadInt32(&c01MergeGate.pending) == 1; w++ {
							time.Sleep(time.Millisecond)
						}
					}
					lastMulti = lastMulti[:0]
					for _, o := range chunk {
						if o.kind == 'i' {
							lastMulti = append(lastMulti, o.key)
						}
					}
				}
				var sb strings.Builder
				sb.WriteString("batch")
				for _, o := range chunk {
					sb.WriteString(" " + o.tok())
				}
				res := "ok"
				if n == 1 && rr.Bool() { // single operations through the non-batch API
					o := chunk[0]
					var e error
					switch o.kind {
					case 'i':
						e = idx.Index(o.key, o.doc)
					case 'd':
						e = idx.Delete(o.key)
					case 's':
						e = idx.SetInternal([]byte(o.key), []byte(o.val))
					default:
						e = idx.DeleteInternal([]byte(o.key))
					}
					if e != nil {
						res = "ERR"
					}
				} else {
					if n == 0 {
						emptyBatches++
					}
					b := idx.NewBatch()
					seen := map[string]bool{}
					for _, o := range chunk {
						if o.kind == 'i' || o.kind == 'd' {
							if seen[o.key] {
								multiOpIds++
							}
							seen[o.key] = true
						}
						switch o.kind {
						case 'i':
							must(b.Index(o.key, o.doc))
						case 'd':
							b.Delete(o.key)
						case 's':
							b.SetInternal([]byte(o.key), []byte(o.val))
						default:
							b.DeleteInternal([]byte(o.key))
						}
					}
					if e := idx.Batch(b); e != nil {
						res = "ERR"
					}
				}
				t.Emit(cfg.name+"/batch", n > 0, sb.String(), res)
				c01MergeGate.batchApplied()
				if cfg.indexType == scorch.Name && cfg.disk && rr.Chance(10) { // ForceMerge on an in-memory scorch never returns (no merger loop): see C11
					if adv, err := idx.Advanced(); err == nil {
						if sc, ok := adv.(*scorch.Scorch); ok {
							_ = sc.ForceMerge(context.Background(), nil)
							forceMerges++
						}
					}
				}
				if cfg.disk && rr.Chance(8) {
					must(idx.Close())
					idx, err = bleve.Open(filepath.Join(dir, "idx"))
					must(err)
					reopens++
				}
				if rr.Chance(60) || pos >= len(ops) {
					c01Observe(t, cfg.name, idx, idSpace, keySpace, rr)
				}
			}
			idx.Close()
			os.RemoveAll(dir)
		}
	}
	t.Set("reopens", reopens)
	t.Set("batches_injected_into_merge_windows", injected)
	t.Set("merges_released_after_a_batch", int(atomic.LoadInt32(&c01MergeGate.parked)))
	t.Set("force_merges", forceMerges)
	t.Set("empty_batches", emptyBatches)
	t.Set("batches_with_several_ops_on_one_id", multiOpIds)
}
