package main

import (
	"fmt"
	"html"
	"sort"
	"strings"
	"time"
	"unicode"
	"unicode/utf8"

	"github.com/blevesearch/bleve/v2"
	"github.com/blevesearch/bleve/v2/analysis"
	"github.com/blevesearch/bleve/v2/mapping"
	"github.com/blevesearch/bleve/v2/registry"
	"github.com/blevesearch/bleve/v2/search/highlight"
	simplefrag "github.com/blevesearch/bleve/v2/search/highlight/fragmenter/simple"
)

func init() { props["c19"] = runC19 }

func c19Inputs(r *Rng, n int) [][]byte {
	fixed := []string{
		"", " ", "a", "Hello, World!", "the quick brown fox jumps over the lazy dog", "foo_bar-baz.qux@example.com http://x.y/z?q=1",
		"camelCaseWordsAndHTTPServer99", "naïve café résumé", "日本語のテキスト 中文文本 한국어", "مرحبا بالعالم", "Привет мир", "שלום עולם",
		"हिन्दी पाठ", "ไทยข้อความ", "don't can't l'avion d'accord", "<b>bold</b> &amp; <i>it</i>", "a‌b‍c", "x\x00y",
		"\xff", "\xff\xfe\xfd", "abc\xffdef", "\xe6\x97", "ab\xe6\x97\xa5\xe6", "\xf0\x9f\x98\x80 emoji \xf0\x9f", "\xc0\xaf", "\xed\xa0\x80",
		strings.Repeat("a", 300), strings.Repeat("日", 120), strings.Repeat("ab ", 200), "1234567890 3.14 -42 1e9", "A.B.C. U.S.A", "İstanbul ǅ ß",
		"­́́x", "tab\tsep\nnewline\r\n", "ｆｕｌｌｗｉｄｔｈ ﾊﾝｶｸ", "word" + strings.Repeat("\xff", 5) + "word",
	}
	out := make([][]byte, 0, len(fixed)+n)
	for _, f := range fixed {
		out = append(out, []byte(f))
	}
	alpha := []string{"a", "B", "é", "日", "本", " ", " ", ".", "'", "-", "_", "1", "\xff", "\xe6", "\x97", "ß", "ا", "я", "\t", "<", ">", "&", "‌"}
	for i := 0; i < n; i++ {
		var sb strings.Builder
		l := r.Intn(24)
		for k := 0; k < l; k++ {
			sb.WriteString(alpha[r.Intn(len(alpha))])
		}
		out = append(out, []byte(sb.String()))
	}
	return out
}

// runGuarded runs f with a time limit and converts panics into a result string
func runGuarded(limit time.Duration, f func() string) string {
	ch := make(chan string, 1)
	go func() {
		defer func() {
			if e := recover(); e != nil {
				msg := fmt.Sprint(e)
				if len(msg) > 60 {
					msg = msg[:60]
				}
				ch <- "PANIC:" + strings.ReplaceAll(msg, " ", "_")
			}
		}()
		ch <- f()
	}()
	s, ok := waitVal(ch, limit, 4*limit)
	if !ok {
		return "TIMEOUT"
	}
	return s
}

func checkTokenOffsets(ts analysis.TokenStream, n int) string {
	lastStart, lastPos := 0, 0
	for _, t := range ts {
		if t.Start < 0 || t.Start > t.End || t.End > n {
			return fmt.Sprintf("OFFSETS:%d-%d/%d", t.Start, t.End, n)
		}
		if t.Start < lastStart {
			return fmt.Sprintf("START-DECREASES:%d<%d", t.Start, lastStart)
		}
		if t.Position <= 0 || t.Position < lastPos {
			return fmt.Sprintf("POSITION:%d-after-%d", t.Position, lastPos)
		}
		lastStart, lastPos = t.Start, t.Position
	}
	return "ok"
}

func c19RuneToks(in []byte, isTok func(rune) bool) string {
	var parts []string
	off := 0
	for {
		r, size := utf8.DecodeRune(in[off:])
		if r == utf8.RuneError {
			parts = append(parts, fmt.Sprintf("%d:2", size))
			break
		}
		k := 0
		if isTok(r) {
			k = 1
		}
		parts = append(parts, fmt.Sprintf("%d:%d", size, k))
		off += size
	}
	return strings.Join(parts, " ")
}

func stripMarkup(fragment string) (plain string, marks []string) {
	var sb strings.Builder
	rest := fragment
	for {
		i := strings.Index(rest, "<mark>")
		if i < 0 {
			sb.WriteString(rest)
			break
		}
		sb.WriteString(rest[:i])
		rest = rest[i+len("<mark>"):]
		j := strings.Index(rest, "</mark>")
		if j < 0 {
			sb.WriteString(rest)
			break
		}
		marks = append(marks, html.UnescapeString(rest[:j]))
		sb.WriteString(rest[:j])
		rest = rest[j+len("</mark>"):]
	}
	plain = html.UnescapeString(sb.String())
	plain = strings.TrimPrefix(plain, "…")
	plain = strings.TrimSuffix(plain, "…")
	return plain, marks
}

func runC19(t *Trace, r *Rng, tier string, _ []string) {
	nRand := 150
	if tier == "thorough" {
		nRand = 4000
	}
	inputs := c19Inputs(r, nRand)
	cache := registry.NewCache()

	// --- (1) the modelled tokenizers against the Lean model
	for _, name := range []string{"letter", "whitespace"} {
		tk, err := cache.TokenizerNamed(name)
		must(err)
		isTok := unicode.IsLetter
		if name == "whitespace" {
			isTok = func(c rune) bool { return !unicode.IsSpace(c) }
		}
		for _, in := range inputs {
			ts := tk.Tokenize(in)
			parts := make([]string, len(ts))
			for i, tok := range ts {
				parts[i] = fmt.Sprintf("%d-%d-%d", tok.Start, tok.End, tok.Position)
			}
			l := strings.Join(parts, ",")
			if l == "" {
				l = "-"
			}
			t.Emit("ctok/"+name, len(ts) > 0, "ctok "+c19RuneToks(in, isTok), l)
		}
	}

	// --- (2) every registered component on every input, under recover and a time limit
	_, tokenizers := registry.TokenizerTypesAndInstances()
	_, analyzers := registry.AnalyzerTypesAndInstances()
	_, tokenFilters := registry.TokenFilterTypesAndInstances()
	_, charFilters := registry.CharFilterTypesAndInstances()
	sort.Strings(tokenizers)
	sort.Strings(analyzers)
	sort.Strings(tokenFilters)
	sort.Strings(charFilters)
	t.Set("registered_tokenizers", len(tokenizers))
	t.Set("registered_analyzers", len(analyzers))
	t.Set("registered_token_filters", len(tokenFilters))
	t.Set("registered_char_filters", len(charFilters))
	limit := 5 * time.Second
	for _, name := range tokenizers {
		tk, err := cache.TokenizerNamed(name)
		if err != nil {
			continue
		}
		for _, in := range inputs {
			res := runGuarded(limit, func() string { return checkTokenOffsets(tk.Tokenize(append([]byte{}, in...)), len(in)) })
			t.Emit("tokenizer/"+name, len(in) > 0, "echo ok", res+ifNotOK(res, in))
		}
	}
	for _, name := range analyzers {
		an, err := cache.AnalyzerNamed(name)
		if err != nil {
			continue
		}
		for _, in := range inputs {
			res := runGuarded(limit, func() string {
				an.Analyze(append([]byte{}, in...))
				return "ok"
			})
			t.Emit("analyzer/"+name, len(in) > 0, "echo ok", res+ifNotOK(res, in))
		}
	}
	uni, err := cache.TokenizerNamed("unicode")
	must(err)
	ws, err := cache.TokenizerNamed("whitespace")
	must(err)
	for _, name := range tokenFilters {
		tf, err := cache.TokenFilterNamed(name)
		if err != nil {
			continue
		}
		for ii, in := range inputs {
			base := uni
			if ii%2 == 1 {
				base = ws
			}
			res := runGuarded(limit, func() string {
				tf.Filter(base.Tokenize(append([]byte{}, in...)))
				return "ok"
			})
			t.Emit("token_filter/"+name, len(in) > 0, "echo ok", res+ifNotOK(res, in))
		}
	}
	for _, name := range charFilters {
		cf, err := cache.CharFilterNamed(name)
		if err != nil {
			continue
		}
		for _, in := range inputs {
			res := runGuarded(limit, func() string {
				cf.Filter(append([]byte{}, in...))
				return "ok"
			})
			t.Emit("char_filter/"+name, len(in) > 0, "echo ok", res+ifNotOK(res, in))
		}
	}

	// --- (2b) rune sweep: every rune of the blocks that text-folding tables single out (all runes in the
	// thorough tier), alone and three times in a row, through every char filter and token filter; one
	// line per component and block of 256 runes, carrying the first failure if there is one
	sweep := [][2]rune{{0x00, 0x250}, {0x370, 0x600}, {0x1e00, 0x3400}, {0xa640, 0xa800}, {0xfb00, 0xfb50}, {0xfe00, 0xfff0}, {0x1f100, 0x1f200}}
	// the thorough tier covers every rune, split over its four shards by block of 256 (the shards differ in their seed)
	allRunes := tier == "thorough"
	shard := int(runSeed % 4)
	if allRunes {
		sweep = [][2]rune{{0, 0x110000}}
	}
	quickBlocks := [][2]rune{{0x00, 0x250}, {0x370, 0x600}, {0x1e00, 0x3400}, {0xa640, 0xa800}, {0xfb00, 0xfb50}, {0xfe00, 0xfff0}, {0x1f100, 0x1f200}}
	inQuick := func(rn rune) bool {
		for _, b := range quickBlocks {
			if rn >= b[0] && rn < b[1] {
				return true
			}
		}
		return false
	}
	sweepRun := func(cat string, f func(in []byte)) {
		for _, blk := range sweep {
			for lo := blk[0]; lo < blk[1]; lo += 256 {
				if allRunes && int(lo/256)%4 != shard {
					continue
				}
				// one guarded call per block of 256 runes; `at` says where it stopped
				at := ""
				res := runGuarded(20*limit, func() string {
					for rn := lo; rn < lo+256 && rn < blk[1]; rn++ {
						if rn >= 0xd800 && rn < 0xe000 {
							continue
						}
						// alone, three times in a row, and (in the blocks text-folding tables single out) followed by a
						// combining or half-width sound mark: filters that fold a mark into the preceding rune index
						// tables by that rune
						reps := []int{1, 3}
						if inQuick(rn) {
							reps = []int{1, 3, -0xff9e, -0xff9f, -0x3099, -0x309a, -0x0301}
						}
						for _, rep := range reps {
							var in []byte
							if rep < 0 {
								in = []byte(string(rn) + string(rune(-rep)))
							} else {
								in = []byte(strings.Repeat(string(rn), rep))
							}
							at = fmt.Sprintf("@U+%04X*%d", rn, rep)
							f(in)
						}
					}
					return "ok"
				})
				first := "ok"
				if res != "ok" {
					first = res + at
				}
				t.Emit(cat, true, "echo ok", first)
			}
		}
	}
	for _, name := range charFilters {
		if cf, err := cache.CharFilterNamed(name); err == nil {
			sweepRun("rune-sweep/char_filter/"+name, func(in []byte) { cf.Filter(in) })
		}
	}
	for _, name := range tokenFilters {
		if tf, err := cache.TokenFilterNamed(name); err == nil {
			sweepRun("rune-sweep/token_filter/"+name, func(in []byte) { tf.Filter(uni.Tokenize(in)) })
		}
	}

	// --- (2c) fragmenter, location merge and formatters against the Lean model
	c19Highlight(t, r, tier, inputs)

	// --- (3) fragmenter with arbitrary term locations
	for i := 0; i < len(inputs); i++ {
		orig := inputs[i]
		nl := r.Intn(5)
		var locs highlight.TermLocations
		for k := 0; k < nl; k++ {
			s := r.Intn(len(orig) + 3)
			e := s + r.Intn(6)
			if r.Chance(10) {
				s, e = e, s
			}
			locs = append(locs, &highlight.TermLocation{Term: "x", Pos: k + 1, Start: s, End: e})
		}
		sort.Slice(locs, func(a, b int) bool { return locs[a].Start < locs[b].Start })
		for _, size := range []int{0, 1, 5, 200} {
			fr := simplefrag.NewFragmenter(size)
			res := runGuarded(limit, func() string {
				for _, f := range fr.Fragment(orig, locs) {
					if f.Start < 0 || f.Start > f.End || f.End > len(orig) {
						return fmt.Sprintf("FRAGMENT-BOUNDS:%d-%d/%d", f.Start, f.End, len(orig))
					}
				}
				return "ok"
			})
			valid := true
			for _, l := range locs {
				if l.Start > l.End || l.End > len(orig) {
					valid = false
				}
			}
			cat := "fragmenter/locations-inside"
			if !valid {
				cat = "fragmenter/locations-outside"
			}
			t.Emit(cat, nl > 0, "echo ok", res+ifNotOK(res, orig))
		}
	}

	// --- (4) highlighting end to end
	docs := []string{
		"the quick brown fox jumps over the lazy dog", "naïve café résumé with àccents and the fox", "日本語のテキストと中文文本",
		"fox <b>bold</b> &amp; fox's \"quoted\" fox", strings.Repeat("padding words here ", 30) + "fox at the end",
		"fox\xff broken \xe6\x97 bytes fox", "FOX Fox fOx", "a b c d e f g fox h i j k", "新型交换机 已经 上市", "Search engines index documents",
	}
	// generated documents over a small vocabulary (multi-byte words, HTML specials, a compound word): many matches,
	// overlapping and nested term locations
	docs = append(docs, "basketballs and ball games for foxes", "foxes fox basketballs")
	hv := []string{"fox", "foxes", "quick", "café", "日本", "basketballs", "ball", "<b>", "&amp;", "\"q\"", "it's", "über", "fox-trot", "the", "a", "x"}
	for i := 0; i < 30; i++ {
		var sb strings.Builder
		nw := 3 + r.Intn(40)
		for k := 0; k < nw; k++ {
			if k > 0 {
				sb.WriteString([]string{" ", " ", ", ", ". ", "  "}[r.Intn(5)])
			}
			sb.WriteString(hv[r.Intn(len(hv))])
		}
		docs = append(docs, sb.String())
	}
	for _, an := range []string{"standard", "simple", "en", "cjk", "web", "keyword", "expanding", "shrinking", "edge", "compound"} {
		m := bleve.NewIndexMapping()
		// analyzers that change the text length before tokenising: term locations then need not lie inside the stored value
		must(m.AddCustomCharFilter("expand", map[string]interface{}{"type": "regexp", "regexp": "o", "replace": "oooo"}))
		must(m.AddCustomCharFilter("shrink", map[string]interface{}{"type": "regexp", "regexp": "the |quick ", "replace": ""}))
		must(m.AddCustomAnalyzer("expanding", map[string]interface{}{"type": "custom", "tokenizer": "unicode", "char_filters": []interface{}{"expand"}, "token_filters": []interface{}{"to_lower"}}))
		must(m.AddCustomAnalyzer("shrinking", map[string]interface{}{"type": "custom", "tokenizer": "unicode", "char_filters": []interface{}{"shrink"}, "token_filters": []interface{}{"to_lower"}}))
		must(m.AddCustomTokenFilter("edge3", map[string]interface{}{"type": "edge_ngram", "min": 1.0, "max": 3.0}))
		must(m.AddCustomAnalyzer("edge", map[string]interface{}{"type": "custom", "tokenizer": "unicode", "token_filters": []interface{}{"to_lower", "edge3"}}))
		must(m.AddCustomTokenMap("subwords", map[string]interface{}{"type": "custom", "tokens": []interface{}{"ball", "fox"}}))
		must(m.AddCustomTokenFilter("comp", map[string]interface{}{"type": "dict_compound", "dict_token_map": "subwords", "min_word_size": 5.0, "min_subword_size": 2.0, "max_subword_size": 15.0}))
		must(m.AddCustomAnalyzer("compound", map[string]interface{}{"type": "custom", "tokenizer": "unicode", "token_filters": []interface{}{"to_lower", "comp"}}))
		dm := bleve.NewDocumentMapping()
		fm := bleve.NewTextFieldMapping()
		fm.Analyzer = an
		fm.Store = true
		fm.IncludeTermVectors = true
		dm.AddFieldMappingsAt("body", fm)
		m.DefaultMapping = dm
		idx := newIndexWith("scorch", mapping.IndexMapping(m))
		for i, d := range docs {
			_ = idx.Index(fmt.Sprintf("d%d", i), map[string]interface{}{"body": d})
		}
		for _, qs := range []string{"basketballs ball", "ball basket", "foxes fox", "it's", "über café", "<b>", "q", "fox trot", "the a x", "fox", "quick fox", "café", "日本", "bold fox", "padding end", "foooox", "dooooog over", "fo", "日本語のテキスト", "新型交换机", "sea eng", "search engines"} {
			for _, style := range []string{"html", "ansi"} {
				for _, fsize := range []int{0} {
					_ = fsize
					mq := bleve.NewMatchQuery(qs)
					mq.SetField("body")
					req := bleve.NewSearchRequest(mq)
					req.IncludeLocations = true
					req.Highlight = bleve.NewHighlightWithStyle(style)
					req.Highlight.AddField("body")
					var hlLines []string
					res := runGuarded(limit, func() string {
						sr, err := idx.Search(req)
						if err != nil {
							return "ERR"
						}
						if style != "html" || an == "keyword" || an == "expanding" || an == "shrinking" {
							return "ok" // the substring clause is only for analyzers that keep the text length
						}
						for _, h := range sr.Hits {
							var n int
							fmt.Sscanf(h.ID, "d%d", &n)
							stored := docs[n]
							if !utf8.ValidString(stored) {
								continue // stored value comes back sanitised
							}
							// every fragment against the Lean predicate: a piece of the value, marks at term locations
							var ls []*c19Loc
							for _, locs := range h.Locations["body"] {
								for _, l := range locs {
									ls = append(ls, &c19Loc{int(l.Start), int(l.End), 0})
								}
							}
							sort.Slice(ls, func(a, b int) bool { return ls[a].s < ls[b].s || (ls[a].s == ls[b].s && ls[a].e < ls[b].e) })
							for _, frag := range h.Fragments["body"] {
								hlLines = append(hlLines, fmt.Sprintf("hlcheck %s %s %s", hs(stored), c19LocsStr(ls), hs(frag)))
							}
							for _, frag := range h.Fragments["body"] {
								plain, marks := stripMarkup(frag)
								if !strings.Contains(stored, plain) {
									return "FRAGMENT-NOT-SUBSTRING:" + hs(frag)
								}
								for _, mk := range marks {
									if !strings.Contains(strings.ToLower(stored), strings.ToLower(mk)) {
										return "MARK-NOT-IN-SOURCE:" + hs(mk)
									}
								}
							}
						}
						return "ok"
					})
					t.Emit("highlight/"+an+"/"+style, true, "echo ok", res)
					for _, l := range hlLines {
						t.Emit("highlight-model/end-to-end/"+an, true, l, "ok")
					}
					hlLines = nil
				}
			}
		}
		idx.Close()
	}
}

func ifNotOK(res string, in []byte) string {
	if res == "ok" {
		return ""
	}
	return ":input=" + hx(in)
}
