package main

import (
	"context"
	"fmt"
	"io"
	"os"
	"path/filepath"
	"strings"
	"sync"
	"sync/atomic"
	"time"

	"github.com/blevesearch/bleve/v2"
	"github.com/blevesearch/bleve/v2/index/scorch"
	index "github.com/blevesearch/bleve_index_api"
)

func init() { props["c14"] = runC14 }

type copyResLocal struct{ lines [][3]string }

// a destination that is slow to hand out files (a network share): copies overlap each other and
// persist / merge / purge rounds of the source
type c14SlowDir struct {
	bleve.FileSystemDirectory
	r  *Rng
	mu *sync.Mutex
}

func (d c14SlowDir) GetWriter(p string) (io.WriteCloser, error) {
	d.mu.Lock()
	ms := d.r.Intn(90)
	d.mu.Unlock()
	time.Sleep(time.Duration(ms) * time.Millisecond)
	return d.FileSystemDirectory.GetWriter(p)
}

func runC14(t *Trace, r *Rng, tier string, _ []string) {
	workloads, dur := 4, 1500*time.Millisecond
	if tier == "thorough" {
		workloads, dur = 24, 2500*time.Millisecond
	}
	root, err := os.MkdirTemp("", "verif-c14-")
	must(err)
	defer os.RemoveAll(root)
	copies := 0
	for wl := 0; wl < workloads; wl++ {
		dir := filepath.Join(root, fmt.Sprintf("src%d", wl))
		ci := r.Intn(12)
		unsafeMode := wl%2 == 1
		conf := c03Config(ci, unsafeMode)
		cat := "safe"
		if unsafeMode {
			cat = "unsafe"
		}
		idx, err := bleve.NewUsing(dir, bleve.NewIndexMapping(), scorch.Name, scorch.Name, conf)
		must(err)
		adv, _ := idx.Advanced()
		W, K := 2, 2+r.Intn(2)
		ks := make([]string, W)
		for i := range ks {
			ks[i] = fmt.Sprint(K)
		}
		t.Emit(cat+"/reset", false, "reset "+strings.Join(ks, " "), "ok")
		acked := make([]int64, W)
		submitted := make([]int64, W)
		stop := make(chan struct{})
		var wg sync.WaitGroup
		for w := 0; w < W; w++ {
			wg.Add(1)
			go func(w int) {
				defer wg.Done()
				rr := NewRng(uint64(wl*10 + w))
				for n := 1; ; n++ {
					select {
					case <-stop:
						return
					default:
					}
					b := idx.NewBatch()
					c04FillBatch(b, w, n, K)
					if unsafeMode {
						nn := int64(n)
						b.SetPersistedCallback(func(err error) {
							if err == nil {
								for { // acknowledged = persisted callback fired
									cur := atomic.LoadInt64(&acked[w])
									if cur >= nn || atomic.CompareAndSwapInt64(&acked[w], cur, nn) {
										break
									}
								}
							}
						})
					}
					atomic.StoreInt64(&submitted[w], int64(n))
					if err := idx.Batch(b); err != nil {
						return
					}
					if !unsafeMode {
						atomic.StoreInt64(&acked[w], int64(n))
					}
					if rr.Chance(30) {
						time.Sleep(time.Duration(rr.Intn(3)) * time.Millisecond)
					}
					if rr.Chance(6) { // a lull: the persister catches up and the purger gets its turn
						time.Sleep(12 * time.Millisecond)
					}
				}
			}(w)
		}
		if sc, ok := adv.(*scorch.Scorch); ok {
			wg.Add(1)
			go func() {
				defer wg.Done()
				for {
					select {
					case <-stop:
						return
					case <-time.After(45 * time.Millisecond):
						ctx, cancel := context.WithTimeout(context.Background(), time.Second)
						_ = sc.ForceMerge(ctx, nil)
						cancel()
					}
				}
			}()
		}
		// a source client in the style of C04: the source must stay consistent while copies are taken
		var smu sync.Mutex
		var srcObs []string
		wg.Add(1)
		go func() {
			defer wg.Done()
			for {
				select {
				case <-stop:
					return
				default:
				}
				ack := make([]int, W)
				for w := range ack {
					ack[w] = int(atomic.LoadInt64(&acked[w]))
				}
				rd, err := adv.Reader()
				if err != nil {
					return
				}
				docs, ints, count, err := c04Observe(rd, W, K)
				rd.Close()
				if err == nil {
					smu.Lock()
					srcObs = append(srcObs, c04Line(1, ack, docs, ints, count))
					smu.Unlock()
				}
				time.Sleep(2 * time.Millisecond)
			}
		}()
		// the copiers: three at a time, so that copies overlap each other
		type copyRes struct{ lines [][3]string }
		var cr copyRes
		var crAll [][3]string
		var crmu, rmu sync.Mutex
		deadline := time.Now().Add(dur)
		var cwg sync.WaitGroup
		for cp := 0; cp < 5; cp++ {
			cwg.Add(1)
			go func(cp int) {
				defer cwg.Done()
				cr := &copyResLocal{}
				defer func() { crmu.Lock(); crAll = append(crAll, cr.lines...); crmu.Unlock() }()
				rr := NewRng(uint64(wl*31 + cp))
				for cn := 0; time.Now().Before(deadline); cn++ {
					time.Sleep(time.Duration(rr.Intn(40)) * time.Millisecond)
					dst := filepath.Join(root, fmt.Sprintf("copy%d-%d-%d", wl, cp, cn))
					ack := make([]int, W)
					for w := range ack {
						ack[w] = int(atomic.LoadInt64(&acked[w]))
					}
					ic, ok := idx.(bleve.IndexCopyable)
					if !ok {
						cr.lines = append(cr.lines, [3]string{cat + "/copy-call", "echo ok", "index-not-copyable"})
						break
					}
					var dest index.Directory = bleve.FileSystemDirectory(dst)
					if rr.Chance(60) {
						dest = c14SlowDir{bleve.FileSystemDirectory(dst), NewRng(rr.U64()), &rmu}
					}
					if err := ic.CopyTo(dest); err != nil {
						cr.lines = append(cr.lines, [3]string{cat + "/copy-call", "echo ok", "copy-failed:" + oneLine(err.Error())})
						continue
					}
					sub := make([]int, W)
					for w := range sub {
						sub[w] = int(atomic.LoadInt64(&submitted[w]))
					}
					crmu.Lock()
					copies++
					crmu.Unlock()
					cr.lines = append(cr.lines, [3]string{cat + "/copy-call", "echo ok", "ok"})
					// the copy's own directory: one snapshot, exactly its files
					recs, err := readRootBolt(dst)
					line := "copydir"
					if err != nil {
						line += " unreadable"
					}
					for _, rc := range recs {
						line += fmt.Sprintf(" %d:%s", rc.epoch, strings.Join(rc.files, ","))
					}
					line += " | " + strings.Join(c12ListZap(dst), " ")
					cr.lines = append(cr.lines, [3]string{cat + "/copy-dir", line, "ok"})
					cidx, err := bleve.Open(dst)
					if err != nil {
						cr.lines = append(cr.lines, [3]string{cat + "/copy-open", "echo ok", "open-failed:" + oneLine(err.Error())})
						continue
					}
					cadv, _ := cidx.Advanced()
					rd, err := cadv.Reader()
					must(err)
					docs, ints, count, err := c04Observe(rd, W, K)
					rd.Close()
					if err != nil {
						cr.lines = append(cr.lines, [3]string{cat + "/copy-open", "echo ok", "read-failed:" + oneLine(err.Error())})
					} else {
						cr.lines = append(cr.lines, [3]string{cat + "/copy-content", c04Line(10+cp, ack, docs, ints, count), "ok"})
						// nothing from the future either: no batch that had not been submitted when CopyTo returned
						fut := "ok"
						for w := range ints {
							if ints[w] > sub[w] {
								fut = fmt.Sprintf("writer %d: copy holds batch %d, only %d submitted", w, ints[w], sub[w])
							}
						}
						cr.lines = append(cr.lines, [3]string{cat + "/copy-not-from-future", "echo ok", fut})
					}
					// the copy is an index in its own right: it accepts a write
					if err := cidx.Index("extra", map[string]interface{}{"seq": 1.0}); err != nil {
						cr.lines = append(cr.lines, [3]string{cat + "/copy-writable", "echo ok", "write-failed:" + oneLine(err.Error())})
					} else {
						cr.lines = append(cr.lines, [3]string{cat + "/copy-writable", "echo ok", "ok"})
					}
					cidx.Close()
					os.RemoveAll(dst)
				}
			}(cp)
		}
		cwg.Wait()
		close(stop)
		wg.Wait()
		cr.lines = crAll
		for _, l := range cr.lines {
			t.Emit(l[0], true, l[1], l[2])
		}
		smu.Lock()
		if len(srcObs) > 600 {
			srcObs = srcObs[:600]
		}
		for _, l := range srcObs {
			t.Emit(cat+"/source-obs", true, l, "ok")
		}
		smu.Unlock()
		// the source ends with everything that was written
		fin := make([]int, W)
		for w := range fin {
			fin[w] = int(atomic.LoadInt64(&submitted[w]))
		}
		rd, err := adv.Reader()
		must(err)
		docs, ints, count, err := c04Observe(rd, W, K)
		rd.Close()
		must(err)
		t.Emit(cat+"/source-final", true, c04Line(1, fin, docs, ints, count), "ok")
		must(idx.Close())
		os.RemoveAll(dir)
	}
	t.Set("copies", copies)
	scen := 40
	if tier == "thorough" {
		scen = 150
	}
	c14Scripted(t, r, root, scen)
}
