package main

import (
	"fmt"
	"math"
	"sort"
	"strings"

	"github.com/blevesearch/bleve/v2"
	"github.com/blevesearch/bleve/v2/geo"
	"github.com/blevesearch/bleve/v2/index/scorch"
	"github.com/blevesearch/bleve/v2/numeric"
	"github.com/blevesearch/bleve/v2/search"
	"github.com/blevesearch/bleve/v2/search/query"
)

func init() { props["c18"] = runC18 }

type gpoint struct{ lon, lat float64 }

// independent great-circle distance in metres (haversine, mean earth radius as bleve uses: 6371008.7714 m ~ 6371.0087714 km)
func havMeters(a, b gpoint) float64 {
	const R = 6371008.7714
	toRad := math.Pi / 180
	dLat := (b.lat - a.lat) * toRad
	dLon := (b.lon - a.lon) * toRad
	s := math.Sin(dLat/2)*math.Sin(dLat/2) + math.Cos(a.lat*toRad)*math.Cos(b.lat*toRad)*math.Sin(dLon/2)*math.Sin(dLon/2)
	return 2 * R * math.Asin(math.Min(1, math.Sqrt(s)))
}

func genPoint(r *Rng) gpoint {
	switch r.Intn(10) {
	case 8, 9: // close to the date line, either side
		l := 180 - float64(r.Intn(3000))/1000
		if r.Bool() {
			l = -l
		}
		return gpoint{l, float64(r.Intn(1200)-600) / 10}
	case 0:
		return gpoint{[]float64{180, -180, 179.999999, -179.999999, 0}[r.Intn(5)], float64(r.Intn(1800)-900) / 10}
	case 1:
		return gpoint{float64(r.Intn(3600)-1800) / 10, []float64{90, -90, 89.999999, -89.999999, 0}[r.Intn(5)]}
	case 2: // near the date line
		l := 180 - float64(r.Intn(2000))/1000
		if r.Bool() {
			l = -l
		}
		return gpoint{l, float64(r.Intn(1400)-700) / 10}
	default:
		return gpoint{float64(r.Intn(3600000)-1800000) / 10000, float64(r.Intn(1700000)-850000) / 10000}
	}
}

func normLon(l float64) float64 {
	for l > 180 {
		l -= 360
	}
	for l < -180 {
		l += 360
	}
	return l
}

func runC18(t *Trace, r *Rng, tier string, _ []string) {
	nMorton, nIdx, nQ := 4000, 6, 40
	if tier == "thorough" {
		nMorton, nIdx, nQ = 400000, 60, 150
	}
	// --- integer layer against the Lean model
	for i := 0; i < nMorton; i++ {
		var a, b uint64
		switch r.Intn(4) {
		case 0:
			a, b = r.U64()&0xffffffff, r.U64()&0xffffffff
		case 1:
			a, b = uint64(1)<<uint(r.Intn(32)), uint64(1)<<uint(r.Intn(32))
		case 2:
			a, b = 0xffffffff>>uint(r.Intn(32)), 0xffffffff<<uint(r.Intn(32))&0xffffffff
		default:
			a, b = uint64(r.Intn(4)), 0xffffffff-uint64(r.Intn(4))
		}
		h := numeric.Interleave(a, b)
		t.Emit("interleave", true, fmt.Sprintf("il %x %x", a, b), hx16(h))
		t.Emit("deinterleave", true, fmt.Sprintf("dil %x", h), hx16(numeric.Deinterleave(h)))
		t.Emit("deinterleave", true, fmt.Sprintf("dil %x", h>>1), hx16(numeric.Deinterleave(h>>1)))
		x := r.U64()
		t.Emit("deinterleave-any", true, fmt.Sprintf("dil %x", x), hx16(numeric.Deinterleave(x)))
	}
	// point encoding round trip within its resolution (explored)
	for i := 0; i < nMorton/4; i++ {
		p := genPoint(r)
		h := geo.MortonHash(p.lon, p.lat)
		lon, lat := geo.MortonUnhashLon(h), geo.MortonUnhashLat(h)
		res := "ok"
		if math.Abs(lon-p.lon) > 1e-6 && math.Abs(math.Abs(lon-p.lon)-360) > 1e-6 || math.Abs(lat-p.lat) > 1e-6 {
			res = fmt.Sprintf("ROUNDTRIP:%v,%v->%v,%v", p.lon, p.lat, lon, lat)
		}
		t.Emit("point-roundtrip", true, "echo ok", strings.ReplaceAll(res, " ", ""))
	}

	// --- queries against a float oracle with a margin
	for ix := 0; ix < nIdx; ix++ {
		s2 := ix%2 == 1
		m := bleve.NewIndexMapping()
		dm := bleve.NewDocumentMapping()
		dm.AddFieldMappingsAt("loc", bleve.NewGeoPointFieldMapping())
		m.DefaultMapping = dm
		kv := map[string]interface{}{}
		if s2 {
			kv["spatialPlugin"] = "s2"
		}
		idx, err := bleve.NewUsing("", m, scorch.Name, scorch.Name, kv)
		must(err)
		cat := "plain"
		if s2 {
			cat = "s2"
		}
		nDocs := r.Range(20, 80)
		// convex polygons known before indexing, so that points can be planted in every part of them: long
		// thin kites (base low, tip far to the north: edges run close to meridians) and regular n-gons
		var polys [][]geo.Point
		var planted []gpoint
		for k := 0; k < 4; k++ {
			cx, cy := float64(r.Intn(2400)-1200)/10, float64(r.Intn(850)-600)/10
			var poly []geo.Point
			if k < 3 {
				w, h, H, dx := 2+float64(r.Intn(20))/10, 1+float64(r.Intn(20))/10, 20+float64(r.Intn(150))/10, float64(r.Intn(20)-10)/10
				poly = []geo.Point{{Lon: cx - w, Lat: cy}, {Lon: cx + w, Lat: cy}, {Lon: cx + w, Lat: cy + h}, {Lon: cx + dx, Lat: cy + H}}
			} else {
				nv := 5 + r.Intn(4)
				rad := 2 + float64(r.Intn(60))/10
				for i := 0; i < nv; i++ {
					a := 2 * math.Pi * float64(i) / float64(nv)
					poly = append(poly, geo.Point{Lon: cx + rad*math.Cos(a), Lat: cy + rad*math.Sin(a)})
				}
			}
			polys = append(polys, poly)
			// points towards every vertex (60 % of the way from the centroid), and a few outside
			var gx, gy float64
			for _, v := range poly {
				gx += v.Lon / float64(len(poly))
				gy += v.Lat / float64(len(poly))
			}
			for _, v := range poly {
				f := 0.3 + float64(r.Intn(40))/100
				planted = append(planted, gpoint{gx + f*(v.Lon-gx), gy + f*(v.Lat-gy)})
			}
			planted = append(planted, gpoint{gx, gy}, gpoint{gx + 9, gy}, gpoint{gx - 9, gy + 3})
		}
		nDocs += len(planted)
		pts := make([][]gpoint, nDocs)
		batch := idx.NewBatch()
		for d := 0; d < nDocs; d++ {
			np := 1
			if r.Chance(20) {
				np = 2
			}
			var vals []interface{}
			for k := 0; k < np; k++ {
				p := genPoint(r)
				if k == 0 && d < len(planted) {
					p = planted[d]
				}
				pts[d] = append(pts[d], p)
				vals = append(vals, map[string]interface{}{"lon": p.lon, "lat": p.lat})
			}
			var v interface{} = vals[0]
			if np > 1 {
				v = vals
			}
			must(batch.Index(fmt.Sprintf("d%03d", d), map[string]interface{}{"loc": v}))
		}
		must(idx.Batch(batch))
		run := func(q query.Query) (map[string]bool, string) {
			req := bleve.NewSearchRequestOptions(q, nDocs+5, 0, false)
			sr, err := idx.Search(req)
			if err != nil {
				return nil, "ERR:" + strings.ReplaceAll(err.Error(), " ", "_")
			}
			got := map[string]bool{}
			for _, h := range sr.Hits {
				got[h.ID] = true
			}
			return got, ""
		}
		judge := func(kind string, got map[string]bool, clearlyIn, clearlyOut func(p gpoint) bool, desc string) {
			var bad []string
			for d := 0; d < nDocs; d++ {
				id := fmt.Sprintf("d%03d", d)
				anyIn, allOut := false, true
				for _, p := range pts[d] {
					if clearlyIn(p) {
						anyIn = true
					}
					if !clearlyOut(p) {
						allOut = false
					}
				}
				if anyIn && !got[id] {
					bad = append(bad, fmt.Sprintf("MISSING:%s%v", id, pts[d]))
				}
				if allOut && got[id] {
					bad = append(bad, fmt.Sprintf("EXTRA:%s%v", id, pts[d]))
				}
			}
			res := "ok"
			if len(bad) > 0 {
				sort.Strings(bad)
				res = strings.ReplaceAll(strings.Join(bad, ";")+"@"+desc, " ", "_")
				if len(res) > 600 {
					res = res[:600]
				}
			}
			t.Emit(cat+"/"+kind, len(got) > 0 && len(got) < nDocs, "echo ok", res)
		}
		for qi := 0; qi < nQ; qi++ {
			switch r.Intn(3) {
			case 0: // distance
				c := genPoint(r)
				if r.Chance(50) { // circles around the date line and the poles
					c = gpoint{[]float64{179.5, 180, -179.5, -180, 179.99, -179.99, 178.5, -178.5, 0}[r.Intn(9)], []float64{0, 10, -20, 45, -60, 88, -89, 89.9}[r.Intn(8)]}
				}
				radius := []float64{10, 500, 20000, 150000, 1000000, 3000000}[r.Intn(6)] * (0.5 + float64(r.Intn(100))/100)
				q := bleve.NewGeoDistanceQuery(c.lon, c.lat, fmt.Sprintf("%fm", radius))
				q.SetField("loc")
				got, e := run(q)
				if e != "" {
					t.Emit(cat+"/distance-err", true, "echo ok", e)
					continue
				}
				margin := 10.0 + radius*5e-3 // bleve uses a latitude-dependent earth diameter and table-driven trigonometry
				judge("distance", got,
					func(p gpoint) bool { return havMeters(c, p) < radius-margin },
					func(p gpoint) bool { return havMeters(c, p) > radius+margin },
					fmt.Sprintf("centre=%v,%v radius=%fm", c.lon, c.lat, radius))
			case 1: // bounding box, possibly crossing the date line
				var west, east float64
				if r.Chance(35) {
					west = 170 + float64(r.Intn(100))/10
					east = -170 - float64(r.Intn(100))/10
				} else {
					a, b := float64(r.Intn(3600)-1800)/10, float64(r.Intn(3600)-1800)/10
					west, east = math.Min(a, b), math.Max(a, b)
				}
				la, lb := float64(r.Intn(1800)-900)/10, float64(r.Intn(1800)-900)/10
				south, north := math.Min(la, lb), math.Max(la, lb)
				if north-south < 0.5 || (west <= east && east-west < 0.5) {
					continue
				}
				q := bleve.NewGeoBoundingBoxQuery(west, north, east, south)
				q.SetField("loc")
				got, e := run(q)
				if e != "" {
					t.Emit(cat+"/box-err", true, "echo ok", e)
					continue
				}
				const mg = 1e-5
				inLon := func(l float64, m float64) bool {
					if west <= east {
						return l > west+m && l < east-m
					}
					return l > west+m || l < east-m
				}
				outLon := func(l float64, m float64) bool {
					if west <= east {
						return l < west-m || l > east+m
					}
					return l < west-m && l > east+m
				}
				judge("box", got,
					func(p gpoint) bool {
						return inLon(p.lon, mg) && p.lat > south+mg && p.lat < north-mg && math.Abs(p.lon) < 180-mg
					},
					func(p gpoint) bool {
						return (outLon(p.lon, mg) && math.Abs(p.lon) < 180-mg) || p.lat < south-mg || p.lat > north+mg
					},
					fmt.Sprintf("west=%v east=%v south=%v north=%v", west, east, south, north))
			default: // convex polygon (a rectangle rotated into a quadrilateral), away from the date line
				cx, cy := float64(r.Intn(2400)-1200)/10, float64(r.Intn(1200)-600)/10
				w, h := 1+float64(r.Intn(200))/10, 1+float64(r.Intn(100))/10
				poly := []geo.Point{{Lon: cx - w, Lat: cy - h}, {Lon: cx + w, Lat: cy - h/2}, {Lon: cx + w/2, Lat: cy + h}, {Lon: cx - w/2, Lat: cy + h/2}}
				q := query.NewGeoBoundingPolygonQuery(poly)
				q.SetField("loc")
				got, e := run(q)
				if e != "" {
					t.Emit(cat+"/polygon-err", true, "echo ok", e)
					continue
				}
				inside := func(p gpoint, m float64) (in bool, clear bool) {
					// convex, counter-clockwise: inside iff left of every edge; clear iff far from every edge line
					in, clear = true, true
					for i := range poly {
						a, b := poly[i], poly[(i+1)%len(poly)]
						cross := (b.Lon-a.Lon)*(p.lat-a.Lat) - (b.Lat-a.Lat)*(p.lon-a.Lon)
						d := cross / math.Hypot(b.Lon-a.Lon, b.Lat-a.Lat)
						if d < 0 {
							in = false
						}
						if math.Abs(d) < m {
							clear = false
						}
					}
					return
				}
				judge("polygon", got,
					func(p gpoint) bool { in, cl := inside(p, 1e-4); return in && cl },
					func(p gpoint) bool { in, cl := inside(p, 1e-4); return !in && cl },
					fmt.Sprintf("poly=%v", poly))
			}
		}
		// the planted polygons: vertex list started at any vertex, open or closed (first vertex repeated)
		for pi, base := range polys {
			for rot := 0; rot < len(base); rot++ {
				poly := append(append([]geo.Point{}, base[rot:]...), base[:rot]...)
				given := poly
				form := "open"
				if r.Chance(25) {
					given = append(append([]geo.Point{}, poly...), poly[0])
					form = "closed"
				}
				q := query.NewGeoBoundingPolygonQuery(given)
				q.SetField("loc")
				got, e := run(q)
				if e != "" {
					t.Emit(cat+"/polygon-err", true, "echo ok", e)
					continue
				}
				// margin half a degree: the edges are straight lines in lon/lat for the filter and arcs for s2
				mg := 0.5
				if pi == 3 {
					mg = 0.2
				}
				inside := func(p gpoint) (in bool, clear bool) {
					in, clear = true, true
					for i := range poly {
						a, b := poly[i], poly[(i+1)%len(poly)]
						cross := (b.Lon-a.Lon)*(p.lat-a.Lat) - (b.Lat-a.Lat)*(p.lon-a.Lon)
						d := cross / math.Hypot(b.Lon-a.Lon, b.Lat-a.Lat)
						if d < 0 {
							in = false
						}
						if math.Abs(d) < mg {
							clear = false
						}
					}
					return
				}
				judge("polygon-planted-"+form, got,
					func(p gpoint) bool { in, cl := inside(p); return in && cl },
					func(p gpoint) bool { in, cl := inside(p); return !in && cl && math.Abs(p.lon) < 179 },
					fmt.Sprintf("poly=%v", given))
			}
		}
		// sort by distance orders hits by true distance
		for k := 0; k < 4; k++ {
			c := genPoint(r)
			req := bleve.NewSearchRequestOptions(bleve.NewMatchAllQuery(), nDocs+5, 0, false)
			sd, err := search.NewSortGeoDistance("loc", "m", c.lon, c.lat, r.Bool())
			if err != nil {
				continue
			}
			desc := sd.Desc
			req.SortByCustom(search.SortOrder{sd})
			sr, err := idx.Search(req)
			if err != nil {
				t.Emit(cat+"/sort-err", true, "echo ok", "ERR")
				continue
			}
			res := "ok"
			prev := math.Inf(-1)
			if desc {
				prev = math.Inf(1)
			}
			for _, h := range sr.Hits {
				var d int
				fmt.Sscanf(h.ID, "d%d", &d)
				if len(pts[d]) != 1 {
					continue // multi-valued: which value sorts is a mode question, not judged here
				}
				dist := havMeters(c, pts[d][0])
				tol := 10.0 + dist*5e-3
				if (!desc && dist < prev-tol) || (desc && dist > prev+tol) {
					res = fmt.Sprintf("ORDER:%s_dist=%f_after=%f@centre=%v,%v", h.ID, dist, prev, c.lon, c.lat)
					break
				}
				prev = dist
			}
			t.Emit(cat+"/distance-sort", true, "echo ok", res)
		}
		idx.Close()
	}
}
