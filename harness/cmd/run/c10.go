package main

import (
	"fmt"
	"math"
	"math/big"
	"regexp"
	"sort"
	"strings"
	"time"

	"github.com/blevesearch/bleve/v2"
	"github.com/blevesearch/bleve/v2/index/scorch"
	"github.com/blevesearch/bleve/v2/mapping"
	"github.com/blevesearch/bleve/v2/search"
	"github.com/blevesearch/bleve/v2/search/query"
)

func init() { props["c10"] = runC10 }

type c10Doc struct {
	id    string
	tags  []string
	price []float64
	when  []time.Time
	body  string
}

func c10Mapping() mapping.IndexMapping {
	m := bleve.NewIndexMapping()
	dm := bleve.NewDocumentMapping()
	kw := bleve.NewTextFieldMapping()
	kw.Analyzer = "keyword"
	dm.AddFieldMappingsAt("tags", kw)
	dm.AddFieldMappingsAt("price", bleve.NewNumericFieldMapping())
	dm.AddFieldMappingsAt("when", bleve.NewDateTimeFieldMapping())
	body := bleve.NewTextFieldMapping()
	body.Analyzer = "standard"
	dm.AddFieldMappingsAt("body", body)
	m.DefaultMapping = dm
	return m
}

func newIndexWith(engine string, m mapping.IndexMapping) bleve.Index {
	var idx bleve.Index
	var err error
	if engine == "scorch" {
		idx, err = bleve.NewUsing("", m, scorch.Name, scorch.Name, nil)
	} else {
		idx, err = bleve.NewMemOnly(m)
	}
	must(err)
	return idx
}

func (d c10Doc) asMap() map[string]interface{} {
	mp := map[string]interface{}{"body": d.body}
	if len(d.tags) == 1 {
		mp["tags"] = d.tags[0]
	} else if len(d.tags) > 1 {
		mp["tags"] = d.tags
	}
	if len(d.price) == 1 {
		mp["price"] = d.price[0]
	} else if len(d.price) > 1 {
		mp["price"] = d.price
	}
	if len(d.when) == 1 {
		mp["when"] = d.when[0]
	} else if len(d.when) > 1 {
		mp["when"] = d.when
	}
	return mp
}

var c10Tags = []string{"red", "green", "blue", "re", "redder", "b", "zz", "grey"}
var c10Words = []string{"alpha", "beta", "gamma", "delta"}

func genC10Doc(r *Rng, i int, base time.Time) c10Doc {
	d := c10Doc{id: fmt.Sprintf("d%03d", i)}
	nt := []int{0, 1, 1, 2, 3}[r.Intn(5)]
	for j := 0; j < nt; j++ {
		d.tags = append(d.tags, c10Tags[r.Intn(len(c10Tags))])
	}
	np := []int{0, 1, 1, 1, 2}[r.Intn(5)]
	for j := 0; j < np; j++ {
		p := float64(r.Intn(9)) * 2.5
		dup := false
		for _, q := range d.price {
			if q == p {
				dup = true
			}
		}
		if !dup { // duplicate numeric values inside one document are an excluded point
			d.price = append(d.price, p)
		}
	}
	if !r.Chance(25) {
		d.when = append(d.when, base.Add(time.Duration(r.Intn(10))*time.Hour).Add(time.Duration(r.Intn(3))))
	}
	nw := 1 + r.Intn(3)
	ws := make([]string, nw)
	for j := range ws {
		ws[j] = c10Words[r.Intn(len(c10Words))]
	}
	d.body = strings.Join(ws, " ")
	return d
}

func termsTok(vals []string) string {
	if len(vals) == 0 {
		return "-"
	}
	ps := make([]string, len(vals))
	for i, v := range vals {
		if v == "" {
			ps[i] = "e"
		} else {
			ps[i] = hx([]byte(v))
		}
	}
	return strings.Join(ps, ",")
}

func fmtFacet(fr *search.FacetResult) string {
	var bs []string
	if fr.Terms != nil {
		for _, t := range fr.Terms.Terms() {
			bs = append(bs, hx([]byte(t.Term))+":"+fmt.Sprint(t.Count))
		}
	}
	for _, n := range fr.NumericRanges {
		bs = append(bs, hx([]byte(n.Name))+":"+fmt.Sprint(n.Count))
	}
	for _, n := range fr.DateRanges {
		bs = append(bs, hx([]byte(n.Name))+":"+fmt.Sprint(n.Count))
	}
	l := strings.Join(bs, ",")
	if l == "" {
		l = "-"
	}
	return fmt.Sprintf("%d %d %d %s", fr.Total, fr.Missing, fr.Other, l)
}

func runC10(t *Trace, r *Rng, tier string, _ []string) {
	nIdx, nReq := 8, 30
	if tier == "thorough" {
		nIdx, nReq = 120, 80
	}
	base := time.Date(2021, 3, 4, 5, 6, 7, 0, time.UTC)
	sameFieldTwice, sortedOnFacetField := 0, 0
	for ix := 0; ix < nIdx; ix++ {
		engine := []string{"scorch", "upsidedown"}[ix%2]
		idx := newIndexWith(engine, c10Mapping())
		nDocs := r.Range(5, 40)
		docs := make([]c10Doc, nDocs)
		byID := map[string]c10Doc{}
		batch := idx.NewBatch()
		for i := range docs {
			docs[i] = genC10Doc(r, i, base)
			byID[docs[i].id] = docs[i]
			must(batch.Index(docs[i].id, docs[i].asMap()))
			if r.Chance(20) {
				must(idx.Batch(batch))
				batch = idx.NewBatch()
			}
		}
		must(idx.Batch(batch))
		// a few updates and deletes so that segments carry obsoleted documents
		for k := 0; k < nDocs/5; k++ {
			i := r.Intn(nDocs)
			if r.Bool() {
				docs[i] = genC10Doc(r, i, base)
				byID[docs[i].id] = docs[i]
				must(idx.Index(docs[i].id, docs[i].asMap()))
			} else {
				delete(byID, docs[i].id)
				must(idx.Delete(docs[i].id))
			}
		}
		for qi := 0; qi < nReq; qi++ {
			var q query.Query
			switch r.Intn(4) {
			case 0:
				q = bleve.NewMatchAllQuery()
			case 1:
				tq := bleve.NewTermQuery(c10Words[r.Intn(len(c10Words))])
				tq.SetField("body")
				q = tq
			case 2:
				a := bleve.NewTermQuery(c10Words[r.Intn(len(c10Words))])
				a.SetField("body")
				b := bleve.NewTermQuery(c10Tags[r.Intn(len(c10Tags))])
				b.SetField("tags")
				q = bleve.NewDisjunctionQuery(a, b)
			default:
				q = bleve.NewMatchNoneQuery()
			}
			// the matching documents, from a plain request without facets
			full := bleve.NewSearchRequestOptions(q, nDocs+5, 0, false)
			fr, err := idx.Search(full)
			must(err)
			var matched []c10Doc
			for _, h := range fr.Hits {
				matched = append(matched, byID[h.ID])
			}
			sort.Slice(matched, func(i, j int) bool { return matched[i].id < matched[j].id })

			req := bleve.NewSearchRequestOptions(q, r.Intn(6), r.Intn(5), false)
			switch r.Intn(7) {
			case 5: // two sort keys over one field, which is also a facet field
				req.SortBy([]string{"price", "-price", "_id"})
				sortedOnFacetField++
			case 6:
				req.SortBy([]string{"-tags", "when", "tags"})
				sortedOnFacetField++
			case 0:
				req.SortBy([]string{"-_score", "_id"})
			case 1:
				req.SortBy([]string{"tags", "_id"})
				sortedOnFacetField++
			case 2:
				req.SortBy([]string{"-price"})
				sortedOnFacetField++
			case 3:
				req.SortBy([]string{"_id"})
			}
			type fdesc struct {
				name string
				op   string
			}
			var fds []fdesc
			nf := 1 + r.Intn(3)
			fieldsUsed := map[string]int{}
			for fi := 0; fi < nf; fi++ {
				name := fmt.Sprintf("f%d", fi)
				kind := r.Intn(3)
				if fi > 0 && r.Chance(40) { // another facet over the field of the first one
					kind = map[string]int{"tags": 0, "price": 1, "when": 2}[fds0field]
				}
				switch kind {
				case 0:
					size := r.Intn(len(c10Tags) + 2)
					f := bleve.NewFacetRequest("tags", size)
					pfx, acc := "-", "*"
					switch r.Intn(4) {
					case 0:
						p := []string{"re", "b", "g", "x"}[r.Intn(4)]
						f.SetPrefixFilter(p)
						pfx = hx([]byte(p))
					case 1:
						pat := []string{"^re", "e", "^b$|^zz$", "d+er"}[r.Intn(4)]
						f.SetRegexFilter(pat)
						re := regexp.MustCompile(pat)
						var ok []string
						for _, tg := range c10Tags {
							if re.MatchString(tg) {
								ok = append(ok, tg)
							}
						}
						acc = termsTok(ok)
					}
					req.AddFacet(name, f)
					var sb strings.Builder
					fmt.Fprintf(&sb, "tfacet %d %s %s %d", size, pfx, acc, len(matched))
					for _, d := range matched {
						sb.WriteString(" " + termsTok(d.tags))
					}
					fds = append(fds, fdesc{name, sb.String()})
					fieldsUsed["tags"]++
					if fi == 0 {
						fds0field = "tags"
					}
				case 1:
					size := 1 + r.Intn(4)
					f := bleve.NewFacetRequest("price", size)
					nr := 1 + r.Intn(3)
					var sb strings.Builder
					fmt.Fprintf(&sb, "nfacet %d %d", size, nr)
					for k := 0; k < nr; k++ {
						var mn, mx *float64
						a, b := float64(r.Intn(9))*2.5, float64(r.Intn(9))*2.5
						if a > b {
							a, b = b, a
						}
						if !r.Chance(25) {
							mn = &a
						}
						if !r.Chance(25) {
							mx = &b
						}
						if mn == nil && mx == nil {
							mn = &a
						}
						rn := fmt.Sprintf("r%d", k)
						f.AddNumericRange(rn, mn, mx)
						fmt.Fprintf(&sb, " %s %s %s", hx([]byte(rn)), optBits(mn), optBits(mx))
					}
					req.AddFacet(name, f)
					fmt.Fprintf(&sb, " %d", len(matched))
					for _, d := range matched {
						if len(d.price) == 0 {
							sb.WriteString(" -")
						} else {
							ps := make([]string, len(d.price))
							for i, p := range d.price {
								ps[i] = hx16(math.Float64bits(p))
							}
							sb.WriteString(" " + strings.Join(ps, ","))
						}
					}
					fds = append(fds, fdesc{name, sb.String()})
					fieldsUsed["price"]++
					if fi == 0 {
						fds0field = "price"
					}
				default:
					size := 1 + r.Intn(4)
					f := bleve.NewFacetRequest("when", size)
					nr := 1 + r.Intn(3)
					var sb strings.Builder
					fmt.Fprintf(&sb, "dfacet %d %d", size, nr)
					for k := 0; k < nr; k++ {
						a := base.Add(time.Duration(r.Intn(10)) * time.Hour)
						b := a.Add(time.Duration(r.Intn(5))*time.Hour + time.Duration(r.Intn(3)))
						// a share of far-away bounds (time.Time reaches them, int64 nanoseconds do not)
						if r.Chance(20) {
							a = time.Date([]int{1000, 1600, 1677, 1969}[r.Intn(4)], 1, 1, 0, 0, 0, 0, time.UTC)
						}
						if r.Chance(20) {
							b = time.Date([]int{2262, 2263, 3000, 9999}[r.Intn(4)], 6, 1, 0, 0, 0, 0, time.UTC)
						}
						nanos := func(t time.Time) string {
							n := new(big.Int).Mul(big.NewInt(t.Unix()), big.NewInt(1000000000))
							return n.Add(n, big.NewInt(int64(t.Nanosecond()))).String()
						}
						var st, en time.Time
						ss, es := "nil", "nil"
						if !r.Chance(25) {
							st = a
							ss = nanos(a)
						}
						if !r.Chance(25) || st.IsZero() {
							en = b
							es = nanos(b)
						}
						rn := fmt.Sprintf("t%d", k)
						f.AddDateTimeRange(rn, st, en)
						fmt.Fprintf(&sb, " %s %s %s", hx([]byte(rn)), ss, es)
					}
					req.AddFacet(name, f)
					fmt.Fprintf(&sb, " %d", len(matched))
					for _, d := range matched {
						if len(d.when) == 0 {
							sb.WriteString(" -")
						} else {
							ps := make([]string, len(d.when))
							for i, w := range d.when {
								ps[i] = fmt.Sprint(w.UnixNano())
							}
							sb.WriteString(" " + strings.Join(ps, ","))
						}
					}
					fds = append(fds, fdesc{name, sb.String()})
					fieldsUsed["when"]++
					if fi == 0 {
						fds0field = "when"
					}
				}
			}
			for _, c := range fieldsUsed {
				if c > 1 {
					sameFieldTwice++
				}
			}
			sr, err := idx.Search(req)
			if err != nil {
				for _, fd := range fds {
					t.Emit("facet-err/"+engine, true, fd.op, "ERR")
				}
				continue
			}
			for _, fd := range fds {
				res, ok := sr.Facets[fd.name]
				if !ok {
					t.Emit("facet-missing/"+engine, true, fd.op, "ABSENT")
					continue
				}
				kind := strings.SplitN(fd.op, " ", 2)[0]
				t.Emit(kind+"/"+engine, len(matched) > 0, fd.op, fmtFacet(res))
			}
		}
		idx.Close()
	}
	t.Set("requests_with_two_facets_on_one_field", sameFieldTwice)
	t.Set("requests_sorted_on_a_facet_field", sortedOnFacetField)
}

var fds0field string
