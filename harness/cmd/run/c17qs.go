package main

import (
	"fmt"
	"strconv"
	"strings"
	"unicode"

	"github.com/blevesearch/bleve/v2/search/query"
)

// ---- the query-string lexer and grammar against their Lean model (Model/QueryString.lean) ----

func c17Runes(s string) string {
	var ps []string
	for _, r := range s { // the lexer reads runes the same way: an invalid byte is U+FFFD
		ps = append(ps, fmt.Sprintf("%d:%d:%d", r, b2i(unicode.IsDigit(r)), b2i(unicode.IsSpace(r))))
	}
	if len(ps) == 0 {
		return "-"
	}
	return strings.Join(ps, ",")
}

func b2i(b bool) int {
	if b {
		return 1
	}
	return 0
}

func c17Text(s string) string {
	var ps []string
	for _, r := range s {
		ps = append(ps, strconv.Itoa(int(r)))
	}
	return strings.Join(ps, ".")
}

func c17Boost(q interface{}) string {
	if b, ok := q.(interface{ Boost() float64 }); ok {
		switch v := q.(type) {
		case *query.MatchQuery:
			if v.BoostVal == nil {
				return "-"
			}
		case *query.RegexpQuery:
			if v.BoostVal == nil {
				return "-"
			}
		case *query.WildcardQuery:
			if v.BoostVal == nil {
				return "-"
			}
		case *query.MatchPhraseQuery:
			if v.BoostVal == nil {
				return "-"
			}
		case *query.DisjunctionQuery:
			if v.BoostVal == nil {
				return "-"
			}
		case *query.NumericRangeQuery:
			if v.BoostVal == nil {
				return "-"
			}
		}
		return c17Text(strconv.FormatFloat(b.Boost(), 'f', -1, 64))
	}
	return "-"
}

func c17Clause(q query.Query) string {
	switch v := q.(type) {
	case *query.MatchQuery:
		return fmt.Sprintf("match(%s,%s,%s,%s)", c17Text(v.FieldVal), c17Text(v.Match), c17Text(strconv.Itoa(v.Fuzziness)), c17Boost(v))
	case *query.RegexpQuery:
		return fmt.Sprintf("regexp(%s,%s,%s)", c17Text(v.FieldVal), c17Text(v.Regexp), c17Boost(v))
	case *query.WildcardQuery:
		return fmt.Sprintf("wildcard(%s,%s,%s)", c17Text(v.FieldVal), c17Text(v.Wildcard), c17Boost(v))
	case *query.MatchPhraseQuery:
		return fmt.Sprintf("phrase(%s,%s,%s)", c17Text(v.FieldVal), c17Text(v.MatchPhrase), c17Boost(v))
	case *query.DisjunctionQuery:
		if len(v.Disjuncts) == 2 {
			m, ok1 := v.Disjuncts[0].(*query.MatchQuery)
			n, ok2 := v.Disjuncts[1].(*query.NumericRangeQuery)
			if ok1 && ok2 && n.Min != nil && n.Max != nil && *n.Min == *n.Max && m.FieldVal == n.FieldVal {
				return fmt.Sprintf("number(%s,%s,%s,%s)", c17Text(m.FieldVal), c17Text(m.Match), c17Text(strconv.FormatFloat(*n.Min, 'f', -1, 64)), c17Boost(v))
			}
		}
	case *query.NumericRangeQuery:
		op, val := "?", 0.0
		switch {
		case v.Min != nil && v.Max == nil && v.InclusiveMin != nil:
			op, val = "gt", *v.Min
			if *v.InclusiveMin {
				op = "ge"
			}
		case v.Max != nil && v.Min == nil && v.InclusiveMax != nil:
			op, val = "lt", *v.Max
			if *v.InclusiveMax {
				op = "le"
			}
		}
		return fmt.Sprintf("range(%s,%s,%s,%s)", c17Text(v.FieldVal), op, c17Text(strconv.FormatFloat(val, 'f', -1, 64)), c17Boost(v))
	}
	return fmt.Sprintf("other(%T)", q)
}

func c17List(q query.Query) string {
	var kids []query.Query
	switch v := q.(type) {
	case nil:
	case *query.ConjunctionQuery:
		kids = v.Conjuncts
	case *query.DisjunctionQuery:
		kids = v.Disjuncts
	default:
		return fmt.Sprintf("other(%T)", q)
	}
	ps := make([]string, len(kids))
	for i, k := range kids {
		ps[i] = c17Clause(k)
	}
	return strings.Join(ps, ";")
}

// simple decimal of at most 15 characters (the class the model decides): -?D+(.D*)? or -?.D+
func c17SimpleDec(s string) bool {
	if len(s) > 15 {
		return false
	}
	t := strings.TrimPrefix(s, "-")
	ip := strings.TrimLeft(t, "0123456789")
	nInt := len(t) - len(ip)
	if ip == "" {
		return nInt > 0
	}
	if ip[0] != '.' {
		return false
	}
	fr := ip[1:]
	if strings.TrimLeft(fr, "0123456789") != "" {
		return false
	}
	return nInt > 0 || len(fr) > 0
}

func c17SureInvalid(s string) bool {
	if s == "" {
		return true
	}
	for _, r := range s {
		ok := (r >= '0' && r <= '9') || (r >= 'A' && r <= 'Z') || (r >= 'a' && r <= 'z') || r == '+' || r == '-' || r == '.' || r == '_'
		if !ok {
			return true
		}
	}
	return false
}

// can the model decide this token stream? (floats in the two decidable classes, no date comparison)
func c17Decidable(toks []query.VerifToken) bool {
	for i, tk := range toks {
		switch tk.Type {
		case "BOOST", "TILDE", "NUMBER":
			txt := tk.Text
			if tk.Type == "NUMBER" && i > 0 && toks[i-1].Type == "MINUS" {
				txt = "-" + txt // posOrNegNumber: classified with its sign (harmless when the minus is a prefix)
			}
			if !(c17SimpleDec(txt) || c17SureInvalid(txt)) || !(c17SimpleDec(tk.Text) || c17SureInvalid(tk.Text)) {
				return false
			}
		case "PHRASE":
			if i > 0 && (toks[i-1].Type == "GREATER" || toks[i-1].Type == "LESS" || toks[i-1].Type == "EQUAL") {
				return false
			}
		}
	}
	return true
}

func c17ModelLines(t *Trace, cat string, s string) {
	toks, errMsg := query.VerifLexQueryString(s)
	ps := make([]string, len(toks))
	for i, tk := range toks {
		ps[i] = tk.Type + ":" + c17Text(tk.Text)
	}
	got := "-"
	if len(ps) > 0 {
		got = strings.Join(ps, ",")
	}
	if errMsg != "" {
		got += " ERR"
	}
	t.Emit(cat+"/lex", len(toks) > 0, "qslex "+c17Runes(s), got)
	if !c17Decidable(toks) {
		return
	}
	res := func() (res string) {
		defer func() {
			if e := recover(); e != nil {
				res = "PANIC"
			}
		}()
		pq, err := query.NewQueryStringQuery(s).Parse()
		if err != nil {
			return "ERR"
		}
		switch v := pq.(type) {
		case *query.MatchNoneQuery:
			return "NONE"
		case *query.BooleanQuery:
			return fmt.Sprintf("M[%s]S[%s]N[%s]", c17List(v.Must), c17List(v.Should), c17List(v.MustNot))
		}
		return fmt.Sprintf("other(%T)", pq)
	}()
	t.Emit(cat+"/parse", res != "ERR", "qsparse "+c17Runes(s), res)
}

// inputs from the documented grammar, written the way a user would (spacing, escapes, odd numbers)
func c17GenGrammar(r *Rng) string {
	words := []string{"ab", "b", "a*", "?b", "/a.*/", "/", "//", "a\\ b", "a\\:b", "\\+a", "a\\qb", "t0", "été", "日本", "1a", "a1", "-", "a-b", "a+b", "x=y", "a/b"}
	nums := []string{"1", "2.5", "0", "007", "1.", "10.50", "3.0.1", "٣", "1e3", "12345678901234567890", "1x"}
	floats := []string{"1", "2", "0.5", "2.50", ".5", "1.", "-1", "abc", "1e2", "", "1_0", "٣", "inf", "0x1p3", "1 ", "2\\ 3"}
	fields := []string{"t0", "n0", "a\\ b", "\"a b\"", "x\\:y", "日"}
	var parts []string
	n := 1 + r.Intn(4)
	for i := 0; i < n; i++ {
		var sb strings.Builder
		sb.WriteString([]string{"", "", "+", "-", "+-", "- "}[r.Intn(6)])
		fielded := r.Chance(55)
		if fielded {
			sb.WriteString(fields[r.Intn(len(fields))] + ":")
		}
		switch k := r.Intn(10); {
		case k < 3:
			sb.WriteString(words[r.Intn(len(words))])
		case k == 3:
			sb.WriteString(`"` + []string{"ab b", "", "a \\\" b", "a:b", "x\\y"}[r.Intn(5)] + `"`)
		case k == 4:
			sb.WriteString(words[r.Intn(len(words))] + "~" + floats[r.Intn(len(floats))])
		case k == 5:
			sb.WriteString(nums[r.Intn(len(nums))])
		case k == 6 && fielded:
			sb.WriteString([]string{">", ">=", "<", "<=", "=>", ">>", "=", "> "}[r.Intn(8)] + []string{"", "-", "--"}[r.Intn(3)%(1+r.Intn(3))] + nums[r.Intn(len(nums))])
		case k == 7 && fielded:
			sb.WriteString("-" + nums[r.Intn(len(nums))])
		case k == 8 && fielded:
			sb.WriteString([]string{">", "<="}[r.Intn(2)] + `"2020-01-01T00:00:00Z"`)
		default:
			sb.WriteString(words[r.Intn(len(words))])
		}
		if r.Chance(25) {
			if r.Chance(40) {
				sb.WriteString(" ")
			}
			sb.WriteString("^" + floats[r.Intn(len(floats))])
		}
		parts = append(parts, sb.String())
	}
	sep := []string{" ", " ", "  ", "\t", ""}[r.Intn(5)]
	return strings.Join(parts, sep)
}

var c17FixedInputs = []string{"", " ", "/", "a:/", `\\`, `\`, `a\\`, `\\ b`, `\ `, "^", "~", "a^", "a~", "a ~", "a ^2", "1^2", "1~2", "1:2",
	`"1":2`, "+", "-", "+-a", "a:>1", "a:>-1", "a:>=-1.5", "a:<", `a:"b"~2`, "1.2.3", `1\\2`, `1\.2`, "٣", "a٣", "1٣", "a\tb", "a\u00a0b",
	"a\u3000b", "\u3000a", `"`, `"a`, `"a\"`, `a"b`, `a:"`, "\xff", "a\xffb", `\` + "\xff", "1\xff", "a:b:c", "a::b", ":a", "a: b", "a :b", "-1", "+1", "- 1",
	"a:-", "a:- 1", "a:>=", "a:=1", "a:>=\"x\"", "a~1~2", "a^1^2", "a^ b", "a~ b", "^2 a", "~2 a"}
