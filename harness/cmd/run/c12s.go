package main

import (
	"fmt"
	"os"
	"path/filepath"
	"sync"
	"sync/atomic"
	"time"

	"github.com/RoaringBitmap/roaring/v2"
	"github.com/blevesearch/bleve/v2"
	"github.com/blevesearch/bleve/v2/index/scorch"
	segment "github.com/blevesearch/scorch_segment_api/v2"
	zapv17 "github.com/blevesearch/zapx/v17"
)

// ---- Close at chosen points of the background work --------------------------------------------
//
// The stock zap v17 segment plugin is registered under another type name with one addition: a
// rendezvous after a merge has written its output and after a segment file has been opened.  A script
// picks a point and an occurrence, lets two writers run until it is reached, starts Close there,
// lets the background work go on and, once Close has returned, counts what the process still holds
// open below the index directory and reopens the index.

type c12Plugin struct {
	zapv17.ZapPlugin
}

func (p *c12Plugin) Type() string { return "verifzap" }

var c12Hook atomic.Value // func(point string)

func c12At(point string) {
	if f, ok := c12Hook.Load().(func(string)); ok && f != nil {
		f(point)
	}
}

func (p *c12Plugin) MergeUsing(segments []segment.Segment, drops []*roaring.Bitmap, path string, closeCh chan struct{},
	s segment.StatsReporter, config map[string]interface{}) ([][]uint64, uint64, error) {
	rv, n, err := p.ZapPlugin.MergeUsing(segments, drops, path, closeCh, s, config)
	if err == nil {
		c12At("merge-written") // in-memory merges of the persister and file merges of the merger alike
	}
	return rv, n, err
}

func (p *c12Plugin) OpenUsing(path string, config map[string]interface{}) (segment.Segment, error) {
	seg, err := p.ZapPlugin.OpenUsing(path, config)
	if err == nil {
		c12At("segment-opened")
	}
	return seg, err
}

var c12PluginOnce sync.Once

func c12CloseAtPoints(t *Trace, r *Rng, n int) {
	c12PluginOnce.Do(func() { scorch.RegisterSegmentPlugin(&c12Plugin{}, false) })
	points := []string{"merge-written", "segment-opened", "merge-written"}
	for sc := 0; sc < n; sc++ {
		point := points[sc%len(points)]
		occurrence := int32(1 + r.Intn(3))
		if sc%3 == 2 {
			occurrence = int32(4 + r.Intn(40)) // deep into the run: file merges are under way as well
		}
		root, err := os.MkdirTemp("", "verif-c12s-")
		must(err)
		if rp, err := filepath.EvalSymlinks(root); err == nil {
			root = rp
		}
		dir := filepath.Join(root, "i")
		conf := map[string]interface{}{
			"forceSegmentType": "verifzap", "forceSegmentVersion": int((&c12Plugin{}).Version()), "unsafe_batch": true,
			"scorchMergePlanOptions": map[string]interface{}{"maxSegmentsPerTier": 2, "segmentsPerMergeTask": 2, "floorSegmentSize": 1},
		}
		idx, err := bleve.NewUsing(dir, bleve.NewIndexMapping(), scorch.Name, scorch.Name, conf)
		must(err)
		reached := make(chan struct{})
		proceed := make(chan struct{})
		var seen int32
		var once sync.Once
		var cmu sync.Mutex
		counts := map[string]int{}
		c12Hook.Store(func(p string) {
			cmu.Lock()
			counts[p]++
			cmu.Unlock()
			if p == point && atomic.AddInt32(&seen, 1) == occurrence {
				once.Do(func() {
					close(reached)
					<-proceed
				})
			}
		})
		stop := make(chan struct{})
		var wg sync.WaitGroup
		for w := 0; w < 2; w++ {
			wg.Add(1)
			go func(w int) {
				defer wg.Done()
				for b := 0; ; b++ {
					select {
					case <-stop:
						return
					default:
					}
					batch := idx.NewBatch()
					for i := 0; i < 8; i++ {
						_ = batch.Index(fmt.Sprintf("w%d-%d", w, (b*8+i)%40), map[string]interface{}{"body": fmt.Sprintf("some text %d %d", w, b)})
					}
					if err := idx.Batch(batch); err != nil {
						return
					}
					time.Sleep(200 * time.Microsecond)
				}
			}(w)
		}
		got := false
		select {
		case <-reached:
			got = true
		case <-time.After(5 * time.Second):
		}
		close(stop)
		wg.Wait()
		closed := make(chan struct{})
		var cerr error
		go func() { cerr = idx.Close(); close(closed) }()
		time.Sleep(40 * time.Millisecond) // Close has told the background loops to stop by now
		select {
		case <-proceed:
		default:
			close(proceed)
		}
		ok := waitDone(closed, 30*time.Second, 120*time.Second)
		c12Hook.Store(func(string) {})
		cmu.Lock()
		for k, v := range counts {
			t.Add("close-at-points-seen:"+k, v)
		}
		cmu.Unlock()
		cat := "close-at/" + point
		if !got {
			cat = "close-at/quiescent" // the point was not reached in time: an ordinary Close
		}
		if !ok {
			t.Emit(cat+"/close-returns", true, "echo ok", "close-did-not-return")
			os.RemoveAll(root)
			continue
		}
		res := "ok"
		if cerr != nil {
			res = "ERR:" + oneLine(cerr.Error())
		}
		t.Emit(cat+"/close-returns", true, "echo ok", res)
		t.Emit(cat+"/open-after-close", true, "echo 0", fmt.Sprint(c12OpenFDs(dir)+c12OpenMaps(dir)))
		// whatever Close interrupted, the directory opens again
		idx2, err := bleve.OpenUsing(dir, map[string]interface{}{"forceSegmentType": "verifzap", "forceSegmentVersion": int((&c12Plugin{}).Version())})
		if err != nil {
			t.Emit(cat+"/reopens", true, "echo ok", "ERR:"+oneLine(err.Error()))
		} else {
			_, derr := idx2.DocCount()
			r2 := "ok"
			if derr != nil {
				r2 = "ERR:" + oneLine(derr.Error())
			}
			t.Emit(cat+"/reopens", true, "echo ok", r2)
			_ = idx2.Close()
			t.Emit(cat+"/open-after-second-close", true, "echo 0", fmt.Sprint(c12OpenFDs(dir)+c12OpenMaps(dir)))
		}
		os.RemoveAll(root)
	}
}
