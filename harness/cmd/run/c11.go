package main

import (
	"bytes"
	"context"
	"errors"
	"fmt"
	"os"
	"os/exec"
	"path/filepath"
	"runtime"
	"strconv"
	"strings"
	"sync"
	"sync/atomic"
	"syscall"
	"time"

	"github.com/blevesearch/bleve/v2"
	"github.com/blevesearch/bleve/v2/index/scorch"
	"github.com/blevesearch/bleve/v2/index/upsidedown"
	"github.com/blevesearch/bleve/v2/index/upsidedown/store/boltdb"
	"github.com/blevesearch/bleve/v2/index/upsidedown/store/gtreap"
)

func init() {
	props["c11"] = runC11
	childModes["c11child"] = c11Child
}

var c11Engines = []string{"scorch-disk", "scorch-mem", "upsidedown-gtreap", "upsidedown-boltdb", "scorch-disk-paced"}

func c11Open(engine, dir string) (bleve.Index, error) {
	small := map[string]interface{}{"maxSegmentsPerTier": 2, "segmentsPerMergeTask": 2, "floorSegmentSize": 1}
	switch engine {
	case "scorch-disk":
		return bleve.NewUsing(filepath.Join(dir, "i"), bleve.NewIndexMapping(), scorch.Name, scorch.Name, map[string]interface{}{"scorchMergePlanOptions": small})
	case "scorch-disk-paced":
		// the persister paces itself against the merger once the directory holds a few files (default: 1000)
		return bleve.NewUsing(filepath.Join(dir, "i"), bleve.NewIndexMapping(), scorch.Name, scorch.Name, map[string]interface{}{
			"scorchMergePlanOptions": small,
			"scorchPersisterOptions": map[string]interface{}{"PersisterNapTimeMSec": 2, "PersisterNapUnderNumFiles": 4},
		})
	case "scorch-mem":
		return bleve.NewUsing("", bleve.NewIndexMapping(), scorch.Name, scorch.Name, map[string]interface{}{"scorchMergePlanOptions": small})
	case "upsidedown-gtreap":
		return bleve.NewUsing("", bleve.NewIndexMapping(), upsidedown.Name, gtreap.Name, nil)
	}
	return bleve.NewUsing(filepath.Join(dir, "i"), bleve.NewIndexMapping(), upsidedown.Name, boltdb.Name, nil)
}

var errVoid = errors.New("void")

func c11Res(err error) string {
	switch {
	case err == errVoid:
		return "void"
	case err == nil:
		return "ok"
	case errors.Is(err, bleve.ErrorIndexClosed) || strings.Contains(err.Error(), "index is closed") || strings.Contains(err.Error(), "index closed"):
		return "closed"
	case errors.Is(err, context.Canceled) || errors.Is(err, context.DeadlineExceeded) || strings.Contains(err.Error(), "context"):
		return "ctx"
	}
	if strings.Contains(err.Error(), "force merge already in progress") || strings.Contains(err.Error(), "force merge needs") {
		return "refused"
	}
	return "other:" + strings.ReplaceAll(oneLine(err.Error()), " ", "_")
}

// child: many goroutines use one index; Close comes at a random moment; every call is logged with
// a global sequence number taken before it starts and after it returns
func c11Child() {
	engine := os.Getenv("C11_ENGINE")
	seed, _ := strconv.ParseUint(os.Getenv("C11_SEED"), 10, 64)
	out, err := os.OpenFile(os.Getenv("C11_LOG"), os.O_CREATE|os.O_WRONLY|os.O_APPEND, 0644)
	must(err)
	dir, err := os.MkdirTemp("", "verif-c11-")
	must(err)
	defer os.RemoveAll(dir)
	r := NewRng(seed)
	var mu sync.Mutex
	logL := func(s string) {
		mu.Lock()
		_, _ = out.WriteString(s + "\n")
		mu.Unlock()
	}
	base := runtime.NumGoroutine()
	idx, err := c11Open(engine, dir)
	must(err)
	for i := 0; i < 300; i++ {
		must(idx.Index(fmt.Sprintf("p%d", i), map[string]interface{}{"body": strings.Repeat("lorem ipsum dolor ", 1+i%5), "n": float64(i)}))
	}
	// the engine object behind the index: forced merges go to it directly, also after Close
	var engine0 *scorch.Scorch
	if adv, err := idx.Advanced(); err == nil {
		engine0, _ = adv.(*scorch.Scorch)
	}
	var seq, newField int64
	next := func() int64 { return atomic.AddInt64(&seq, 1) }
	var wg sync.WaitGroup
	nWorkers := 6 + r.Intn(6)
	closeAfter := time.Duration(60+r.Intn(500)) * time.Millisecond
	stopAll := make(chan struct{})
	call := func(g, k int, name string, f func() error) {
		st := next()
		res := "panic"
		func() {
			defer func() {
				if p := recover(); p != nil {
					res = "panic:" + strings.ReplaceAll(oneLine(fmt.Sprint(p)), " ", "_")
				}
			}()
			res = c11Res(f())
		}()
		en := next()
		logL(fmt.Sprintf("call %d.%d %s %d %d %s", g, k, name, st, en, res))
	}
	for g := 0; g < nWorkers; g++ {
		wg.Add(1)
		go func(g int) {
			defer wg.Done()
			rr := NewRng(seed*977 + uint64(g))
			for k := 0; ; k++ {
				select {
				case <-stopAll:
					return
				default:
				}
				switch rr.Intn(13) {
				case 0, 1:
					call(g, k, "index", func() error {
						doc := map[string]interface{}{"body": "alpha beta " + fmt.Sprint(k), "n": float64(k)}
						// field names nobody has used yet, the same ones for all workers at about the same time: the
						// engines register a new field on first use, from whichever call gets there first
						_ = atomic.AddInt64(&newField, 1)
						nf := time.Now().UnixNano() / int64(3*time.Millisecond) // one set of names per 3 ms window, for everybody
						for j := 0; j < 12; j++ {
							doc[fmt.Sprintf("nf%d_%d", nf, j)] = "x"
						}
						return idx.Index(fmt.Sprintf("g%d-%d", g, rr.Intn(40)), doc)
					})
				case 2:
					call(g, k, "delete", func() error { return idx.Delete(fmt.Sprintf("g%d-%d", g, rr.Intn(40))) })
				case 3:
					call(g, k, "batch", func() error {
						b := idx.NewBatch()
						nf := time.Now().UnixNano() / int64(3*time.Millisecond)
						for j := 0; j < 5; j++ {
							_ = b.Index(fmt.Sprintf("g%d-%d", g, rr.Intn(40)), map[string]interface{}{"body": "gamma delta", "n": float64(j),
								fmt.Sprintf("nf%d", nf): "y", fmt.Sprintf("nh%d-%d", nf, j%2): "z"})
						}
						b.Delete(fmt.Sprintf("g%d-%d", g, rr.Intn(40)))
						return idx.Batch(b)
					})
				case 4, 5:
					call(g, k, "search", func() error {
						_, err := idx.Search(bleve.NewSearchRequest(bleve.NewMatchQuery("lorem alpha")))
						return err
					})
				case 6:
					call(g, k, "search-deadline", func() error {
						ctx, cancel := context.WithTimeout(context.Background(), time.Duration(rr.Intn(3000))*time.Microsecond)
						defer cancel()
						_, err := idx.SearchInContext(ctx, bleve.NewSearchRequest(bleve.NewWildcardQuery("*o*")))
						return err
					})
				case 7:
					call(g, k, "document", func() error { _, err := idx.Document(fmt.Sprintf("p%d", rr.Intn(300))); return err })
				case 8:
					call(g, k, "doccount", func() error { _, err := idx.DocCount(); return err })
				case 9:
					call(g, k, "fielddict", func() error {
						d, err := idx.FieldDict("body")
						if err != nil {
							return err
						}
						for {
							e, err := d.Next()
							if err != nil || e == nil {
								break
							}
						}
						return d.Close()
					})
				case 10:
					call(g, k, "stats", func() error { _ = idx.StatsMap(); _ = idx.Stats(); return errVoid })
				case 11, 12:
					if strings.HasPrefix(engine, "scorch-disk") && rr.Chance(50) {
						call(g, k, "copyto", func() error {
							d := filepath.Join(dir, fmt.Sprintf("bk-%d-%d", g, k))
							defer os.RemoveAll(d)
							ic, ok := idx.(bleve.IndexCopyable)
							if !ok {
								return nil
							}
							return ic.CopyTo(bleve.FileSystemDirectory(d))
						})
					} else if engine0 != nil {
						call(g, k, "forcemerge", func() error {
							ctx, cancel := context.WithTimeout(context.Background(), 500*time.Millisecond)
							defer cancel()
							// below the bleve.Index API: the engine's own ForceMerge has no closed-index error
							if err := engine0.ForceMerge(ctx, nil); err != nil {
								return err
							}
							return errVoid
						})
					}
				}
			}
		}(g)
	}
	// one more caller does nothing but ask the engine for forced merges, before, while and after Close
	if engine0 != nil {
		wg.Add(1)
		go func() {
			defer wg.Done()
			for k := 0; ; k++ {
				select {
				case <-stopAll:
					return
				default:
				}
				call(99, k, "forcemerge", func() error {
					ctx, cancel := context.WithTimeout(context.Background(), 300*time.Millisecond)
					defer cancel()
					if err := engine0.ForceMerge(ctx, nil); err != nil {
						return err
					}
					return errVoid
				})
				time.Sleep(2 * time.Millisecond)
			}
		}()
	}
	time.Sleep(closeAfter)
	// two goroutines close concurrently: the second must get the closed error (or succeed idempotently), never panic
	var cwg sync.WaitGroup
	for c := 0; c < 2; c++ {
		cwg.Add(1)
		go func(c int) {
			defer cwg.Done()
			st := next()
			res := "panic"
			func() {
				defer func() {
					if p := recover(); p != nil {
						res = "panic:" + strings.ReplaceAll(oneLine(fmt.Sprint(p)), " ", "_")
					}
				}()
				res = c11Res(idx.Close())
			}()
			en := next()
			logL(fmt.Sprintf("close %d %d %d %s", c, st, en, res))
		}(c)
	}
	done := make(chan struct{})
	go func() { cwg.Wait(); close(done) }()
	// workers keep calling meanwhile: the budget is what they may burn while Close drains the calls in flight
	if waitDone(done, 30*time.Second, 480*time.Second) {
		logL("closed-in-time yes")
	} else {
		logL("closed-in-time no")
		buf := make([]byte, 1<<20)
		n := runtime.Stack(buf, true)
		fmt.Fprintf(os.Stderr, "CLOSE DID NOT RETURN\n%s\n", buf[:n])
		os.Exit(7)
	}
	// calls keep coming after Close returned
	time.Sleep(15 * time.Millisecond)
	close(stopAll)
	wdone := make(chan struct{})
	go func() { wg.Wait(); close(wdone) }()
	if waitDone(wdone, 20*time.Second, 160*time.Second) {
		logL("calls-returned yes")
	} else {
		logL("calls-returned no")
		buf := make([]byte, 1<<20)
		n := runtime.Stack(buf, true)
		fmt.Fprintf(os.Stderr, "A CALL NEVER RETURNED\n%s\n", buf[:n])
		os.Exit(8)
	}
	// background work must stop
	leaked := 0
	for i := 0; i < 40; i++ {
		leaked = runtime.NumGoroutine() - base
		if leaked <= 0 {
			break
		}
		time.Sleep(50 * time.Millisecond)
	}
	if leaked < 0 {
		leaked = 0
	}
	logL(fmt.Sprintf("goroutines-left %d", leaked))
	if leaked > 0 {
		buf := make([]byte, 1<<18)
		n := runtime.Stack(buf, true)
		fmt.Fprintf(os.Stderr, "GOROUTINES LEFT AFTER CLOSE\n%s\n", buf[:n])
	}
	os.Exit(0)
}

func runC11(t *Trace, r *Rng, tier string, _ []string) {
	rounds := 5
	if tier == "thorough" {
		rounds = 30
	}
	self, err := os.Executable()
	must(err)
	root, err := os.MkdirTemp("", "verif-c11p-")
	must(err)
	defer os.RemoveAll(root)
	for rd := 0; rd < rounds; rd++ {
		engine := c11Engines[rd%len(c11Engines)]
		logf := filepath.Join(root, fmt.Sprintf("r%d.log", rd))
		cmd := exec.Command(self, "c11child")
		cmd.Env = append(os.Environ(), "C11_ENGINE="+engine, fmt.Sprintf("C11_SEED=%d", r.U64()%1000000), "C11_LOG="+logf,
			"GORACE=halt_on_error=1 exitcode=66")
		var errb bytes.Buffer
		cmd.Stderr = &errb
		cmd.Stdout = &errb
		must(cmd.Start())
		done := make(chan error, 1)
		go func() { done <- cmd.Wait() }()
		werr, finished := waitChild(done, cmd.Process.Pid, 90*time.Second, 1500*time.Second)
		if !finished {
			_ = cmd.Process.Signal(syscall.SIGQUIT)
			time.Sleep(2 * time.Second)
			_ = cmd.Process.Kill()
			werr = <-done
			t.Emit(engine+"/finishes", true, "echo ok", "child-did-not-finish:"+strings.ReplaceAll(oneLine(errb.String()), " ", "_"))
			continue
		}
		es := errb.String()
		switch {
		case strings.Contains(es, "DATA RACE"):
			i := strings.Index(es, "DATA RACE")
			t.Emit(engine+"/race", true, "echo ok", "data-race:"+strings.ReplaceAll(oneLine(es[i:]), " ", "_"))
		case strings.Contains(es, "A CALL NEVER RETURNED"):
			j := strings.Index(es, "ForceMerge")
			if j < 0 {
				j = 0
			}
			t.Emit(engine+"/calls-return", true, "echo ok", "a-call-never-returned:"+strings.ReplaceAll(oneLine(es[j:]), " ", "_"))
		case strings.Contains(es, "CLOSE DID NOT RETURN"):
			t.Emit(engine+"/close-returns", true, "echo ok", "close-did-not-return:"+strings.ReplaceAll(oneLine(es), " ", "_"))
		case werr != nil:
			t.Emit(engine+"/crash", true, "echo ok", "child-crashed:"+strings.ReplaceAll(oneLine(es), " ", "_"))
		default:
			t.Emit(engine+"/race", true, "echo ok", "ok")
		}
		data, _ := os.ReadFile(logf)
		lines := strings.Split(strings.TrimSpace(string(data)), "\n")
		// the close lines first: the monitor needs them to judge the calls
		t.Emit(engine+"/reset", false, "reset", "ok")
		for _, l := range lines {
			if strings.HasPrefix(l, "close ") {
				t.Emit(engine+"/close", true, l, "ok")
			}
		}
		for _, l := range lines {
			switch {
			case strings.HasPrefix(l, "call "):
				f := strings.Fields(l)
				t.Emit(engine+"/call-"+f[2], true, l, "ok")
			case strings.HasPrefix(l, "closed-in-time"), strings.HasPrefix(l, "goroutines-left"), strings.HasPrefix(l, "calls-returned"):
				t.Emit(engine+"/"+strings.Fields(l)[0], true, l, "ok")
			}
		}
		if strings.Contains(es, "GOROUTINES LEFT") {
			t.Note("goroutines left after close (" + engine + "): " + oneLine(es))
		}
	}
	c11Cancel(t, r, tier)
}

// a search whose context is cancelled returns promptly with the context's error and leaves the index usable
func c11Cancel(t *Trace, r *Rng, tier string) {
	n := 40
	if tier == "thorough" {
		n = 400
	}
	for _, engine := range []string{"scorch-mem", "upsidedown-gtreap"} {
		dir, _ := os.MkdirTemp("", "verif-c11c-")
		idx, err := c11Open(engine, dir)
		must(err)
		b := idx.NewBatch()
		for i := 0; i < 3000; i++ {
			_ = b.Index(fmt.Sprintf("d%d", i), map[string]interface{}{"body": fmt.Sprintf("w%d lorem ipsum x%d", i%97, i%13)})
			if i%500 == 499 {
				must(idx.Batch(b))
				b = idx.NewBatch()
			}
		}
		must(idx.Batch(b))
		for i := 0; i < n; i++ {
			ctx, cancel := context.WithCancel(context.Background())
			d := time.Duration(r.Intn(2000)) * time.Microsecond
			if r.Chance(20) {
				cancel()
			} else {
				time.AfterFunc(d, cancel)
			}
			st := time.Now()
			cpuSt, _ := procCPU(os.Getpid())
			_, err := idx.SearchInContext(ctx, bleve.NewSearchRequestOptions(bleve.NewWildcardQuery("*"), 10, 0, false))
			el := time.Since(st)
			cancel()
			res := c11Res(err)
			verdict := "ok"
			if res != "ok" && res != "ctx" {
				verdict = "unexpected-error:" + res
			} else if el > 5*time.Second {
				// late on the wall clock: a defect only if the call sat blocked or kept computing all that
				// time, not if the machine gave this process no processor
				cpuEn, ok := procCPU(os.Getpid())
				if used := cpuEn - cpuSt; !ok || used < el/50 || used > el/2 {
					verdict = fmt.Sprintf("returned-after-%v", el)
				}
			}
			t.Emit(engine+"/cancel-"+res, true, "echo ok", verdict)
			// still usable
			if i%10 == 9 {
				res2, err := idx.Search(bleve.NewSearchRequest(bleve.NewMatchQuery("lorem")))
				v := "ok"
				if err != nil || res2.Total != 3000 {
					v = fmt.Sprintf("after-cancel: total %v err %v", res2, err)
				}
				t.Emit(engine+"/usable-after-cancel", true, "echo ok", oneLine(v))
			}
		}
		idx.Close()
		os.RemoveAll(dir)
	}
}
