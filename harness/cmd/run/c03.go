package main

import (
	"fmt"
	"os"
	"os/exec"
	"path/filepath"
	"sort"
	"strconv"
	"strings"
	"sync"
	"sync/atomic"
	"syscall"
	"time"

	"github.com/blevesearch/bleve/v2"
	"github.com/blevesearch/bleve/v2/index/scorch"
	index "github.com/blevesearch/bleve_index_api"
	bolt "go.etcd.io/bbolt"
)

func init() {
	props["c03"] = runC03
	childModes["c03child"] = c03Child
}

type boltRec struct {
	epoch uint64
	files []string
}

func decUvarintAsc(b []byte) (uint64, bool) {
	if len(b) == 0 {
		return 0, false
	}
	l := int(b[0]) - 136
	b = b[1:]
	if l <= 109 {
		return uint64(l), l >= 0
	}
	l -= 109
	if l < 0 || l > 8 || len(b) < l {
		return 0, false
	}
	var v uint64
	for _, t := range b[:l] {
		v = v<<8 | uint64(t)
	}
	return v, true
}

// the snapshots recorded in root.bolt, newest first, with the segment files each names
func readRootBolt(dir string) ([]boltRec, error) {
	p := filepath.Join(dir, "store", "root.bolt")
	if _, err := os.Stat(p); err != nil {
		return nil, nil
	}
	db, err := bolt.Open(p, 0600, &bolt.Options{ReadOnly: true, Timeout: 5 * time.Second})
	if err != nil {
		return nil, err
	}
	defer db.Close()
	var rv []boltRec
	err = db.View(func(tx *bolt.Tx) error {
		sb := tx.Bucket([]byte{'s'})
		if sb == nil {
			return nil
		}
		return sb.ForEach(func(k, _ []byte) error {
			e, ok := decUvarintAsc(k)
			snap := sb.Bucket(k)
			if !ok || snap == nil {
				return nil
			}
			r := boltRec{epoch: e}
			_ = snap.ForEach(func(sk, _ []byte) error {
				if len(sk) > 0 && (sk[0] == 'i' || sk[0] == 'm') {
					return nil
				}
				if seg := snap.Bucket(sk); seg != nil {
					if pth := seg.Get([]byte{'p'}); pth != nil {
						r.files = append(r.files, string(pth))
					}
				}
				return nil
			})
			sort.Strings(r.files)
			rv = append(rv, r)
			return nil
		})
	})
	sort.Slice(rv, func(i, j int) bool { return rv[i].epoch > rv[j].epoch })
	return rv, err
}

var c03CrashPoints = []string{"persist:files-written", "persist:before-commit", "persist:after-commit", "persist:after-sync",
	"persist:inmem-merged", "merge:file-written", "merge:introduced", "purge:bolt-removed", "purge:zap-removed"}

func c03Config(ci int, unsafeMode bool) map[string]interface{} {
	small := map[string]interface{}{"maxSegmentsPerTier": 2, "segmentsPerMergeTask": 2, "floorSegmentSize": 1}
	c := map[string]interface{}{"scorchMergePlanOptions": small, "numSnapshotsToKeep": 1 + ci%3}
	if unsafeMode {
		c["unsafe_batch"] = true
	}
	if ci == 100 {
		// small flush groups and a napping persister: several unflushed segments meet in one persister round and
		// are split into groups with a remainder
		c["scorchPersisterOptions"] = map[string]interface{}{"NumPersisterWorkers": 2, "MaxSizeInMemoryMergePerWorker": 1,
			"PersisterNapTimeMSec": 15, "PersisterNapUnderNumFiles": 1000}
		return c
	}
	switch ci % 4 {
	case 1:
		c["scorchPersisterOptions"] = map[string]interface{}{"NumPersisterWorkers": 3, "MaxSizeInMemoryMergePerWorker": 1 << 20}
	case 2:
		c["scorchPersisterOptions"] = map[string]interface{}{"PersisterNapTimeMSec": 2, "PersisterNapUnderNumFiles": 1}
	case 3:
		c["scorchPersisterOptions"] = map[string]interface{}{"NumPersisterWorkers": 2, "MaxSizeInMemoryMergePerWorker": 64}
	}
	return c
}

// ---- child: writes batches until killed -------------------------------------------------------

func c03Child() {
	dir := os.Getenv("C03_DIR")
	unsafeMode := os.Getenv("C03_MODE") == "unsafe"
	K, _ := strconv.Atoi(os.Getenv("C03_K"))
	ci, _ := strconv.Atoi(os.Getenv("C03_CONF"))
	maxBatch, _ := strconv.Atoi(os.Getenv("C03_MAXBATCH"))
	crashName, crashN := "", 0
	if c := os.Getenv("C03_CRASH"); c != "" {
		i := strings.LastIndex(c, "#")
		crashName = c[:i]
		crashN, _ = strconv.Atoi(c[i+1:])
	}
	ev, err := os.OpenFile(os.Getenv("C03_EVLOG"), os.O_CREATE|os.O_WRONLY|os.O_APPEND, 0644)
	must(err)
	var mu sync.Mutex
	logEv := func(s string) { // one write(2) per line: what was logged survives SIGKILL
		mu.Lock()
		_, _ = ev.WriteString(s + "\n")
		mu.Unlock()
	}
	recs, err := readRootBolt(dir)
	must(err)
	boot := "boot"
	for _, r := range recs {
		boot += fmt.Sprintf(" %d:%s", r.epoch, strings.Join(r.files, ","))
	}
	logEv(boot)
	var inflight [4]int64
	counts := map[string]int{}
	scorch.VerifSetDurableHook(func(s *scorch.Scorch, kind string, epoch uint64, names []string) {
		switch kind {
		case "bolt-commit":
			l := fmt.Sprintf("commit %d", epoch)
			sort.Strings(names)
			for _, n := range names {
				ok := 0
				if st, err := os.Stat(filepath.Join(s.VerifPath(), n)); err == nil && st.Size() > 0 {
					ok = 1
				}
				l += fmt.Sprintf(" %s:%d", n, ok)
			}
			logEv(l)
		case "bolt-remove":
			logEv(fmt.Sprintf("boltrm %d", epoch))
		case "zap-remove":
			logEv("zaprm " + names[0])
		}
	})
	scorch.VerifSetCrashHook(func(s *scorch.Scorch, name string) {
		mu.Lock()
		counts[name]++
		hit := name == crashName && counts[name] == crashN
		mu.Unlock()
		if hit {
			logEv("# killed-at " + name)
			_ = syscall.Kill(os.Getpid(), syscall.SIGKILL)
			select {}
		}
	})
	scorch.VerifSetIntroductionHook(func(s *scorch.Scorch, iv *scorch.VerifIntroduction) {
		if iv.Kind == "segment" {
			// which writer's batch this is shows in the ids it mentions
			w := -1
			for _, id := range iv.BatchIDs {
				fmt.Sscanf(id, "w%d-", &w)
			}
			if w >= 0 && w < len(inflight) {
				if key := atomic.LoadInt64(&inflight[w]); key >= 0 {
					logEv(fmt.Sprintf("intro %d %d", key, iv.PostEpoch))
				}
			}
		}
	})
	var idx bleve.Index
	conf := c03Config(ci, unsafeMode)
	if _, err := os.Stat(filepath.Join(dir, "index_meta.json")); err == nil {
		idx, err = bleve.OpenUsing(dir, conf)
		if err != nil {
			logEv("# open-failed " + err.Error())
			os.Exit(3)
		}
	} else {
		idx, err = bleve.NewUsing(dir, bleve.NewIndexMapping(), scorch.Name, scorch.Name, conf)
		must(err)
	}
	W, _ := strconv.Atoi(os.Getenv("C03_W"))
	if W < 1 {
		W = 1
	}
	var wwg sync.WaitGroup
	for w := 0; w < W; w++ {
		wwg.Add(1)
		go func(w int) {
			defer wwg.Done()
			n0 := 0
			if v, err := idx.GetInternal([]byte(fmt.Sprintf("w%d", w))); err == nil && v != nil {
				fmt.Sscanf(string(v), "%d", &n0)
			}
			rng := NewRng(uint64(n0)*7919 + uint64(ci) + uint64(w)*31)
			for n := n0 + 1; n <= n0+maxBatch; n++ {
				b := idx.NewBatch()
				c04FillBatch(b, w, n, K)
				_ = b.Index(fmt.Sprintf("w%d-aux", w), map[string]interface{}{"seq": float64(n)})
				key := w*1000000 + n
				if unsafeMode {
					b.SetPersistedCallback(func(err error) {
						if err == nil {
							logEv(fmt.Sprintf("ack %d", key))
						}
					})
				}
				atomic.StoreInt64(&inflight[w], int64(key))
				if err := idx.Batch(b); err != nil {
					logEv("# batch-error " + err.Error())
					os.Exit(4)
				}
				if !unsafeMode {
					logEv(fmt.Sprintf("ack %d", key))
				}
				if rng.Chance(45) {
					// a batch that holds nothing but a deletion: no new segment, no internal value
					atomic.StoreInt64(&inflight[w], -1) // not a numbered batch: its introduction is not logged
					db := idx.NewBatch()
					db.Delete(fmt.Sprintf("w%d-aux", w))
					if unsafeMode {
						db.SetPersistedCallback(func(err error) {
							if err == nil {
								logEv(fmt.Sprintf("# ackdel %d", key))
							}
						})
					}
					if err := idx.Batch(db); err != nil {
						logEv("# batch-error " + err.Error())
						os.Exit(4)
					}
					if !unsafeMode {
						logEv(fmt.Sprintf("# ackdel %d", key))
					}
				}
				if rng.Chance(30) {
					time.Sleep(time.Duration(rng.Intn(4)) * time.Millisecond)
				}
			}
		}(w)
	}
	wwg.Wait()
	if unsafeMode {
		time.Sleep(50 * time.Millisecond)
	}
	_ = idx.Close()
	mu.Lock()
	cl := "# counts"
	for k, v := range counts {
		cl += fmt.Sprintf(" %s=%d", k, v)
	}
	mu.Unlock()
	logEv(cl)
	logEv("# closed")
	os.Exit(0)
}

// ---- parent ---------------------------------------------------------------------------------------

func c03Garble(dir string, r *Rng, t *Trace) {
	recs, err := readRootBolt(dir)
	if err != nil {
		return
	}
	named := map[string]bool{}
	for _, rc := range recs {
		for _, f := range rc.files {
			named[f] = true
		}
	}
	ents, _ := os.ReadDir(filepath.Join(dir, "store"))
	for _, e := range ents {
		if filepath.Ext(e.Name()) != ".zap" || named[e.Name()] {
			continue
		}
		p := filepath.Join(dir, "store", e.Name())
		switch r.Intn(4) {
		case 0:
			t.Add("unreferenced-left", 1)
		case 1:
			if st, err := os.Stat(p); err == nil {
				_ = os.Truncate(p, st.Size()/2)
			}
			t.Add("unreferenced-truncated", 1)
		case 2:
			g := make([]byte, 64+r.Intn(4000))
			for i := range g {
				g[i] = byte(r.U64())
			}
			_ = os.WriteFile(p, g, 0644)
			t.Add("unreferenced-garbage", 1)
		case 3:
			_ = os.WriteFile(p, nil, 0644)
			t.Add("unreferenced-emptied", 1)
		}
	}
}

func runC03(t *Trace, r *Rng, tier string, _ []string) {
	workloads, cycles := 8, 5
	if tier == "thorough" {
		workloads, cycles = 24, 8
	}
	self, err := os.Executable()
	must(err)
	root, err := os.MkdirTemp("", "verif-c03-")
	must(err)
	defer os.RemoveAll(root)
	kills := map[string]int{}
	for wl := 0; wl < workloads; wl++ {
		dir := filepath.Join(root, fmt.Sprintf("w%d", wl))
		evlog := filepath.Join(root, fmt.Sprintf("w%d.ev", wl))
		K := 2 + r.Intn(2)
		W := 1 + (wl/2)%2 // both modes meet one and two writers
		mode := "safe"
		if wl%2 == 1 {
			mode = "unsafe"
		}
		ci := r.Intn(12)
		if wl%8 >= 6 { // three writers against small flush groups
			W = 3
			ci = 100
		}
		cat := mode
		t.Add(fmt.Sprintf("workloads:%s-conf%d", mode, ci%4), 1)
		ks := make([]string, W)
		for i := range ks {
			ks[i] = fmt.Sprint(K)
		}
		t.Emit(cat+"/reset", false, "reset "+strings.Join(ks, " "), "ok")
		acked := make([]int, W)
		ackedDel := make([]int, W)
		evOff := 0
		// the index is created before any kill: dying inside bleve.New is not what the property is about
		idx0, err := bleve.NewUsing(dir, bleve.NewIndexMapping(), scorch.Name, scorch.Name, c03Config(ci, mode == "unsafe"))
		must(err)
		must(idx0.Close())
		for cy := 0; cy < cycles; cy++ {
			crash := ""
			how := "clock"
			switch {
			case cy == cycles-1:
				how = "clean-close"
			case r.Chance(75):
				name := c03CrashPoints[r.Intn(len(c03CrashPoints))]
				if r.Chance(40) { // the window between a commit and the next persist round
					name = []string{"persist:after-commit", "persist:after-sync"}[r.Intn(2)]
				}
				occ := 1 + r.Intn(6)
				if ci == 100 && r.Chance(70) { // between the commit of a round that split its segments and the next commit
					name = []string{"persist:after-commit", "persist:after-sync", "persist:files-written", "persist:before-commit"}[r.Intn(4)]
					occ = 2 + r.Intn(8)
				}
				crash = fmt.Sprintf("%s#%d", name, occ)
				how = name
			}
			maxBatch := 30 + r.Intn(60)
			if how == "clean-close" {
				maxBatch = 5 + r.Intn(10)
			}
			cmd := exec.Command(self, "c03child")
			cmd.Env = append(os.Environ(), "C03_DIR="+dir, "C03_MODE="+mode, fmt.Sprintf("C03_K=%d", K), fmt.Sprintf("C03_CONF=%d", ci),
				fmt.Sprintf("C03_MAXBATCH=%d", maxBatch), "C03_CRASH="+crash, "C03_EVLOG="+evlog, fmt.Sprintf("C03_W=%d", W))
			cmd.Stderr = os.Stderr
			must(cmd.Start())
			done := make(chan error, 1)
			go func() { done <- cmd.Wait() }()
			limit := 20 * time.Second
			if how == "clock" {
				limit = time.Duration(5+r.Intn(400)) * time.Millisecond
			}
			select {
			case <-done:
			case <-time.After(limit):
				_ = cmd.Process.Kill()
				<-done
				if how != "clock" {
					how = "clock-after-timeout"
				}
			}
			// the durable events of this run, through the protocol monitor
			data, _ := os.ReadFile(evlog)
			lines := strings.Split(string(data), "\n")
			reached := how
			for _, l := range lines[evOff:] {
				if l == "" {
					continue
				}
				if strings.HasPrefix(l, "# counts") {
					for _, kv := range strings.Fields(l)[2:] {
						i := strings.LastIndex(kv, "=")
						n, _ := strconv.Atoi(kv[i+1:])
						t.Add("reached-in-full-runs:"+kv[:i], n)
					}
				}
				if strings.HasPrefix(l, "# ackdel ") {
					var key int
					fmt.Sscanf(l, "# ackdel %d", &key)
					if w, n := key/1000000, key%1000000; w < W && n > ackedDel[w] {
						ackedDel[w] = n
					}
				}
				if strings.HasPrefix(l, "#") {
					if strings.HasPrefix(l, "# closed") && how != "clean-close" {
						reached = "ran-to-close"
					}
					if strings.HasPrefix(l, "# open-failed") || strings.HasPrefix(l, "# batch-error") {
						t.Emit(cat+"/child", true, "echo ok", l)
					}
					continue
				}
				kind := strings.SplitN(l, " ", 2)[0]
				if kind == "ack" {
					var key int
					fmt.Sscanf(l, "ack %d", &key)
					if w, n := key/1000000, key%1000000; w < W && n > acked[w] {
						acked[w] = n
					}
				}
				t.Emit(cat+"/event-"+kind, kind != "boot", l, "ok")
			}
			evOff = len(lines) - 1
			if how != "clean-close" && reached != "ran-to-close" && !strings.Contains(string(data[len(data)-min(len(data), 80):]), "killed-at") && how != "clock" && how != "clock-after-timeout" {
				reached = "exit-before-point"
			}
			kills[reached]++
			if reached != "clean-close" && reached != "ran-to-close" {
				c03Garble(dir, r, t)
			}
			// reopen and judge what is there
			idx, err := bleve.Open(dir)
			if err != nil {
				t.Emit(cat+"/reopen", true, "echo ok", "open-failed:"+oneLine(err.Error()))
				break
			}
			adv, _ := idx.Advanced()
			rd, err := adv.Reader()
			must(err)
			docs, ints, count, err := c04Observe(rd, W, K)
			// the auxiliary documents, read through the same reader
			aux := make([]int, W)
			for w := 0; w < W && err == nil; w++ {
				d, e := rd.Document(fmt.Sprintf("w%d-aux", w))
				if e != nil {
					err = e
					break
				}
				if d != nil {
					d.VisitFields(func(f index.Field) {
						if nf, ok := f.(index.NumericField); ok && f.Name() == "seq" {
							v, _ := nf.Number()
							aux[w] = int(v)
						}
					})
					count-- // the documents of the history monitor are counted without the auxiliary ones
				}
			}
			rd.Close()
			if err != nil {
				t.Emit(cat+"/reopen", true, "echo ok", "read-failed:"+oneLine(err.Error()))
			} else {
				t.Emit(cat+"/recovered", true, c04Line(0, acked, docs, ints, count), "ok")
				j := func(xs []int) string {
					ps := make([]string, len(xs))
					for i, x := range xs {
						ps[i] = fmt.Sprint(x)
					}
					return strings.Join(ps, ",")
				}
				t.Emit(cat+"/recovered-delete-only", true, fmt.Sprintf("aux %s %s %s", j(ints), j(aux), j(ackedDel)), "ok")
			}
			// a search sees the same
			req := bleve.NewSearchRequestOptions(bleve.NewMatchAllQuery(), 100, 0, false)
			if res, err := idx.Search(req); err != nil || res.Total != count+uint64(c03CountNonZero(aux)) {
				t.Emit(cat+"/reopen-search", true, "echo ok", oneLine(fmt.Sprintf("search total %v err %v vs count %d", res, err, count)))
			} else {
				t.Emit(cat+"/reopen-search", true, "echo ok", "ok")
			}
			must(idx.Close())
		}
		os.RemoveAll(dir)
	}
	for k, v := range kills {
		t.Set("stopped@"+k, v)
	}
}

func oneLine(s string) string {
	s = strings.ReplaceAll(s, "\n", " / ")
	if len(s) > 400 {
		s = s[:400]
	}
	return strings.ReplaceAll(s, "\r", "")
}

func c03CountNonZero(xs []int) int {
	n := 0
	for _, x := range xs {
		if x != 0 {
			n++
		}
	}
	return n
}
