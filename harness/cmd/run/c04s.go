package main

import (
	"context"
	"fmt"
	"os"
	"path/filepath"
	"strings"
	"sync/atomic"
	"time"

	"github.com/blevesearch/bleve/v2"
	"github.com/blevesearch/bleve/v2/index/scorch"
	index "github.com/blevesearch/bleve_index_api"
)

// Scripted schedules for C04: the persister is parked at its progress and purge events, the merger
// just before it hands a finished merge to the introducer; the script decides when each of them takes
// its next step, when batches are applied, when readers are opened, read again and closed. Nothing
// runs concurrently with an observation, so every observation has exactly one right answer: the
// index after all batches applied so far.

type c04Gate struct {
	src     atomic.Value
	persist chan struct{}
	merge   chan struct{}
	open    int32
	pParked int32
	mParked int32
}

func (g *c04Gate) onEvent(e scorch.Event) bool {
	if src, _ := g.src.Load().(*scorch.Scorch); src == nil || e.Scorch != src || atomic.LoadInt32(&g.open) == 1 {
		return true
	}
	switch e.Kind {
	case scorch.EventKindPersisterProgress, scorch.EventKindPurgerCheck:
		atomic.AddInt32(&g.pParked, 1)
		<-g.persist
		atomic.AddInt32(&g.pParked, -1)
	case scorch.EventKindMergeTaskIntroductionStart:
		atomic.AddInt32(&g.mParked, 1)
		<-g.merge
		atomic.AddInt32(&g.mParked, -1)
	}
	return true
}

func (g *c04Gate) step(ch chan struct{}) {
	select {
	case ch <- struct{}{}:
	default:
	}
	time.Sleep(3 * time.Millisecond)
}

func (g *c04Gate) openAll() {
	atomic.StoreInt32(&g.open, 1)
	for i := 0; i < 64; i++ {
		select {
		case g.persist <- struct{}{}:
		default:
		}
		select {
		case g.merge <- struct{}{}:
		default:
		}
	}
}

var c04GateSeq int32

func c04Scripted(t *Trace, r *Rng, root string, scenarios int) {
	steps := 0
	for sc := 0; sc < scenarios; sc++ {
		name := fmt.Sprintf("verif-c04-%d", atomic.AddInt32(&c04GateSeq, 1))
		gate := &c04Gate{persist: make(chan struct{}, 256), merge: make(chan struct{}, 256), open: 1}
		scorch.RegistryEventCallbacks[name] = gate.onEvent
		dir := filepath.Join(root, fmt.Sprintf("scr%d", sc))
		conf := map[string]interface{}{"unsafe_batch": true, "eventCallbackName": name, "numSnapshotsToKeep": 1 + sc%2,
			"scorchMergePlanOptions": map[string]interface{}{"maxSegmentsPerTier": 2, "segmentsPerMergeTask": 2, "floorSegmentSize": 1}}
		if sc%3 == 1 {
			conf["scorchPersisterOptions"] = map[string]interface{}{"NumPersisterWorkers": 3, "MaxSizeInMemoryMergePerWorker": 64}
		}
		idx, err := bleve.NewUsing(dir, bleve.NewIndexMapping(), scorch.Name, scorch.Name, conf)
		must(err)
		adv, _ := idx.Advanced()
		if s, ok := adv.(*scorch.Scorch); ok {
			gate.src.Store(s)
		}
		atomic.StoreInt32(&gate.open, 0)
		K := 2
		t.Emit("scripted/reset", false, fmt.Sprintf("reset %d", K), "ok")
		n := 0
		type held struct {
			rd index.IndexReader
			id int
		}
		var readers []held
		nextReader := sc * 1000
		var script []string
		observe := func(rd index.IndexReader, client int, cat string) {
			docs, ints, count, err := c04Observe(rd, 1, K)
			if err != nil {
				t.Emit("scripted/"+cat, true, "echo ok", "read-failed:"+oneLine(err.Error())+" schedule="+strings.Join(script, ","))
				return
			}
			t.Emit("scripted/"+cat, true, c04Line(client, []int{n}, docs, ints, count), "ok")
			exact := "ok"
			if ints[0] != n {
				exact = fmt.Sprintf("after %d batches the reader shows batch %d; schedule=%s", n, ints[0], strings.Join(script, ","))
			}
			t.Emit("scripted/"+cat+"-is-now", true, "echo ok", exact)
		}
		nSteps := 20 + r.Intn(30)
		for st := 0; st < nSteps; st++ {
			x := r.Intn(100)
			switch {
			case x < 38:
				n++
				b := idx.NewBatch()
				c04FillBatch(b, 0, n, K)
				must(idx.Batch(b))
				script = append(script, "B")
			case x < 55:
				gate.step(gate.persist)
				script = append(script, "P")
			case x < 65:
				gate.step(gate.merge)
				script = append(script, "M")
			case x < 75: // a fresh reader, read and closed
				rd, err := adv.Reader()
				must(err)
				script = append(script, "R")
				observe(rd, 0, "read")
				rd.Close()
			case x < 82: // a reader that is kept
				if len(readers) >= 3 {
					continue
				}
				rd, err := adv.Reader()
				must(err)
				nextReader++
				readers = append(readers, held{rd, nextReader})
				script = append(script, "R+")
				observe(rd, 0, "read")
				docs, ints, count, _ := c04Observe(rd, 1, K)
				t.Emit("scripted/held", true, fmt.Sprintf("handle %d %s", nextReader, hs(c04Line(0, nil, docs, ints, count)+c04Extra(rd))), "ok")
			case x < 90: // a kept reader is read again: nothing may have changed
				if len(readers) == 0 {
					continue
				}
				h := readers[r.Intn(len(readers))]
				script = append(script, "R=")
				docs, ints, count, err := c04Observe(h.rd, 1, K)
				if err != nil {
					t.Emit("scripted/held", true, "echo ok", "read-failed:"+oneLine(err.Error())+" schedule="+strings.Join(script, ","))
					continue
				}
				t.Emit("scripted/held", true, fmt.Sprintf("handle %d %s", h.id, hs(c04Line(0, nil, docs, ints, count)+c04Extra(h.rd))), "ok")
			case x < 94:
				if len(readers) == 0 {
					continue
				}
				k := r.Intn(len(readers))
				readers[k].rd.Close()
				readers = append(readers[:k], readers[k+1:]...)
				script = append(script, "R-")
			case x < 97: // a search is one reader too
				script = append(script, "S")
				res, err := idx.Search(bleve.NewSearchRequestOptions(bleve.NewMatchAllQuery(), 100, 0, false))
				v := "ok"
				if err != nil {
					v = "search-failed:" + oneLine(err.Error())
				} else if rd, err := adv.Reader(); err == nil {
					cnt, _ := rd.DocCount()
					rd.Close()
					if res.Total != cnt {
						v = fmt.Sprintf("search total %d, reader count %d; schedule=%s", res.Total, cnt, strings.Join(script, ","))
					}
				}
				t.Emit("scripted/search", true, "echo ok", v)
			default:
				if s, ok := adv.(*scorch.Scorch); ok {
					go func() {
						ctx, cancel := context.WithTimeout(context.Background(), 100*time.Millisecond)
						defer cancel()
						_ = s.ForceMerge(ctx, nil)
					}()
				}
				script = append(script, "F")
			}
		}
		gate.openAll()
		for _, h := range readers {
			docs, ints, count, err := c04Observe(h.rd, 1, K)
			if err == nil {
				t.Emit("scripted/held", true, fmt.Sprintf("handle %d %s", h.id, hs(c04Line(0, nil, docs, ints, count)+c04Extra(h.rd))), "ok")
			}
			h.rd.Close()
		}
		// let persister and merger finish what is pending, then everything must be there
		time.Sleep(30 * time.Millisecond)
		rd, err := adv.Reader()
		must(err)
		observe(rd, 0, "final")
		rd.Close()
		must(idx.Close())
		delete(scorch.RegistryEventCallbacks, name)
		// and after a reopen
		if idx2, err := bleve.Open(dir); err != nil {
			t.Emit("scripted/reopen", true, "echo ok", "open-failed:"+oneLine(err.Error()))
		} else {
			adv2, _ := idx2.Advanced()
			rd2, err := adv2.Reader()
			must(err)
			docs, ints, count, err := c04Observe(rd2, 1, K)
			rd2.Close()
			if err == nil {
				// unsafe batches that were never persisted may be gone after Close: a whole-batch prefix
				t.Emit("scripted/reopen", true, c04Line(5, []int{0}, docs, ints, count), "ok")
			}
			idx2.Close()
		}
		os.RemoveAll(dir)
		steps += len(script)
	}
	t.Set("scripted-steps", steps)
}
