package main

import (
	"encoding/json"
	"fmt"
	"os"
	"sort"
	"strings"

	"github.com/blevesearch/bleve/v2"
	"github.com/blevesearch/bleve/v2/document"
	"github.com/blevesearch/bleve/v2/mapping"
	index "github.com/blevesearch/bleve_index_api"
)

func init() { props["c16"] = runC16 }

var c16Analyzers = []string{"", "standard", "keyword", "simple", "en", "myanalyzer", "web"}
var c16DateParsers = []string{"", "dateTimeOptional", "mydate"}
var c16FieldNames = []string{"title", "body", "n", "when", "flag", "tags", "x"}

func genFieldMapping(r *Rng, usedCustom *bool) *mapping.FieldMapping {
	var fm *mapping.FieldMapping
	switch r.Intn(6) {
	case 0, 1, 2:
		fm = bleve.NewTextFieldMapping()
		fm.Analyzer = c16Analyzers[r.Intn(len(c16Analyzers))]
		if fm.Analyzer == "myanalyzer" {
			*usedCustom = true
		}
		fm.IncludeTermVectors = r.Bool()
		fm.SkipFreqNorm = r.Chance(30)
	case 3:
		fm = bleve.NewNumericFieldMapping()
	case 4:
		fm = bleve.NewDateTimeFieldMapping()
		fm.DateFormat = c16DateParsers[r.Intn(len(c16DateParsers))]
		if fm.DateFormat == "mydate" {
			*usedCustom = true
		}
	default:
		fm = bleve.NewBooleanFieldMapping()
	}
	fm.Store = r.Bool()
	fm.Index = r.Chance(80)
	fm.IncludeInAll = r.Bool()
	fm.DocValues = r.Bool()
	if r.Chance(30) {
		fm.Name = []string{"alias", "other", "title2"}[r.Intn(3)]
	}
	return fm
}

func genDocMapping(r *Rng, depth int, usedCustom *bool) *mapping.DocumentMapping {
	dm := bleve.NewDocumentMapping()
	dm.Enabled = r.Chance(85)
	dm.Dynamic = r.Chance(60)
	if r.Chance(30) {
		dm.DefaultAnalyzer = c16Analyzers[1+r.Intn(4)]
	}
	nf := r.Intn(4)
	for i := 0; i < nf; i++ {
		name := c16FieldNames[r.Intn(len(c16FieldNames))]
		n := 1 + r.Intn(2)
		fms := make([]*mapping.FieldMapping, n)
		for k := range fms {
			fms[k] = genFieldMapping(r, usedCustom)
		}
		dm.AddFieldMappingsAt(name, fms...)
	}
	if depth > 0 {
		ns := r.Intn(3)
		for i := 0; i < ns; i++ {
			dm.AddSubDocumentMapping([]string{"sub", "addr", "items"}[r.Intn(3)], genDocMapping(r, depth-1, usedCustom))
		}
	}
	if r.Chance(15) {
		dm.StructTagKey = "json"
	}
	// containers that are allocated but empty: JSON leaves them out (omitempty) and gives back nil
	if len(dm.Fields) == 0 && r.Chance(50) {
		dm.Fields = []*mapping.FieldMapping{}
		c16EmptyContainers++
	}
	if len(dm.Properties) == 0 && r.Chance(40) {
		dm.Properties = map[string]*mapping.DocumentMapping{}
		c16EmptyContainers++
	}
	return dm
}

var c16EmptyContainers int

func genIndexMapping(r *Rng) *mapping.IndexMappingImpl {
	im := bleve.NewIndexMapping()
	usedCustom := false
	if r.Chance(70) {
		im.DefaultMapping = genDocMapping(r, 2, &usedCustom)
	}
	nt := r.Intn(3)
	for i := 0; i < nt; i++ {
		im.AddDocumentMapping([]string{"book", "person", "raw"}[r.Intn(3)], genDocMapping(r, 2, &usedCustom))
	}
	if r.Chance(40) {
		im.TypeField = []string{"kind", "_type", "meta.type", ""}[r.Intn(4)]
	}
	if r.Chance(40) {
		im.DefaultType = []string{"book", "_default", "person", ""}[r.Intn(4)]
	}
	if r.Chance(40) {
		im.DefaultAnalyzer = []string{"standard", "keyword", "en", "myanalyzer"}[r.Intn(4)]
		if im.DefaultAnalyzer == "myanalyzer" {
			usedCustom = true
		}
	}
	if r.Chance(30) {
		im.DefaultDateTimeParser = []string{"dateTimeOptional", "mydate"}[r.Intn(2)]
		if im.DefaultDateTimeParser == "mydate" {
			usedCustom = true
		}
	}
	if r.Chance(30) {
		im.DefaultField = []string{"_all", "title", ""}[r.Intn(3)]
	}
	im.StoreDynamic = r.Chance(70)
	im.IndexDynamic = r.Chance(80)
	im.DocValuesDynamic = r.Chance(70)
	if r.Chance(25) {
		im.ScoringModel = []string{"tfidf", "bm25"}[r.Intn(2)]
	}
	if usedCustom || r.Chance(30) {
		must(im.AddCustomTokenFilter("mylen", map[string]interface{}{"type": "length", "min": 2.0, "max": 8.0}))
		must(im.AddCustomTokenMap("mywords", map[string]interface{}{"type": "custom", "tokens": []interface{}{"the", "of"}}))
		must(im.AddCustomTokenFilter("mystop", map[string]interface{}{"type": "stop_tokens", "stop_token_map": "mywords"}))
		must(im.AddCustomCharFilter("myhtml", map[string]interface{}{"type": "html"}))
		must(im.AddCustomTokenizer("mytok", map[string]interface{}{"type": "regexp", "regexp": `\w+`}))
		must(im.AddCustomAnalyzer("myanalyzer", map[string]interface{}{
			"type": "custom", "tokenizer": "mytok",
			"char_filters":  []interface{}{"myhtml"},
			"token_filters": []interface{}{"to_lower", "mylen", "mystop"},
		}))
		must(im.AddCustomDateTimeParser("mydate", map[string]interface{}{
			"type": "flexiblego", "layouts": []interface{}{"2006/01/02", "2006-01-02T15:04:05Z07:00"},
		}))
		// definitions the mapping turns down (a name taken already, a component that does not exist): the caller carries
		// on with the mapping as it is, and nothing of a rejected definition may reach the JSON form
		if r.Chance(50) {
			_ = im.AddCustomAnalyzer("myanalyzer", map[string]interface{}{"type": "custom", "tokenizer": "single", "token_filters": []interface{}{}})
			_ = im.AddCustomAnalyzer("broken", map[string]interface{}{"type": "custom", "tokenizer": "no-such-tokenizer"})
			_ = im.AddCustomTokenFilter("mylen", map[string]interface{}{"type": "length", "min": 1.0, "max": 2.0})
			_ = im.AddCustomTokenFilter("badfilter", map[string]interface{}{"type": "no-such-filter"})
			_ = im.AddCustomTokenizer("mytok", map[string]interface{}{"type": "regexp", "regexp": `\d+`})
			_ = im.AddCustomCharFilter("myhtml", map[string]interface{}{"type": "regexp", "regexp": "a", "replace": "b"})
			_ = im.AddCustomTokenMap("mywords", map[string]interface{}{"type": "custom", "tokens": []interface{}{"zzz"}})
			_ = im.AddCustomDateTimeParser("mydate", map[string]interface{}{"type": "flexiblego", "layouts": []interface{}{"2006"}})
		}
	}
	return im
}

func genC16Value(r *Rng, depth int) interface{} {
	switch r.Intn(9) {
	case 0:
		return []string{"The Quick brown fox", "of mice <b>and</b> men", "", "x"}[r.Intn(4)]
	case 1:
		return float64(r.Intn(100)) / 4
	case 2:
		return r.Bool()
	case 3:
		return []string{"2020/01/02", "2021-02-03T04:05:06Z", "not a date"}[r.Intn(3)]
	case 4:
		return nil
	case 5:
		n := r.Intn(3)
		arr := make([]interface{}, n)
		for i := range arr {
			arr[i] = genC16Value(r, depth-1)
		}
		return arr
	default:
		if depth <= 0 {
			return "leaf words here"
		}
		return genC16Doc(r, depth-1)
	}
}

func genC16Doc(r *Rng, depth int) map[string]interface{} {
	d := map[string]interface{}{}
	names := append(append([]string{}, c16FieldNames...), "sub", "addr", "items", "kind", "_type", "meta", "type", "unmapped")
	n := 1 + r.Intn(6)
	for i := 0; i < n; i++ {
		d[names[r.Intn(len(names))]] = genC16Value(r, depth)
	}
	if r.Chance(50) {
		d[[]string{"kind", "_type"}[r.Intn(2)]] = []string{"book", "person", "raw", "nosuch"}[r.Intn(4)]
	}
	return d
}

// canonical rendering of a mapped document: every field with type, options, positions and analysed terms
func canonMappedDoc(m mapping.IndexMapping, data interface{}) string {
	doc := document.NewDocument("x")
	if err := m.MapDocument(doc, data); err != nil {
		return "ERR:" + strings.ReplaceAll(err.Error(), " ", "_")
	}
	var parts []string
	for _, f := range doc.Fields {
		parts = append(parts, canonField(f))
	}
	for _, f := range doc.CompositeFields {
		parts = append(parts, canonField(f))
	}
	sort.Strings(parts)
	return strings.Join(parts, "|")
}

func canonField(f document.Field) string {
	f.Analyze()
	var terms []string
	for t, tf := range f.AnalyzedTokenFrequencies() {
		locs := make([]string, len(tf.Locations))
		for i, l := range tf.Locations {
			locs[i] = fmt.Sprintf("%d:%d:%d", l.Position, l.Start, l.End)
		}
		terms = append(terms, fmt.Sprintf("%s*%d@%s", hx([]byte(t)), tf.Frequency(), strings.Join(locs, ",")))
	}
	sort.Strings(terms)
	extra := ""
	if df, ok := f.(index.DateTimeField); ok {
		_, layout, _ := df.DateTime()
		extra = ";layout=" + hs(layout)
	}
	return fmt.Sprintf("%s;%T;opt=%d;pos=%v;len=%d%s;%s", f.Name(), f, f.Options(), f.ArrayPositions(), f.AnalyzedLength(), extra, strings.Join(terms, " "))
}

func runC16(t *Trace, r *Rng, tier string, _ []string) {
	nMap, nDocs := 240, 12
	if tier == "thorough" {
		nMap, nDocs = 3000, 25
	}
	custom, nested, invalid := 0, 0, 0
	for mi := 0; mi < nMap; mi++ {
		im := genIndexMapping(r)
		if err := im.Validate(); err != nil {
			invalid++ // the property is about valid mappings
			continue
		}
		js1, err := json.Marshal(im)
		if err != nil {
			t.Emit("marshal-err", true, "echo ok", "ERR")
			continue
		}
		if strings.Contains(string(js1), "myanalyzer") {
			custom++
		}
		if strings.Count(string(js1), `"properties"`) > 1 {
			nested++
		}
		im2 := bleve.NewIndexMapping()
		if err := json.Unmarshal(js1, im2); err != nil {
			t.Emit("unmarshal-err", true, "echo ok", "ERR "+strings.ReplaceAll(err.Error(), " ", "_"))
			continue
		}
		res := "ok"
		if err := im2.Validate(); err != nil {
			res = "INVALID-AFTER-ROUNDTRIP"
		}
		t.Emit("validate", true, "echo ok", res)
		js2, _ := json.Marshal(im2)
		// JSON fixpoint (compared as hex so that the line protocol stays single-token)
		t.Emit("json-fixpoint", true, "echo "+hx(js1), hx(js2))
		// a second generation must not drift either
		im3 := bleve.NewIndexMapping()
		if err := json.Unmarshal(js2, im3); err == nil {
			js3, _ := json.Marshal(im3)
			t.Emit("json-fixpoint2", true, "echo "+hx(js2), hx(js3))
		}
		for di := 0; di < nDocs; di++ {
			d := genC16Doc(r, 2)
			a := canonMappedDoc(im, d)
			b := canonMappedDoc(im2, d)
			t.Emit("mapdoc", a != "", "echo "+strings.ReplaceAll(a, " ", "+"), strings.ReplaceAll(b, " ", "+"))
		}
		// query-side defaults derived from the mapping
		for _, path := range []string{"title", "body", "sub.title", "when", "nosuch"} {
			// with several type mappings the lookup walks a Go map and may answer differently from call to
			// call when they disagree about the path: only an unambiguous mapping is judged
			if len(im.TypeMapping) > 1 {
				t.Add("analyzer-for-path-ambiguous-not-judged", 1)
				continue
			}
			t.Emit("analyzer-for-path", true, "echo "+hs(im.AnalyzerNameForPath(path)), hs(im2.AnalyzerNameForPath(path)))
		}
		t.Emit("defaults", true, "echo "+hs(im.DefaultSearchField()), hs(im2.DefaultSearchField()))
	}
	// through a real index: create, close, Open
	nIdx := 3
	if tier == "thorough" {
		nIdx = 40
	}
	for i := 0; i < nIdx; i++ {
		im := genIndexMapping(r)
		if im.Validate() != nil {
			continue
		}
		_ = r.U64()
		parent, err := os.MkdirTemp("", "verif-c16-")
		must(err)
		dir := parent + "/i"
		defer os.RemoveAll(parent)
		idx, err := bleve.New(dir, im)
		if err != nil {
			t.Emit("reopen-create-err", true, "echo ok", "ERR:"+strings.ReplaceAll(oneLine(err.Error()), " ", "_"))
			continue
		}
		idx.Close()
		idx2, err := bleve.Open(dir)
		if err != nil {
			t.Emit("reopen-open-err", true, "echo ok", "ERR")
			removeAll(dir)
			continue
		}
		js1, _ := json.Marshal(im)
		js2, _ := json.Marshal(idx2.Mapping())
		t.Emit("reopen-json", true, "echo "+hx(js1), hx(js2))
		for di := 0; di < 6; di++ {
			d := genC16Doc(r, 2)
			t.Emit("reopen-mapdoc", true, "echo "+strings.ReplaceAll(canonMappedDoc(im, d), " ", "+"),
				strings.ReplaceAll(canonMappedDoc(idx2.Mapping(), d), " ", "+"))
		}
		idx2.Close()
		removeAll(dir)
	}
	t.Set("mappings_with_custom_analysis", custom)
	t.Set("mappings_with_sub_documents", nested)
	t.Set("allocated_but_empty_containers", c16EmptyContainers)
	t.Set("generated_mappings_rejected_by_validate", invalid)
}
