package main

import (
	"encoding/json"
	"fmt"
	"reflect"
	"sort"
	"strings"
	"time"

	"github.com/blevesearch/bleve/v2"
	"github.com/blevesearch/bleve/v2/search"
	"github.com/blevesearch/bleve/v2/search/query"
)

func init() { props["c17"] = runC17 }

func hitsCanon(idx bleve.Index, q query.Query, n int) string {
	req := bleve.NewSearchRequestOptions(q, n+5, 0, false)
	sr, err := idx.Search(req)
	if err != nil {
		return "ERR:" + strings.ReplaceAll(err.Error(), " ", "_")
	}
	ids := make([]string, len(sr.Hits))
	for i, h := range sr.Hits {
		ids[i] = h.ID
	}
	sort.Strings(ids)
	return fmt.Sprintf("%d:%s", sr.Total, strings.Join(ids, ","))
}

func resultCanon(sr *bleve.SearchResult, facetNames []string) string {
	var sb strings.Builder
	fmt.Fprintf(&sb, "T%d", sr.Total)
	for _, h := range sr.Hits {
		ks := make([]string, len(h.Sort))
		for i, k := range h.Sort {
			ks[i] = hx([]byte(k))
		}
		fmt.Fprintf(&sb, "|%s/%s/%s/%d", h.ID, strings.Join(ks, "."), canonFields(h.Fields), len(h.Fragments))
	}
	for _, fn := range facetNames {
		if fr, ok := sr.Facets[fn]; ok {
			fmt.Fprintf(&sb, "|F:%s:%s", fn, strings.ReplaceAll(fmtFacet(fr), " ", "_"))
		}
	}
	return sb.String()
}

type qsClause struct {
	text   string
	q      query.Query
	prefix int // 0 should, 1 must, 2 must not
}

func genQSClause(r *Rng) qsClause {
	field := ""
	if r.Chance(70) {
		field = []string{"t0", "t1", "n0", "d0"}[r.Intn(4)]
	}
	w := func() string { return c02Vocab[r.Intn(len(c02Vocab))] }
	var c qsClause
	c.prefix = []int{0, 0, 1, 2}[r.Intn(4)]
	pre := []string{"", "+", "-"}[c.prefix]
	fp := ""
	if field != "" {
		fp = field + ":"
	}
	setField := func(q query.FieldableQuery) {
		if field != "" {
			q.SetField(field)
		}
	}
	switch k := r.Intn(9); {
	case k <= 2 || (field == "" && k >= 6): // word
		t := w()
		q := query.NewMatchQuery(t)
		setField(q)
		c.text, c.q = pre+fp+t, q
	case k == 3: // phrase
		t := w() + " " + w()
		q := query.NewMatchPhraseQuery(t)
		setField(q)
		c.text, c.q = pre+fp+`"`+t+`"`, q
	case k == 4: // fuzzy
		t := w()
		fz := 1 + r.Intn(2)
		q := query.NewMatchQuery(t)
		q.SetFuzziness(fz)
		setField(q)
		c.text, c.q = fmt.Sprintf("%s%s%s~%d", pre, fp, t, fz), q
	case k == 5: // wildcard / regexp
		if r.Bool() {
			t := []string{"a*", "?b", "ab?"}[r.Intn(3)]
			q := query.NewWildcardQuery(t)
			setField(q)
			c.text, c.q = pre+fp+t, q
		} else {
			t := []string{"a.*", "[ab]+", "z+"}[r.Intn(3)]
			q := query.NewRegexpQuery(t)
			setField(q)
			c.text, c.q = pre+fp+"/"+t+"/", q
		}
	case k == 6: // numeric comparison
		v := float64(r.Intn(9)-4) / 2
		op := []string{">", ">=", "<", "<="}[r.Intn(4)]
		incl := strings.HasSuffix(op, "=")
		var q *query.NumericRangeQuery
		if op[0] == '>' {
			q = query.NewNumericRangeInclusiveQuery(&v, nil, &incl, nil)
		} else {
			q = query.NewNumericRangeInclusiveQuery(nil, &v, nil, &incl)
		}
		q.SetField(field)
		c.text, c.q = fmt.Sprintf("%s%s%s%v", pre, fp, op, v), q
	case k == 7: // bare number in a field: match OR equality
		v := float64(r.Intn(5))
		str := fmt.Sprint(v)
		q1 := query.NewMatchQuery(str)
		q1.SetField(field)
		incl := true
		q2 := query.NewNumericRangeInclusiveQuery(&v, &v, &incl, &incl)
		q2.SetField(field)
		c.text, c.q = pre+fp+str, query.NewDisjunctionQuery([]query.Query{q1, q2})
	default: // date comparison
		tm := c02Base.Add(time.Duration(r.Intn(6)) * time.Hour)
		op := []string{">", ">=", "<", "<="}[r.Intn(4)]
		incl := strings.HasSuffix(op, "=")
		var q *query.DateRangeQuery
		if op[0] == '>' {
			q = query.NewDateRangeInclusiveQuery(tm, time.Time{}, &incl, nil)
		} else {
			q = query.NewDateRangeInclusiveQuery(time.Time{}, tm, nil, &incl)
		}
		q.SetField(field)
		c.text, c.q = fmt.Sprintf(`%s%s%s"%s"`, pre, fp, op, tm.Format(time.RFC3339)), q
	}
	if r.Chance(20) {
		b := float64(1 + r.Intn(3))
		if bq, ok := c.q.(query.BoostableQuery); ok {
			bq.SetBoost(b)
			if strings.Contains(c.text, "~") {
				c.text += " " // the tilde suffix ends at a space
			}
			c.text += fmt.Sprintf("^%v", b)
		}
	}
	return c
}

func parseQS(s string) (q query.Query, res string) {
	defer func() {
		if e := recover(); e != nil {
			q, res = nil, "PANIC"
		}
	}()
	qs := bleve.NewQueryStringQuery(s)
	pq, err := qs.Parse()
	if err != nil {
		return nil, "reject"
	}
	js, err := json.Marshal(pq)
	if err != nil {
		return pq, "accept:marshal-err"
	}
	return pq, "accept:" + hx(js)
}

func runC17(t *Trace, r *Rng, tier string, _ []string) {
	nIdx, nQ, nFuzz := 6, 40, 3000
	if tier == "thorough" {
		nIdx, nQ, nFuzz = 60, 150, 300000
	}
	kinds := map[string]int{}
	for ix := 0; ix < nIdx; ix++ {
		engine := []string{"scorch", "upsidedown"}[ix%2]
		ci := buildC02Index(r, engine)
		n := len(ci.ids)
		// (1) JSON round trip of query trees
		for qi := 0; qi < nQ; qi++ {
			q, _ := genQuery(r, 3, ci.ids, kinds)
			js, err := json.Marshal(q)
			if err != nil {
				t.Emit("query-json/marshal-err", true, "echo ok", "ERR")
				continue
			}
			pq, err := query.ParseQuery(js)
			if err != nil {
				t.Emit("query-json/parse-err", true, "echo ok", "ERR:"+strings.ReplaceAll(err.Error(), " ", "_")+":"+hx(js))
				continue
			}
			a, b := hitsCanon(ci.idx, q, n), hitsCanon(ci.idx, pq, n)
			t.Emit("query-json/results", !strings.HasPrefix(a, "0:"), "echo "+a, b)
			// second generation: JSON of the parsed query parses to the same results again
			js2, _ := json.Marshal(pq)
			if pq2, err := query.ParseQuery(js2); err == nil {
				t.Emit("query-json/results-gen2", true, "echo "+a, hitsCanon(ci.idx, pq2, n))
			}
			// the concrete type that came back (for the dispatch table of Props/C17.lean)
			t.Add("type_"+reflect.TypeOf(q).Elem().Name()+"->"+reflect.TypeOf(pq).Elem().Name(), 1)
		}
		// (2) search request round trip
		for qi := 0; qi < nQ/2; qi++ {
			q, _ := genQuery(r, 2, ci.ids, kinds)
			req := bleve.NewSearchRequestOptions(q, r.Intn(n+2), r.Intn(4), false)
			var so search.SortOrder
			for k := 0; k < r.Intn(3); k++ {
				f := []string{"t0", "n0", "d0", "b0"}[r.Intn(4)]
				sf := &search.SortField{Field: f, Desc: r.Bool()}
				sf.Type = search.SortFieldType(r.Intn(4))
				sf.Mode = search.SortFieldMode(1 + r.Intn(2))
				sf.Missing = search.SortFieldMissing(r.Intn(2))
				so = append(so, sf)
			}
			so = append(so, &search.SortDocID{Desc: r.Bool()})
			switch x := r.Intn(100); {
			case x < 12:
				// an explicitly empty sort order ("no sort keys": hits in index order), which is not the same
				// request as one without a sort (score descending)
				req.SortByCustom(search.SortOrder{})
				t.Add("requests_with_empty_sort", 1)
			case x < 22:
				// no sort given: the default
				t.Add("requests_with_default_sort", 1)
			default:
				req.SortByCustom(so)
			}
			var fnames []string
			if r.Chance(50) {
				f := bleve.NewFacetRequest("t0", 3+r.Intn(6))
				if r.Chance(30) {
					f.SetPrefixFilter("a")
				}
				req.AddFacet("ft", f)
				fnames = append(fnames, "ft")
			}
			if r.Chance(40) {
				f := bleve.NewFacetRequest("n0", 3)
				lo, hi := -1.0, 1.0
				f.AddNumericRange("neg", nil, &lo)
				f.AddNumericRange("mid", &lo, &hi)
				f.AddNumericRange("pos", &hi, nil)
				req.AddFacet("fn", f)
				fnames = append(fnames, "fn")
			}
			if r.Chance(30) {
				f := bleve.NewFacetRequest("d0", 2)
				if r.Bool() {
					f.AddDateTimeRange("early", time.Time{}, c02Base.Add(3*time.Hour))
					f.AddDateTimeRange("late", c02Base.Add(3*time.Hour), time.Time{})
				} else {
					// the same buckets given as date strings (what a request parsed from JSON holds), open at either end
					mid := c02Base.Add(3 * time.Hour).Format(time.RFC3339)
					end := c02Base.Add(5 * time.Hour).Format(time.RFC3339)
					f.AddDateTimeRangeString("early", nil, &mid)
					f.AddDateTimeRangeString("middle", &mid, &end)
					f.AddDateTimeRangeString("late", &end, nil)
				}
				req.AddFacet("fd", f)
				fnames = append(fnames, "fd")
			}
			if r.Chance(40) {
				req.Fields = []string{"t0", "n0"}
			}
			if r.Chance(30) {
				req.Highlight = bleve.NewHighlightWithStyle("html")
				req.Highlight.AddField("t0")
			}
			if r.Chance(30) {
				req.IncludeLocations = true
			}
			if r.Chance(20) {
				req.Score = "none"
			}
			js, err := json.Marshal(req)
			if err != nil {
				t.Emit("request-json/marshal-err", true, "echo ok", "ERR")
				continue
			}
			var req2 bleve.SearchRequest
			if err := json.Unmarshal(js, &req2); err != nil {
				t.Emit("request-json/unmarshal-err", true, "echo ok", "ERR:"+strings.ReplaceAll(err.Error(), " ", "_"))
				continue
			}
			r1, e1 := ci.idx.Search(req)
			r2, e2 := ci.idx.Search(&req2)
			if e1 != nil || e2 != nil {
				t.Emit("request-json/search-err", true, "echo "+fmt.Sprint(e1 != nil), fmt.Sprint(e2 != nil))
				continue
			}
			t.Emit("request-json/results", len(r1.Hits) > 0, "echo "+resultCanon(r1, fnames), resultCanon(r2, fnames))
		}
		// (3) query strings generated from the documented grammar vs the directly constructed query
		for qi := 0; qi < nQ; qi++ {
			nc := 1 + r.Intn(4)
			direct := query.NewBooleanQueryForQueryString(nil, nil, nil)
			var parts []string
			for k := 0; k < nc; k++ {
				c := genQSClause(r)
				parts = append(parts, c.text)
				switch c.prefix {
				case 0:
					direct.AddShould(c.q)
				case 1:
					direct.AddMust(c.q)
				default:
					direct.AddMustNot(c.q)
				}
			}
			s := strings.Join(parts, " ")
			pq, res := parseQS(s)
			if pq == nil {
				t.Emit("qs-grammar/rejected", true, "echo accepted", res+":"+hs(s))
				continue
			}
			a := hitsCanon(ci.idx, direct, n)
			t.Emit("qs-grammar/results", !strings.HasPrefix(a, "0:"), "echo "+a, hitsCanon(ci.idx, pq, n))
		}
		ci.idx.Close()
	}
	// (3b) lexer and grammar against the Lean model: inputs written from the documented grammar
	for i := 0; i < nFuzz; i++ {
		c17ModelLines(t, "qs-model-grammar", c17GenGrammar(r))
	}
	for _, s := range c17FixedInputs {
		c17ModelLines(t, "qs-model-fixed", s)
	}
	// (4) arbitrary input: no panic, and the answer for a probe does not depend on what was parsed before
	alpha := []string{"a", "b", "ab", " ", " ", ":", "+", "-", "\"", "\\", "~", "^", "1", "2.5", ">", "<", "=", "*", "?", "/", "(", ")",
		"\t", "\xff", "\xc3\xa9", "٣", "t0", "n0", "\n"}
	probes := []string{"+t0:ab -t0:b", "t0:ab~1 b", "n0:>1 t1:\"ab b\"", "ab^2 +b", "\\+a:b c", "t0:a* /b+/"}
	base := make([]string, len(probes))
	for i, p := range probes {
		_, _ = parseQS("plain words")
		_, base[i] = parseQS(p)
	}
	panics := 0
	for i := 0; i < nFuzz; i++ {
		var sb strings.Builder
		l := 1 + r.Intn(12)
		for k := 0; k < l; k++ {
			sb.WriteString(alpha[r.Intn(len(alpha))])
		}
		s := sb.String()
		if r.Chance(25) { // endings that leave the lexer in an unusual state
			s += []string{"\\", "\"abc", "\"abc\\", "~", "^", "a:", ":", "\"", "+", "a~"}[r.Intn(10)]
		}
		c17ModelLines(t, "qs-model-fuzz", s)
		_, res1 := parseQS(s)
		if res1 == "PANIC" {
			panics++
			t.Emit("qs-fuzz/panic", true, "echo no-panic", "PANIC:"+hs(s))
		}
		pi := r.Intn(len(probes))
		_, got := parseQS(probes[pi])
		if i < 400 || got != base[pi] {
			t.Emit("qs-fuzz/probe-after", true, "echo "+base[pi], got)
		}
		if i%8 == 0 { // determinism of the input itself
			_, _ = parseQS("x")
			_, res2 := parseQS(s)
			if i < 400 || res1 != res2 {
				t.Emit("qs-fuzz/repeat", true, "echo "+res1, res2)
			}
		}
	}
	t.Set("fuzz_inputs", nFuzz)
	t.Set("fuzz_panics", panics)
	for k, v := range kinds {
		t.Set("querykind_"+k, v)
	}
}
