package main

import (
	"context"
	"fmt"
	"math"
	"os"
	"path/filepath"
	"sort"
	"strings"
	"time"

	"github.com/blevesearch/bleve/v2"
	"github.com/blevesearch/bleve/v2/index/scorch"
	"github.com/blevesearch/bleve/v2/search"
	"github.com/blevesearch/bleve/v2/search/query"
)

func init() { props["c05"] = runC05 }

type c05Layout struct {
	name string
	idx  bleve.Index
	dir  string
}

// a history: index / update / delete operations over the C02 document family
type c05Op struct {
	del bool
	doc c02Doc
}

func c05Apply(idx bleve.Index, ops []c05Op, r *Rng, mode string) {
	switch mode {
	case "one-per-op":
		for _, o := range ops {
			if o.del {
				must(idx.Delete(o.doc.id))
			} else {
				must(idx.Index(o.doc.id, o.doc.asMap()))
			}
		}
	case "single-batch":
		b := idx.NewBatch()
		for _, o := range ops {
			if o.del {
				b.Delete(o.doc.id)
			} else {
				must(b.Index(o.doc.id, o.doc.asMap()))
			}
		}
		must(idx.Batch(b))
	default: // random partition
		b := idx.NewBatch()
		for _, o := range ops {
			if o.del {
				b.Delete(o.doc.id)
			} else {
				must(b.Index(o.doc.id, o.doc.asMap()))
			}
			if r.Chance(30) {
				must(idx.Batch(b))
				b = idx.NewBatch()
			}
		}
		must(idx.Batch(b))
	}
}

func c05Canon(sr *bleve.SearchResult, facetNames []string, withScores bool) string {
	var sb strings.Builder
	fmt.Fprintf(&sb, "T%d", sr.Total)
	if withScores {
		fmt.Fprintf(&sb, "M%016x", math.Float64bits(sr.MaxScore))
	}
	for _, h := range sr.Hits {
		ks := make([]string, len(h.Sort))
		for i, k := range h.Sort {
			ks[i] = hx([]byte(k))
		}
		fmt.Fprintf(&sb, "|%s/%s/%s", h.ID, strings.Join(ks, "."), canonFields(h.Fields))
		if withScores {
			fmt.Fprintf(&sb, "/s%016x", math.Float64bits(h.Score))
		}
		// locations and fragments
		var locs []string
		for f, tlm := range h.Locations {
			for term, ls := range tlm {
				for _, l := range ls {
					locs = append(locs, fmt.Sprintf("%s:%s:%d:%d:%d:%v", f, hx([]byte(term)), l.Pos, l.Start, l.End, l.ArrayPositions))
				}
			}
		}
		sort.Strings(locs)
		var frs []string
		for f, fs := range h.Fragments {
			frs = append(frs, f+"="+hx([]byte(strings.Join(fs, "\x00"))))
		}
		sort.Strings(frs)
		fmt.Fprintf(&sb, "/L%s/F%s", strings.Join(locs, ";"), strings.Join(frs, ";"))
	}
	for _, fn := range facetNames {
		if fr, ok := sr.Facets[fn]; ok {
			fmt.Fprintf(&sb, "|F:%s:%s", fn, strings.ReplaceAll(fmtFacet(fr), " ", "_"))
		}
	}
	return strings.ReplaceAll(sb.String(), " ", "+")
}

func containsBigDisjunction(tok string) bool {
	fs := strings.Fields(tok)
	for i := 0; i+2 < len(fs); i++ {
		if fs[i] == "D" {
			var n int
			if _, err := fmt.Sscanf(fs[i+2], "%d", &n); err == nil && n > 10 {
				return true
			}
		}
	}
	return false
}

// queries whose leaves expand to the terms present in a field dictionary (prefix, wildcard, regexp, fuzzy,
// term range, numeric / date range)
func containsDictionaryExpansion(tok string) bool {
	for _, f := range strings.Fields(tok) {
		switch f {
		case "W", "X", "R", "N":
			return true
		}
	}
	return false
}

func runC05(t *Trace, r *Rng, tier string, _ []string) {
	runSnapSteps(t, r, tier)
	nHist, nReq := 10, 40
	if tier == "thorough" {
		nHist, nReq = 40, 120
	}
	tmpRoot, err := os.MkdirTemp("", "verif-c05-")
	must(err)
	defer os.RemoveAll(tmpRoot)
	kinds := map[string]int{}
	for h := 0; h < nHist; h++ {
		// history
		nIDs := r.Range(5, 14)
		var ops []c05Op
		live := map[string]bool{}
		var ids []string
		for i := 0; i < nIDs; i++ {
			d := genC02Doc(r, i)
			ops = append(ops, c05Op{doc: d})
			live[d.id] = true
			ids = append(ids, d.id)
		}
		for k := 0; k < nIDs; k++ {
			i := r.Intn(nIDs)
			if r.Chance(35) {
				ops = append(ops, c05Op{del: true, doc: c02Doc{id: fmt.Sprintf("d%03d", i)}})
				delete(live, fmt.Sprintf("d%03d", i))
			} else {
				d := genC02Doc(r, i)
				ops = append(ops, c05Op{doc: d})
				live[d.id] = true
			}
		}
		smallMerge := map[string]interface{}{"maxSegmentsPerTier": 2, "segmentsPerMergeTask": 2, "floorSegmentSize": 1}
		var layouts []*c05Layout
		mk := func(name, mode string, disk bool, kv map[string]interface{}, after func(l *c05Layout)) {
			l := &c05Layout{name: name}
			path := ""
			if disk {
				l.dir = filepath.Join(tmpRoot, fmt.Sprintf("h%d-%s", h, name))
				path = l.dir
			}
			idx, err := bleve.NewUsing(path, c02Mapping(), scorch.Name, scorch.Name, kv)
			must(err)
			l.idx = idx
			c05Apply(idx, ops, r, mode)
			if after != nil {
				after(l)
			}
			layouts = append(layouts, l)
		}
		settle := func(l *c05Layout) { time.Sleep(150 * time.Millisecond) }
		mk("mem-one-per-op", "one-per-op", false, nil, nil)
		mk("mem-single-batch", "single-batch", false, nil, nil)
		mk("disk-random-merging", "random", true, map[string]interface{}{"scorchMergePlanOptions": smallMerge}, settle)
		mk("disk-forcemerge", "one-per-op", true, nil, func(l *c05Layout) {
			if adv, err := l.idx.Advanced(); err == nil {
				if sc, ok := adv.(*scorch.Scorch); ok {
					_ = sc.ForceMerge(context.Background(), nil)
				}
			}
		})
		mk("disk-reopened", "random", true, map[string]interface{}{"scorchMergePlanOptions": smallMerge}, func(l *c05Layout) {
			settle(l)
			must(l.idx.Close())
			idx, err := bleve.Open(l.dir)
			must(err)
			l.idx = idx
		})
		mk("disk-3workers-unsafe", "random", true, map[string]interface{}{
			"unsafe_batch":           true,
			"scorchPersisterOptions": map[string]interface{}{"NumPersisterWorkers": 3, "MaxSizeInMemoryMergePerWorker": 1 << 20},
			"scorchMergePlanOptions": smallMerge}, settle)
		// several flush groups per persister round: two workers, a group is closed as soon as it holds two
		// segments, and the persister naps so that segments pile up in memory
		mk("disk-2workers-small-groups-unsafe", "random", true, map[string]interface{}{
			"unsafe_batch": true,
			"scorchPersisterOptions": map[string]interface{}{"NumPersisterWorkers": 2, "MaxSizeInMemoryMergePerWorker": 1,
				"PersisterNapTimeMSec": 40, "PersisterNapUnderNumFiles": 1000},
			"scorchMergePlanOptions": smallMerge}, settle)
		zv := 15 + h%3
		mk(fmt.Sprintf("disk-zap%d", zv), "random", true, map[string]interface{}{"forceSegmentType": "zap", "forceSegmentVersion": zv}, nil)

		ref := layouts[0]
		for qi := 0; qi < nReq; qi++ {
			q, ftok := genQuery(r, 3, ids, kinds)
			if r.Chance(15) { // conjunctions of term-type clauses: scorch intersects their postings segment by segment
				q, ftok = genConjOfTerms(r, kinds)
			} else if r.Chance(15) {
				q, ftok = genConjWithKey(r, kinds)
			}
			tok, _ := resolveFuzzy(ftok, true)
			withScores := r.Chance(60)
			mkReq := func() *bleve.SearchRequest {
				return nil
			}
			_ = mkReq
			size, from := r.Intn(nIDs+3), r.Intn(3)
			sortKind := r.Intn(6)
			facets := r.Chance(40)
			fields := r.Chance(40)
			hl := r.Chance(30)
			locs := r.Chance(40)
			build := func(q query.Query) *bleve.SearchRequest {
				req := bleve.NewSearchRequestOptions(q, size, from, false)
				switch sortKind {
				case 0:
					req.SortBy([]string{"-_score", "_id"})
				case 1:
					req.SortByCustom(search.SortOrder{&search.SortField{Field: "t0", Mode: search.SortFieldMin, Missing: search.SortFieldMissingFirst}, &search.SortDocID{}})
				case 2:
					req.SortBy([]string{"-n0", "_id"})
				case 4: // fields without doc values: first one of them ...
					req.SortBy([]string{"k0", "_id"})
				case 5: // ... then both together
					req.SortBy([]string{"k0", "-k1", "_id"})
				default:
					req.SortBy([]string{"_id"})
				}
				if !withScores && sortKind != 0 {
					req.Score = "none"
				}
				if facets {
					req.AddFacet("ft", bleve.NewFacetRequest("t1", 4))
					nf := bleve.NewFacetRequest("n0", 3)
					z := 0.0
					nf.AddNumericRange("neg", nil, &z)
					nf.AddNumericRange("pos", &z, nil)
					req.AddFacet("fn", nf)
					req.AddFacet("fk", bleve.NewFacetRequest("k1", 3))
				}
				if fields {
					req.Fields = []string{"t0", "n0", "b0"}
				}
				if hl {
					req.Highlight = bleve.NewHighlightWithStyle("html")
					req.Highlight.AddField("t0")
				}
				req.IncludeLocations = locs
				return req
			}
			var fnames []string
			if facets {
				fnames = []string{"ft", "fn", "fk"}
			}
			scoresCompared := withScores || sortKind == 0
			rr, err := ref.idx.Search(build(q))
			if err != nil {
				continue
			}
			scoreLine := func(sr *bleve.SearchResult) string {
				var sb strings.Builder
				fmt.Fprintf(&sb, "M%016x", math.Float64bits(sr.MaxScore))
				for _, h := range sr.Hits {
					fmt.Fprintf(&sb, "|%s:%016x", h.ID, math.Float64bits(h.Score))
				}
				return sb.String()
			}
			want := c05Canon(rr, fnames, false)
			wantScores := scoreLine(rr)
			for _, l := range layouts[1:] {
				sr, err := l.idx.Search(build(q))
				got, gotScores := "ERR", "ERR"
				if err == nil {
					got = c05Canon(sr, fnames, false)
					gotScores = scoreLine(sr)
				}
				// everything but the scores: must be identical for every request
				// (under a score sort the order is part of it only when the scores themselves agree)
				if sortKind != 0 || gotScores == wantScores {
					t.Emit("layout/"+l.name, len(rr.Hits) > 0, "echo "+want, got)
				}
				if scoresCompared {
					cat := "scores/" + l.name
					if containsDictionaryExpansion(tok) {
						cat = "scored-dictionary-expansion/" + l.name
					} else if containsBigDisjunction(tok) {
						cat = "scored-disjunction-over-10-clauses/" + l.name
					}
					if os.Getenv("C05_DEBUG") != "" && gotScores != wantScores && strings.HasPrefix(cat, "scores/") {
						fmt.Fprintf(os.Stderr, "DEBUG %s query=%s\n", l.name, tok)
					}
					t.Emit(cat, len(rr.Hits) > 0, "echo "+wantScores, gotScores)
				}
			}
		}
		for _, l := range layouts {
			l.idx.Close()
			if l.dir != "" {
				os.RemoveAll(l.dir)
			}
		}
	}
}
