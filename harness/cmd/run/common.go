package main

import (
	"bufio"
	"encoding/hex"
	"encoding/json"
	"fmt"
	"os"
	"path/filepath"
	"sort"
	"strings"
)

// ---------- deterministic PRNG (splitmix64); every random choice derives from it ----------

type Rng struct{ s uint64 }

func NewRng(seed uint64) *Rng { return &Rng{s: seed*0x9e3779b97f4a7c15 + 0x1234567} }

func (r *Rng) U64() uint64 {
	r.s += 0x9e3779b97f4a7c15
	z := r.s
	z = (z ^ (z >> 30)) * 0xbf58476d1ce4e5b9
	z = (z ^ (z >> 27)) * 0x94d049bb133111eb
	return z ^ (z >> 31)
}
func (r *Rng) Intn(n int) int {
	if n <= 0 {
		return 0
	}
	return int(r.U64() % uint64(n))
}
func (r *Rng) Bool() bool           { return r.U64()&1 == 1 }
func (r *Rng) Chance(p int) bool    { return r.Intn(100) < p }
func (r *Rng) Range(lo, hi int) int { return lo + r.Intn(hi-lo+1) }
func (r *Rng) Fork() *Rng           { return NewRng(r.U64()) }

// ---------- trace writer: one op line for the Lean driver, one answer line from the implementation ----------

type Trace struct {
	dir      string
	ops      *bufio.Writer
	impl     *bufio.Writer
	catw     *bufio.Writer
	catF     *os.File
	opsF     *os.File
	implF    *os.File
	n        int
	cats     map[string]int
	samples  []string
	notes    []string
	extra    map[string]interface{}
	distinct map[string]struct{}
}

func NewTrace(dir string) *Trace {
	must(os.MkdirAll(dir, 0o755))
	of, err := os.Create(filepath.Join(dir, "ops.txt"))
	must(err)
	inf, err := os.Create(filepath.Join(dir, "impl.txt"))
	must(err)
	cf, err := os.Create(filepath.Join(dir, "cats.txt"))
	must(err)
	return &Trace{dir: dir, ops: bufio.NewWriterSize(of, 1<<20), impl: bufio.NewWriterSize(inf, 1<<20),
		catw: bufio.NewWriterSize(cf, 1<<20), catF: cf,
		opsF: of, implF: inf, cats: map[string]int{}, extra: map[string]interface{}{}, distinct: map[string]struct{}{}}
}

// Emit records one case: the op line sent to the model and the implementation's answer.
// cat is the generator category (for the distribution report); nontrivial marks cases that count
// towards distinct_nontrivial (deduplicated on the op line).
func (t *Trace) Emit(cat string, nontrivial bool, op string, impl string) {
	if strings.ContainsAny(op, "\n\r") || strings.ContainsAny(impl, "\n\r") {
		panic("newline in trace line: " + op)
	}
	t.ops.WriteString(op)
	t.ops.WriteByte('\n')
	t.impl.WriteString(impl)
	t.impl.WriteByte('\n')
	t.catw.WriteString(cat)
	t.catw.WriteByte('\n')
	t.n++
	t.cats[cat]++
	if nontrivial {
		t.distinct[op] = struct{}{}
	}
	if t.cats[cat] <= 2 && len(t.samples) < 40 {
		s := op
		if len(s) > 300 {
			s = s[:300] + "..."
		}
		im := impl
		if len(im) > 300 {
			im = im[:300] + "..."
		}
		t.samples = append(t.samples, cat+" | "+s+" => "+im)
	}
}

func (t *Trace) Note(s string)               { t.notes = append(t.notes, s) }
func (t *Trace) Set(k string, v interface{}) { t.extra[k] = v }
func (t *Trace) Add(k string, d int) {
	if v, ok := t.extra[k].(int); ok {
		t.extra[k] = v + d
	} else {
		t.extra[k] = d
	}
}

func (t *Trace) Close() {
	t.ops.Flush()
	t.impl.Flush()
	t.catw.Flush()
	t.catF.Close()
	t.opsF.Close()
	t.implF.Close()
	st := map[string]interface{}{
		"evaluations":         t.n,
		"distinct_nontrivial": len(t.distinct),
		"categories":          t.cats,
		"samples":             t.samples,
		"notes":               t.notes,
		"extra":               t.extra,
	}
	b, _ := json.MarshalIndent(st, "", " ")
	must(os.WriteFile(filepath.Join(t.dir, "stats.json"), b, 0o644))
}

func must(err error) {
	if err != nil {
		panic(err)
	}
}

func hx(b []byte) string {
	if len(b) == 0 {
		return "-"
	}
	return hex.EncodeToString(b)
}

func hx16(u uint64) string { return fmt.Sprintf("%016x", u) }

func sortedKeys(m map[string]int) []string {
	ks := make([]string, 0, len(m))
	for k := range m {
		ks = append(ks, k)
	}
	sort.Strings(ks)
	return ks
}

func tempDir() string    { return os.TempDir() }
func removeAll(p string) { _ = os.RemoveAll(p) }
