package main

import (
	"context"
	"encoding/json"
	"fmt"
	"github.com/blevesearch/bleve/v2/index/scorch"
	"math"
	"os"
	"path/filepath"
	"regexp"
	"sort"
	"strings"
	"time"

	"github.com/blevesearch/bleve/v2"
	"github.com/blevesearch/bleve/v2/mapping"
	"github.com/blevesearch/bleve/v2/numeric"
	"github.com/blevesearch/bleve/v2/search"
	"github.com/blevesearch/bleve/v2/search/query"
	index "github.com/blevesearch/bleve_index_api"
)

func init() {
	props["c02"] = runC02
	props["c08"] = runC08
}

var c02Vocab = []string{"ab", "abc", "b", "ba", "cab", "abd", "zz", "a"}

type c02Doc struct {
	id    string
	texts map[string][][]string // field -> elements -> words
	nums  []float64
	flag  *bool
	when  *time.Time
}

func c02Mapping() mapping.IndexMapping {
	m := bleve.NewIndexMapping()
	dm := bleve.NewDocumentMapping()
	for _, f := range []string{"t0", "t1"} {
		fm := bleve.NewTextFieldMapping()
		fm.Analyzer = "simple"
		fm.IncludeTermVectors = true
		dm.AddFieldMappingsAt(f, fm)
	}
	// a keyword field without term vectors: its terms can be 1-hit encoded when segments are merged
	kf := bleve.NewTextFieldMapping()
	kf.Analyzer = "keyword"
	kf.IncludeTermVectors = false
	kf.DocValues = false // sorted on through the per-segment un-inverted cache
	dm.AddFieldMappingsAt("k0", kf)
	kf1 := bleve.NewTextFieldMapping() // a second one of the kind, never queried, only sorted and faceted on
	kf1.Analyzer = "keyword"
	kf1.IncludeTermVectors = false
	kf1.DocValues = false
	dm.AddFieldMappingsAt("k1", kf1)
	dm.AddFieldMappingsAt("n0", bleve.NewNumericFieldMapping())
	dm.AddFieldMappingsAt("b0", bleve.NewBooleanFieldMapping())
	dm.AddFieldMappingsAt("d0", bleve.NewDateTimeFieldMapping())
	m.DefaultMapping = dm
	m.DefaultAnalyzer = "simple"
	return m
}

var c02Keys = []string{"kx", "ky", "kz", "kw"}

var c02Base = time.Date(2020, 2, 3, 4, 5, 6, 0, time.UTC)

func genC02Doc(r *Rng, i int) c02Doc {
	d := c02Doc{id: fmt.Sprintf("d%03d", i), texts: map[string][][]string{}}
	for _, f := range []string{"t0", "t1"} {
		ne := []int{0, 1, 1, 2}[r.Intn(4)]
		for e := 0; e < ne; e++ {
			nw := 1 + r.Intn(4)
			ws := make([]string, nw)
			for k := range ws {
				ws[k] = c02Vocab[r.Intn(len(c02Vocab))]
			}
			d.texts[f] = append(d.texts[f], ws)
		}
	}
	nn := []int{0, 1, 1, 2}[r.Intn(4)]
	for k := 0; k < nn; k++ {
		v := float64(r.Intn(9)-4) / 2
		dup := false
		for _, x := range d.nums {
			if x == v {
				dup = true
			}
		}
		if !dup {
			d.nums = append(d.nums, v)
		}
	}
	if r.Chance(40) { // key words: one element each, a term as it stands
		nk := 1 + r.Intn(2)
		for k := 0; k < nk; k++ {
			d.texts["k0"] = append(d.texts["k0"], []string{c02Keys[r.Intn(len(c02Keys))]})
		}
		d.texts["k1"] = [][]string{{"s" + d.texts["k0"][0][0]}}
	}
	if r.Chance(60) {
		b := r.Bool()
		d.flag = &b
	}
	if r.Chance(60) {
		w := c02Base.Add(time.Duration(r.Intn(6))*time.Hour + time.Duration(r.Intn(3)))
		d.when = &w
	}
	return d
}

func (d c02Doc) asMap() map[string]interface{} {
	mp := map[string]interface{}{}
	for f, els := range d.texts {
		vals := make([]interface{}, len(els))
		for i, ws := range els {
			vals[i] = strings.Join(ws, " ")
		}
		if len(vals) == 1 {
			mp[f] = vals[0]
		} else if len(vals) > 1 {
			mp[f] = vals
		}
	}
	if len(d.nums) == 1 {
		mp["n0"] = d.nums[0]
	} else if len(d.nums) > 1 {
		mp["n0"] = d.nums
	}
	if d.flag != nil {
		mp["b0"] = *d.flag
	}
	if d.when != nil {
		mp["d0"] = *d.when
	}
	return mp
}

func hs(s string) string { return hx([]byte(s)) }

// model rendering of a document (with the given internal id)
func (d c02Doc) tokens(iid uint64) string {
	var sb strings.Builder
	nt := 0
	var tb strings.Builder
	for _, f := range []string{"t0", "t1", "k0"} {
		els := d.texts[f]
		if len(els) == 0 {
			continue
		}
		nt++
		fmt.Fprintf(&tb, " %s %d", hs(f), len(els))
		for _, ws := range els {
			fmt.Fprintf(&tb, " %d", len(ws))
			for _, w := range ws {
				tb.WriteString(" " + hs(w))
			}
		}
	}
	if d.flag != nil { // a boolean field is indexed as the term "T" or "F"
		nt++
		v := "F"
		if *d.flag {
			v = "T"
		}
		fmt.Fprintf(&tb, " %s 1 1 %s", hs("b0"), hs(v))
	}
	fmt.Fprintf(&sb, "%d %s %d%s", iid, hs(d.id), nt, tb.String())
	nn := 0
	var nb strings.Builder
	if len(d.nums) > 0 {
		nn++
		fmt.Fprintf(&nb, " %s %d", hs("n0"), len(d.nums))
		for _, v := range d.nums {
			nb.WriteString(" " + hx16(math.Float64bits(v)))
		}
	}
	if d.when != nil {
		nn++
		fmt.Fprintf(&nb, " %s 1 %s", hs("d0"), hx16(math.Float64bits(numeric.Int64ToFloat64(d.when.UnixNano()))))
	}
	fmt.Fprintf(&sb, " %d%s", nn, nb.String())
	return sb.String()
}

type genQ struct {
	q   query.Query
	tok string
	// shape statistics
	depth int
	kinds map[string]int
}

func globToRegexp(p string) *regexp.Regexp {
	var sb strings.Builder
	sb.WriteString("^")
	for _, c := range p {
		switch c {
		case '*':
			sb.WriteString(".*")
		case '?':
			sb.WriteString(".")
		default:
			sb.WriteString(regexp.QuoteMeta(string(c)))
		}
	}
	sb.WriteString("$")
	return regexp.MustCompile(sb.String())
}

// optimal-string-alignment distance (Levenshtein with adjacent transpositions), ASCII
func osaDistance(a, b string) int {
	d := make([][]int, len(a)+1)
	for i := range d {
		d[i] = make([]int, len(b)+1)
		d[i][0] = i
	}
	for j := 0; j <= len(b); j++ {
		d[0][j] = j
	}
	for i := 1; i <= len(a); i++ {
		for j := 1; j <= len(b); j++ {
			cost := 1
			if a[i-1] == b[j-1] {
				cost = 0
			}
			v := d[i-1][j] + 1
			if d[i][j-1]+1 < v {
				v = d[i][j-1] + 1
			}
			if d[i-1][j-1]+cost < v {
				v = d[i-1][j-1] + cost
			}
			if i > 1 && j > 1 && a[i-1] == b[j-2] && a[i-2] == b[j-1] && d[i-2][j-2]+1 < v {
				v = d[i-2][j-2] + 1
			}
			d[i][j] = v
		}
	}
	return d[len(a)][len(b)]
}

// plain Levenshtein distance
func levDistance(a, b string) int {
	prev := make([]int, len(b)+1)
	for j := range prev {
		prev[j] = j
	}
	for i := 1; i <= len(a); i++ {
		cur := make([]int, len(b)+1)
		cur[0] = i
		for j := 1; j <= len(b); j++ {
			cost := 1
			if a[i-1] == b[j-1] {
				cost = 0
			}
			cur[j] = min(prev[j]+1, cur[j-1]+1, prev[j-1]+cost)
		}
		prev = cur
	}
	return prev[len(b)]
}

// resolveFuzzy rewrites every fuzzy leaf token "F field nLev lev... nOsa osa..." into the model's
// "W field n terms..." with the Levenshtein (documented) or the transposition-aware term set, and
// tells whether the two sets differ anywhere in the query.
func resolveFuzzy(tok string, transpositions bool) (string, bool) {
	ts := strings.Fields(tok)
	var out []string
	sensitive := false
	for i := 0; i < len(ts); i++ {
		if ts[i] != "F" {
			out = append(out, ts[i])
			continue
		}
		f := ts[i+1]
		var n1, n2 int
		fmt.Sscan(ts[i+2], &n1)
		lev := ts[i+3 : i+3+n1]
		fmt.Sscan(ts[i+3+n1], &n2)
		osa := ts[i+4+n1 : i+4+n1+n2]
		if n1 != n2 {
			sensitive = true
		}
		pick := lev
		if transpositions {
			pick = osa
		}
		out = append(out, "W", f, fmt.Sprint(len(pick)))
		out = append(out, pick...)
		i += 3 + n1 + n2
	}
	return strings.Join(out, " "), sensitive
}

func anyOfTok(f string, accepted []string) string {
	var sb strings.Builder
	fmt.Fprintf(&sb, "W %s %d", hs(f), len(accepted))
	for _, a := range accepted {
		sb.WriteString(" " + hs(a))
	}
	return sb.String()
}

func genLeaf(r *Rng, ids []string, kinds map[string]int) (query.Query, string) {
	f := []string{"t0", "t1"}[r.Intn(2)]
	w := func() string { return c02Vocab[r.Intn(len(c02Vocab))] }
	switch k := r.Intn(17); k {
	case 0, 1:
		kinds["term"]++
		t := w()
		q := bleve.NewTermQuery(t)
		q.SetField(f)
		return q, fmt.Sprintf("T %s %s", hs(f), hs(t))
	case 2:
		kinds["match"]++
		n := 1 + r.Intn(3)
		ws := make([]string, n)
		for i := range ws {
			ws[i] = w()
		}
		q := bleve.NewMatchQuery(strings.Join(ws, " "))
		q.SetField(f)
		var sb strings.Builder
		if r.Bool() {
			q.SetOperator(query.MatchQueryOperatorAnd)
			fmt.Fprintf(&sb, "C %d", n)
		} else {
			fmt.Fprintf(&sb, "D 0 %d", n)
		}
		for _, x := range ws {
			fmt.Fprintf(&sb, " T %s %s", hs(f), hs(x))
		}
		return q, sb.String()
	case 3, 4:
		n := 2 + r.Intn(2)
		ws := make([]string, n)
		for i := range ws {
			ws[i] = w()
		}
		var sb strings.Builder
		fmt.Fprintf(&sb, "P %s %d", hs(f), n)
		for _, x := range ws {
			sb.WriteString(" " + hs(x))
		}
		if r.Bool() {
			kinds["phrase"]++
			return bleve.NewPhraseQuery(ws, f), sb.String()
		}
		kinds["match_phrase"]++
		q := bleve.NewMatchPhraseQuery(strings.Join(ws, " "))
		q.SetField(f)
		return q, sb.String()
	case 5:
		kinds["prefix"]++
		p := []string{"a", "ab", "b", "c", "z", "abc"}[r.Intn(6)]
		q := bleve.NewPrefixQuery(p)
		q.SetField(f)
		return q, fmt.Sprintf("X %s %s", hs(f), hs(p))
	case 6:
		kinds["wildcard"]++
		p := []string{"a*", "?b", "*b*", "a?c", "*", "ab?", "z*z"}[r.Intn(7)]
		q := bleve.NewWildcardQuery(p)
		q.SetField(f)
		re := globToRegexp(p)
		var acc []string
		for _, v := range c02Vocab {
			if re.MatchString(v) {
				acc = append(acc, v)
			}
		}
		return q, anyOfTok(f, acc)
	case 7:
		kinds["regexp"]++
		p := []string{"a.*", "[ab]+", "ab(c|d)", "z+", ".b.*", "b?a"}[r.Intn(6)]
		q := bleve.NewRegexpQuery(p)
		q.SetField(f)
		re := regexp.MustCompile("^(" + p + ")$")
		var acc []string
		for _, v := range c02Vocab {
			if re.MatchString(v) {
				acc = append(acc, v)
			}
		}
		return q, anyOfTok(f, acc)
	case 8:
		kinds["fuzzy"]++
		t := []string{"ab", "abc", "bab", "ca", "abdd", "z", "abcabd"}[r.Intn(7)]
		fz := 1 + r.Intn(2)
		pl := r.Intn(2)
		q := bleve.NewFuzzyQuery(t)
		q.SetField(f)
		q.SetFuzziness(fz)
		q.SetPrefix(pl)
		if r.Chance(30) {
			// automatic fuzziness: the edit distance follows from the length of the term (0 up to two
			// characters, 1 up to five, 2 above) whatever number is also set
			kinds["fuzzy-auto"]++
			q.SetAutoFuzziness(true)
			switch {
			case len(t) > 5:
				fz = 2
			case len(t) > 2:
				fz = 1
			default:
				fz = 0
			}
		}
		// the documentation says Levenshtein distance; scorch's automaton also counts an adjacent
		// transposition as one edit: both term sets travel in the token (see resolveFuzzy)
		var lev, osa []string
		for _, v := range c02Vocab {
			if pl > 0 && (len(v) < pl || len(t) < pl || v[:pl] != t[:pl]) {
				continue
			}
			if levDistance(t, v) <= fz {
				lev = append(lev, v)
			}
			if osaDistance(t, v) <= fz {
				osa = append(osa, v)
			}
		}
		return q, "F" + anyOfTok(f, lev)[1:] + anyOfTok("", osa)[3:]
	case 9:
		kinds["term_range"]++
		lo, hi := w(), w()
		if lo > hi && r.Chance(80) {
			lo, hi = hi, lo
		}
		il, ih := r.Bool(), r.Bool()
		var q *query.TermRangeQuery
		los, his := hs(lo), hs(hi)
		switch r.Intn(4) {
		case 0:
			q = bleve.NewTermRangeInclusiveQuery("", hi, &il, &ih)
			los = "nil"
		case 1:
			q = bleve.NewTermRangeInclusiveQuery(lo, "", &il, &ih)
			his = "nil"
		default:
			q = bleve.NewTermRangeInclusiveQuery(lo, hi, &il, &ih)
		}
		q.SetField(f)
		return q, fmt.Sprintf("R %s %s %s %v %v", hs(f), los, his, il, ih)
	case 10, 11:
		kinds["numeric_range"]++
		a, b := float64(r.Intn(9)-4)/2, float64(r.Intn(9)-4)/2
		if a > b && r.Chance(80) {
			a, b = b, a
		}
		var mn, mx *float64
		if !r.Chance(20) {
			mn = &a
		}
		if !r.Chance(20) || mn == nil {
			mx = &b
		}
		var il, ih *bool
		if r.Chance(60) {
			v := r.Bool()
			il = &v
		}
		if r.Chance(60) {
			v := r.Bool()
			ih = &v
		}
		q := bleve.NewNumericRangeInclusiveQuery(mn, mx, il, ih)
		q.SetField("n0")
		return q, fmt.Sprintf("N %s %s %s %s %s", hs("n0"), optBits(mn), optBits(mx), optBool(il), optBool(ih))
	case 12:
		kinds["date_range"]++
		a := c02Base.Add(time.Duration(r.Intn(6))*time.Hour + time.Duration(r.Intn(3)))
		b := c02Base.Add(time.Duration(r.Intn(6))*time.Hour + time.Duration(r.Intn(3)))
		if a.After(b) {
			a, b = b, a
		}
		var st, en time.Time
		ss, es := "nil", "nil"
		if !r.Chance(20) {
			st = a
			ss = hx16(math.Float64bits(numeric.Int64ToFloat64(a.UnixNano())))
		}
		if !r.Chance(20) || st.IsZero() {
			en = b
			es = hx16(math.Float64bits(numeric.Int64ToFloat64(b.UnixNano())))
		}
		var il, ih *bool
		if r.Chance(60) {
			v := r.Bool()
			il = &v
		}
		if r.Chance(60) {
			v := r.Bool()
			ih = &v
		}
		q := bleve.NewDateRangeInclusiveQuery(st, en, il, ih)
		q.SetField("d0")
		return q, fmt.Sprintf("N %s %s %s %s %s", hs("d0"), ss, es, optBool(il), optBool(ih))
	case 13:
		kinds["bool_field"]++
		v := r.Bool()
		q := bleve.NewBoolFieldQuery(v)
		q.SetField("b0")
		t := "F"
		if v {
			t = "T"
		}
		return q, fmt.Sprintf("T %s %s", hs("b0"), hs(t))
	case 14:
		kinds["doc_id"]++
		n := r.Intn(4)
		sel := make([]string, n)
		var sb strings.Builder
		fmt.Fprintf(&sb, "I %d", n)
		for i := range sel {
			if r.Chance(15) {
				sel[i] = "nosuch"
			} else {
				sel[i] = ids[r.Intn(len(ids))]
			}
			sb.WriteString(" " + hs(sel[i]))
		}
		return bleve.NewDocIDQuery(sel), sb.String()
	case 15:
		kinds["match_all"]++
		return bleve.NewMatchAllQuery(), "A"
	default:
		kinds["match_none"]++
		return bleve.NewMatchNoneQuery(), "Z"
	}
}

// hot shape: a doc-id query listing many ids of the id space, live ones, deleted ones and ones that
// never existed, in any order: the doc-id readers walk the sorted list against the index and have to
// step over the listed ids that are absent
func genDocIDs(r *Rng, ids []string, kinds map[string]int) (query.Query, string) {
	kinds["doc_id-many"]++
	n := 3 + r.Intn(6)
	sel := make([]string, n)
	var sb strings.Builder
	fmt.Fprintf(&sb, "I %d", n)
	for i := range sel {
		switch {
		case r.Chance(25):
			sel[i] = fmt.Sprintf("d%03d", r.Intn(len(ids)+3)) // may be deleted or beyond the id space
		case r.Chance(10):
			sel[i] = ids[r.Intn(len(ids))] + "x" // sorts between two ids, never existed
		default:
			sel[i] = ids[r.Intn(len(ids))]
		}
		sb.WriteString(" " + hs(sel[i]))
	}
	return bleve.NewDocIDQuery(sel), sb.String()
}

// hot shape: must + should made of plain term clauses (or small conjunctions) with a minimum: the
// clauses the score-none bitmap optimizations replace, and a should cursor that cannot re-seek
func genBoolTermsMinShould(r *Rng, kinds map[string]int) (query.Query, string) {
	// hot shape: must + should made of plain term clauses with a minimum: the clauses the
	// score-none bitmap optimizations replace
	kinds["boolean-terms-minshould"]++
	leaf := func() (query.Query, string) {
		f := []string{"t0", "t1"}[r.Intn(2)]
		t := c02Vocab[r.Intn(5)]
		q := bleve.NewTermQuery(t)
		q.SetField(f)
		return q, fmt.Sprintf("T %s %s", hs(f), hs(t))
	}
	bq := bleve.NewBooleanQuery()
	var sb strings.Builder
	sb.WriteString("O")
	if r.Chance(75) {
		m, mt := leaf()
		bq.AddMust(m)
		sb.WriteString(" 1 C 1 " + mt)
	} else {
		sb.WriteString(" 0")
	}
	n := 1 + r.Intn(3)
	min := r.Intn(3)
	if min > n {
		min = n
	}
	fmt.Fprintf(&sb, " 1 D %d %d", min, n)
	for i := 0; i < n; i++ {
		if r.Chance(35) { // a should clause that is itself a composite (its cursor cannot re-seek)
			q1, t1 := leaf()
			q2, t2 := leaf()
			bq.AddShould(bleve.NewConjunctionQuery(q1, q2))
			sb.WriteString(" C 2 " + t1 + " " + t2)
			continue
		}
		q, t := leaf()
		bq.AddShould(q)
		sb.WriteString(" " + t)
	}
	bq.SetMinShould(float64(min))
	sb.WriteString(" 0 0")
	return bq, sb.String()
}

// hot shape: a conjunction of plain term-type clauses, one of them over a field without term vectors
// (the boolean field): under score "none" scorch intersects their postings bitmaps segment by segment,
// with a special case for terms held by a single document of a segment
func genConjOfTerms(r *Rng, kinds map[string]int) (query.Query, string) {
	kinds["conjunction-of-terms"]++
	n := 2 + r.Intn(2)
	qs := make([]query.Query, 0, n)
	var sb strings.Builder
	v := r.Bool()
	bq := bleve.NewBoolFieldQuery(v)
	bq.SetField("b0")
	qs = append(qs, bq)
	if v {
		sb.WriteString(" T " + hs("b0") + " " + hs("T"))
	} else {
		sb.WriteString(" T " + hs("b0") + " " + hs("F"))
	}
	for i := 1; i < n; i++ {
		f := []string{"t0", "t1"}[r.Intn(2)]
		w := c02Vocab[r.Intn(5)]
		q := bleve.NewTermQuery(w)
		q.SetField(f)
		qs = append(qs, q)
		fmt.Fprintf(&sb, " T %s %s", hs(f), hs(w))
	}
	return bleve.NewConjunctionQuery(qs...), fmt.Sprintf("C %d%s", n, sb.String())
}

// hot shape: a conjunction of two frequent words and one key word (a term of a field without term vectors, held by
// few documents: in a merged segment often by exactly one)
func genConjWithKey(r *Rng, kinds map[string]int) (query.Query, string) {
	kinds["conjunction-with-key-term"]++
	n := 2 + r.Intn(2)
	qs := make([]query.Query, 0, n+1)
	var sb strings.Builder
	for i := 0; i < n; i++ {
		f := []string{"t0", "t1"}[r.Intn(2)]
		w := c02Vocab[r.Intn(4)]
		q := bleve.NewTermQuery(w)
		q.SetField(f)
		qs = append(qs, q)
		fmt.Fprintf(&sb, " T %s %s", hs(f), hs(w))
	}
	k := c02Keys[r.Intn(len(c02Keys))]
	kq := bleve.NewTermQuery(k)
	kq.SetField("k0")
	qs = append(qs, kq)
	fmt.Fprintf(&sb, " T %s %s", hs("k0"), hs(k))
	return bleve.NewConjunctionQuery(qs...), fmt.Sprintf("C %d%s", n+1, sb.String())
}

// hot shape: a conjunction or disjunction of two or three key-word terms (1-hit encoded in a merged segment)
func genKeyTerms(r *Rng, kinds map[string]int) (query.Query, string) {
	n := 2 + r.Intn(2)
	qs := make([]query.Query, 0, n)
	var sb strings.Builder
	for i := 0; i < n; i++ {
		w := c02Keys[r.Intn(len(c02Keys))]
		if i < 2 && r.Chance(60) {
			w = []string{"kx", "ky"}[i]
		}
		q := bleve.NewTermQuery(w)
		q.SetField("k0")
		qs = append(qs, q)
		fmt.Fprintf(&sb, " T %s %s", hs("k0"), hs(w))
	}
	if r.Chance(65) {
		kinds["conjunction-of-key-terms"]++
		return bleve.NewConjunctionQuery(qs...), fmt.Sprintf("C %d%s", n, sb.String())
	}
	kinds["disjunction-of-key-terms"]++
	dq := bleve.NewDisjunctionQuery(qs...)
	return dq, fmt.Sprintf("D 0 %d%s", n, sb.String())
}

func genQuery(r *Rng, depth int, ids []string, kinds map[string]int) (query.Query, string) {
	if depth <= 0 || r.Chance(35) {
		return genLeaf(r, ids, kinds)
	}
	// hot shape: a boolean with must and must_not over frequent terms, as a clause of another
	// composite (so that it is driven through Advance with targets that sit on excluded documents)
	hotBool := func() (query.Query, string) {
		kinds["boolean-must-mustnot-nested"]++
		leaf := func() (query.Query, string) {
			f := []string{"t0", "t1"}[r.Intn(2)]
			t := c02Vocab[r.Intn(4)]
			q := bleve.NewTermQuery(t)
			q.SetField(f)
			return q, fmt.Sprintf("T %s %s", hs(f), hs(t))
		}
		bq := bleve.NewBooleanQuery()
		m, mt := leaf()
		n, nt := leaf()
		bq.AddMust(m)
		bq.AddMustNot(n)
		return bq, "O 1 C 1 " + mt + " 0 1 D 0 1 " + nt + " 0"
	}
	kids := func(lo, hi int) ([]query.Query, string) {
		n := r.Range(lo, hi)
		qs := make([]query.Query, n)
		var sb strings.Builder
		for i := range qs {
			var t string
			if r.Chance(25) {
				qs[i], t = hotBool()
			} else {
				qs[i], t = genQuery(r, depth-1, ids, kinds)
			}
			sb.WriteString(" " + t)
		}
		return qs, fmt.Sprintf("%d%s", n, sb.String())
	}
	switch r.Intn(3) {
	case 0:
		if r.Chance(20) {
			return genConjOfTerms(r, kinds)
		}
		kinds["conjunction"]++
		qs, t := kids(1, 4)
		return bleve.NewConjunctionQuery(qs...), "C " + t
	case 1:
		kinds["disjunction"]++
		lo, hi := 1, 5
		if r.Chance(12) { // above DisjunctionHeapTakeover
			lo, hi = 11, 13
			kinds["disjunction>10"]++
		}
		qs, t := kids(lo, hi)
		dq := bleve.NewDisjunctionQuery(qs...)
		min := 0
		if r.Chance(50) {
			min = r.Intn(len(qs) + 1)
		}
		dq.SetMin(float64(min))
		return dq, fmt.Sprintf("D %d %s", min, t)
	default:
		if r.Chance(20) {
			return genBoolTermsMinShould(r, kinds)
		}
		kinds["boolean"]++
		bq := bleve.NewBooleanQuery()
		var sb strings.Builder
		sb.WriteString("O")
		any := false
		if r.Chance(55) {
			qs, t := kids(1, 3)
			bq.AddMust(qs...)
			sb.WriteString(" 1 C " + t)
			any = true
		} else {
			sb.WriteString(" 0")
		}
		if r.Chance(55) {
			qs, t := kids(1, 3)
			bq.AddShould(qs...)
			min := 0
			if r.Chance(50) {
				min = r.Intn(len(qs) + 1)
			}
			bq.SetMinShould(float64(min))
			fmt.Fprintf(&sb, " 1 D %d %s", min, t)
			any = true
		} else {
			sb.WriteString(" 0")
		}
		if r.Chance(45) || !any {
			qs, t := kids(1, 2)
			bq.AddMustNot(qs...)
			sb.WriteString(" 1 D 0 " + t)
		} else {
			sb.WriteString(" 0")
		}
		if r.Chance(25) {
			fq, t := genQuery(r, depth-1, ids, kinds)
			bq.AddFilter(fq)
			sb.WriteString(" 1 " + t)
		} else {
			sb.WriteString(" 0")
		}
		return bq, sb.String()
	}
}

type c02Index struct {
	idx    bleve.Index
	dir    string // on-disk variants
	engine string
	live   map[string]c02Doc
	ids    []string // every id ever used
}

var c02Dump = os.Getenv("C02_DUMP") != ""

func c02Dbg(f string, a ...interface{}) {
	if c02Dump {
		fmt.Fprintf(os.Stderr, f+"\n", a...)
	}
}

// "scorch-disk": an on-disk scorch index whose first documents are force-merged into one file segment
// (merged segments use the compact 1-hit postings encoding for rare terms of fields without term
// vectors) and whose later batches form further segments; background merging is switched off
func c02DiskIndex() (bleve.Index, string) {
	dir, err := os.MkdirTemp("", "verif-c02-")
	must(err)
	idx, err := bleve.NewUsing(filepath.Join(dir, "i"), c02Mapping(), scorch.Name, scorch.Name, map[string]interface{}{
		"scorchMergePlanOptions": map[string]interface{}{"floorSegmentSize": 1, "maxSegmentsPerTier": 1000, "segmentsPerMergeTask": 1000}})
	must(err)
	return idx, dir
}

func (ci *c02Index) close() {
	ci.idx.Close()
	if ci.dir != "" {
		os.RemoveAll(ci.dir)
	}
}

func buildC02Index(r *Rng, engine string) *c02Index {
	ci := &c02Index{engine: engine, live: map[string]c02Doc{}}
	if engine == "scorch-disk" {
		ci.idx, ci.dir = c02DiskIndex()
	} else {
		ci.idx = newIndexWith(engine, c02Mapping())
	}
	c02Dbg("NEWINDEX %s", engine)
	nDocs := r.Range(4, 14)
	mergeAt := -1
	if engine == "scorch-disk" {
		mergeAt = nDocs/2 + r.Intn(2)
	}
	batch := ci.idx.NewBatch()
	for i := 0; i < nDocs; i++ {
		if i == mergeAt {
			must(ci.idx.Batch(batch))
			batch = ci.idx.NewBatch()
			if adv, err := ci.idx.Advanced(); err == nil {
				if sc, ok := adv.(*scorch.Scorch); ok {
					ctx, cancel := context.WithTimeout(context.Background(), 5*time.Second)
					_ = sc.ForceMerge(ctx, nil)
					cancel()
				}
			}
		}
		d := genC02Doc(r, i)
		if mergeAt > 0 && i < mergeAt {
			// hot corpus: in the segment that will be merged each boolean value is held by one document only
			d.flag = nil
			if i < 2 {
				v := i == 0
				d.flag = &v
			}
			// and each key word by one document only, two of them together in the first one
			delete(d.texts, "k0")
			if i == 0 {
				d.texts["k0"] = [][]string{{"kx"}, {"ky"}}
			} else if i == 1 {
				d.texts["k0"] = [][]string{{"kz"}}
			}
		}
		ci.live[d.id] = d
		ci.ids = append(ci.ids, d.id)
		must(batch.Index(d.id, d.asMap()))
		c02Dbg("  batch.Index %s %v", d.id, d.asMap())
		if r.Chance(35) {
			c02Dbg("  FLUSH")
			must(ci.idx.Batch(batch))
			batch = ci.idx.NewBatch()
		}
	}
	must(ci.idx.Batch(batch))
	for k := 0; k < nDocs/3; k++ { // updates and deletes leave obsoleted documents in older segments
		i := r.Intn(nDocs)
		id := fmt.Sprintf("d%03d", i)
		if r.Bool() {
			d := genC02Doc(r, i)
			ci.live[id] = d
			c02Dbg("  Index %s %v", id, d.asMap())
			must(ci.idx.Index(id, d.asMap()))
		} else {
			delete(ci.live, id)
			c02Dbg("  Delete %s", id)
			must(ci.idx.Delete(id))
		}
	}
	return ci
}

func (ci *c02Index) sortedLive() []c02Doc {
	ds := make([]c02Doc, 0, len(ci.live))
	for _, d := range ci.live {
		ds = append(ds, d)
	}
	sort.Slice(ds, func(i, j int) bool { return ds[i].id < ds[j].id })
	return ds
}

func runC02(t *Trace, r *Rng, tier string, _ []string) {
	nIdx, nQ := 60, 80
	if tier == "thorough" {
		nIdx, nQ = 150, 120
	}
	kinds := map[string]int{}
	nonEmpty, nonTotal := 0, 0
	// the phrase matcher alone, against its Lean model
	nPh := 3000
	if tier == "thorough" {
		nPh = 40000
	}
	c02PhrasePaths(t, r.Fork(), nPh)
	for ix := 0; ix < nIdx; ix++ {
		engine := []string{"scorch", "upsidedown", "scorch-disk"}[ix%3]
		ci := buildC02Index(r, engine)
		docs := ci.sortedLive()
		var cb strings.Builder
		fmt.Fprintf(&cb, "%d", len(docs))
		for i, d := range docs {
			cb.WriteString(" " + d.tokens(uint64(i)))
		}
		corpus := cb.String()
		for qi := 0; qi < nQ; qi++ {
			q, ftok := genQuery(r, 3, ci.ids, kinds)
			if engine == "scorch-disk" && r.Chance(25) {
				q, ftok = genConjOfTerms(r, kinds)
			} else if r.Chance(6) {
				q, ftok = genDocIDs(r, ci.ids, kinds)
			}
			// scorch is compared with the transposition-aware reading of fuzziness (what its automaton
			// implements), and additionally with the documented one where the two differ
			tok, sensitive := resolveFuzzy(ftok, strings.HasPrefix(engine, "scorch"))
			docTok, _ := resolveFuzzy(ftok, false)
			op := "search " + corpus + " | " + tok
			for _, opt := range []string{"plain", "noscore", "loc+explain"} {
				req := bleve.NewSearchRequestOptions(q, len(ci.ids)+5, 0, opt == "loc+explain")
				switch opt {
				case "noscore":
					req.Score = "none"
				case "loc+explain":
					req.IncludeLocations = true
				}
				sr, err := guardedSearch(ci.idx, req)
				if err == errHang {
					t.Emit("search/"+engine+"/"+opt, true, op, "HANG")
					t.Note("a search did not return within 20 s; run stopped early")
					t.Close()
					os.Exit(0)
				}
				if c02Dump {
					qj, _ := json.Marshal(q)
					c02Dbg("  SEARCH %s %s -> %v", opt, qj, sr)
				}
				if err != nil {
					t.Emit("search-err/"+engine+"/"+opt, true, op, "ERR "+strings.ReplaceAll(err.Error(), "\n", " "))
					continue
				}
				idsFound := make([]string, 0, len(sr.Hits))
				seen := map[string]bool{}
				dup := false
				for _, h := range sr.Hits {
					if seen[h.ID] {
						dup = true
					}
					seen[h.ID] = true
					idsFound = append(idsFound, h.ID)
				}
				sort.Strings(idsFound)
				hexes := make([]string, len(idsFound))
				for i, id := range idsFound {
					hexes[i] = hs(id)
				}
				l := strings.Join(hexes, ",")
				if l == "" {
					l = "-"
				}
				res := fmt.Sprintf("%d %s", sr.Total, l)
				if dup {
					res = "DUPLICATE " + res
				}
				nt := len(idsFound) > 0 && len(idsFound) < len(docs)
				if len(idsFound) > 0 {
					nonEmpty++
				}
				if len(idsFound) < len(docs) {
					nonTotal++
				}
				t.Emit("search/"+engine+"/"+opt, nt, op, res)
				if sensitive && strings.HasPrefix(engine, "scorch") {
					t.Emit("search/scorch/fuzzy-transposition-vs-documented-levenshtein", nt, "search "+corpus+" | "+docTok, res)
				}
			}
		}
		ci.close()
	}
	for k, v := range kinds {
		t.Set("querykind_"+k, v)
	}
	t.Set("searches_nonempty", nonEmpty)
	t.Set("searches_nontotal", nonTotal)
}

// ---------- C08: Next / Advance programs on the searchers a query builds ----------

var errHang = fmt.Errorf("call did not return")

func guardedSearch(idx bleve.Index, req *bleve.SearchRequest) (*bleve.SearchResult, error) {
	type res struct {
		sr  *bleve.SearchResult
		err error
	}
	ch := make(chan res, 1)
	done := make(chan struct{})
	go func() {
		sr, err := idx.Search(req)
		ch <- res{sr, err}
		close(done)
	}()
	if !waitDone(done, 20*time.Second, 80*time.Second) {
		return nil, errHang
	}
	r := <-ch
	return r.sr, r.err
}

// run a searcher call with a watchdog: a searcher that loops forever must not hang the check
func guardedCall(f func() (*search.DocumentMatch, error)) (*search.DocumentMatch, error) {
	type res struct {
		dm  *search.DocumentMatch
		err error
	}
	ch := make(chan res, 1)
	done := make(chan struct{})
	go func() {
		dm, err := f()
		ch <- res{dm, err}
		close(done)
	}()
	if !waitDone(done, 10*time.Second, 40*time.Second) {
		return nil, errHang
	}
	r := <-ch
	return r.dm, r.err
}

func iidOf(engine string, id index.IndexInternalID) uint64 {
	if engine == "scorch" {
		var n uint64
		for _, b := range id {
			n = n<<8 | uint64(b)
		}
		return n
	}
	var n uint64
	fmt.Sscanf(string(id), "d%d", &n)
	return n
}

func mkIID(engine string, n uint64) index.IndexInternalID {
	if engine == "scorch" {
		return index.NewIndexInternalID(nil, n)
	}
	return index.IndexInternalID(fmt.Sprintf("d%03d", n))
}

func runC08(t *Trace, r *Rng, tier string, _ []string) {
	nIdx, nQ := 48, 30
	if tier == "thorough" {
		nIdx, nQ = 150, 100
	}
	// searchers over a nested mapping, judged against their own Next-only enumeration
	if tier == "thorough" {
		c08Nested(t, r.Fork(), 60, 40)
	} else {
		c08Nested(t, r.Fork(), 12, 30)
	}
	kinds := map[string]int{}
	advFirst, advPastEnd, advGap := 0, 0, 0
	for ix := 0; ix < nIdx; ix++ {
		cfg := []string{"scorch", "upsidedown", "scorch-disk"}[ix%3]
		engine := cfg
		if cfg == "scorch-disk" { // on disk with a force-merged first segment: same id scheme and fuzzy reading as scorch
			engine = "scorch"
		}
		ci := buildC02Index(r, cfg)
		adv, err := ci.idx.Advanced()
		must(err)
		reader, err := adv.Reader()
		must(err)
		docs := ci.sortedLive()
		type withIID struct {
			d   c02Doc
			iid uint64
		}
		var wd []withIID
		maxIID := uint64(0)
		for _, d := range docs {
			iid, err := reader.InternalID(d.id)
			must(err)
			n := iidOf(engine, iid)
			wd = append(wd, withIID{d, n})
			if n > maxIID {
				maxIID = n
			}
		}
		sort.Slice(wd, func(i, j int) bool { return wd[i].iid < wd[j].iid })
		var cb strings.Builder
		fmt.Fprintf(&cb, "%d", len(wd))
		for _, x := range wd {
			cb.WriteString(" " + x.d.tokens(x.iid))
		}
		corpus := cb.String()
		for qi := 0; qi < nQ; qi++ {
			q, ftok := genQuery(r, 3, ci.ids, kinds)
			hotRoot := r.Chance(35) || (cfg == "scorch-disk" && r.Chance(30))
			keyRoot := false
			if hotRoot {
				switch x := r.Intn(100); {
				case cfg == "scorch-disk" && x < 55:
					q, ftok = genKeyTerms(r, kinds)
					keyRoot = true
				case x < 50:
					q, ftok = genBoolTermsMinShould(r, kinds)
				case x < 75:
					q, ftok = genDocIDs(r, ci.ids, kinds)
				case x < 88:
					// match-all: on scorch the doc-id reader walks the segments by their doc-number ranges
					kinds["match_all-root"]++
					q, ftok = bleve.NewMatchAllQuery(), "A"
				default:
					// only must-not clauses: match-all is the implicit must
					kinds["boolean-only-mustnot-root"]++
					f := []string{"t0", "t1"}[r.Intn(2)]
					w := c02Vocab[r.Intn(5)]
					tq := bleve.NewTermQuery(w)
					tq.SetField(f)
					bq := bleve.NewBooleanQuery()
					bq.AddMustNot(tq)
					q, ftok = bq, fmt.Sprintf("O 0 0 1 D 0 1 T %s %s 0", hs(f), hs(w))
				}
			}
			tok, _ := resolveFuzzy(ftok, engine == "scorch")
			for _, opt := range []search.SearcherOptions{{}, {Score: "none"}, {IncludeTermVectors: true, Explain: true}} {
				if r.Chance(50) {
					continue
				}
				s, err := q.Searcher(context.Background(), reader, ci.idx.Mapping(), opt)
				if err != nil {
					t.Emit("prog-err/"+cfg, true, "prog "+corpus+" | "+tok+" |", "ERR")
					continue
				}
				sctx := &search.SearchContext{DocumentMatchPool: search.NewDocumentMatchPool(s.DocumentMatchPoolSize()+4, 0)}
				var calls, outs []string
				last := int64(-1)
				n := r.Range(1, 12)
				for c := 0; c < n; c++ {
					var dm *search.DocumentMatch
					// a hot boolean root is mostly entered through Advance into the middle of the id range:
					// its should and must-not cursors then sit ahead of the candidate
					firstAdv := hotRoot && c == 0 && (r.Chance(70) || keyRoot)
					if !firstAdv && r.Chance(55) {
						calls = append(calls, "N")
						dm, err = guardedCall(func() (*search.DocumentMatch, error) { return s.Next(sctx) })
					} else {
						// forward target: beyond the last returned id
						lo := uint64(last + 1)
						var tg uint64
						kind := r.Intn(4)
						if firstAdv {
							kind = 2
						}
						if keyRoot && c == 0 && r.Chance(60) {
							kind = 1 // a target just inside the first (merged) segment, past its first documents
							lo = uint64(1 + r.Intn(4))
						}
						switch kind {
						case 0:
							tg = lo
						case 1:
							tg = lo + uint64(r.Intn(3))
							advGap++
						case 2:
							tg = lo + uint64(r.Intn(int(maxIID)+2))
						default:
							tg = maxIID + 1 + uint64(r.Intn(3))
							advPastEnd++
						}
						if c == 0 {
							advFirst++
						}
						calls = append(calls, fmt.Sprintf("A %d", tg))
						target := mkIID(engine, tg)
						dm, err = guardedCall(func() (*search.DocumentMatch, error) { return s.Advance(sctx, target) })
					}
					if err == errHang {
						// the call did not return: report it with the program so far and stop the run (the
						// goroutine cannot be stopped; what has been recorded is the evidence)
						outs = append(outs, "HANG")
						t.Emit("prog/"+cfg, true, "prog "+corpus+" | "+tok+" | "+strings.Join(calls[:len(outs)], " "), strings.Join(outs, ","))
						t.Note("a searcher call did not return within 10 s; run stopped early")
						t.Close()
						os.Exit(0)
					}
					if err != nil {
						outs = append(outs, "ERR")
						break
					}
					if dm == nil {
						outs = append(outs, "nil")
						break // the contract says nothing about calls after exhaustion
					}
					v := iidOf(engine, dm.IndexInternalID)
					outs = append(outs, fmt.Sprint(v))
					last = int64(v)
					sctx.DocumentMatchPool.Put(dm)
				}
				_ = s.Close()
				t.Emit("prog/"+cfg, len(outs) > 1, "prog "+corpus+" | "+tok+" | "+strings.Join(calls[:len(outs)], " "), strings.Join(outs, ","))
			}
		}
		reader.Close()
		ci.close()
	}
	for k, v := range kinds {
		t.Set("querykind_"+k, v)
	}
	t.Set("advance_as_first_call", advFirst)
	t.Set("advance_past_end", advPastEnd)
	t.Set("advance_into_gap", advGap)
}
