package main

import (
	"context"
	"fmt"
	"os"
	"path/filepath"
	"strings"
	"sync"
	"time"

	"github.com/blevesearch/bleve/v2"
	"github.com/blevesearch/bleve/v2/index/scorch"
)

// Step-by-step refinement check of scorch's introducer: every root swap the real introducer makes
// (reported by the verif hook with both snapshots) is replayed on the Lean snapshot model.

func segTok(s scorch.VerifSegment) string {
	docs := make([]string, len(s.DocIDs))
	for i, d := range s.DocIDs {
		docs[i] = hx(d)
	}
	dl := make([]string, len(s.Deleted))
	for i, n := range s.Deleted {
		dl[i] = fmt.Sprint(n)
	}
	ds, dls := strings.Join(docs, ","), strings.Join(dl, ",")
	if ds == "" {
		ds = "-"
	}
	if dls == "" {
		dls = "-"
	}
	return fmt.Sprintf("%d:%s:%s", s.ID, ds, dls)
}

func snapTok(segs []scorch.VerifSegment) string {
	if len(segs) == 0 {
		return ""
	}
	ps := make([]string, len(segs))
	for i, s := range segs {
		ps[i] = segTok(s)
	}
	return strings.Join(ps, " ")
}

func runSnapSteps(t *Trace, r *Rng, tier string) {
	nHist := 4
	if tier == "thorough" {
		nHist = 40
	}
	tmpRoot, err := os.MkdirTemp("", "verif-snap-")
	must(err)
	defer os.RemoveAll(tmpRoot)
	var mu sync.Mutex
	var events []*scorch.VerifIntroduction
	scorch.VerifSetIntroductionHook(func(_ *scorch.Scorch, ev *scorch.VerifIntroduction) {
		mu.Lock()
		events = append(events, ev)
		mu.Unlock()
	})
	defer scorch.VerifSetIntroductionHook(nil)
	nSeg, nMerge, nPersist := 0, 0, 0
	for h := 0; h < nHist; h++ {
		mu.Lock()
		events = nil
		mu.Unlock()
		dir := filepath.Join(tmpRoot, fmt.Sprintf("h%d", h))
		kv := map[string]interface{}{
			"scorchMergePlanOptions": map[string]interface{}{"maxSegmentsPerTier": 2, "segmentsPerMergeTask": 2, "floorSegmentSize": 1},
		}
		if h%2 == 1 {
			kv["unsafe_batch"] = true
			kv["scorchPersisterOptions"] = map[string]interface{}{"NumPersisterWorkers": 3, "MaxSizeInMemoryMergePerWorker": 1 << 20}
			if h%4 == 1 { // several flush groups per persister round
				kv["scorchPersisterOptions"] = map[string]interface{}{"NumPersisterWorkers": 2, "MaxSizeInMemoryMergePerWorker": 1,
					"PersisterNapTimeMSec": 40, "PersisterNapUnderNumFiles": 1000}
			}
		}
		path := dir
		if h%4 == 3 {
			path = "" // in memory: introductions only
		}
		idx, err := bleve.NewUsing(path, bleve.NewIndexMapping(), scorch.Name, scorch.Name, kv)
		must(err)
		idSpace := r.Range(4, 10)
		ops := c01GenOps(r, r.Range(20, 60), idSpace, 2)
		pos := 0
		for pos < len(ops) {
			n := 1 + r.Intn(5)
			if pos+n > len(ops) {
				n = len(ops) - pos
			}
			b := idx.NewBatch()
			for _, o := range ops[pos : pos+n] {
				switch o.kind {
				case 'i':
					must(b.Index(o.key, o.doc))
				case 'd':
					b.Delete(o.key)
				case 's':
					b.SetInternal([]byte(o.key), []byte(o.val))
				default:
					b.DeleteInternal([]byte(o.key))
				}
			}
			must(idx.Batch(b))
			pos += n
			if path != "" && r.Chance(10) {
				if adv, err := idx.Advanced(); err == nil {
					if sc, ok := adv.(*scorch.Scorch); ok {
						_ = sc.ForceMerge(context.Background(), nil)
					}
				}
			}
			if r.Chance(20) {
				time.Sleep(time.Duration(r.Intn(15)) * time.Millisecond)
			}
		}
		time.Sleep(100 * time.Millisecond)
		idx.Close()
		mu.Lock()
		evs := events
		events = nil
		mu.Unlock()
		for _, ev := range evs {
			switch ev.Kind {
			case "segment":
				nSeg++
				// the batch as the introducer saw it: ids present in the new segment are (re)indexed, the others deleted
				inNew := map[string]bool{}
				var newDocs [][]byte
				for _, s := range ev.Post {
					if s.ID == ev.NewSegmentID {
						newDocs = s.DocIDs
					}
				}
				var batch []string
				for _, d := range newDocs {
					inNew[string(d)] = true
					batch = append(batch, "i:"+hx(d))
				}
				// a batch whose documents all end up in no segment (nothing indexed) has no new segment in Post
				for _, id := range ev.BatchIDs {
					if !inNew[id] {
						batch = append(batch, "d:"+hx([]byte(id)))
					}
				}
				post := snapTok(ev.Post)
				if post == "" {
					post = "empty"
				}
				t.Emit("introducer/segment", len(ev.Pre) > 0, fmt.Sprintf("intro %d %s | %s", ev.NewSegmentID, snapTok(ev.Pre), strings.Join(batch, " ")), post)
			case "merge":
				nMerge++
				t.Emit("introducer/merge", true, fmt.Sprintf("same %s | %s", snapTok(ev.Pre), snapTok(ev.Post)), "ok")
			case "persist":
				nPersist++
				t.Emit("introducer/persist", true, fmt.Sprintf("same %s | %s", snapTok(ev.Pre), snapTok(ev.Post)), "ok")
			}
		}
		os.RemoveAll(dir)
	}
	t.Set("introducer_segment_steps", nSeg)
	t.Set("introducer_merge_steps", nMerge)
	t.Set("introducer_persist_steps", nPersist)
}
