package main

import (
	"fmt"
	"os"
	"path/filepath"
	"strings"

	"github.com/blevesearch/bleve/v2/index/upsidedown/store/boltdb"
	"github.com/blevesearch/bleve/v2/index/upsidedown/store/goleveldb"
	"github.com/blevesearch/bleve/v2/index/upsidedown/store/gtreap"
	"github.com/blevesearch/bleve/v2/index/upsidedown/store/metrics"
	"github.com/blevesearch/bleve/v2/index/upsidedown/store/moss"
	"github.com/blevesearch/bleve/v2/registry"
	store "github.com/blevesearch/upsidedown_store_api"
)

func init() { props["c15"] = runC15 }

// appendMerge is the test merge operator: FullMerge appends the operands to the existing value.
type appendMerge struct{}

func (appendMerge) FullMerge(key, existing []byte, operands [][]byte) ([]byte, bool) {
	rv := append([]byte{}, existing...)
	for _, o := range operands {
		rv = append(rv, o...)
	}
	return rv, true
}
func (appendMerge) PartialMerge(key, l, r []byte) ([]byte, bool) {
	rv := append([]byte{}, l...)
	return append(rv, r...), true
}
func (appendMerge) Name() string { return "append" }

type kvOp struct {
	kind byte
	k, v []byte
}

// hot keys: a small pool per sequence so that updates, merges and reads hit the same keys often
var c15Hot [][]byte

func c15Key(r *Rng) []byte {
	if len(c15Hot) > 0 && r.Chance(60) {
		return c15Hot[r.Intn(len(c15Hot))]
	}
	return c15Fresh(r)
}

func c15Fresh(r *Rng) []byte {
	alpha := []byte{0x00, 'a', 'b', 0xff}
	n := 1 + r.Intn(3)
	if r.Chance(10) {
		n = 4
	}
	k := make([]byte, n)
	for i := range k {
		k[i] = alpha[r.Intn(4)]
	}
	return k
}

func c15SeekKey(r *Rng) []byte {
	if r.Chance(8) {
		return []byte{}
	}
	return c15Key(r)
}

func fmtCur(it store.KVIterator) string {
	k, v, ok := it.Current()
	if !ok {
		return "invalid"
	}
	if !it.Valid() {
		return "VALID-MISMATCH"
	}
	if string(it.Key()) != string(k) || string(it.Value()) != string(v) {
		return "KEYVALUE-MISMATCH"
	}
	return hx(k) + "=" + hx(v)
}

func fmtVal(v []byte) string {
	if v == nil {
		return "nil"
	}
	return hx(v)
}

func optKey(k []byte) string {
	if k == nil {
		return "nil"
	}
	return hx(k)
}

func openStore(name, dir string) (store.KVStore, error) {
	mo := appendMerge{}
	switch name {
	case "boltdb":
		return registry.KVStoreConstructorByName(boltdb.Name)(mo, map[string]interface{}{"path": filepath.Join(dir, "b.bolt")})
	case "goleveldb":
		return registry.KVStoreConstructorByName(goleveldb.Name)(mo, map[string]interface{}{"path": filepath.Join(dir, "ldb"), "create_if_missing": true})
	case "gtreap":
		return registry.KVStoreConstructorByName(gtreap.Name)(mo, map[string]interface{}{"path": ""})
	case "moss":
		return registry.KVStoreConstructorByName(moss.Name)(mo, map[string]interface{}{})
	case "metrics":
		return registry.KVStoreConstructorByName(metrics.Name)(mo, map[string]interface{}{"kvStoreName_actual": gtreap.Name, "path": ""})
	}
	return nil, fmt.Errorf("unknown store")
}

// guarded runs f and converts a panic into the string "PANIC"
func guarded(f func() string) (s string) {
	defer func() {
		if e := recover(); e != nil {
			s = "PANIC"
		}
	}()
	return f()
}

func runC15(t *Trace, r *Rng, tier string, _ []string) {
	nSeq := 40
	if tier == "thorough" {
		nSeq = 1500
	}
	stores := []string{"boltdb", "goleveldb", "gtreap", "moss", "metrics"}
	tmpRoot, err := os.MkdirTemp("", "verif-c15-")
	must(err)
	defer os.RemoveAll(tmpRoot)
	// moss only: several set/delete operations on one key inside one batch (engine keeps an arbitrary one)
	for si := 0; si < nSeq/4+2; si++ {
		st, err := openStore("moss", tmpRoot)
		if err != nil {
			break
		}
		t.Emit("moss/dupkey-batch", false, "open", "ok")
		w, _ := st.Writer()
		for bi := 0; bi < 3; bi++ {
			b := w.NewBatch()
			var sb strings.Builder
			sb.WriteString("batch")
			keys := [][]byte{c15Key(r), c15Key(r)}
			for j := 0; j < 2+r.Intn(4); j++ {
				k := keys[r.Intn(2)]
				if r.Bool() {
					v := []byte(fmt.Sprintf("v%d", r.Intn(100)))
					b.Set(k, v)
					fmt.Fprintf(&sb, " s %s %s", hx(k), hx(v))
				} else {
					b.Delete(k)
					fmt.Fprintf(&sb, " d %s", hx(k))
				}
			}
			res := "ok"
			if err := w.ExecuteBatch(b); err != nil {
				res = "ERR"
			}
			t.Emit("moss/dupkey-batch", true, sb.String(), res)
			rdr, _ := st.Reader()
			t.Emit("moss/dupkey-batch", false, fmt.Sprintf("reader %d", bi+1), "ok")
			for _, k := range keys {
				v, _ := rdr.Get(k)
				t.Emit("moss/dupkey-batch", true, fmt.Sprintf("get %d %s", bi+1, hx(k)), fmtVal(v))
			}
			rdr.Close()
		}
		w.Close()
		st.Close()
	}
	for si := 0; si < nSeq; si++ {
		seqSeed := r.U64()
		for _, sn := range stores {
			rr := NewRng(seqSeed) // the same operation sequence for every store
			c15Hot = nil
			for h := 0; h < 5; h++ {
				c15Hot = append(c15Hot, c15Fresh(rr))
			}
			dir := filepath.Join(tmpRoot, fmt.Sprintf("%s-%d", sn, si))
			must(os.MkdirAll(dir, 0o755))
			st, err := openStore(sn, dir)
			if err != nil {
				t.Note(fmt.Sprintf("cannot open %s: %v", sn, err))
				continue
			}
			t.Emit(sn+"/open", false, "open", "ok")
			type rd struct {
				r  store.KVReader
				id int
			}
			var readers []rd
			type itr struct {
				it      store.KVIterator
				id      int
				rid     int
				tainted *bool
			}
			var iters []itr
			nextID := 1
			nOps := rr.Range(10, 40)
			for oi := 0; oi < nOps; oi++ {
				switch c := rr.Intn(100); {
				case c < 30: // batch
					w, err := st.Writer()
					must(err)
					b := w.NewBatch()
					n := rr.Intn(5)
					// half of the batches are built the way the upsidedown index builds them: NewBatchEx with the byte
					// budget worked out beforehand, every key and value carved out of the buffer it returns
					exBuf := []byte(nil)
					viaEx := rr.Chance(50)
					type exOp struct {
						kind byte
						k, v []byte
					}
					var exOps []exOp
					if viaEx {
						n = rr.Intn(14)
					}
					var sb strings.Builder
					sb.WriteString("batch")
					used := map[string]byte{} // no merge + set/delete of one key in a batch (stores differ; upsidedown never does it)
					for j := 0; j < n; j++ {
						k := c15Key(rr)
						kind := "sdm"[rr.Intn(3)]
						if rr.Chance(40) {
							kind = 's'
						}
						if prev, ok := used[string(k)]; ok && (prev == 'm') != (kind == 'm') {
							continue
						}
						// moss (the engine) keeps an arbitrary one of several set/delete ops on one key inside one
						// batch; those batches are explored separately (category moss-dupkey), see DESIGN.md C15
						if _, ok := used[string(k)]; ok && (sn == "moss" || viaEx) && kind != 'm' { // viaEx reorders: sets, deletes, merges
							continue
						}
						used[string(k)] = kind
						switch kind {
						case 's':
							v := []byte(fmt.Sprintf("v%d", rr.Intn(100)))
							if rr.Chance(15) {
								v = []byte{}
							}
							if viaEx {
								exOps = append(exOps, exOp{'s', k, v})
							} else {
								b.Set(k, v)
							}
							fmt.Fprintf(&sb, " s %s %s", hx(k), hx(v))
						case 'd':
							if viaEx {
								exOps = append(exOps, exOp{'d', k, nil})
							} else {
								b.Delete(k)
							}
							fmt.Fprintf(&sb, " d %s", hx(k))
						case 'm':
							v := []byte(fmt.Sprintf("%d", rr.Intn(10)))
							if viaEx && rr.Chance(50) {
								v = []byte(fmt.Sprintf("%d", 100000+rr.Intn(900000))) // operands of differing lengths
							}
							if viaEx {
								exOps = append(exOps, exOp{'m', k, v})
							} else {
								b.Merge(k, v)
							}
							fmt.Fprintf(&sb, " m %s %s", hx(k), hx(v))
						}
					}
					if viaEx {
						// sets first, then deletes, then merges, as batchRows does
						opts := store.KVBatchOptions{}
						for _, o := range exOps {
							switch o.kind {
							case 's':
								opts.NumSets++
								opts.TotalBytes += len(o.k) + len(o.v)
							case 'd':
								opts.NumDeletes++
								opts.TotalBytes += len(o.k)
							case 'm':
								opts.NumMerges++
								opts.TotalBytes += 2 * (len(o.k) + len(o.v))
							}
						}
						var err error
						_ = b.Close()
						exBuf, b, err = w.NewBatchEx(opts)
						must(err)
						for _, kind := range []byte{'s', 'd', 'm'} {
							for _, o := range exOps {
								if o.kind != kind {
									continue
								}
								kl := copy(exBuf, o.k)
								vl := copy(exBuf[kl:], o.v)
								switch kind {
								case 's':
									b.Set(exBuf[:kl], exBuf[kl:kl+vl])
								case 'd':
									b.Delete(exBuf[:kl])
								case 'm':
									b.Merge(exBuf[:kl], exBuf[kl:kl+vl])
								}
								exBuf = exBuf[kl+vl:]
							}
						}
					}
					// close readers that would block a boltdb write (mmap growth waits for read transactions)
					if sn == "boltdb" {
						for _, it := range iters {
							it.it.Close()
						}
						iters = nil
						for _, rd := range readers {
							rd.r.Close()
						}
						readers = nil
					}
					res := "ok"
					if err := w.ExecuteBatch(b); err != nil {
						res = "ERR"
					}
					w.Close()
					t.Emit(sn+"/batch", n > 0, sb.String(), res)
				case c < 45: // reader
					rdr, err := st.Reader()
					must(err)
					readers = append(readers, rd{rdr, nextID})
					t.Emit(sn+"/reader", false, fmt.Sprintf("reader %d", nextID), "ok")
					nextID++
				case c < 60 && len(readers) > 0: // get
					rd := readers[rr.Intn(len(readers))]
					k := c15Key(rr)
					v, err := rd.r.Get(k)
					res := fmtVal(v)
					if err != nil {
						res = "ERR"
					}
					t.Emit(sn+"/get", true, fmt.Sprintf("get %d %s", rd.id, hx(k)), res)
				case c < 65 && len(readers) > 0: // multi-get
					rd := readers[rr.Intn(len(readers))]
					n := 1 + rr.Intn(3)
					keys := make([][]byte, n)
					toks := make([]string, n)
					for j := range keys {
						keys[j] = c15Key(rr)
						toks[j] = hx(keys[j])
					}
					res := guarded(func() string {
						vals, err := rd.r.MultiGet(keys)
						if err != nil {
							return "ERR"
						}
						out := make([]string, len(vals))
						for j, v := range vals {
							out[j] = fmtVal(v)
						}
						return strings.Join(out, ",")
					})
					t.Emit(sn+"/mget", true, fmt.Sprintf("mget %d %s", rd.id, strings.Join(toks, " ")), res)
				case c < 75 && len(readers) > 0: // prefix iterator
					rd := readers[rr.Intn(len(readers))]
					p := c15Key(rr)
					if rr.Chance(40) {
						p = p[:1]
					}
					it := rd.r.PrefixIterator(p)
					iters = append(iters, itr{it, nextID, rd.id, new(bool)})
					t.Emit(sn+"/piter", true, fmt.Sprintf("piter %d %d %s", rd.id, nextID, hx(p)), fmtCur(it))
					// hot pattern: a prefix iterator is sought straight past the end of its prefix (and then
					// used again): adapters compute "prefix + 1" with a carry over 0xff bytes to get there
					if rr.Chance(45) && (sn != "moss" || it.Valid()) {
						var k []byte
						switch rr.Intn(3) {
						case 0: // the smallest key after the prefix range
							k = append([]byte(nil), p...)
							for len(k) > 0 && k[len(k)-1] == 0xff {
								k = k[:len(k)-1]
							}
							if len(k) > 0 {
								k[len(k)-1]++
							} else {
								k = []byte{0xff, 0xff, 0xff, 0xff, 0xff}
							}
						case 1:
							k = append(append([]byte(nil), p...), 0xff, 0xff, 0xff, 0xff)
							if len(p) > 0 && p[len(p)-1] != 0xff {
								k = append(append([]byte(nil), p[:len(p)-1]...), p[len(p)-1]+1, 'a')
							}
						default:
							k = []byte{0xff, 0xff, 0xff, 0xff, 0xff}
						}
						it.Seek(k)
						t.Emit(sn+"/piter-seek-past", true, fmt.Sprintf("seek %d %s", nextID, hx(k)), fmtCur(it))
					}
					nextID++
				case c < 85 && len(readers) > 0: // range iterator
					rd := readers[rr.Intn(len(readers))]
					var a, b []byte
					if !rr.Chance(20) {
						a = c15Key(rr)
					}
					if !rr.Chance(20) {
						b = c15Key(rr)
					}
					it := rd.r.RangeIterator(a, b)
					iters = append(iters, itr{it, nextID, rd.id, new(bool)})
					t.Emit(sn+"/riter", true, fmt.Sprintf("riter %d %d %s %s", rd.id, nextID, optKey(a), optKey(b)), fmtCur(it))
					// hot pattern: read a few entries, go a little back, read on (not on moss: seeking back is
					// the engine-restart finding there)
					if sn != "moss" && rr.Chance(50) {
						var seen [][]byte
						for st := 0; st < 2+rr.Intn(3) && it.Valid(); st++ {
							k, _, _ := it.Current()
							seen = append(seen, append([]byte(nil), k...))
							it.Next()
							t.Emit(sn+"/burst-next", true, fmt.Sprintf("next %d", nextID), fmtCur(it))
						}
						if len(seen) > 0 {
							k := seen[rr.Intn(len(seen))]
							it.Seek(k)
							t.Emit(sn+"/burst-seek-back", true, fmt.Sprintf("seek %d %s", nextID, hx(k)), fmtCur(it))
							if it.Valid() {
								it.Next()
								t.Emit(sn+"/burst-next", true, fmt.Sprintf("next %d", nextID), fmtCur(it))
							}
						}
					}
					nextID++
				case len(iters) > 0:
					it := iters[rr.Intn(len(iters))]
					if rr.Chance(35) {
						k := c15SeekKey(rr)
						cat := sn + "/seek"
						// the moss engine's SeekTo restarts its iterator when the target is not ahead of the
						// current entry (or the iterator is exhausted) and may then surface deleted or
						// overwritten entries: known finding, reported under its own category
						if sn == "moss" {
							ck, _, ok := it.it.Current()
							if !ok || string(k) <= string(ck) {
								*it.tainted = true
							}
							if *it.tainted {
								cat = "moss/seek-engine-restart"
							}
						}
						it.it.Seek(k)
						t.Emit(cat, true, fmt.Sprintf("seek %d %s", it.id, hx(k)), fmtCur(it.it))
					} else if it.it.Valid() { // Next is only defined on a valid iterator
						cat := sn + "/next"
						if *it.tainted {
							cat = "moss/seek-engine-restart"
						}
						prevKey, _, prevOK := it.it.Current()
						prevKey = append([]byte(nil), prevKey...)
						it.it.Next()
						t.Emit(cat, true, fmt.Sprintf("next %d", it.id), fmtCur(it.it))
						// hot pattern: step forward, then seek a little back (to the entry just left, or to the
						// very first key): an adapter that remembers where its last seek went must forget it on Next
						if prevOK && rr.Chance(30) {
							k := prevKey
							if rr.Chance(30) {
								k = []byte{}
							}
							scat := sn + "/seek-back-after-next"
							if sn == "moss" {
								*it.tainted = true
								scat = "moss/seek-engine-restart"
							}
							it.it.Seek(k)
							t.Emit(scat, true, fmt.Sprintf("seek %d %s", it.id, hx(k)), fmtCur(it.it))
						}
					}
				}
			}
			for _, it := range iters {
				it.it.Close()
			}
			for _, rd := range readers {
				rd.r.Close()
			}
			st.Close()
			os.RemoveAll(dir)
		}
	}
}
